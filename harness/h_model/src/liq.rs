//! Shared generator + property oracles of the swap / liquidity harnesses (C04, C05, C06) over the
//! `mkt` engine. One history generator (Appendix D of DESIGN.md): a configuration drawn from a
//! palette, then deposits / swaps / withdrawals / clock ticks whose arguments are drawn relative to
//! the CURRENT state (the generator executes as it goes), prices walking with occasional spreads.
//! The oracles state the properties in exact arithmetic (`num-bigint`), independently of the model.
use crate::mkt::{split_resp, Cfg, Engine, Snap};
use hcommon::*;
use num_bigint::{BigInt, BigUint};

fn big(x: u128) -> BigUint { BigUint::from(x) }

#[derive(Clone, Copy, Debug)]
pub struct P6 { pub imin: u128, pub imax: u128, pub lmin: u128, pub lmax: u128, pub smin: u128, pub smax: u128 }

impl P6 {
    pub fn fmt(&self) -> String { format!("{} {} {} {} {} {}", self.imin, self.imax, self.lmin, self.lmax, self.smin, self.smax) }
    pub fn parse(t: &[&str]) -> Option<P6> {
        if t.len() != 6 { return None; }
        let n = |i: usize| t[i].parse::<u128>().ok();
        Some(P6 { imin: n(0)?, imax: n(1)?, lmin: n(2)?, lmax: n(3)?, smin: n(4)?, smax: n(5)? })
    }
    pub fn side(&self, is_long: bool) -> (u128, u128) { if is_long { (self.lmin, self.lmax) } else { (self.smin, self.smax) } }
    pub fn flat(&self) -> bool { self.imin == self.imax && self.lmin == self.lmax && self.smin == self.smax }
}

/// generator state of one scenario
pub struct Scen {
    pub sid: String,
    pub cfg: Cfg,
    pub base_l: u128,
    pub base_s: u128,
    pub prices: P6,
    pub left: u32,
    pub pending: Vec<String>,
    /// open interest was written into the pools: only swaps / ticks from here on (pool_value then
    /// needs the borrowing model of the position engine)
    pub oi_mode: bool,
    /// the virtual inventory was given its own (different) amounts at least once
    pub vi_set: bool,
}

fn pick_fee(r: &mut Rng, u: u128, malformed: bool) -> (u128, u128, u128) {
    let f = |r: &mut Rng| -> u128 { match r.below(7) { 0 | 1 => 0, 2 => r.range(1, 50) as u128, 3 => u / 2000, 4 => u / 10000 * 7, 5 => u / 100 * r.range(1, 30) as u128, _ => if malformed { u + u / 10 } else { u } } };
    let recv = match r.below(5) { 0 => 0, 1 => u / 100 * 37, 2 => u, 3 => u / 2, _ => if malformed { u + 1 } else { u / 100 * r.range(1, 99) as u128 } };
    (f(r), f(r), recv)
}

fn pick_impact(r: &mut Rng, c: &Cfg) -> (u128, u128, u128) {
    let u = c.unit;
    let e = u * *r.pick(&[0u128, 1, 1, 2, 2, 2, 3]);
    let (dp, dn) = (c.swap_impact.1, c.swap_impact.2);
    match r.below(10) {
        0 => (e, 0, 0),
        1 => (e, dp, dn),
        8 | 9 => (e, dp * 10 * r.range(1, 40) as u128, dn * 10 * r.range(1, 40) as u128),
        2 => (e, dp * 1000, dn * 1000),
        3 => (e, dn, dp),              // positive > negative: capped by `adjusted_factors`
        4 => (e, 0, dn * 100),
        5 => (e, dp * 100, dp * 100),
        6 => (u, u / 100_000, u / 50_000),
        _ => (e, dp * r.range(1, 5000) as u128, dn * r.range(1, 5000) as u128),
    }
}

pub fn new_scenario(r: &mut Rng, sid: String, prop: &str, out: &mut Vec<String>) -> Scen {
    let w: u32 = if r.chance(1, 2) { 64 } else { 128 };
    let mut c = Cfg::default_for(w);
    let u = c.unit;
    let malformed = r.chance(1, 12);
    c.swap_fee = pick_fee(r, u, malformed);
    if prop == "C06" && r.chance(1, 3) { c.swap_fee = (0, 0, c.swap_fee.2); }
    // a swap fee discount (never set by the programs for swaps, but part of `FeeParams`): the discounted part of the
    // fee must stay in the liquidity pool, not vanish
    if prop == "C04" && r.chance(1, 5) { c.swap_fee_discount = *r.pick(&[u / 5, u / 2, u, u / 3 + 1, u / 1000]); }
    c.swap_impact = pick_impact(r, &c);
    c.vi_swaps = r.chance(2, 5);
    if r.chance(1, 8) { c.max_pool_amount = if w == 64 { 5_000_000_000 } else { 5_000_000_000_000 }; }
    if r.chance(1, 10) { c.max_pool_value = if w == 64 { 500_000_000_000 } else { u * 5_000_000 }; }
    if r.chance(1, 10) { c.reserve = u / 2; }
    if r.chance(1, 10) { c.pnl = (u / 10, u / 20, u / 2, u / 2, 0); }
    if r.chance(1, 16) { c.divisor = if r.chance(1, 2) { 0 } else { c.divisor * 10 }; }
    if r.chance(1, 10) { c.dist_factor = u / 1000; c.min_pip = 5; }
    out.push(c.new_req(&sid));
    // unit prices: (u64,9) small integers as in the crate's tests; (u128,20) on-chain style
    let (base_l, base_s) = if w == 64 { (*r.pick(&[120u128, 1, 7, 2000, 65000]), *r.pick(&[1u128, 1, 1, 3])) }
        else { (*r.pick(&[10u128.pow(13), 12_345_678_901_234, 10u128.pow(11), 65_000 * 10u128.pow(12)]), *r.pick(&[10u128.pow(14), 10u128.pow(14), 99_990_000_000_000])) };
    let prices = P6 { imin: base_l, imax: base_l, lmin: base_l, lmax: base_l, smin: base_s, smax: base_s };
    Scen { sid, cfg: c, base_l, base_s, prices, left: r.range(6, 22) as u32, pending: Vec::new(), oi_mode: false, vi_set: false }
}

fn walk(r: &mut Rng, s: &mut Scen) {
    let w = s.cfg.w;
    let jig = |r: &mut Rng, b: u128| -> u128 { if b < 50 { (b as i128 + r.range(0, 2) as i128 - 1).max(1) as u128 } else { b / 1000 * r.range(970, 1030) as u128 + r.below(3) as u128 } };
    let l = jig(r, s.base_l);
    let sh = if r.chance(1, 3) { jig(r, s.base_s) } else { s.base_s };
    s.base_l = l.max(1);
    s.base_s = sh.max(1);
    let mut p = P6 { imin: l, imax: l, lmin: l, lmax: l, smin: sh, smax: sh };
    match r.below(12) {
        0 | 1 => { let d = (l / 500).max(1); p.lmax = l + d; p.imax = l + d; }                      // spread on the long/index token
        2 => { let d = (sh / 1000).max(1); p.smax = sh + d; }                                        // spread on the short token
        3 => { p.lmax = l + (l / 300).max(1); p.imax = p.lmax; p.smax = sh + (sh / 700).max(1); }
        4 => { p.imin = l - l / 50; p.imax = l + l / 40 + 1; }                                         // index decoupled
        5 if r.chance(1, 4) => { p.lmin = l + 2; }                                                    // min > max (not rejected by Prices::validate)
        6 if r.chance(1, 6) => { match r.below(3) { 0 => p.lmin = 0, 1 => p.smax = 0, _ => p.imin = 0 } } // invalid
        7 if r.chance(1, 8) => { let m = if w == 64 { u64::MAX as u128 } else { u128::MAX }; p.lmax = m; p.lmin = m - 1; } // mid overflows
        _ => {}
    }
    s.prices = p;
}

/// next request of the scenario, drawn relative to the engine's current state
pub fn next_req(r: &mut Rng, s: &mut Scen, eng: &Engine, prop: &str) -> Option<String> {
    if let Some(p) = s.pending.pop() { return Some(p); }
    if s.left == 0 { return None; }
    s.left -= 1;
    let sid = s.sid.clone();
    let snap = eng.snap(&sid)?;
    let w = s.cfg.w;
    let max: u128 = if w == 64 { u64::MAX as u128 } else { u128::MAX };
    if r.chance(2, 3) { walk(r, s); }
    let p = s.prices;
    let (liq_l, liq_s) = snap.pools[0];
    let seed_amount = |r: &mut Rng| -> u128 { if w == 64 { *r.pick(&[1_000_000_000u128, 100_000_000, 30_000_000_000, 1_000, 7]) } else { *r.pick(&[1_000_000_000u128, 1_000_000_000_000, 50_000_000_000_000, 1_000, 3]) } };
    let frac = |r: &mut Rng, x: u128| -> u128 { match r.below(9) { 0 => 1, 1 => x / 1000, 2 => x / 100, 3 => x / 10, 4 => x / 2, 5 => x - x / 100, 6 => x, 7 => x.saturating_add(x / 100 + 1), _ => x.saturating_mul(2) } };
    let empty = liq_l == 0 && liq_s == 0;
    let (wd, ws, ww) = match prop { "C06" => (5, 2, 4), _ => (3, 7, 2) };
    let mut k = r.below(wd + ws + ww + 2);
    if empty && r.chance(4, 5) { k = 0; }
    let force_vi = s.cfg.vi_swaps && !s.vi_set && !empty && !s.oi_mode;
    if force_vi { k = wd + ws + ww; }
    if s.oi_mode { k = if r.chance(9, 10) { wd } else { wd + ws + ww }; }
    else if prop != "C06" && !empty && snap.supply > 0 && r.chance(1, 12) {
        // write open interest into the pools so that the reserve / max-pnl validations of swaps can bind
        s.oi_mode = true;
        let is_long = r.chance(1, 2);
        let liq = if is_long { liq_l } else { liq_s };
        let f = r.range(5, 130) as u128;                       // % of the side's liquidity
        if is_long {
            let oit = liq / 100 * f;
            let g = r.range(40, 125) as u128;                  // entry value as % of current value
            let oi: u128 = (big(oit) * big(p.imax) * big(g) / big(100)).try_into().unwrap_or(max / 4);
            s.pending.push(format!("mkt setpool {sid} 3 {} {}", oi.min(max / 4), 0));
            return Some(format!("mkt setpool {sid} 5 {oit} 0"));
        } else {
            let oi: u128 = (big(liq / 100 * f) * big(p.smin)).try_into().unwrap_or(max / 4);
            let g = r.range(40, 125) as u128;
            let oit: u128 = (big(oi) * big(g) / big(100) / big(p.imin.max(1))).try_into().unwrap_or(max / 4);
            s.pending.push(format!("mkt setpool {sid} 4 0 {}", oi.min(max / 4)));
            return Some(format!("mkt setpool {sid} 6 0 {oit}"));
        }
    }
    let deposit = |r: &mut Rng| -> (u128, u128) {
        // value-balanced, one-sided, or lopsided; relative to the pool when there is one
        let a = if empty || r.chance(1, 3) { seed_amount(r) } else { frac(r, liq_l.max(liq_s).max(1)) };
        let a = a.min(max / 4);
        let val = big(a) * big(p.lmin.max(1));
        let other: u128 = (val / big(p.smin.max(1))).try_into().unwrap_or(max / 4);
        match r.below(6) { 0 => (a, 0), 1 => (0, other.max(1)), 2 => (a, other / 3), 3 => (a / 5, other), _ => (a, other) }
    };
    Some(if k < wd {
        let (l, sh) = deposit(r);
        let (l, sh) = if r.chance(1, 40) { (0, 0) } else if r.chance(1, 60) { (max, sh) } else { (l, sh) };
        if prop == "C06" && r.chance(1, 2) && !(l == 0 && sh == 0) {
            // round trip: deposit, then withdraw exactly what was minted at the same prices (filled in by the driver loop)
            s.pending.push(format!("mkt withdraw {sid} @MINTED {}", p.fmt()));
        }
        format!("mkt deposit {sid} {l} {sh} {}", p.fmt())
    } else if k < wd + ws {
        let mut in_long = r.chance(1, 2);
        if (if in_long { liq_s } else { liq_l }) == 0 && r.chance(9, 10) { in_long = !in_long; }
        let (liq_out, (pin_min, _), (_, pout_max)) = if in_long { (liq_s, p.side(true), p.side(false)) } else { (liq_l, p.side(false), p.side(true)) };
        // amount whose output is around `frac` of the out-side liquidity
        let x = liq_out.max(1);
        let target = match r.below(16) { 0 => 1, 1 | 2 => x / 1000, 3 | 4 | 5 => x / 100, 6 | 7 | 8 => x / 10, 9 | 10 => x / 3, 11 => x / 2, 12 => x - x / 100, 13 => x, 14 => x.saturating_add(x / 100 + 1), _ => x.saturating_mul(2) };
        let amt: u128 = (big(target) * big(pout_max.max(1)) / big(pin_min.max(1))).try_into().unwrap_or(max);
        let amt = match r.below(60) { 0 => 0, 1 => 1, 2 => max, 3 => max / 2 + 1, _ => amt.max(2) };
        format!("mkt swap {sid} {} {amt} {}", if in_long { 1 } else { 0 }, p.fmt())
    } else if k < wd + ws + ww {
        let amt = match r.below(10) { 0 => 0, 1 => 1, 2 => snap.supply, 3 => snap.supply.saturating_add(1), _ => frac(r, snap.supply.max(1)) };
        format!("mkt withdraw {sid} {amt} {}", p.fmt())
    } else {
        match if s.oi_mode { 0 } else if force_vi || (s.cfg.vi_swaps && !empty && r.chance(1, 3)) { 3 } else { r.below(6) } {
            0 => format!("mkt tick {sid} {}", r.range(0, 5000)),
            1 => format!("mkt dist {sid}"),
            2 => { // give the swap impact pool something to pay positive impact from (or starve it)
                let (a, b) = snap.pools[1];
                let v = |r: &mut Rng, x: u128, liq: u128| match r.below(4) { 0 => 0, 1 => x / 2, 2 => liq / 1000 + 1, _ => (liq / 50).max(5) };
                format!("mkt setpool {sid} 1 {} {}", v(r, a, liq_l), v(r, b, liq_s))
            }
            3 if s.cfg.vi_swaps || r.chance(1, 5) => {
                // virtual inventory: like the pool, more imbalanced the same way, or imbalanced the OTHER way
                // (long and short VALUES exchanged) — the priced impact must be the worse of the two
                s.cfg.vi_swaps = true;
                s.vi_set = true;
                let lv = big(liq_l) * big(p.lmin.max(1));
                let sv = big(liq_s) * big(p.smin.max(1));
                let to = |v: BigUint, pr: u128| -> u128 { (v / big(pr.max(1))).try_into().unwrap_or(max / 2).min(max / 2) };
                let (vl, vs) = match r.below(6) {
                    0 => (liq_l, liq_s),
                    1 => (liq_l.saturating_mul(2).min(max / 2), liq_s / 2),
                    2 => (liq_l / 2, liq_s.saturating_mul(2).min(max / 2)),
                    3 | 4 => (to(sv.clone(), p.lmin), to(lv.clone(), p.smin)),            // values exchanged
                    _ => (to(sv * big(3u128), p.lmin), to(lv / big(3u128), p.smin)),
                };
                format!("mkt setvi {sid} 0 {vl} {vs}")
            }
            4 => format!("mkt pv {sid} {} {} {}", r.below(2), r.below(2), p.fmt()),
            _ => format!("mkt tick {sid} 1"),
        }
    })
}

/// per-sid oracle memory
#[derive(Default, Clone)]
pub struct Mem {
    /// last successful deposit: (long, short, prices, minted, impact value, snapshot before)
    pub last_deposit: Option<(u128, u128, P6, u128, i128, Snap)>,
    /// snapshot right after that deposit, and its receiver fees (long, short)
    pub after_deposit: Option<Snap>,
    pub deposit_recv_fees: (u128, u128),
}

/// C04: conservation + all-or-nothing. `t` = request tokens, `r` = response tokens.
pub fn oracle_c04(out: &mut Out, req: &str, t: &[&str], r: &[&str], b: &Snap, a: &Snap) {
    let in_long = t[3] == "1";
    let amount: u128 = t[4].parse().unwrap();
    if r[0] == "ok" {
        let tout: u128 = r[1].parse().unwrap();
        if big(a.holdings(in_long)) != big(b.holdings(in_long)) + big(amount) { out.oracle_fail("swap: input-token holdings did not grow by exactly the input amount", req); }
        if big(a.holdings(!in_long)) + big(tout) != big(b.holdings(!in_long)) { out.oracle_fail("swap: output-token holdings did not shrink by exactly the amount paid out", req); }
        for k in 3..16 { if a.pools[k] != b.pools[k] { out.oracle_fail("swap: touched a pool other than liquidity / swap impact / claimable fee", req); } }
        if a.supply != b.supply || a.vi_positions != b.vi_positions { out.oracle_fail("swap: changed supply or the position virtual inventory", req); }
        // the virtual inventory follows the liquidity pool
        if let (Some(va), Some(vb)) = (a.vi_swaps, b.vi_swaps) {
            let d = |x: u128, y: u128| BigInt::from(x) - BigInt::from(y);
            if d(va.0, vb.0) != d(a.pools[0].0, b.pools[0].0) || d(va.1, vb.1) != d(a.pools[0].1, b.pools[0].1) { out.oracle_fail("swap: virtual inventory moved differently from the liquidity pool", req); }
        }
    } else if a != b {
        out.oracle_fail("swap: a FAILED swap changed the market", req);
    }
}

/// C05: value bound. Returns branch statistics.
pub fn oracle_c05(out: &mut Out, req: &str, t: &[&str], r: &[&str], b: &Snap, a: &Snap, cfg_fee_zero: bool) {
    if r[0] != "ok" { return; }
    let in_long = t[3] == "1";
    let amount: u128 = t[4].parse().unwrap();
    let Some(p) = P6::parse(&t[5..]) else { return };
    let ((pin_min, pin_max), (_, pout_max)) = (p.side(in_long), p.side(!in_long));
    let tout: u128 = r[1].parse().unwrap();
    let impact: i128 = r[2].parse().unwrap();
    // impact-pool tokens handed to the trader (out side) / credited to the pool on his behalf (in side)
    let paid_out = b.side(1, !in_long).saturating_sub(a.side(1, !in_long));
    let paid_in = b.side(1, in_long).saturating_sub(a.side(1, in_long));
    let funded = if impact > 0 { big(paid_out) * big(pout_max) + big(paid_in) * big(pin_min) } else { big(0) };
    if big(tout) * big(pout_max) > big(amount) * big(pin_min) + funded.clone() {
        out.oracle_fail("swap: output value at max price exceeds input value at min price plus the positive impact funded by the impact pools", req);
    }
    if impact > 0 {
        if big(paid_out) * big(pout_max) + big(paid_in) * big(pin_max) > big(impact as u128) { out.oracle_fail("swap: impact pools paid more than the positive impact value", req); }
        if paid_out > b.side(1, !in_long) || paid_in > b.side(1, in_long) { out.oracle_fail("swap: positive impact paid beyond the impact pool balance", req); }
    } else if a.side(1, !in_long) != b.side(1, !in_long) || a.side(1, in_long) < b.side(1, in_long) {
        out.oracle_fail("swap: non-positive impact but an impact pool paid out", req);
    }
    if cfg_fee_zero && impact == 0 && pout_max != 0 {
        let exact: BigUint = big(amount) * big(pin_min) / big(pout_max);
        if big(tout) != exact { out.oracle_fail("swap: zero fees and zero impact but output is not floor(in*pInMin/pOutMax)", req); }
        out.stat("swap.zero_fee_zero_impact");
    }
}

pub fn swap_stats(out: &mut Out, t: &[&str], r: &[&str], b: &Snap, a: &Snap) -> bool {
    if r[0] != "ok" { out.stat(&format!("swap.{}", r.get(1).copied().unwrap_or("?"))); return false; }
    let in_long = t[3] == "1";
    let impact: i128 = r[2].parse().unwrap();
    if impact > 0 {
        out.stat("swap.impact_pos");
        if a.side(1, !in_long) == 0 && b.side(1, !in_long) > 0 { out.stat("swap.impact_pos_drained_out_pool"); }
        if a.side(1, in_long) < b.side(1, in_long) { out.stat("swap.impact_pos_capped_paid_from_in_pool"); }
        if b.side(1, !in_long) == 0 { out.stat("swap.impact_pos_empty_pool"); }
    } else if impact < 0 { out.stat("swap.impact_neg"); } else { out.stat("swap.impact_zero"); }
    if b.vi_swaps.is_some() { out.stat("swap.with_vi"); }
    true
}

/// The main loop shared by the c04 / c05 / c06 binaries.
pub fn run(prop: &str) {
    let cli = cli();
    let mut out = Out::new();
    std::panic::set_hook(Box::new(|_| {}));
    let mut eng = Engine::new();
    let mut mem: std::collections::HashMap<String, Mem> = Default::default();
    let mut cfgs: std::collections::HashMap<String, Vec<u128>> = Default::default();
    let replay: Option<Vec<String>> = if cli.mode == "replay" { Some(read_requests(cli.file.as_deref().unwrap())) } else { None };
    let mut rng = Rng::new(cli.seed);
    let mut scen: Option<Scen> = None;
    let mut pre: Vec<String> = Vec::new();
    let mut idx = 0usize;
    let mut k = 0u64;
    let mut produced = 0u64;
    loop {
        // next request
        let mut req: String = if let Some(v) = &replay {
            if idx >= v.len() { break; }
            idx += 1;
            v[idx - 1].clone()
        } else {
            if produced >= cli.n && scen.as_ref().map(|s| s.pending.is_empty()).unwrap_or(true) && pre.is_empty() { break; }
            if !pre.is_empty() { pre.remove(0) } else {
                let nxt = match scen.as_mut() { Some(s) => next_req(&mut rng, s, &eng, prop), None => None };
                match nxt {
                    Some(q) => q,
                    None => {
                        let sid = format!("{}{}", prop.to_lowercase(), cli.seed * 1_000_000 + k);
                        k += 1;
                        scen = Some(new_scenario(&mut rng, sid, prop, &mut pre));
                        continue;
                    }
                }
            }
        };
        produced += 1;
        let sid = req.split(' ').nth(2).unwrap_or("").to_string();
        // round-trip placeholder: withdraw exactly the tokens minted by the previous deposit
        if req.contains("@MINTED") {
            match mem.get(&sid).and_then(|m| m.last_deposit.as_ref()) {
                Some(d) if d.3 > 0 => req = req.replace("@MINTED", &d.3.to_string()),
                _ => continue,
            }
        }
        let t: Vec<&str> = req.split(' ').collect();
        let before = eng.snap(&sid);
        // the same swap on a copy WITHOUT the virtual inventory (C04: worse-of-the-two rule)
        let probe = if prop == "C04" && t.get(1) == Some(&"swap") && before.as_ref().map(|b| b.vi_swaps.is_some()).unwrap_or(false) { eng.probe_without_vi(&sid, "swap", &t[3..]) } else { None };
        let resp = eng.exec(&req);
        let after = eng.snap(&sid);
        let (r, _) = split_resp(&resp);
        let op = t.get(1).copied().unwrap_or("?");
        out.stat(&format!("op.{op}"));
        let mut nt = false;
        if r[0] == "bad-op" { out.stat("resp.bad-op"); }
        else if r[0] == "err" && r.get(1) == Some(&"Panic") { out.stat("resp.panic"); }
        match op {
            "new" if r[0] == "ok" => { cfgs.insert(sid.clone(), t[3..].iter().map(|x| x.parse().unwrap()).collect()); mem.insert(sid.clone(), Mem::default()); }
            "swap" if r[0] != "bad-op" => {
                let (b, a) = (before.as_ref().unwrap(), after.as_ref().unwrap());
                let c = &cfgs[&sid];
                let fee_zero = c[5] == 0 && c[6] == 0;
                if prop == "C04" { oracle_c04(&mut out, &req, &t, &r, b, a); }
                if let (Some(pr), "ok") = (probe.as_ref(), r[0]) {
                    let pt: Vec<&str> = pr.split(' ').collect();
                    if pt[0] == "ok" {
                        let (with_vi, without): (i128, i128) = (r[2].parse().unwrap(), pt[2].parse().unwrap());
                        out.stat("swap.vi_probe");
                        if with_vi > without { out.oracle_fail("swap: the impact with a virtual inventory is better than the impact on the real pool alone", &req); }
                        if without >= 0 && with_vi != without { out.oracle_fail("swap: a non-negative real impact was changed by the virtual inventory", &req); }
                        if with_vi < without { out.stat("swap.vi_made_it_worse"); }
                    }
                }
                if prop == "C05" { oracle_c05(&mut out, &req, &t, &r, b, a, fee_zero); }
                nt = swap_stats(&mut out, &t, &r, b, a);
                if let Some(m) = mem.get_mut(&sid) { m.last_deposit = None; }
            }
            "deposit" | "withdraw" if r[0] != "bad-op" => {
                let (b, a) = (before.as_ref().unwrap(), after.as_ref().unwrap());
                nt = r[0] == "ok";
                if r[0] != "ok" { out.stat(&format!("{op}.{}", r.get(1).copied().unwrap_or("?"))); if a != b { out.stat(&format!("{op}.failed_but_mutated")); } }
                if prop == "C06" { crate::liq06::oracle(&mut out, &req, &t, &r, b, a, &cfgs[&sid], mem.get_mut(&sid).unwrap()); }
                else if let Some(m) = mem.get_mut(&sid) { m.last_deposit = None; }
            }
            "dist" | "setpool" | "setvi" | "tick" => { if let Some(m) = mem.get_mut(&sid) { m.last_deposit = None; } }
            _ => {}
        }
        out.case_nt(&req, &resp, nt);
    }
    out.finish();
}
