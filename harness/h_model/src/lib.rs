#![allow(clippy::all)]
//! Shared harness pieces for the model crate: a deterministic market (`market`) and the `mkt`
//! line-protocol engine over it (`mkt`).
pub mod market;
pub mod mkt;
pub mod liq;
pub mod liq06;
pub mod lp;
pub mod perp;
