#![allow(clippy::all)]
//! Shared harness pieces for the model crate: a deterministic market (`market`).
pub mod market;
pub mod perp;
