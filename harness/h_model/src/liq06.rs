//! C06 oracle (deposit / withdraw round trips, value per market token) — see `liq.rs`.
use crate::liq::{Mem, P6};
use crate::mkt::Snap;
use hcommon::*;

pub fn oracle(_out: &mut Out, _req: &str, t: &[&str], r: &[&str], b: &Snap, _a: &Snap, _cfg: &[u128], mem: &mut Mem) {
    if t[1] == "deposit" && r[0] == "ok" {
        if let Some(p) = P6::parse(&t[5..]) {
            mem.last_deposit = Some((t[3].parse().unwrap(), t[4].parse().unwrap(), p, r[1].parse().unwrap(), r[2].parse().unwrap(), b.clone()));
            return;
        }
    }
    mem.last_deposit = None;
}
