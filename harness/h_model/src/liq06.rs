//! C06 oracle (deposit / withdraw round trips, value per market token, first deposit price).
//! Exact arithmetic on the snapshots before/after each op; independent of the Lean model.
//!
//! Pool value in the generated C06 histories: there is no open interest and the position impact
//! pool is empty, so `pool_value(maximize) = L·pL + S·pS` at the picked prices.
use crate::liq::{Mem, P6};
use crate::mkt::Snap;
use hcommon::*;
use num_bigint::BigUint;

fn big(x: u128) -> BigUint { BigUint::from(x) }

fn pool_value(s: &Snap, p: &P6, maximize: bool) -> BigUint {
    let (pl, ps) = if maximize { (p.lmax, p.smax) } else { (p.lmin, p.smin) };
    big(s.pools[0].0) * big(pl) + big(s.pools[0].1) * big(ps)
}

fn no_positions(s: &Snap) -> bool { (3..16).all(|k| s.pools[k] == (0, 0)) }

pub fn oracle(out: &mut Out, req: &str, t: &[&str], r: &[&str], b: &Snap, a: &Snap, cfg: &[u128], mem: &mut Mem) {
    let divisor = cfg[28];
    if t[1] == "deposit" {
        let last = mem.last_deposit.take();
        let _ = last;
        if r[0] != "ok" { return; }
        let Some(p) = P6::parse(&t[5..]) else { return };
        let (dl, ds): (u128, u128) = (t[3].parse().unwrap(), t[4].parse().unwrap());
        let minted: u128 = r[1].parse().unwrap();
        let impact: i128 = r[2].parse().unwrap();
        let fees: Vec<u128> = r[3..7].iter().map(|x| x.parse().unwrap()).collect(); // Lpool Lrecv Spool Srecv
        // conservation per token side
        if big(a.holdings(true)) != big(b.holdings(true)) + big(dl) || big(a.holdings(false)) != big(b.holdings(false)) + big(ds) {
            out.oracle_fail("deposit: token holdings did not grow by exactly the deposited amounts", req);
        }
        if big(a.supply) != big(b.supply) + big(minted) { out.oracle_fail("deposit: supply did not grow by the minted amount", req); }
        // first deposit into an empty pool: one USD per market token (amount units), rounded down per side
        if b.supply == 0 && b.pools[0] == (0, 0) && no_positions(b) && divisor != 0 {
            let net_l = a.pools[0].0 - fees[0];
            let net_s = a.pools[0].1 - fees[2];
            let expect = big(net_l) * big(p.lmin) / big(divisor) + big(net_s) * big(p.smin) / big(divisor);
            if big(minted) != expect { out.oracle_fail("first deposit is not priced at one USD per market token", req); }
            out.stat("deposit.first");
        }
        // no dilution: value per market token (at the deposit's own valuation: maximised) does not drop
        if b.supply > 0 && no_positions(b) && p.lmin <= p.lmax && p.smin <= p.smax {
            let (pb, pa) = (pool_value(b, &p, true), pool_value(a, &p, true));
            if pa * big(b.supply) < pb * big(a.supply) { out.oracle_fail("deposit lowered the value of one market token for the existing holders", req); }
            out.stat("deposit.dilution_checked");
        }
        if impact > 0 && a.pools[1] != b.pools[1] { out.stat("deposit.positive_impact_credited"); }
        if impact < 0 { out.stat("deposit.negative_impact"); }
        mem.last_deposit = Some((dl, ds, p, minted, impact, b.clone()));
        mem.after_deposit = Some(a.clone());
        mem.deposit_recv_fees = (fees[1], fees[3]);
        return;
    }
    // withdraw
    let last = mem.last_deposit.take();
    let after_dep = mem.after_deposit.take();
    if r[0] != "ok" { return; }
    let Some(p) = P6::parse(&t[4..]) else { return };
    let amount: u128 = t[3].parse().unwrap();
    let (ol, os): (u128, u128) = (r[1].parse().unwrap(), r[2].parse().unwrap());
    if big(a.holdings(true)) + big(ol) != big(b.holdings(true)) || big(a.holdings(false)) + big(os) != big(b.holdings(false)) {
        out.oracle_fail("withdrawal: token holdings did not shrink by exactly the amounts paid out", req);
    }
    if big(a.supply) + big(amount) != big(b.supply) { out.oracle_fail("withdrawal: supply did not shrink by the burnt amount", req); }
    if no_positions(b) && p.lmin <= p.lmax && p.smin <= p.smax {
        let (pb, pa) = (pool_value(b, &p, false), pool_value(a, &p, false));
        if pa * big(b.supply) < pb * big(a.supply) { out.oracle_fail("withdrawal lowered the value of one market token for the remaining holders", req); }
        out.stat("withdraw.dilution_checked");
    }
    // round trip: this withdrawal burns exactly what the previous op (a deposit) minted, at the same prices
    if let (Some((dl, ds, dp, minted, _impact, bd)), Some(ad)) = (last, after_dep) {
        if minted == amount && dp.fmt() == p.fmt() && &ad == b {
            out.stat("roundtrip.pairs");
            let value_in = big(dl) * big(p.lmax) + big(ds) * big(p.smax);
            let value_out = big(ol) * big(p.lmax) + big(os) * big(p.smax);
            // positive impact credited by the deposit: tokens that left the swap impact pools
            let credit = big(bd.pools[1].0.saturating_sub(ad.pools[1].0)) * big(p.lmax) + big(bd.pools[1].1.saturating_sub(ad.pools[1].1)) * big(p.smax);
            let recv = big(mem.deposit_recv_fees.0) * big(p.lmax) + big(mem.deposit_recv_fees.1) * big(p.smax);
            // leftover: pool value present while NO market token existed (pool fees kept after the last
            // holder left, rounding dust): `usd_to_market_token_amount` mints `(pool + usd)/divisor` to
            // the next depositor, i.e. hands him the leftover
            let leftover = if bd.supply == 0 { pool_value(&bd, &p, true) } else { big(0) };
            // the refined statement (must ALWAYS hold): out <= in + credited positive impact - receiver fees (+ leftover)
            if p.lmin <= p.lmax && p.smin <= p.smax && value_out.clone() + recv > value_in.clone() + credit.clone() + leftover.clone() {
                out.oracle_fail("round trip returned more than deposited + positive impact credited - fees", req);
            }
            if !(p.lmin <= p.lmax && p.smin <= p.smax) {
                // min > max is not rejected by the model crate (`Prices::validate` only checks non-zero); the
                // property speaks about prices, i.e. min <= max
                out.stat("roundtrip.malformed_prices");
            } else if value_out > value_in {
                let surplus = value_out - value_in;
                if bd.supply == 0 && leftover > big(0) && surplus <= leftover.clone() + credit.clone() {
                    out.known("F-C06b", "deposit into a pool with value but zero supply: the depositor is minted the leftover pool value and withdraws it (surplus <= leftover pool value)", req);
                } else if bd.supply > 0 && surplus <= credit && credit > big(0) {
                    out.known("F-C06", "deposit->withdraw round trip returned more value than deposited (surplus <= positive swap impact credited by the deposit)", req);
                } else {
                    out.oracle_fail("round trip returned more value than deposited, beyond the credited positive impact", req);
                }
            } else if credit > big(0) { out.stat("roundtrip.credit_but_no_profit"); } else { out.stat("roundtrip.no_credit"); }
        }
    }
}
