//! Shared helpers for h_store binaries: sysvar stubs so that `Clock::get()` etc. work natively.
use anchor_lang::solana_program::program_stubs::{set_syscall_stubs, SyscallStubs};
use std::sync::atomic::{AtomicI64, AtomicU64, Ordering};

pub static NOW: AtomicI64 = AtomicI64::new(1_700_000_000);
pub static SLOT: AtomicU64 = AtomicU64::new(1_000);
pub static LAST_RESTART_SLOT: AtomicU64 = AtomicU64::new(0);

struct Stubs;
impl SyscallStubs for Stubs {
    fn sol_get_clock_sysvar(&self, var_addr: *mut u8) -> u64 {
        let clock = anchor_lang::solana_program::clock::Clock {
            slot: SLOT.load(Ordering::SeqCst),
            epoch_start_timestamp: 0,
            epoch: 0,
            leader_schedule_epoch: 0,
            unix_timestamp: NOW.load(Ordering::SeqCst),
        };
        unsafe { std::ptr::write_unaligned(var_addr as *mut anchor_lang::solana_program::clock::Clock, clock) };
        0
    }
    fn sol_get_last_restart_slot(&self, var_addr: *mut u8) -> u64 {
        unsafe { std::ptr::write_unaligned(var_addr as *mut u64, LAST_RESTART_SLOT.load(Ordering::SeqCst)) };
        0
    }
    fn sol_log(&self, _message: &str) {}
}

/// Install the sysvar stubs (call once at start of main).
pub fn install_stubs() {
    set_syscall_stubs(Box::new(Stubs));
}

pub fn set_now(ts: i64) { NOW.store(ts, Ordering::SeqCst); }
pub fn set_slot(s: u64) { SLOT.store(s, Ordering::SeqCst); }
pub fn set_last_restart_slot(s: u64) { LAST_RESTART_SLOT.store(s, Ordering::SeqCst); }
