//! Shared helpers for h_store binaries: sysvar stubs so that `Clock::get()` etc. work natively.
use anchor_lang::solana_program::program_stubs::{set_syscall_stubs, SyscallStubs};
use std::sync::atomic::{AtomicI64, AtomicU64, Ordering};

pub static NOW: AtomicI64 = AtomicI64::new(1_700_000_000);
pub static SLOT: AtomicU64 = AtomicU64::new(1_000);
pub static LAST_RESTART_SLOT: AtomicU64 = AtomicU64::new(0);

struct Stubs;
impl SyscallStubs for Stubs {
    fn sol_get_clock_sysvar(&self, var_addr: *mut u8) -> u64 {
        let clock = anchor_lang::solana_program::clock::Clock {
            slot: SLOT.load(Ordering::SeqCst),
            epoch_start_timestamp: 0,
            epoch: 0,
            leader_schedule_epoch: 0,
            unix_timestamp: NOW.load(Ordering::SeqCst),
        };
        unsafe { std::ptr::write_unaligned(var_addr as *mut anchor_lang::solana_program::clock::Clock, clock) };
        0
    }
    fn sol_get_last_restart_slot(&self, var_addr: *mut u8) -> u64 {
        unsafe { std::ptr::write_unaligned(var_addr as *mut u64, LAST_RESTART_SLOT.load(Ordering::SeqCst)) };
        0
    }
    fn sol_log(&self, _message: &str) {}
}

/// Install the sysvar stubs (call once at start of main).
pub fn install_stubs() {
    set_syscall_stubs(Box::new(Stubs));
}

pub fn set_now(ts: i64) { NOW.store(ts, Ordering::SeqCst); }
pub fn set_slot(s: u64) { SLOT.store(s, Ordering::SeqCst); }
pub fn set_last_restart_slot(s: u64) { LAST_RESTART_SLOT.store(s, Ordering::SeqCst); }

// ---------------------------------------------------------------------------------------------
// In-memory accounts for native calls (shared by several bins).
use anchor_lang::prelude::{AccountInfo, Pubkey};

/// Deterministic pubkey from a small integer (never on-curve issues matter natively).
pub fn pk(n: u64) -> Pubkey {
    let mut b = [0u8; 32];
    b[..8].copy_from_slice(&n.to_le_bytes());
    b[31] = 0xA5;
    Pubkey::new_from_array(b)
}

/// Leak an account with `len` data bytes whose data pointer is ≡ 8 (mod 16), so that a
/// zero-copy struct placed after the 8-byte discriminator is 16-byte aligned (u128 fields).
pub fn leak_account(key: Pubkey, owner: Pubkey, len: usize, is_signer: bool, is_writable: bool) -> AccountInfo<'static> {
    let words = (len + 8) / 16 + 2;
    let buf: &'static mut [u128] = Box::leak(vec![0u128; words].into_boxed_slice());
    let bytes: &'static mut [u8] = unsafe { std::slice::from_raw_parts_mut((buf.as_mut_ptr() as *mut u8).add(8), len) };
    let lamports: &'static mut u64 = Box::leak(Box::new(1_000_000_000u64));
    let key: &'static Pubkey = Box::leak(Box::new(key));
    let owner: &'static Pubkey = Box::leak(Box::new(owner));
    AccountInfo::new(key, is_signer, is_writable, lamports, bytes, owner, false, 0)
}

/// Leak a zero-copy account of type `T` owned by `owner`: discriminator ++ zeroed `T`, then `init`.
pub fn zero_copy_account<T>(key: Pubkey, owner: Pubkey, init: impl FnOnce(&mut T)) -> AccountInfo<'static>
where
    T: anchor_lang::ZeroCopy + anchor_lang::Discriminator + bytemuck::Pod,
{
    let len = 8 + std::mem::size_of::<T>();
    let info = leak_account(key, owner, len, false, true);
    {
        let mut data = info.try_borrow_mut_data().unwrap();
        data[..8].copy_from_slice(T::DISCRIMINATOR);
        let t: &mut T = bytemuck::from_bytes_mut(&mut data[8..]);
        init(t);
    }
    info
}

// ---------------------------------------------------------------------------------------------
// Event capture: every `emit_cpi` is an `invoke_signed` of an instruction whose data is
// EVENT_IX_TAG ++ discriminator ++ borsh(event). Natively the stub records that data.
use std::sync::Mutex;
pub static EVENTS: Mutex<Vec<Vec<u8>>> = Mutex::new(Vec::new());

struct CapturingStubs;
impl SyscallStubs for CapturingStubs {
    fn sol_get_clock_sysvar(&self, var_addr: *mut u8) -> u64 { Stubs.sol_get_clock_sysvar(var_addr) }
    fn sol_get_last_restart_slot(&self, var_addr: *mut u8) -> u64 { Stubs.sol_get_last_restart_slot(var_addr) }
    fn sol_log(&self, _message: &str) {}
    fn sol_invoke_signed(
        &self,
        instruction: &anchor_lang::solana_program::instruction::Instruction,
        _account_infos: &[AccountInfo],
        _signers_seeds: &[&[&[u8]]],
    ) -> anchor_lang::solana_program::entrypoint::ProgramResult {
        EVENTS.lock().unwrap().push(instruction.data.clone());
        Ok(())
    }
}

/// Install sysvar stubs plus an `invoke_signed` stub that records event CPIs.
pub fn install_capturing_stubs() {
    set_syscall_stubs(Box::new(CapturingStubs));
}

pub fn take_events() -> Vec<Vec<u8>> {
    std::mem::take(&mut *EVENTS.lock().unwrap())
}
