//! C38 correspondence + oracle: liquidity-provider staking rewards and unstaking.
//!
//! * `lp apy` / `lp reward` call the two private reward functions through the hook wrappers.
//! * `lp unstake` / `lp claim` run the REAL `unstake_lp` / `claim_gt` instructions through the native
//!   entrypoint `gmsol_liquidity_provider::entry` on freshly built accounts. CPIs go to a syscall stub:
//!   `update_gt_cumulative_inv_cost_factor` returns the request's `cumNow` as return data,
//!   `mint_gt_reward`, SPL `transfer_checked` and `close_account` are recorded (not executed).
//!
//! Protocol (stateless, every request carries the whole state):
//!   lp apy start now g                                   -> ok <apy> | panic
//!   lp reward value duration perSec integral            -> ok <gt> | err
//!   lp unstake CE MIN CTRL DAT DCUM CUMNOW NOW AMT VAL START PCUM VAULT UNSTAKE g
//!       -> ok mint=<m> xfer=<t> closed=<0|1> pos=<amt>:<val>:<cum> n=<total_positions> | err
//!   lp claim   CE MIN CTRL DAT DCUM CUMNOW NOW AMT VAL START PCUM g
//!       -> ok mint=<m> pos=<amt>:<val>:<cum> | err
//!   lp chain   CE MIN CTRL DAT DCUM CUMNOW NOW AMT VAL START PCUM VAULT g steps
//!       a HISTORY of one position run natively: steps = `dt:dcum:c` (claim_gt) | `dt:dcum:u<amt>` (unstake_lp), comma separated;
//!       before each step the clock advances by dt and the GT cost integral by dcum; the position account bytes written by one
//!       step are the input of the next      -> ok [m1;m2;…] pos=<amt>:<val>:<cum>:<start>|closed vault=<v>   (m = minted | e = failed)
//! `g` = comma-separated APY buckets (missing ones are 0).
use anchor_lang::prelude::*;
use anchor_lang::solana_program::instruction::Instruction;
use anchor_lang::solana_program::program_stubs::{set_syscall_stubs, SyscallStubs};
use anchor_lang::{AccountDeserialize, AccountSerialize, Discriminator, InstructionData};
use anchor_spl::token::spl_token;
use bytemuck::Zeroable;
use gmsol_liquidity_provider as lp;
use gmsol_liquidity_provider::verif::c38 as hook;
use hcommon::*;
use num_bigint::BigUint;
use std::sync::atomic::{AtomicI64, Ordering};
use std::sync::Mutex;

static CPIS: Mutex<Vec<Instruction>> = Mutex::new(Vec::new());
static RETURN: Mutex<Option<(Pubkey, Vec<u8>)>> = Mutex::new(None);
static CUM_NOW: Mutex<u128> = Mutex::new(0);
static NOW: AtomicI64 = AtomicI64::new(0);

struct Stubs;
impl SyscallStubs for Stubs {
    fn sol_get_clock_sysvar(&self, var_addr: *mut u8) -> u64 {
        let clock = anchor_lang::solana_program::clock::Clock { slot: 1000, epoch_start_timestamp: 0, epoch: 0, leader_schedule_epoch: 0, unix_timestamp: NOW.load(Ordering::SeqCst) };
        unsafe { std::ptr::write_unaligned(var_addr as *mut anchor_lang::solana_program::clock::Clock, clock) };
        0
    }
    fn sol_get_last_restart_slot(&self, var_addr: *mut u8) -> u64 { unsafe { std::ptr::write_unaligned(var_addr as *mut u64, 0) }; 0 }
    fn sol_log(&self, _m: &str) {}
    fn sol_invoke_signed(&self, ix: &Instruction, _infos: &[AccountInfo], _seeds: &[&[&[u8]]]) -> anchor_lang::solana_program::entrypoint::ProgramResult {
        CPIS.lock().unwrap().push(ix.clone());
        // the only CPI with return data: update_gt_cumulative_inv_cost_factor -> u128
        if ix.program_id == gmsol_store::ID && ix.data.len() == 8 {
            *RETURN.lock().unwrap() = Some((gmsol_store::ID, CUM_NOW.lock().unwrap().to_le_bytes().to_vec()));
        }
        Ok(())
    }
    fn sol_get_return_data(&self) -> Option<(Pubkey, Vec<u8>)> { RETURN.lock().unwrap().clone() }
    fn sol_set_return_data(&self, _d: &[u8]) {}
}

extern "C" { fn dup(fd: i32) -> i32; fn dup2(a: i32, b: i32) -> i32; fn close(fd: i32) -> i32; }
struct Quiet { saved: i32 }
impl Quiet {
    fn new() -> Self {
        use std::io::Write; use std::os::fd::AsRawFd;
        std::io::stdout().flush().unwrap();
        let null = std::fs::OpenOptions::new().write(true).open("/dev/null").unwrap();
        let saved = unsafe { dup(1) };
        unsafe { dup2(null.as_raw_fd(), 1) };
        Quiet { saved }
    }
}
impl Drop for Quiet {
    fn drop(&mut self) { use std::io::Write; let _ = std::io::stdout().flush(); unsafe { dup2(self.saved, 1); close(self.saved); } }
}

/// key with readable bytes in front of it (`AccountInfo::realloc` peeks 4 bytes before the key)
#[repr(C)]
struct KeyBox { pad: u64, key: Pubkey }
/// data starts 8 bytes into a 16-aligned buffer (zero-copy alignment; `realloc` writes the length
/// into the 8 bytes before the data)
struct Acc { key: KeyBox, lamports: u64, buf: Vec<u128>, len: usize, owner: Pubkey, signer: bool, writable: bool, exec: bool }
impl Acc {
    fn new(key: Pubkey, owner: Pubkey, data: &[u8]) -> Self {
        let mut buf = vec![0u128; (data.len() + 8) / 16 + 2];
        bytemuck::cast_slice_mut::<u128, u8>(&mut buf)[8..8 + data.len()].copy_from_slice(data);
        Acc { key: KeyBox { pad: 0, key }, lamports: 1_000_000, buf, len: data.len(), owner, signer: false, writable: false, exec: false }
    }
    fn zc<T: bytemuck::Pod + Discriminator>(key: Pubkey, owner: Pubkey, t: &T) -> Self {
        let mut d = T::DISCRIMINATOR.to_vec();
        d.extend_from_slice(bytemuck::bytes_of(t));
        Acc::new(key, owner, &d)
    }
    fn borsh<T: AccountSerialize>(key: Pubkey, owner: Pubkey, t: &T, space: usize) -> Self {
        let mut v = Vec::new();
        t.try_serialize(&mut v).unwrap();
        v.resize(space.max(v.len()), 0);
        Acc::new(key, owner, &v)
    }
    fn signer(mut self) -> Self { self.signer = true; self }
    fn writable(mut self) -> Self { self.writable = true; self }
    fn exec(mut self) -> Self { self.exec = true; self }
}

/// Runs the entrypoint; returns per-account (owner, lamports, data) after the call.
fn call_entry(accs: &mut [Acc], data: &[u8]) -> std::result::Result<Vec<(Pubkey, u64, Vec<u8>)>, ()> {
    let infos: Vec<AccountInfo> = accs.iter_mut().map(|a| {
        let d = &mut bytemuck::cast_slice_mut::<u128, u8>(&mut a.buf)[8..8 + a.len];
        AccountInfo::new(&a.key.key, a.signer, a.writable, &mut a.lamports, d, &a.owner, a.exec, 0)
    }).collect();
    fn go<'a>(infos: &[AccountInfo<'a>], data: &[u8]) -> anchor_lang::solana_program::entrypoint::ProgramResult {
        let infos: &'a [AccountInfo<'a>] = unsafe { std::mem::transmute(infos) };
        let _q = Quiet::new();
        lp::entry(&lp::ID, infos, data)
    }
    let r = go(&infos, data);
    let after = infos.iter().map(|i| (*i.owner, i.lamports(), i.data.borrow().to_vec())).collect();
    r.map(|_| after).map_err(|_| ())
}

fn token_account(mint: &Pubkey, authority: &Pubkey, amount: u64) -> Vec<u8> {
    use anchor_lang::solana_program::program_pack::Pack;
    let a = spl_token::state::Account { mint: *mint, owner: *authority, amount, state: spl_token::state::AccountState::Initialized, ..Default::default() };
    let mut v = vec![0u8; spl_token::state::Account::LEN];
    a.pack_into_slice(&mut v);
    v
}
fn mint_account() -> Vec<u8> {
    use anchor_lang::solana_program::program_pack::Pack;
    let m = spl_token::state::Mint { decimals: 6, is_initialized: true, supply: u64::MAX, ..Default::default() };
    let mut v = vec![0u8; spl_token::state::Mint::LEN];
    m.pack_into_slice(&mut v);
    v
}

struct Keys { gs: (Pubkey, u8), ctrl: Pubkey, mint: Pubkey, store: Pubkey, owner: Pubkey, pos: (Pubkey, u8), vault: Pubkey, gt_user: Pubkey, user_lp: Pubkey, ev: Pubkey }

fn keys() -> Keys {
    let gs = Pubkey::find_program_address(&[lp::GLOBAL_STATE_SEED], &lp::ID);
    let ctrl = Pubkey::new_from_array([11; 32]);
    let owner = Pubkey::new_from_array([12; 32]);
    let pos = Pubkey::find_program_address(&[lp::POSITION_SEED, ctrl.as_ref(), owner.as_ref(), &7u64.to_le_bytes()], &lp::ID);
    let vault = Pubkey::find_program_address(&[lp::VAULT_SEED, pos.0.as_ref()], &lp::ID).0;
    Keys { gs, ctrl, mint: Pubkey::new_from_array([13; 32]), store: Pubkey::new_from_array([14; 32]), owner, pos, vault,
           gt_user: Pubkey::new_from_array([15; 32]), user_lp: Pubkey::new_from_array([16; 32]), ev: Pubkey::new_from_array([17; 32]) }
}

struct State { ce: bool, min: u128, ctrl_enabled: bool, dat: i64, dcum: u128, cum_now: u128, now: i64, amt: u64, val: u128, start: i64, pcum: u128, g: [u128; 53] }

fn parse_g(s: &str) -> Option<[u128; 53]> {
    let mut g = [0u128; 53];
    if s == "-" { return Some(g); }
    let parts: Vec<&str> = s.split(',').collect();
    if parts.len() > 53 { return None; }
    for (i, p) in parts.iter().enumerate() { g[i] = p.parse().ok()?; }
    Some(g)
}

fn parse_state(t: &[&str]) -> Option<State> {
    Some(State { ce: match t[0] { "1" => true, "0" => false, _ => return None }, min: t[1].parse().ok()?,
        ctrl_enabled: match t[2] { "1" => true, "0" => false, _ => return None }, dat: t[3].parse().ok()?, dcum: t[4].parse().ok()?,
        cum_now: t[5].parse().ok()?, now: t[6].parse().ok()?, amt: t[7].parse().ok()?, val: t[8].parse().ok()?,
        start: t[9].parse().ok()?, pcum: t[10].parse().ok()?, g: [0; 53] })
}

struct RunOut { mint: u64, xfer: Option<u64>, closed_vault: bool, pos: Option<lp::Position>, total_positions: u64 }

/// unstake (`Some(vault, unstake)`) or claim (`None`) through the real entrypoint
fn run_ix(k: &Keys, st: &State, un: Option<(u64, u64)>) -> std::result::Result<RunOut, ()> {
    NOW.store(st.now, Ordering::SeqCst);
    *CUM_NOW.lock().unwrap() = st.cum_now;
    *RETURN.lock().unwrap() = None;
    CPIS.lock().unwrap().clear();
    let sto = gmsol_store::ID;
    let sys = anchor_lang::system_program::ID;
    let gs = hook::new_global_state(Pubkey::new_from_array([9; 32]), st.g, st.min, st.ce, k.gs.1, 300);
    let ctrl = hook::new_controller(k.gs.0, k.mint, 0, 3, st.ctrl_enabled, st.dat, st.dcum, 255);
    let pos = hook::new_position(k.owner, k.ctrl, k.mint, k.vault, 7, st.amt, st.val, st.start, st.pcum, k.pos.1);
    let store: hook::StoreAccount = Zeroable::zeroed();
    let mut user: hook::UserHeaderAccount = Zeroable::zeroed();
    user.owner = k.owner; user.store = k.store;
    let a_gs = Acc::borsh(k.gs.0, lp::ID, &gs, 8 + 2200);
    let a_ctrl = Acc::borsh(k.ctrl, lp::ID, &ctrl, 8 + 500).writable();
    let a_mint = Acc::new(k.mint, spl_token::ID, &mint_account());
    let a_store = Acc::zc(k.store, sto, &store).writable();
    let a_prog = Acc::new(sto, sys, &[]).exec();
    let a_pos = Acc::borsh(k.pos.0, lp::ID, &pos, 8 + 300).writable();
    let a_owner = Acc::new(k.owner, sys, &[]).signer();
    let a_user = Acc::zc(k.gt_user, sto, &user).writable();
    let a_ev = Acc::new(k.ev, sys, &[]);
    let (mut accs, data, pos_idx) = match un {
        Some((vault_amount, unstake)) => {
            let a_vault = Acc::new(k.vault, spl_token::ID, &token_account(&k.mint, &k.gs.0, vault_amount)).writable();
            let a_ulp = Acc::new(k.user_lp, spl_token::ID, &token_account(&k.mint, &k.owner, 0)).writable();
            let a_tok = Acc::new(spl_token::ID, sys, &[]).exec();
            (vec![a_gs, a_ctrl, a_mint, a_store, a_prog, a_pos, a_vault, a_owner, a_user, a_ulp, a_ev, a_tok],
             lp::instruction::UnstakeLp { _position_id: 7, unstake_amount: unstake }.data(), 5)
        }
        None => (vec![a_gs, a_ctrl, a_store, a_prog, a_pos, a_owner, a_user, a_ev],
                 lp::instruction::ClaimGt { _position_id: 7 }.data(), 4),
    };
    let r = call_entry(&mut accs, &data);
    let cpis: Vec<Instruction> = CPIS.lock().unwrap().drain(..).collect();
    let after = r?;
    let mut out = RunOut { mint: 0, xfer: None, closed_vault: false, pos: None, total_positions: 0 };
    for ix in cpis {
        if ix.program_id == gmsol_store::ID && ix.data.len() == 16 {
            out.mint = out.mint.checked_add(u64::from_le_bytes(ix.data[8..16].try_into().unwrap())).unwrap();
        } else if ix.program_id == spl_token::ID && ix.data[0] == 12 {
            assert!(out.xfer.is_none(), "two transfers");
            assert_eq!(ix.accounts[0].pubkey, k.vault);
            assert_eq!(ix.accounts[2].pubkey, k.user_lp);
            out.xfer = Some(u64::from_le_bytes(ix.data[1..9].try_into().unwrap()));
        } else if ix.program_id == spl_token::ID && ix.data[0] == 9 {
            assert_eq!(ix.accounts[0].pubkey, k.vault);
            out.closed_vault = true;
        }
    }
    let (powner, _lam, pdata) = &after[pos_idx];
    if *powner == lp::ID && pdata.len() >= 8 && pdata[..8] == *lp::Position::DISCRIMINATOR {
        out.pos = lp::Position::try_deserialize(&mut &pdata[..]).ok();
    }
    out.total_positions = lp::LpTokenController::try_deserialize(&mut &after[1].2[..]).map(|c| c.total_positions).unwrap_or(u64::MAX);
    Ok(out)
}

fn big(x: u128) -> BigUint { BigUint::from(x) }

/// exact Σ_{s<T} g[min(s/WEEK, 52)] (week by week), independent of the code's loop structure
fn exact_sum(g: &[u128; 53], t: u128) -> BigUint {
    let w = hook::SECONDS_PER_WEEK;
    let mut sum = BigUint::from(0u8);
    let full = t / w;
    for k in 0..full.min(52) { sum += big(g[k as usize]) * big(w); }
    if full > 52 { sum += big(g[52]) * big(w) * big(full - 52); }
    sum += big(g[full.min(52) as usize]) * big(t % w);
    sum
}

fn exec(k: &Keys, req: &str, out: &mut Out) -> (String, bool) {
    let t: Vec<&str> = req.split(' ').collect();
    let bad = || ("bad-op".to_string(), false);
    if t.len() < 2 || t[0] != "lp" { return bad(); }
    let unit = 100_000_000_000_000_000_000u128;
    match t[1] {
        "apy" => {
            if t.len() != 5 { return bad(); }
            let (Ok(start), Ok(now), Some(g)) = (t[2].parse::<i64>(), t[3].parse::<i64>(), parse_g(t[4])) else { return bad() };
            let r = std::panic::catch_unwind(|| hook::compute_time_weighted_apy(start, now, &g));
            match r {
                Err(_) => {
                    if (now as i128 - start as i128) <= i64::MAX as i128 { out.oracle_fail("compute_time_weighted_apy panicked without an i64 overflow", req); }
                    ("panic".into(), false)
                }
                Ok(apy) => {
                    if now <= start { if apy != g[0] { out.oracle_fail("apy for an empty window is not bucket 0", req); } }
                    else {
                        let tt = (now as i128 - start as i128) as u128;
                        let exact = exact_sum(&g, tt) / big(tt);
                        let maxg = *g.iter().max().unwrap();
                        let guard = big(tt) * big(maxg) < (BigUint::from(1u8) << 128);
                        if guard && big(apy) != exact { out.oracle_fail(&format!("apy {apy} is not the per-second average {exact}"), req); }
                        if big(apy) > exact { out.oracle_fail("saturated apy exceeds the exact average", req); }
                        if guard { out.stat("apy.exact"); } else { out.stat("apy.saturation_possible"); }
                    }
                    (format!("ok {apy}"), now > start)
                }
            }
        }
        "reward" => {
            if t.len() != 6 { return bad(); }
            let (Ok(v), Ok(d), Ok(p), Ok(i)) = (t[2].parse::<u128>(), t[3].parse::<i64>(), t[4].parse::<u128>(), t[5].parse::<u128>()) else { return bad() };
            let f = |v: u128, i: u128| { let _q = Quiet::new(); hook::calculate_gt_reward_amount(v, d, p, i).ok() };
            let r = f(v, i);
            // property: exact double floor, and monotone in stake and in the integral
            let a = big(v) * big(p) / big(unit);
            let b = &a * big(i) / big(unit);
            let lim = BigUint::from(1u8) << 128;
            let want = if d < 0 || a >= lim || b >= lim { None } else { Some(if b > big(u64::MAX as u128) { u64::MAX } else { u64::try_from(b).unwrap() }) };
            if r != want { out.oracle_fail(&format!("reward {r:?} but exact {want:?}"), req); }
            if let Some(r0) = r {
                for dv in [1u128, v / 3 + 1] { if let (Some(v2), ) = (v.checked_add(dv), ) { if let Some(r2) = f(v2, i) { if r2 < r0 { out.oracle_fail("reward decreased with a larger stake", req); } } } }
                for di in [1u128, i / 3 + 1] { if let Some(i2) = i.checked_add(di) { if let Some(r2) = f(v, i2) { if r2 < r0 { out.oracle_fail("reward decreased with a longer cost integral", req); } } } }
            }
            (match r { Some(x) => format!("ok {x}"), None => "err".into() }, matches!(r, Some(x) if x > 0))
        }
        "chain" => {
            if t.len() != 16 { return bad(); }
            let Some(mut st) = parse_state(&t[2..13]) else { return bad() };
            let (Ok(mut vault), Some(g)) = (t[13].parse::<u64>(), parse_g(t[14])) else { return bad() };
            st.g = g;
            let mut steps: Vec<(u32, u128, Option<u64>)> = Vec::new();
            for x in t[15].split(',') {
                let p: Vec<&str> = x.split(':').collect();
                if p.len() != 3 || !p[0].bytes().all(|b| b.is_ascii_digit()) || !p[1].bytes().all(|b| b.is_ascii_digit()) { return bad(); }
                let (Ok(dt), Ok(dc)) = (p[0].parse::<u32>(), p[1].parse::<u128>()) else { return bad() };
                let op = if p[2] == "c" { None } else if let Some(a) = p[2].strip_prefix('u') { if !a.is_empty() && a.bytes().all(|b| b.is_ascii_digit()) { match a.parse::<u64>() { Ok(a) => Some(a), Err(_) => return bad() } } else { return bad() } } else { return bad() };
                steps.push((dt, dc, op));
            }
            if steps.len() > 8 { return bad(); }
            let tot_dt: i128 = steps.iter().map(|x| x.0 as i128).sum();
            let mut tot_c = Some(st.cum_now); for x in &steps { tot_c = tot_c.and_then(|c| c.checked_add(x.1)); }
            if st.now as i128 + tot_dt > i64::MAX as i128 || tot_c.is_none() { return bad(); }
            // the harness keeps what must never change / what the rewards must be computed from
            let start0 = st.start;
            let mut open = true;
            let mut res: Vec<String> = Vec::new();
            let mut any = false;
            for (dt, dc, op) in steps {
                st.now += dt as i64; st.cum_now += dc;
                if !open { res.push("e".into()); continue; }
                let un = op.map(|a| (vault, a));
                let r = std::panic::catch_unwind(std::panic::AssertUnwindSafe(|| run_ix(k, &st, un)));
                let r = match r { Ok(x) => x, Err(_) => { out.stat("ix.panic"); Err(()) } };
                match r {
                    Err(()) => res.push("e".into()),
                    Ok(o) => {
                        any = true;
                        // ---- independent oracle: the reward is the exact time-weighted average since the ORIGINAL stake time
                        let (end, cum_end) = if st.ctrl_enabled { (st.now, st.cum_now) } else { (st.dat, st.dcum) };
                        let tt = end as i128 - start0 as i128;
                        let maxg = *st.g.iter().max().unwrap();
                        if cum_end >= st.pcum && tt <= i64::MAX as i128 {
                            let (avg, exact_ok) = if tt <= 0 { (big(st.g[0]), true) } else { (exact_sum(&st.g, tt as u128) / big(tt as u128), big(tt as u128) * big(maxg) < (BigUint::from(1u8) << 128)) };
                            let per_sec = avg / big(31_557_600);
                            let a = big(st.val) * per_sec / big(unit);
                            let b = &a * big(cum_end - st.pcum) / big(unit);
                            let lim = BigUint::from(1u8) << 128;
                            if exact_ok && tt >= 0 && a < lim && b < lim {
                                let want = if b > big(u64::MAX as u128) { u64::MAX } else { u64::try_from(b).unwrap() };
                                if o.mint != want { out.oracle_fail(&format!("step reward {} is not the exact reward {} for the window since the original stake time {}", o.mint, want, start0), req); }
                                out.stat("chain.reward_checked");
                            }
                        }
                        if !st.ce && (op.is_none() || op != Some(st.amt)) { out.oracle_fail("claim / partial unstake succeeded while claims are disabled", req); }
                        match &o.pos {
                            Some(p) => {
                                if p.stake_start_time != start0 { out.oracle_fail(&format!("the stake start time changed from {} to {}", start0, p.stake_start_time), req); }
                                if p.cum_inv_cost != cum_end { out.oracle_fail("snapshot not advanced to the checkpoint", req); }
                                if let Some(a) = op {
                                    let rem = st.amt - a.min(st.amt);
                                    let nv = big(st.val) * big(rem as u128) / big(st.amt.max(1) as u128);
                                    if p.staked_amount != rem || big(p.staked_value_usd) != nv || o.xfer != Some(a) { out.oracle_fail("partial unstake in a history: amount / proportional value / transfer wrong", req); }
                                } else if p.staked_amount != st.amt || p.staked_value_usd != st.val { out.oracle_fail("a claim changed the staked amount or value", req); }
                                st.amt = p.staked_amount; st.val = p.staked_value_usd; st.pcum = p.cum_inv_cost; st.start = p.stake_start_time;
                            }
                            None => { open = false; if op.is_none() { out.oracle_fail("a claim closed the position", req); } if o.xfer.unwrap_or(0) != vault { out.oracle_fail("full exit in a history did not sweep the vault", req); } }
                        }
                        vault -= o.xfer.unwrap_or(0).min(vault);
                        res.push(o.mint.to_string());
                    }
                }
            }
            let posd = if open { format!("{}:{}:{}:{}", st.amt, st.val, st.pcum, st.start) } else { "closed".into() };
            (format!("ok [{}] pos={} vault={}", res.join(";"), posd, vault), any)
        }
        "unstake" | "claim" => {
            let is_un = t[1] == "unstake";
            if t.len() != if is_un { 16 } else { 14 } { return bad(); }
            let Some(mut st) = parse_state(&t[2..13]) else { return bad() };
            let Some(g) = parse_g(t[t.len() - 1]) else { return bad() };
            st.g = g;
            let un = if is_un { let (Ok(v), Ok(u)) = (t[13].parse::<u64>(), t[14].parse::<u64>()) else { return bad() }; Some((v, u)) } else { None };
            let r = std::panic::catch_unwind(std::panic::AssertUnwindSafe(|| run_ix(k, &st, un)));
            let r = match r { Ok(x) => x, Err(_) => { out.stat("ix.panic"); Err(()) } };
            match r {
                Err(()) => ("err".into(), false),
                Ok(o) => {
                    let cum_end = if st.ctrl_enabled { st.cum_now } else { st.dcum };
                    let posd = match &o.pos { Some(p) => format!("{}:{}:{}", p.staked_amount, p.staked_value_usd, p.cum_inv_cost), None => "closed".into() };
                    if let Some((vault, unstake)) = un {
                        // ---- property oracle for the unstake split
                        if unstake == 0 || unstake > st.amt { out.oracle_fail("unstake of 0 or more than staked succeeded", req); }
                        if !st.ce && unstake != st.amt { out.oracle_fail("partial unstake succeeded while claims are disabled", req); }
                        let remaining = st.amt - unstake.min(st.amt);
                        let new_val = if remaining == 0 { BigUint::from(0u8) } else { big(st.val) * big(remaining as u128) / big(st.amt as u128) };
                        let full = remaining == 0 || new_val < big(st.min);
                        if full {
                            if o.pos.is_some() { out.oracle_fail("full exit left the position open", req); }
                            if o.xfer.unwrap_or(0) != vault { out.oracle_fail("full exit did not sweep the whole vault", req); }
                            if !o.closed_vault { out.oracle_fail("full exit did not close the vault", req); }
                            if o.total_positions != 2 { out.oracle_fail("full exit did not decrement total_positions", req); }
                        } else {
                            if o.xfer != Some(unstake) { out.oracle_fail("partial unstake did not return exactly the requested tokens", req); }
                            match &o.pos {
                                Some(p) => {
                                    if p.staked_amount != remaining || big(p.staked_value_usd) != new_val { out.oracle_fail("partial unstake did not keep the proportional rounded-down value", req); }
                                    if p.cum_inv_cost != cum_end { out.oracle_fail("snapshot not advanced", req); }
                                    if p.stake_start_time != st.start { out.oracle_fail("stake start time changed", req); }
                                }
                                None => out.oracle_fail("partial unstake closed the position", req),
                            }
                            if o.closed_vault { out.oracle_fail("partial unstake closed the vault", req); }
                        }
                        out.stat(if full { "unstake.full" } else { "unstake.partial" });
                        (format!("ok mint={} xfer={} closed={} pos={} n={}", o.mint, o.xfer.unwrap_or(0), o.closed_vault as u8, posd, o.total_positions), true)
                    } else {
                        if !st.ce { out.oracle_fail("claim succeeded while claims are disabled", req); }
                        match &o.pos { Some(p) => { if p.stake_start_time != st.start { out.oracle_fail("a claim changed the stake start time", req); }
                                                    if p.staked_amount != st.amt || p.staked_value_usd != st.val { out.oracle_fail("a claim changed the staked amount or value", req); } }
                                       None => out.oracle_fail("a claim closed the position", req) }
                        (format!("ok mint={} pos={}", o.mint, posd), true)
                    }
                }
            }
        }
        _ => bad(),
    }
}

// ---------------------------------------------------------------- generator

fn gen_g(r: &mut Rng) -> (String, [u128; 53]) {
    let apy_max = 200_000_000_000_000_000_000u128;
    let mut g = [0u128; 53];
    match r.below(6) {
        0 => {}
        1 => { for x in g.iter_mut() { *x = apy_max; } }
        2 => { let n = r.range(1, 53) as usize; for x in g.iter_mut().take(n) { *x = r.below(2_000) as u128 * (apy_max / 2_000); } }
        3 => { for x in g.iter_mut() { *x = r.num(128); } }   // beyond the cap: saturation region
        4 => { for (i, x) in g.iter_mut().enumerate() { *x = (i as u128 + 1) * 1_000_000_007; } }
        _ => { for x in g.iter_mut() { *x = if r.chance(1, 3) { 0 } else { r.u128() % (apy_max + 1) }; } }
    }
    let mut v: Vec<String> = g.iter().map(|x| x.to_string()).collect();
    while v.len() > 1 && v[v.len() - 1] == "0" { v.pop(); }
    (if g.iter().all(|x| *x == 0) { "-".to_string() } else { v.join(",") }, g)
}

fn gen_req(r: &mut Rng) -> String {
    let week = 604_800i64;
    let unit = 100_000_000_000_000_000_000u128;
    let start: i64 = match r.below(6) { 0 => r.inum(64) as i64, _ => 1_700_000_000 + r.below(1_000_000) as i64 };
    let dur: i64 = match r.below(10) {
        0 => 0, 1 => -(r.below(1000) as i64), 2 => r.range(1, 100) as i64,
        3 => week * r.range(1, 60) as i64, 4 => week * r.range(1, 60) as i64 + if r.chance(1, 2) { 1 } else { -1 },
        5 => week * 52 + r.range(0, 2 * week as u64) as i64 - week, 6 => r.num(62) as i64, _ => r.below(80 * week as u64) as i64,
    };
    let now = start.saturating_add(dur);
    if r.chance(1, 6) {
        // a HISTORY: claims enabled (mostly), non-flat gradient, stake -> claim >= 1 week later -> later claims / unstakes
        let apy_max = 200_000_000_000_000_000_000u128;
        let g: Vec<String> = (0..53).map(|i| match r.below(3) { 0 => (apy_max / 60 * (i as u128 + 1)).to_string(), 1 => (r.u128() % (apy_max + 1)).to_string(), _ => (apy_max / 53 * (53 - i as u128)).to_string() }).collect();
        let ce = if r.chance(9, 10) { 1 } else { 0 };
        let ctrl = if r.chance(9, 10) { 1 } else { 0 };
        let start = 1_700_000_000 + r.below(1_000_000) as i64;
        let amt = r.range(1000, 1_000_000);
        let val = unit * r.range(1_000, 100_000) as u128 + r.below(1000) as u128;
        let min = if r.chance(1, 2) { 0 } else { val / r.range(2, 10) as u128 };
        let pcum = r.num(80);
        let mut left = amt;
        let steps: Vec<String> = (0..r.range(2, 7)).map(|_| {
            let dt = match r.below(5) { 0 => r.below(1000), 1 => week as u64 * r.range(1, 30) + r.below(3), _ => r.range(week as u64, 12 * week as u64) };
            let dc = match r.below(4) { 0 => 0, _ => unit / 1000 * r.range(1, 1_000_000) as u128 };
            let op = if r.chance(2, 3) || left < 10 { "c".to_string() } else { let a = if r.chance(1, 8) { left } else { r.range(1, left / 2) }; left -= a; format!("u{a}") };
            format!("{dt}:{dc}:{op}")
        }).collect();
        let dat = start + r.below(30 * week as u64) as i64;
        return format!("lp chain {ce} {min} {ctrl} {dat} {} {pcum} {start} {amt} {val} {start} {pcum} {amt} {} {}", pcum.saturating_add(r.num(60)), g.join(","), steps.join(","));
    }
    match r.below(10) {
        0 | 1 | 2 => { let (gs, _) = gen_g(r); format!("lp apy {start} {now} {gs}") }
        3 | 4 => {
            let v = match r.below(4) { 0 => r.num(128), _ => unit * r.range(0, 1_000_000) as u128 + r.below(1000) as u128 };
            let d = if r.chance(1, 12) { -(r.below(5) as i64) - 1 } else { r.below(1 << 40) as i64 };
            let p = match r.below(4) { 0 => r.num(128), _ => r.below(6_400_000_000_000) as u128 };
            let i = match r.below(4) { 0 => r.num(128), 1 => r.num(64), _ => unit / 100 * r.range(0, 100_000) as u128 };
            format!("lp reward {v} {d} {p} {i}")
        }
        k => {
            let (gs, _) = gen_g(r);
            let ce = if r.chance(2, 3) { 1 } else { 0 };
            let amt = match r.below(5) { 0 => r.num(64) as u64, 1 => 0, _ => r.range(1, 1_000_000) };
            let val = match r.below(5) { 0 => r.num(128), _ => unit * r.range(0, 100_000) as u128 + r.below(1000) as u128 };
            let min = match r.below(4) { 0 => 0, 1 => val / 2, 2 => r.num(128), _ => unit * r.range(0, 50_000) as u128 };
            let ctrl = if r.chance(3, 4) { 1 } else { 0 };
            let pcum = r.num(90);
            let cum_now = if r.chance(1, 15) { pcum.saturating_sub(1) } else { pcum.saturating_add(match r.below(3) { 0 => 0, 1 => r.num(70), _ => r.num(100) }) };
            let dcum = if r.chance(1, 10) { pcum.saturating_sub(1) } else { pcum.saturating_add(r.num(60)) };
            let dat = start.saturating_add(r.below(60 * week as u64) as i64);
            let vault = match r.below(4) { 0 => amt, 1 => amt.saturating_add(r.range(1, 1000)), 2 => 0, _ => r.num(64) as u64 };
            let un = match r.below(8) { 0 => amt, 1 => 0, 2 => amt.saturating_add(1), 3 => amt / 2, 4 => amt.saturating_sub(1), 5 => 1, _ => if amt == 0 { 0 } else { r.next() % amt + 1 } };
            if k < 9 { format!("lp unstake {ce} {min} {ctrl} {dat} {dcum} {cum_now} {now} {amt} {val} {start} {pcum} {vault} {un} {gs}") }
            else { format!("lp claim {ce} {min} {ctrl} {dat} {dcum} {cum_now} {now} {amt} {val} {start} {pcum} {gs}") }
        }
    }
}

fn main() {
    let cli = cli();
    let mut out = Out::new();
    std::panic::set_hook(Box::new(|_| {}));
    set_syscall_stubs(Box::new(Stubs));
    let reqs: Vec<String> = if cli.mode == "replay" { read_requests(cli.file.as_deref().unwrap()) }
        else { let mut r = Rng::new(cli.seed); (0..cli.n).map(|_| gen_req(&mut r)).collect() };
    let k = keys();
    for req in reqs {
        let r = std::panic::catch_unwind(std::panic::AssertUnwindSafe(|| exec(&k, &req, &mut out)));
        let (resp, nt) = match r { Ok(x) => x, Err(_) => { out.oracle_fail("panicked", &req); ("panic".to_string(), false) } };
        let op = req.split(' ').nth(1).unwrap_or("?").to_string();
        out.stat(&format!("op.{op}"));
        out.stat(&format!("{op}.{}", resp.split(' ').next().unwrap_or("?")));
        out.case_nt(&req, &resp, nt);
    }
    out.finish();
}
