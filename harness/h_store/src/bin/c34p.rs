//! C34 (program side): the REAL `fixed_map!` instantiations of the programs — store `RoleMap` (32),
//! `Members` (64), `Tokens` (256), `DisabledMap` (64, 2-byte keys), `PriceMap` (512), `GlvMarkets`
//! (96), treasury `TokenMap` (16) and `TokenBalances` (16) — driven through the generated public
//! API with the same `map` line protocol as `c34` (values are the little-endian number of the
//! `Pod` value's bytes; the state id's prefix selects the instantiation).
#![allow(unexpected_cfgs)]
use anchor_lang::prelude::Pubkey;
use gmsol_store::states::feature::DisabledMap;
use gmsol_store::states::glv::{GlvMarketConfig, GlvMarkets};
use gmsol_store::states::oracle::price_map::{PriceMap, SmallPrices};
use gmsol_store::states::roles::{Members, RoleMap, RoleMetadata};
use gmsol_store::states::token_config::Tokens;
use gmsol_treasury::states::gt_bank::{TokenBalance, TokenBalances};
use gmsol_treasury::states::treasury::{TokenConfig as TreasuryTokenConfig, TokenMap};
use gmsol_utils::config::{ActionDisabledFlag, DomainDisabledFlag};
use hcommon::*;
use num_bigint::BigUint;
use std::collections::{BTreeMap, HashMap};
use strum::IntoEnumIterator;

/// uniform view of one instantiation
trait M {
    fn cap(&self) -> usize;
    fn len_(&self) -> usize;
    fn insert_(&mut self, k: &BigUint, v: &BigUint, new: bool) -> Option<Result<Option<BigUint>, String>>;
    fn remove_(&mut self, k: &BigUint) -> Option<Option<BigUint>>;
    fn get_(&self, k: &BigUint) -> Option<Option<BigUint>>;
    fn entry_(&self, i: usize) -> Option<(BigUint, BigUint)>;
    fn clear_(&mut self);
    fn entries_(&self) -> Vec<(BigUint, BigUint)>;
    fn tail_zero(&self) -> bool;
    fn vbytes(&self) -> usize;
}

fn key_pk(k: &BigUint) -> Option<Pubkey> {
    let b = k.to_bytes_be();
    if b.len() > 32 { return None; }
    let mut out = [0u8; 32];
    out[32 - b.len()..].copy_from_slice(&b);
    Some(Pubkey::new_from_array(out))
}
thread_local! {
    static NAMES: std::cell::RefCell<HashMap<BigUint, String>> = std::cell::RefCell::new(HashMap::new());
    static FEATURES: std::cell::RefCell<HashMap<BigUint, (DomainDisabledFlag, ActionDisabledFlag)>> = std::cell::RefCell::new(HashMap::new());
}
fn str_key_num(name: &str) -> BigUint {
    let n = BigUint::from_bytes_be(&gmsol_utils::fixed_map::to_key(name));
    NAMES.with(|t| t.borrow_mut().insert(n.clone(), name.to_string()));
    n
}
fn key_str(k: &BigUint) -> Option<String> { NAMES.with(|t| t.borrow().get(k).cloned()) }
fn key_feature(k: &BigUint) -> Option<(DomainDisabledFlag, ActionDisabledFlag)> { FEATURES.with(|t| t.borrow().get(k).copied()) }
/// role-name universe `ROLE_0` … and every (domain, action) feature key `[domain, action]`
fn ensure_tables() {
    for i in 0..1024 { str_key_num(&format!("ROLE_{i}")); }
    for d in DomainDisabledFlag::iter() { for a in ActionDisabledFlag::iter() {
        let n = BigUint::from(d as u8 as u32 * 256 + a as u8 as u32);
        FEATURES.with(|t| t.borrow_mut().insert(n, (d, a)));
    } }
}
fn feature_keys() -> Vec<BigUint> { let mut v: Vec<BigUint> = FEATURES.with(|t| t.borrow().keys().cloned().collect()); v.sort(); v }

fn pod_to_num<V: bytemuck::Pod>(v: &V) -> BigUint { BigUint::from_bytes_le(bytemuck::bytes_of(v)) }
fn num_to_pod<V: bytemuck::Pod>(n: &BigUint) -> Option<V> {
    let mut b = n.to_bytes_le();
    let sz = std::mem::size_of::<V>();
    if b.len() > sz { return None; }
    b.resize(sz, 0);
    Some(bytemuck::pod_read_unaligned::<V>(&b))
}

fn err_name(e: anchor_lang::error::Error) -> String {
    match e {
        anchor_lang::error::Error::AnchorError(a) => match a.error_name.as_str() {
            "AlreadyExist" => "AlreadyExist".into(),
            "ExceedMaxLengthLimit" => "Full".into(),
            o => format!("Other({o})"),
        },
        anchor_lang::error::Error::ProgramError(p) => format!("Other({})", p.program_error),
    }
}

macro_rules! impl_m {
    ($t:ident, $cap:expr, $klen:expr, $v:ty, $tok:expr, $k:ident => $keyref:expr) => {
        impl M for $t {
            fn cap(&self) -> usize { $cap }
            fn len_(&self) -> usize { self.len() }
            fn vbytes(&self) -> usize { std::mem::size_of::<$v>() }
            fn insert_(&mut self, k: &BigUint, v: &BigUint, new: bool) -> Option<Result<Option<BigUint>, String>> {
                let $k = $tok(k)?; let v: $v = num_to_pod(v)?;
                Some(self.insert_with_options($keyref, v, new).map(|o| o.map(|x| pod_to_num(&x))).map_err(err_name))
            }
            fn remove_(&mut self, k: &BigUint) -> Option<Option<BigUint>> { let $k = $tok(k)?; Some(self.remove($keyref).map(|x| pod_to_num(&x))) }
            fn get_(&self, k: &BigUint) -> Option<Option<BigUint>> { let $k = $tok(k)?; Some(self.get($keyref).map(pod_to_num)) }
            fn entry_(&self, i: usize) -> Option<(BigUint, BigUint)> { self.get_entry_by_index(i).map(|(k, v)| (BigUint::from_bytes_be(k), pod_to_num(v))) }
            fn clear_(&mut self) { self.clear() }
            fn entries_(&self) -> Vec<(BigUint, BigUint)> { self.entries().map(|(k, v)| (BigUint::from_bytes_be(k), pod_to_num(v))).collect() }
            fn tail_zero(&self) -> bool {
                // entry = key bytes + value, `repr(C)`; its size is (whole − count − padding) / cap, recovered from the layout
                let total = std::mem::size_of::<$t>();
                let es = { let raw = $klen + std::mem::size_of::<$v>(); let al = std::mem::align_of::<$v>().max(1); (raw + al - 1) / al * al };
                assert!(es * $cap + 4 <= total);
                let b = bytemuck::bytes_of(self);
                b[self.len() * es..$cap * es].iter().all(|x| *x == 0)
            }
        }
    };
}
impl_m!(RoleMap, 32, 32, RoleMetadata, key_str, k => k.as_str());
impl_m!(Members, 64, 32, u32, key_pk, k => &k);
impl_m!(Tokens, 256, 32, u8, key_pk, k => &k);
impl_m!(DisabledMap, 64, 2, u8, key_feature, k => &k);
impl_m!(PriceMap, 512, 32, SmallPrices, key_pk, k => &k);
impl_m!(GlvMarkets, 96, 32, GlvMarketConfig, key_pk, k => &k);
impl_m!(TokenMap, 16, 32, TreasuryTokenConfig, key_pk, k => &k);
impl_m!(TokenBalances, 16, 32, TokenBalance, key_pk, k => &k);

const KINDS: [(&str, usize); 8] = [("roles", 32), ("members", 64), ("tokens", 256), ("features", 64), ("prices", 512), ("glv", 96), ("ttokens", 16), ("tbalances", 16)];

/// the instantiation is selected by the state id's prefix (`<kind>-…`) and must match the capacity
fn new_map(sid: &str, cap: usize) -> Option<Box<dyn M>> {
    let kind = sid.split('-').next()?;
    if !KINDS.iter().any(|(k, c)| *k == kind && *c == cap) { return None; }
    Some(match kind {
        "roles" => Box::new(RoleMap::default()), "members" => Box::new(Members::default()), "tokens" => Box::new(Tokens::default()),
        "features" => Box::new(DisabledMap::default()), "prices" => Box::new(PriceMap::default()), "glv" => Box::new(GlvMarkets::default()),
        "ttokens" => Box::new(TokenMap::default()), "tbalances" => Box::new(TokenBalances::default()), _ => return None,
    })
}

struct St { m: Box<dyn M>, reference: BTreeMap<BigUint, BigUint> }
struct World { sids: HashMap<String, St> }

fn ov(o: Option<BigUint>) -> String { match o { Some(v) => format!("ok some {v}"), None => "ok none".into() } }

impl World {
    /// run one request on the real code; `viol` collects property-oracle failures
    fn exec(&mut self, req: &str, viol: &mut Vec<String>) -> String {
        let t: Vec<&str> = req.split(' ').collect();
        if t.len() < 3 || t[0] != "map" { return "bad-op".into(); }
        if t[1] == "new" {
            if t.len() != 4 { return "bad-op".into(); }
            let Some(m) = t[3].parse::<usize>().ok().and_then(|c| new_map(t[2], c)) else { return "bad-op".into() };
            self.sids.insert(t[2].to_string(), St { m, reference: BTreeMap::new() });
            return "ok".into();
        }
        let Some(st) = self.sids.get_mut(t[2]) else { return "bad-op".into() };
        let nums: Option<Vec<BigUint>> = t[3..].iter().map(|s| if s.chars().all(|c| c.is_ascii_digit()) && !s.is_empty() { s.parse::<BigUint>().ok() } else { None }).collect();
        let Some(nums) = nums else { return "bad-op".into() };
        let cap = st.m.cap();
        let r = std::panic::catch_unwind(std::panic::AssertUnwindSafe(|| -> Option<String> {
            Some(match (t[1], nums.len()) {
                ("insert", 3) => {
                    let v = nums[1].clone(); if v.to_bytes_le().len() > st.m.vbytes() { return None; } let nw = u8::try_from(&nums[2]).ok()?; if nw > 1 { return None; }
                    let before = st.m.entries_();
                    let r = st.m.insert_(&nums[0], &v, nw == 1)?;
                    // property: behaves like the ordinary map; full + new key fails unchanged
                    let had = st.reference.get(&nums[0]).cloned();
                    let expect: Result<Option<BigUint>, String> = match had {
                        Some(old) => if nw == 1 { Err("AlreadyExist".into()) } else { Ok(Some(old)) },
                        None => if st.reference.len() >= cap { Err("Full".into()) } else { Ok(None) },
                    };
                    if r != expect { viol.push(format!("insert answered {r:?}, an ordinary map of capacity {cap} answers {expect:?}")); }
                    if expect.is_ok() { st.reference.insert(nums[0].clone(), v); }
                    else if st.m.entries_() != before { viol.push("failed insert changed the map".into()); }
                    match r { Ok(o) => format!("{} | n={}", ov(o), st.m.len_()), Err(e) => format!("err {e} | n={}", st.m.len_()) }
                }
                ("remove", 1) => {
                    let r = st.m.remove_(&nums[0])?;
                    let expect = st.reference.remove(&nums[0]);
                    if r != expect { viol.push(format!("remove answered {r:?}, an ordinary map answers {expect:?}")); }
                    format!("{} | n={}", ov(r), st.m.len_())
                }
                ("get", 1) => {
                    let r = st.m.get_(&nums[0])?;
                    let expect = st.reference.get(&nums[0]).cloned();
                    if r != expect { viol.push(format!("get answered {r:?}, an ordinary map answers {expect:?}")); }
                    ov(r)
                }
                ("entry", 1) => {
                    let i = usize::try_from(&nums[0]).ok()?;
                    let r = st.m.entry_(i);
                    let expect = st.reference.iter().nth(i).map(|(k, v)| (k.clone(), v.clone()));
                    if r != expect { viol.push("get_entry_by_index differs from the i-th entry of an ordinary sorted map".into()); }
                    match r { Some((k, v)) => format!("ok {k} {v}"), None => "ok none".into() }
                }
                ("clear", 0) => { st.m.clear_(); st.reference.clear(); format!("ok | n={}", st.m.len_()) }
                ("dump", 0) => {
                    let es = st.m.entries_();
                    format!("n={} {} z={}", st.m.len_(), es.iter().map(|(k, v)| format!("{k}:{v}")).collect::<Vec<_>>().join(" "), st.m.tail_zero() as u8)
                }
                _ => return None,
            })
        }));
        let resp = match r { Ok(Some(s)) => s, Ok(None) => return "bad-op".into(), Err(_) => { viol.push("panicked".into()); return "panic".into(); } };
        // after every operation: same contents and size as the ordinary map, sorted, zero tail
        let es = st.m.entries_();
        let refv: Vec<(BigUint, BigUint)> = st.reference.iter().map(|(k, v)| (k.clone(), v.clone())).collect();
        if es != refv || st.m.len_() != refv.len() { viol.push("contents differ from the ordinary map (or not sorted)".into()); }
        if !st.m.tail_zero() { viol.push("unused slots are not zeroed".into()); }
        resp
    }
}

/// key universe for one state: larger than the capacity, with adversarial structure
fn universe(r: &mut Rng, kind: &str, cap: usize) -> Vec<BigUint> {
    let n = cap * 2 + 3;
    let one = BigUint::from(1u8);
    match kind {
        "roles" => (0..n).map(|_| str_key_num(&format!("ROLE_{}", r.below(1024)))).collect(),
        "features" => feature_keys(),
        _ => (0..n).map(|i| match r.below(7) {
            0 => BigUint::from(i as u64),
            1 => (BigUint::from((i % 256) as u64) << 248usize) + BigUint::from((i / 256) as u64),   // differ in the first byte
            2 => (&one << 256usize) - &one - BigUint::from(i as u64),
            3 => &one << (r.below(256) as usize),
            4 => BigUint::from(r.below(4)),
            _ => { let mut b = [0u8; 32]; for x in b.iter_mut() { *x = r.below(256) as u8; } BigUint::from_bytes_be(&b) }
        }).collect(),
    }
}

fn gen_history(r: &mut Rng, sid: &str, budget: usize, reqs: &mut Vec<String>) {
    let last = if r.chance(1, 3) { KINDS[4] } else { KINDS[6] };
    let (kind, cap) = *r.pick(&[KINDS[0], KINDS[0], KINDS[1], KINDS[1], KINDS[3], KINDS[3], KINDS[5], KINDS[6], KINDS[6], KINDS[7], KINDS[7], KINDS[2], last]);
    let sid = &format!("{kind}-{sid}");
    let uni = universe(r, kind, cap);
    let vbytes = new_map(sid, cap).unwrap().vbytes();
    let val = |r: &mut Rng| -> BigUint { match r.below(5) { 0 => BigUint::from(0u8), 1 => BigUint::from_bytes_le(&vec![0xffu8; vbytes]), _ => { let b: Vec<u8> = (0..vbytes).map(|_| r.below(256) as u8).collect(); BigUint::from_bytes_le(&b) } } };
    reqs.push(format!("map new {sid} {cap}"));
    let mut present: Vec<BigUint> = Vec::new(); // generator's own view, only to pick relative arguments
    let steps = budget.min(7 * cap + 30);
    // distinct keys of the universe in generation order (the universe may contain repeats)
    let mut distinct: Vec<BigUint> = Vec::new();
    for k in &uni { if !distinct.contains(k) { distinct.push(k.clone()); } }
    let fill_target = if r.chance(5, 6) { cap } else { r.below(cap as u64 + 1) as usize };
    let mut near_full_ops = if fill_target == cap { cap / 2 + 6 } else { 0 };
    for _step in 0..steps {
        let full = present.len() >= cap;
        let pick_present = |r: &mut Rng, p: &Vec<BigUint>| p[r.below(p.len() as u64) as usize].clone();
        let fresh = |r: &mut Rng, p: &Vec<BigUint>| -> Option<BigUint> { let c: Vec<&BigUint> = distinct.iter().filter(|k| !p.contains(k)).collect(); if c.is_empty() { None } else { Some(c[r.below(c.len() as u64) as usize].clone()) } };
        let filling = present.len() < fill_target && near_full_ops > 0;
        let c = r.below(100);
        if filling && c < 85 {
            // phase A: fill with distinct keys in random order
            if let Some(k) = fresh(r, &present) { present.push(k.clone()); reqs.push(format!("map insert {sid} {k} {} {}", val(r), r.chance(1, 3) as u8)); continue; }
        }
        if full && near_full_ops > 0 {
            // phase B: operations on a FULL map
            near_full_ops -= 1;
            match r.below(10) {
                0..=2 => if let Some(k) = fresh(r, &present) { reqs.push(format!("map insert {sid} {k} {} {}", val(r), r.below(2))); continue; }   // must fail, unchanged
                3 | 4 => { let k = pick_present(r, &present); reqs.push(format!("map insert {sid} {k} {} 0", val(r))); continue; }                   // replace at full
                5..=7 => { let k = pick_present(r, &present); present.retain(|x| x != &k); reqs.push(format!("map remove {sid} {k}")); continue; }   // the 0.10.0 removal
                8 => { if r.below(cap as u64) < 16 { reqs.push(format!("map dump {sid}")); } else { reqs.push(format!("map entry {sid} {}", r.below(cap as u64 + 2))); } continue; }
                _ => {}
            }
        }
        if c < 30 {
            // insert: fresh key (fails when full), existing key (replace), `new` flag
            let k = if !present.is_empty() && r.chance(1, 4) { pick_present(r, &present) } else { r.pick(&uni).clone() };
            let nw = r.chance(1, 5);
            let exists = present.contains(&k);
            if !exists && !full { present.push(k.clone()); }
            reqs.push(format!("map insert {sid} {k} {} {}", val(r), nw as u8));
        } else if c < 50 {
            let k = if !present.is_empty() && r.chance(3, 4) { pick_present(r, &present) } else { r.pick(&uni).clone() };
            present.retain(|x| x != &k);
            reqs.push(format!("map remove {sid} {k}"));
        } else if c < 72 {
            let k = if !present.is_empty() && r.chance(1, 2) { pick_present(r, &present) } else { r.pick(&uni).clone() };
            reqs.push(format!("map get {sid} {k}"));
        } else if c < 80 {
            reqs.push(format!("map entry {sid} {}", r.below(cap as u64 + 2)));
        } else if c < 82 {
            present.clear();
            if r.chance(1, 2) { near_full_ops = cap / 2 + 6; }
            reqs.push(format!("map clear {sid}"));
        } else if r.below(cap as u64) < 16 {
            reqs.push(format!("map dump {sid}"));
        } else {
            reqs.push(format!("map entry {sid} {}", r.below(cap as u64 + 2)));
        }
    }
    reqs.push(format!("map dump {sid}"));
}

fn main() {
    let cli = cli();
    let mut out = Out::new();
    std::panic::set_hook(Box::new(|_| {}));
    ensure_tables();
    let reqs: Vec<String> = if cli.mode == "replay" { read_requests(cli.file.as_deref().unwrap()) } else {
        let mut r = Rng::new(cli.seed);
        let mut v = Vec::new();
        let mut i = 0;
        while (v.len() as u64) < cli.n { let left = cli.n as usize - v.len(); gen_history(&mut r, &format!("s{}x{i}", cli.seed), left, &mut v); i += 1; }
        v
    };
    let mut w = World { sids: HashMap::new() };
    for req in reqs {
        let mut viol = Vec::new();
        let op = req.split(' ').nth(1).unwrap_or("?").to_string();
        if let Some(st) = w.sids.get(req.split(' ').nth(2).unwrap_or("")) {
            if st.m.len_() == st.m.cap() { out.stat(&format!("at_full.{op}")); }
        }
        let resp = w.exec(&req, &mut viol);
        out.stat(&format!("op.{op}"));
        let class = if resp.starts_with("err Full") { "resp.errFull" } else if resp.starts_with("err AlreadyExist") { "resp.errAlreadyExist" }
            else if resp.starts_with("ok some") { "resp.some" } else if resp.starts_with("ok none") { "resp.none" } else if resp == "panic" { "resp.panic" }
            else if resp == "bad-op" { "resp.bad-op" } else { "resp.other" };
        out.stat(class);
        if let Some(st) = w.sids.get(req.split(' ').nth(2).unwrap_or("")) {
            if op == "new" { out.stat(&format!("kind.{}.cap{}", req.split(' ').nth(2).unwrap_or("").split('-').next().unwrap_or(""), st.m.cap())); }
        }
        for v in viol { out.oracle_fail(&v, &req); }
        let nt = (op == "insert" && resp.starts_with("ok")) || resp.starts_with("ok some") || (op == "entry" && resp != "ok none");
        out.case_nt(&req, &resp, nt);
    }
    out.finish();
}
