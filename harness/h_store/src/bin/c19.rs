//! C19 correspondence + oracle (sample): guarded store instructions whose accounts are just
//! `(authority: Signer, store)` are executed END TO END through the real native entrypoint by a caller
//! holding exactly one role (or none, or being the store's ADMIN). Response: `denied same` (rejected
//! with PermissionDenied, store bytes unchanged), `denied changed`, or `passed` (the guard let the
//! call through — whatever the handler then returned). The Lean driver answers from the access table
//! generated out of lib.rs. Oracle: a caller without the instruction's documented role is rejected and
//! nothing changes; the role holder passes.
use anchor_lang::prelude::*;
use anchor_lang::{Discriminator, InstructionData};
use gmsol_store::states::Store;
use gmsol_store::CoreError;
use gmsol_utils::role::RoleKey;
use hcommon::*;

fn pk(tag: u8) -> Pubkey { let mut b = [9u8; 32]; b[0] = tag; Pubkey::new_from_array(b) }

fn account(key: Pubkey, signer: bool, writable: bool, owner: Pubkey, data: &[u8]) -> AccountInfo<'static> {
    let words: &'static mut [u128] = Box::leak(vec![0u128; data.len() / 16 + 2].into_boxed_slice());
    let raw: &'static mut [u8] = bytemuck::cast_slice_mut(words);
    raw[8..8 + data.len()].copy_from_slice(data);
    let slice: &'static mut [u8] = &mut raw[8..8 + data.len()];
    AccountInfo::new(Box::leak(Box::new(key)), signer, writable, Box::leak(Box::new(1_000_000_000u64)), slice, Box::leak(Box::new(owner)), false, 0)
}

fn quiet<T>(f: impl FnOnce() -> T) -> T {
    use std::io::Write;
    let _ = std::io::stdout().flush();
    unsafe {
        let saved = libc::dup(1);
        let null = libc::open(b"/dev/null\0".as_ptr() as *const libc::c_char, libc::O_WRONLY);
        libc::dup2(null, 1);
        let r = f();
        let _ = std::io::stdout().flush();
        libc::dup2(saved, 1);
        libc::close(saved);
        libc::close(null);
        r
    }
}

const ROLES: &[&str] = &[RoleKey::MARKET_KEEPER, RoleKey::ORDER_KEEPER, RoleKey::CONFIG_KEEPER, RoleKey::FEATURE_KEEPER,
    RoleKey::GT_CONTROLLER, RoleKey::ORACLE_CONTROLLER, RoleKey::PRICE_KEEPER, RoleKey::MIGRATION_KEEPER, RoleKey::MARKET_CONFIG_KEEPER];

/// (instruction, documented role) — the sample; all have accounts `(authority, store[, unchecked])`
const SAMPLE: &[(&str, &str)] = &[
    ("enable_role", "ADMIN"), ("disable_role", "ADMIN"), ("grant_role", "ADMIN"), ("revoke_role", "ADMIN"),
    ("update_last_restarted_slot", "ADMIN"), ("transfer_store_authority", "ADMIN"),
    ("insert_amount", "CONFIG_KEEPER"), ("insert_factor", "CONFIG_KEEPER"), ("insert_address", "CONFIG_KEEPER"),
    ("toggle_feature", "FEATURE_KEEPER"), ("set_market_config_updatable", "MARKET_KEEPER"),
];

fn ix_data(ix: &str) -> Option<Vec<u8>> {
    use gmsol_store::instruction as i;
    Some(match ix {
        "enable_role" => i::EnableRole { role: "NEW_ROLE".into() }.data(),
        "disable_role" => i::DisableRole { role: RoleKey::ORDER_KEEPER.into() }.data(),
        "grant_role" => i::GrantRole { user: pk(50), role: RoleKey::ORDER_KEEPER.into() }.data(),
        "revoke_role" => i::RevokeRole { user: pk(51), role: RoleKey::ORDER_KEEPER.into() }.data(),
        "update_last_restarted_slot" => i::UpdateLastRestartedSlot {}.data(),
        "transfer_store_authority" => i::TransferStoreAuthority {}.data(),
        "insert_amount" => i::InsertAmount { key: "request_expiration".into(), amount: 77 }.data(),
        "insert_factor" => i::InsertFactor { key: "oracle_ref_price_deviation".into(), factor: 77 }.data(),
        "insert_address" => i::InsertAddress { key: "holding".into(), address: pk(52) }.data(),
        "toggle_feature" => i::ToggleFeature { domain: "deposit".into(), action: "create".into(), enable: false }.data(),
        "set_market_config_updatable" => i::SetMarketConfigUpdatable { is_flag: false, key: "reserve_factor".into(), updatable: true }.data(),
        _ => return None,
    })
}

fn exec_inner(t: &[&str]) -> Option<String> {
    Some(match t {
        ["c19", "call", ix, role] => {
            let data = match ix_data(ix) { Some(d) => d, None => return Some("noix".into()) };
            let (caller, admin, store_key) = (pk(1), pk(2), pk(3));
            let mut store: Box<Store> = Box::new(bytemuck::Zeroable::zeroed());
            let authority = if *role == "ADMIN" { caller } else { admin };
            store.init(authority, "", 255, pk(5), pk(6)).ok()?;
            for r in ROLES { store.enable_role(r).ok()?; }
            store.grant(&pk(51), RoleKey::ORDER_KEEPER).ok()?;
            if ROLES.contains(role) { store.grant(&caller, role).ok()?; }
            let mut bytes = Store::DISCRIMINATOR.to_vec();
            bytes.extend_from_slice(bytemuck::bytes_of(&*store));
            let accs: &'static [AccountInfo<'static>] = Box::leak(vec![
                account(caller, true, true, anchor_lang::system_program::ID, &[]),
                account(store_key, false, true, gmsol_store::ID, &bytes),
                account(pk(60), false, false, anchor_lang::system_program::ID, &[]),
            ].into_boxed_slice());
            let n = if *ix == "transfer_store_authority" { 3 } else { 2 };
            let res = quiet(|| gmsol_store::entry(&gmsol_store::ID, &accs[..n], &data));
            let same = accs[1].try_borrow_data().unwrap().to_vec() == bytes;
            let denied: u32 = CoreError::PermissionDenied.into();
            let not_admin: u32 = CoreError::NotAnAdmin.into();
            match res {
                Err(ProgramError::Custom(c)) if c == denied || c == not_admin => format!("denied {}", if same { "same" } else { "changed" }),
                _ => "passed".into(),
            }
        }
        ["c19", "count"] => return Some("skip".into()),
        _ => return None,
    })
}

fn exec(req: &str) -> String {
    let t: Vec<&str> = req.split(' ').collect();
    match std::panic::catch_unwind(|| exec_inner(&t)) { Ok(Some(s)) => s, Ok(None) => "bad-op".into(), Err(_) => "panic".into() }
}

fn oracle(req: &str, resp: &str) -> Option<std::result::Result<(), String>> {
    let t: Vec<&str> = req.split(' ').collect();
    if let ["c19", "call", ix, role] = t.as_slice() {
        let want_role = SAMPLE.iter().find(|(n, _)| n == ix)?.1;
        let want = if *role == want_role { "passed" } else { "denied same" };
        return Some(if resp == want { Ok(()) } else {
            Err(format!("{ix} (requires {want_role}) called by a signer holding `{role}`: `{resp}`, expected `{want}`"))
        });
    }
    None
}

fn main() {
    h_store::install_stubs();
    let cli = cli();
    let mut out = Out::new();
    std::panic::set_hook(Box::new(|_| {}));
    let reqs: Vec<String> = if cli.mode == "replay" {
        read_requests(cli.file.as_deref().unwrap())
    } else {
        let mut v = Vec::new();
        for (ix, _) in SAMPLE {
            v.push(format!("c19 call {ix} none"));
            v.push(format!("c19 call {ix} ADMIN"));
            for r in ROLES { v.push(format!("c19 call {ix} {r}")); }
        }
        v
    };
    for req in reqs {
        let resp = exec(&req);
        out.stat(&format!("resp.{}", resp.replace(' ', "_")));
        if resp == "panic" { out.oracle_fail("panicked", &req); }
        match oracle(&req, &resp) {
            Some(Err(why)) => out.oracle_fail(&why, &req),
            Some(Ok(())) => out.stat("oracle.checked"),
            None => out.stat("oracle.none"),
        }
        out.case_nt(&req, &resp, resp == "passed");
    }
    out.finish();
}
