//! C32 correspondence + oracle: the real builder-fee helpers of `ops/order.rs` (through the
//! `verif-hooks` wrappers) and `Order::record_builder_fee`.
//! The inline decrease / increase blocks are replayed by calling the real helpers in the order
//! the translator (`translator/gen_c32_shapes.py`) extracts from the source.
use anchor_lang::error::Error as AErr;
use gmsol_store::states::Order;
use gmsol_store::verif::c32 as hk;
use hcommon::*;
use hk::{DecreasePositionSwapType as Swap, Price};
use num_bigint::BigUint;

const UNIT: u128 = 100_000_000_000_000_000_000;

fn with_order<R>(f: impl FnOnce(&mut Order) -> R) -> R {
    let n = std::mem::size_of::<Order>();
    let mut buf = vec![0u128; n / 16 + 1];
    let bytes: &mut [u8] = bytemuck::cast_slice_mut(&mut buf);
    f(bytemuck::from_bytes_mut(&mut bytes[..n]))
}

fn err(e: &AErr) -> String {
    let name = match e {
        AErr::AnchorError(a) => a.error_name.clone(),
        AErr::ProgramError(p) => format!("{:?}", p.program_error),
    };
    match name.as_str() {
        "TokenAmountOverflow" => "err Overflow".into(),
        "BuilderFeeExceedsCollateral" => "err Exceeds".into(),
        "BuilderFeeSwapTypeNotAllowed" => "err SwapType".into(),
        o => format!("err Other({o})"),
    }
}

fn run(t: &[&str]) -> Option<String> {
    if t.len() < 2 || t[0] != "bfee" { return None; }
    let u = |i: usize| -> Option<u128> { t.get(i)?.parse::<u128>().ok() };
    let u64_ = |i: usize| -> Option<u64> { t.get(i)?.parse::<u64>().ok() };
    Some(match (t[1], t.len()) {
        ("compute", 6) => {
            let p = Price { min: u(4)?, max: u(5)? };
            match hk::compute_builder_fee_amount(u(2)?, u(3)?, &p) { Ok(r) => format!("ok {r}"), Err(e) => err(&e) }
        }
        ("clamp", 4) => format!("ok {}", hk::clamp_builder_fee_amount(u(2)?, u(3)?)),
        ("charge", 7) => {
            let p = Price { min: u(5)?, max: u(6)? };
            match hk::charge_builder_fee_on_collateral_increment(u64_(2)?, u(3)?, u(4)?, &p) {
                Ok((a, f)) => format!("ok {a} {f}"), Err(e) => err(&e) }
        }
        ("estimate", 8) => {
            let p = Price { min: u(5)?, max: u(6)? };
            let swap = match t[7] { "0" => Swap::NoSwap, "1" => Swap::PnlTokenToCollateralToken, "2" => Swap::CollateralToPnlToken, _ => return None };
            match hk::estimate_builder_fee_for_collateral_withdrawal(u(2)?, u(3)?, u(4)?, &p, swap) {
                Ok(r) => format!("ok {r}"), Err(e) => err(&e) }
        }
        ("record", 4) => {
            let (cur, amount) = (u64_(2)?, u64_(3)?);
            with_order(|o| {
                hk::record_builder_fee(o, cur).expect("first record on a zeroed order");
                match hk::record_builder_fee(o, amount) {
                    Ok(()) => format!("ok {}", o.builder_fee_amount()),
                    Err(e) => { assert_eq!(o.builder_fee_amount(), cur); err(&e) }
                }
            })
        }
        // builder-fee block of execute_decrease_position: compute → clamp(payable, output) →
        // u64::try_from(paid) → record
        ("decrease", 8) => {
            let p = Price { min: u(4)?, max: u(5)? };
            let (output, cur) = (u64_(6)?, u64_(7)?);
            with_order(|o| {
                hk::record_builder_fee(o, cur).expect("seed");
                let payable = match hk::compute_builder_fee_amount(u(2).unwrap(), u(3).unwrap(), &p) { Ok(x) => x, Err(e) => return err(&e) };
                let paid = hk::clamp_builder_fee_amount(payable, output.into());
                let recorded = match u64::try_from(paid) { Ok(x) => x, Err(_) => return "err Overflow".into() };
                match hk::record_builder_fee(o, recorded) { Ok(()) => format!("ok {}", o.builder_fee_amount()), Err(e) => err(&e) }
            })
        }
        // builder-fee block of execute_increase_position: charge → transfer_out(payable) → record(payable)
        ("increase", 8) => {
            let p = Price { min: u(5)?, max: u(6)? };
            let (incr, cur) = (u64_(2)?, u64_(7)?);
            with_order(|o| {
                hk::record_builder_fee(o, cur).expect("seed");
                let (after, payable) = match hk::charge_builder_fee_on_collateral_increment(incr, u(3).unwrap(), u(4).unwrap(), &p) { Ok(x) => x, Err(e) => return err(&e) };
                match hk::record_builder_fee(o, payable) { Ok(()) => format!("ok {after} {payable} {}", o.builder_fee_amount()), Err(e) => err(&e) }
            })
        }
        _ => return None,
    })
}

fn exec(req: &str) -> String {
    let t: Vec<&str> = req.split(' ').collect();
    match std::panic::catch_unwind(|| run(&t)) { Ok(Some(s)) => s, Ok(None) => "bad-op".into(), Err(_) => "panic".into() }
}

fn big(x: &str) -> BigUint { x.parse::<BigUint>().unwrap() }

/// exact fee per the property text: ceil(floor(size·f/UNIT)/price.min); None = not computable
/// in u128 (the implementation may only fail then, or when value + price overflows u128).
fn exact_fee(size: &BigUint, f: &BigUint, pmin: &BigUint) -> (Option<BigUint>, bool) {
    let zero = BigUint::from(0u8);
    let lim = BigUint::from(1u8) << 128;
    if *f == zero { return (Some(zero), false); }
    let v = size * f / BigUint::from(UNIT);
    if v >= lim || *pmin == zero { return (None, false); }
    let spurious = &v + pmin >= lim; // checked_round_up_div adds before dividing
    let fee = (&v + pmin - BigUint::from(1u8)) / pmin;
    (Some(fee), spurious)
}

/// Property oracle. Ok(nt) / Err(violation).
fn oracle(req: &str, resp: &str) -> Result<bool, String> {
    let t: Vec<&str> = req.split(' ').collect();
    let ok: Option<Vec<BigUint>> = resp.strip_prefix("ok ").map(|r| r.split(' ').map(big).collect());
    let lim64 = BigUint::from(1u8) << 64;
    let lim128 = BigUint::from(1u8) << 128;
    if resp.starts_with("err Other") || resp == "panic" { return Err(format!("unexpected {resp}")); }
    match t[1] {
        "compute" => {
            let (fee, spurious) = exact_fee(&big(t[2]), &big(t[3]), &big(t[4]));
            match (&ok, fee) {
                (Some(r), Some(fee)) => if r[0] == fee { Ok(fee != BigUint::from(0u8)) } else { Err(format!("fee {} ≠ ceil(floor(size·f/U)/pmin) = {fee}", r[0])) },
                (Some(r), None) => Err(format!("fee {} returned where the exact fee is undefined/overflows", r[0])),
                (None, Some(_)) => if spurious && resp == "err Overflow" { Ok(false) } else { Err(format!("computable fee rejected: {resp}")) },
                (None, None) => Ok(false),
            }
        }
        "clamp" => { let r = &ok.unwrap()[0]; let (f, a) = (big(t[2]), big(t[3])); if *r == f.clone().min(a) { Ok(true) } else { Err("clamp is not the minimum".into()) } }
        "charge" | "increase" => {
            let incr = big(t[2]);
            let (fee, spurious) = exact_fee(&big(t[3]), &big(t[4]), &big(t[5]));
            match (&ok, fee) {
                (Some(r), Some(fee)) => {
                    if r[1] != fee { return Err(format!("charged {} ≠ fee {fee}", r[1])); }
                    if &r[0] + &r[1] != incr { return Err("after + fee ≠ increment".into()); }
                    if t[1] == "increase" && r[2] != big(t[7]) + &fee { return Err("recorded ≠ previous + fee routed to escrow".into()); }
                    Ok(fee != BigUint::from(0u8))
                }
                (Some(_), None) => Err("charged although the fee is not computable".into()),
                (None, Some(fee)) => {
                    let justified = (spurious && resp == "err Overflow") || (fee >= lim64 && resp == "err Overflow")
                        || (fee < lim64 && fee > incr && resp == "err Exceeds")
                        || (t[1] == "increase" && fee <= incr && big(t[7]) + &fee >= lim64 && resp == "err Overflow");
                    if justified { Ok(false) } else { Err(format!("increase failed without cause: {resp} (fee {fee}, increment {incr})")) }
                }
                (None, None) => if resp == "err Overflow" { Ok(false) } else { Err(format!("wrong error {resp}")) },
            }
        }
        "estimate" => {
            let w = big(t[2]);
            let f = big(t[4]);
            if f == BigUint::from(0u8) { return if ok.as_ref().map(|r| r[0] == w).unwrap_or(false) { Ok(false) } else { Err("zero factor changed the withdrawal".into()) }; }
            if t[7] == "2" { return if resp == "err SwapType" { Ok(false) } else { Err("collateral→pnl swap admitted with a builder fee".into()) }; }
            let (fee, spurious) = exact_fee(&big(t[3]), &f, &big(t[5]));
            match (&ok, fee) {
                (Some(r), Some(fee)) => if r[0] == &w + &fee { Ok(true) } else { Err("estimate ≠ withdrawal + fee".into()) },
                (Some(_), None) => Err("estimate returned for an uncomputable fee".into()),
                (None, Some(fee)) => if spurious || &w + &fee >= lim128 { Ok(false) } else { Err(format!("estimate failed without cause: {resp}")) },
                (None, None) => Ok(false),
            }
        }
        "record" => {
            let s = big(t[2]) + big(t[3]);
            match &ok { Some(r) => if r[0] == s && s < lim64 { Ok(true) } else { Err("record is not the exact sum".into()) },
                        None => if s >= lim64 { Ok(false) } else { Err("record failed without overflow".into()) } }
        }
        "decrease" => {
            let (output, cur) = (big(t[6]), big(t[7]));
            let (fee, spurious) = exact_fee(&big(t[2]), &big(t[3]), &big(t[4]));
            match (&ok, fee) {
                (Some(r), Some(fee)) => {
                    if r[0] < cur { return Err("record decreased".into()); }
                    let added = &r[0] - &cur;
                    if added > output { return Err(format!("recorded fee {added} exceeds the final output {output}")); }
                    if added != fee.clone().min(output.clone()) { return Err("recorded ≠ min(fee, output)".into()); }
                    Ok(added != BigUint::from(0u8))
                }
                (Some(_), None) => Err("recorded although the fee is not computable".into()),
                (None, Some(fee)) => if spurious || &cur + fee.min(output) >= lim64 { Ok(false) } else { Err(format!("decrease failed without cause: {resp}")) },
                (None, None) => Ok(false),
            }
        }
        _ => Ok(false),
    }
}

fn gen_req(r: &mut Rng) -> String {
    // realistic: size in USD·10^20, factor a few bps..%, unit price of a token (10^20 / 10^decimals scale)
    let realistic = r.chance(2, 3);
    let size: u128 = if realistic { (r.range(1, 5_000_000) as u128) * UNIT / (r.range(1, 100) as u128) } else { r.num(128) };
    let factor: u128 = match r.below(8) { 0 => 0, 1 => UNIT, 2 => 1, 3 => r.num(128), _ => UNIT / 100_000 * r.range(1, 2000) as u128 };
    let pmin: u128 = if realistic { 10u128.pow(r.range(8, 16) as u32) * r.range(1, 99_999) as u128 / 1000 } else { match r.below(6) { 0 => 0, 1 => 1, _ => r.num(128) } };
    let pmax = pmin.saturating_add(r.num(64) >> r.below(64));
    let fee_guess: u128 = if factor == 0 || pmin == 0 { 0 } else { ((BigUint::from(size) * BigUint::from(factor) / BigUint::from(UNIT)) / BigUint::from(pmin)).try_into().unwrap_or(u128::MAX) };
    let near = |r: &mut Rng, x: u128| -> u64 {
        let x = x.min(u64::MAX as u128) as u64;
        match r.below(6) { 0 => x, 1 => x.saturating_add(1), 2 => x.saturating_sub(1), 3 => x.saturating_add(r.num(64) as u64 >> r.below(64)), 4 => x / r.range(1, 9), _ => r.num(64) as u64 }
    };
    let cur: u64 = match r.below(5) { 0 => 0, 1 => u64::MAX - r.below(1000), 2 => u64::MAX - near(r, fee_guess), _ => r.num(64) as u64 >> r.below(40) };
    match r.below(8) {
        0 => format!("bfee compute {size} {factor} {pmin} {pmax}"),
        1 => format!("bfee clamp {} {}", r.num(128), r.num(128)),
        2 => format!("bfee charge {} {size} {factor} {pmin} {pmax}", near(r, fee_guess)),
        3 => format!("bfee estimate {} {size} {factor} {pmin} {pmax} {}", if r.chance(1, 6) { u128::MAX - r.num(64) } else { r.num(64) }, r.below(3)),
        4 => format!("bfee record {cur} {}", near(r, u64::MAX as u128 - cur as u128)),
        5 | 6 => format!("bfee decrease {size} {factor} {pmin} {pmax} {} {cur}", near(r, fee_guess)),
        _ => format!("bfee increase {} {size} {factor} {pmin} {pmax} {cur}", near(r, fee_guess)),
    }
}

fn main() {
    h_store::install_stubs();
    let cli = cli();
    let mut out = Out::new();
    std::panic::set_hook(Box::new(|_| {}));
    let reqs: Vec<String> = if cli.mode == "replay" { read_requests(cli.file.as_deref().unwrap()) } else {
        let mut r = Rng::new(cli.seed);
        r = Rng(r.next()); // decorrelate: hcommon streams of consecutive seeds are one draw apart
        (0..cli.n).map(|_| gen_req(&mut r)).collect()
    };
    for req in reqs {
        let resp = exec(&req);
        let op = req.split(' ').nth(1).unwrap_or("?").to_string();
        out.stat(&format!("op.{op}"));
        out.stat(&format!("resp.{}", resp.split(' ').take(if resp.starts_with("err") { 2 } else { 1 }).collect::<Vec<_>>().join("_")));
        if resp == "bad-op" { out.case(&req, &resp); continue; }
        let nt = match oracle(&req, &resp) {
            Ok(nt) => { out.stat("oracle.checked"); nt }
            Err(what) => { out.oracle_fail(&what, &req); false }
        };
        out.case_nt(&req, &resp, nt);
    }
    out.finish();
}
