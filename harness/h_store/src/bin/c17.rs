//! C17 correspondence + oracle: initialise a real `Market` natively (`Market::default()` +
//! `Market::init`, Clock sysvar stubbed) and report every config key, config flag, pool and
//! default constant. The Lean driver answers the same requests from the tables the translator
//! regenerates out of the Rust source, so a translator bug shows up as a disagreement.
//!
//! Oracle (states the PROPERTY, independent of the Lean tables): every key equals the constant
//! its own name documents (`DEFAULT_<KEY>`, exceptions listed), flags likewise, pools pure iff
//! tokens coincide except position-impact / borrowing-factor / total-borrowing, amounts zero.
use anchor_lang::prelude::Pubkey;
use borsh::BorshSerialize;
use gmsol_model::PoolKind;
use gmsol_store::constants as k;
use gmsol_utils::market::{MarketConfigFlag, MarketConfigKey};
use gmsol_store::states::Market;
use hcommon::*;
use strum::IntoEnumIterator;

#[derive(Clone, Copy, PartialEq, Debug)]
enum Val { N(u128), B(bool) }

macro_rules! consts { ($($n:ident),* $(,)?) => { vec![$((stringify!($n), Val::from(k::$n))),*] } }
impl From<u128> for Val { fn from(x: u128) -> Self { Val::N(x) } }
impl From<bool> for Val { fn from(x: bool) -> Self { Val::B(x) } }
impl From<u8> for Val { fn from(x: u8) -> Self { Val::N(x as u128) } }

/// every public constant of constants/market.rs (+ the units they are built from), by name
fn const_table() -> Vec<(&'static str, Val)> {
    consts![
        MARKET_USD_UNIT, MARKET_DECIMALS,
        DEFAULT_RECEIVER_FACTOR, DEFAULT_SWAP_IMPACT_EXPONENT, DEFAULT_SWAP_IMPACT_POSITIVE_FACTOR,
        DEFAULT_SWAP_IMPACT_NEGATIVE_FACTOR, DEFAULT_SWAP_FEE_FACTOR_FOR_POSITIVE_IMPACT,
        DEFAULT_SWAP_FEE_FACTOR_FOR_NEGATIVE_IMPACT, DEFAULT_MIN_POSITION_SIZE_USD, DEFAULT_MIN_COLLATERAL_VALUE,
        DEFAULT_MIN_COLLATERAL_FACTOR, DEFAULT_MIN_COLLATERAL_FACTOR_FOR_LIQUIDATION,
        DEFAULT_MIN_COLLATERAL_FACTOR_FOR_OPEN_INTEREST_FOR_LONG, DEFAULT_MIN_COLLATERAL_FACTOR_FOR_OPEN_INTEREST_FOR_SHORT,
        DEFAULT_MAX_POSITIVE_POSITION_IMPACT_FACTOR, DEFAULT_MAX_NEGATIVE_POSITION_IMPACT_FACTOR,
        DEFAULT_MAX_POSITION_IMPACT_FACTOR_FOR_LIQUIDATIONS, DEFAULT_POSITION_IMPACT_EXPONENT,
        DEFAULT_POSITION_IMPACT_POSITIVE_FACTOR, DEFAULT_POSITION_IMPACT_NEGATIVE_FACTOR,
        DEFAULT_ORDER_FEE_FACTOR_FOR_POSITIVE_IMPACT, DEFAULT_ORDER_FEE_FACTOR_FOR_NEGATIVE_IMPACT,
        DEFAULT_LIQUIDATION_FEE_FACTOR, DEFAULT_POSITION_IMPACT_DISTRIBUTE_FACTOR,
        DEFAULT_MIN_POSITION_IMPACT_POOL_AMOUNT, DEFAULT_BORROWING_FEE_FACTOR_FOR_LONG,
        DEFAULT_BORROWING_FEE_FACTOR_FOR_SHORT, DEFAULT_BORROWING_FEE_EXPONENT_FOR_LONG,
        DEFAULT_BORROWING_FEE_EXPONENT_FOR_SHORT, DEFAULT_BORROWING_FEE_OPTIMAL_USAGE_FACTOR_FOR_LONG,
        DEFAULT_BORROWING_FEE_OPTIMAL_USAGE_FACTOR_FOR_SHORT, DEFAULT_BORROWING_FEE_BASE_FACTOR_FOR_LONG,
        DEFAULT_BORROWING_FEE_BASE_FACTOR_FOR_SHORT, DEFAULT_BORROWING_FEE_ABOVE_OPTIMAL_USAGE_FACTOR_FOR_LONG,
        DEFAULT_BORROWING_FEE_ABOVE_OPTIMAL_USAGE_FACTOR_FOR_SHORT, DEFAULT_FUNDING_FEE_EXPONENT,
        DEFAULT_FUNDING_FEE_FACTOR, DEFAULT_FUNDING_FEE_MAX_FACTOR_PER_SECOND, DEFAULT_FUNDING_FEE_MIN_FACTOR_PER_SECOND,
        DEFAULT_FUNDING_FEE_INCREASE_FACTOR_PER_SECOND, DEFAULT_FUNDING_FEE_DECREASE_FACTOR_PER_SECOND,
        DEFAULT_FUNDING_FEE_THRESHOLD_FOR_STABLE_FUNDING, DEFAULT_FUNDING_FEE_THRESHOLD_FOR_DECREASE_FUNDING,
        DEFAULT_RESERVE_FACTOR, DEFAULT_OPEN_INTEREST_RESERVE_FACTOR, DEFAULT_MAX_PNL_FACTOR_FOR_LONG_DEPOSIT,
        DEFAULT_MAX_PNL_FACTOR_FOR_SHORT_DEPOSIT, DEFAULT_MAX_PNL_FACTOR_FOR_LONG_WITHDRAWAL,
        DEFAULT_MAX_PNL_FACTOR_FOR_SHORT_WITHDRAWAL, DEFAULT_MAX_PNL_FACTOR_FOR_LONG_TRADER,
        DEFAULT_MAX_PNL_FACTOR_FOR_SHORT_TRADER, DEFAULT_MAX_PNL_FACTOR_FOR_LONG_ADL, DEFAULT_MAX_PNL_FACTOR_FOR_SHORT_ADL,
        DEFAULT_MIN_PNL_FACTOR_AFTER_LONG_ADL, DEFAULT_MIN_PNL_FACTOR_AFTER_SHORT_ADL,
        DEFAULT_MAX_POOL_AMOUNT_FOR_LONG_TOKEN, DEFAULT_MAX_POOL_AMOUNT_FOR_SHORT_TOKEN,
        DEFAULT_MAX_POOL_VALUE_FOR_DEPOSIT_LONG_TOKEN, DEFAULT_MAX_POOL_VALUE_FOR_DEPOSIT_SHORT_TOKEN,
        DEFAULT_MAX_OPEN_INTEREST_FOR_LONG, DEFAULT_MAX_OPEN_INTEREST_FOR_SHORT, DEFAULT_MIN_TOKENS_FOR_FIRST_DEPOSIT,
        DEFAULT_SKIP_BORROWING_FEE_FOR_SMALLER_SIDE, DEFAULT_IGNORE_OPEN_INTEREST_FOR_USAGE_FACTOR,
    ]
}

fn lookup(name: &str) -> Option<Val> { const_table().into_iter().find(|(n, _)| *n == name).map(|(_, v)| v) }

/// the documented default constant of a setting, derived from the setting's own name
fn documented_const_of_key(key: &str) -> String {
    match key {
        // one shared receiver share for all fee kinds
        "swap_fee_receiver_factor" | "order_fee_receiver_factor" | "liquidation_fee_receiver_factor"
        | "borrowing_fee_receiver_factor" => "DEFAULT_RECEIVER_FACTOR".into(),
        // naming variants of the constants
        "min_collateral_factor_for_open_interest_multiplier_for_long" => "DEFAULT_MIN_COLLATERAL_FACTOR_FOR_OPEN_INTEREST_FOR_LONG".into(),
        "min_collateral_factor_for_open_interest_multiplier_for_short" => "DEFAULT_MIN_COLLATERAL_FACTOR_FOR_OPEN_INTEREST_FOR_SHORT".into(),
        "max_pool_value_for_deposit_for_long_token" => "DEFAULT_MAX_POOL_VALUE_FOR_DEPOSIT_LONG_TOKEN".into(),
        "max_pool_value_for_deposit_for_short_token" => "DEFAULT_MAX_POOL_VALUE_FOR_DEPOSIT_SHORT_TOKEN".into(),
        // closed-market parameters start at their open-market base value
        "market_closed_min_collateral_factor_for_liquidation" => "DEFAULT_MIN_COLLATERAL_FACTOR_FOR_LIQUIDATION".into(),
        "market_closed_borrowing_fee_base_factor" => "DEFAULT_BORROWING_FEE_BASE_FACTOR_FOR_LONG".into(),
        "market_closed_borrowing_fee_above_optimal_usage_factor" => "DEFAULT_BORROWING_FEE_ABOVE_OPTIMAL_USAGE_FACTOR_FOR_LONG".into(),
        other => format!("DEFAULT_{}", other.to_uppercase()),
    }
}

fn documented_flag_default(flag: &str) -> Option<Val> {
    match flag {
        "market_closed_skip_borrowing_fee_for_smaller_side" => lookup("DEFAULT_SKIP_BORROWING_FEE_FOR_SMALLER_SIDE"),
        "enable_market_closed_params" => Some(Val::B(false)),
        other => lookup(&format!("DEFAULT_{}", other.to_uppercase())),
    }
}

fn pk(id: u64) -> Pubkey {
    let mut b = [0u8; 32];
    b[..8].copy_from_slice(&id.to_le_bytes());
    b[31] = 0xA5;
    Pubkey::new_from_array(b)
}

fn fresh_market(long: u64, short: u64) -> Result<Box<Market>, String> { shaped_market(1_000_003, long, short) }

/// a market of a given SHAPE: index / long / short token ids may coincide in any pattern
fn shaped_market(index: u64, long: u64, short: u64) -> Result<Box<Market>, String> {
    let mut m = Box::<Market>::default();
    m.init(255, pk(1_000_001), "SOL/USD", pk(1_000_002), pk(index), pk(long), pk(short), true)
        .map_err(|e| format!("init-error {e}"))?;
    Ok(m)
}

const KINDS: &[(&str, PoolKind)] = &[
    ("Primary", PoolKind::Primary), ("SwapImpact", PoolKind::SwapImpact), ("ClaimableFee", PoolKind::ClaimableFee),
    ("OpenInterestForLong", PoolKind::OpenInterestForLong), ("OpenInterestForShort", PoolKind::OpenInterestForShort),
    ("OpenInterestInTokensForLong", PoolKind::OpenInterestInTokensForLong),
    ("OpenInterestInTokensForShort", PoolKind::OpenInterestInTokensForShort),
    ("PositionImpact", PoolKind::PositionImpact), ("BorrowingFactor", PoolKind::BorrowingFactor),
    ("FundingAmountPerSizeForLong", PoolKind::FundingAmountPerSizeForLong),
    ("FundingAmountPerSizeForShort", PoolKind::FundingAmountPerSizeForShort),
    ("ClaimableFundingAmountPerSizeForLong", PoolKind::ClaimableFundingAmountPerSizeForLong),
    ("ClaimableFundingAmountPerSizeForShort", PoolKind::ClaimableFundingAmountPerSizeForShort),
    ("CollateralSumForLong", PoolKind::CollateralSumForLong), ("CollateralSumForShort", PoolKind::CollateralSumForShort),
    ("TotalBorrowing", PoolKind::TotalBorrowing),
];

/// (is_pure, raw long amount, raw short amount) read from the borsh image of the pool
fn pool_raw(m: &Market, kind: PoolKind) -> Option<(bool, u128, u128)> {
    let p = m.pool(kind)?;
    let mut buf = Vec::new();
    p.serialize(&mut buf).ok()?;
    if buf.len() != 48 { return None; }
    Some((buf[0] != 0, u128::from_le_bytes(buf[16..32].try_into().unwrap()), u128::from_le_bytes(buf[32..48].try_into().unwrap())))
}

/// run the real code on one request; requests carrying token ids re-initialise a market
fn exec_inner(t: &[&str]) -> Option<String> {
    Some(match t {
        ["c17", "key", key] => {
            let m = match fresh_market(11, 12) { Ok(m) => m, Err(e) => return Some(e) };
            match key.parse::<MarketConfigKey>() {
                Err(_) => "nokey".into(),
                Ok(_) => match m.get_config(key) { Ok(v) => format!("ok {v}"), Err(_) => "unimplemented".into() },
            }
        }
        ["c17", "flag", flag] => {
            let m = match fresh_market(11, 12) { Ok(m) => m, Err(e) => return Some(e) };
            match m.get_config_flag(flag) { Ok(b) => format!("ok {}", b as u8), Err(_) => "noflag".into() }
        }
        ["c17", "pool", l, s, kind] => {
            let (l, s): (u64, u64) = (l.parse().ok()?, s.parse().ok()?);
            let m = match fresh_market(l, s) { Ok(m) => m, Err(e) => return Some(e) };
            let kind = KINDS.iter().find(|(n, _)| n == kind)?.1;
            match pool_raw(&m, kind) { Some((p, a, b)) => format!("ok {} {a} {b}", p as u8), None => "nopool".into() }
        }
        // the same three questions on a market of an explicit shape (index, long, short token ids)
        ["c17", "skey", i, l, s, key] => {
            let m = match shaped_market(i.parse().ok()?, l.parse().ok()?, s.parse().ok()?) { Ok(m) => m, Err(e) => return Some(e) };
            match key.parse::<MarketConfigKey>() {
                Err(_) => "nokey".into(),
                Ok(_) => match m.get_config(key) { Ok(v) => format!("ok {v}"), Err(_) => "unimplemented".into() },
            }
        }
        ["c17", "sflag", i, l, s, flag] => {
            let m = match shaped_market(i.parse().ok()?, l.parse().ok()?, s.parse().ok()?) { Ok(m) => m, Err(e) => return Some(e) };
            match m.get_config_flag(flag) { Ok(b) => format!("ok {}", b as u8), Err(_) => "noflag".into() }
        }
        ["c17", "spool", i, l, s, kind] => {
            let m = match shaped_market(i.parse().ok()?, l.parse().ok()?, s.parse().ok()?) { Ok(m) => m, Err(e) => return Some(e) };
            let kind = KINDS.iter().find(|(n, _)| n == kind)?.1;
            match pool_raw(&m, kind) { Some((p, a, b)) => format!("ok {} {a} {b}", p as u8), None => "nopool".into() }
        }
        ["c17", "const", name] => match lookup(name) {
            Some(Val::N(n)) => format!("ok {n}"),
            Some(Val::B(b)) => format!("ok {}", b as u8),
            None => "noconst".into(),
        },
        ["c17", "nkeys"] => format!("ok {} {} {}", MarketConfigKey::iter().count(), MarketConfigFlag::iter().count(), KINDS.len()),
        _ => return None,
    })
}

fn exec(req: &str) -> String {
    let t: Vec<&str> = req.split(' ').collect();
    match std::panic::catch_unwind(|| exec_inner(&t)) {
        Ok(Some(s)) => s, Ok(None) => "bad-op".into(), Err(_) => "panic".into(),
    }
}

/// the property, checked on the implementation's answer; None = no oracle for this op
fn oracle(req: &str, resp: &str) -> Option<Result<(), String>> {
    let t: Vec<&str> = req.split(' ').collect();
    let shape = |i: &str, l: &str, s: &str| format!("market with index token {i}, long token {l}, short token {s}{}", if l == s { " (single-token)" } else { "" });
    match t.as_slice() {
        // the defaults do not depend on the shape of the market: same expectation as the plain ops
        ["c17", "skey", i, l, s, key] => oracle(&format!("c17 key {key}"), resp).map(|r| r.map_err(|e| format!("{}: {e}", shape(i, l, s)))),
        ["c17", "sflag", i, l, s, flag] => oracle(&format!("c17 flag {flag}"), resp).map(|r| r.map_err(|e| format!("{}: {e}", shape(i, l, s)))),
        ["c17", "spool", i, l, s, kind] => oracle(&format!("c17 pool {l} {s} {kind}"), resp).map(|r| r.map_err(|e| format!("{}: {e}", shape(i, l, s)))),
        ["c17", "key", key] => {
            if key.parse::<MarketConfigKey>().is_err() { return None; }
            let cname = documented_const_of_key(key);
            Some(match (lookup(&cname), resp.strip_prefix("ok ").and_then(|x| x.parse::<u128>().ok())) {
                (Some(Val::N(want)), Some(got)) if want == got => Ok(()),
                (Some(Val::N(want)), Some(got)) => Err(format!("fresh market has {key} = {got} but its documented default {cname} = {want}")),
                (None, _) => Err(format!("no documented default constant {cname} for key {key}")),
                (_, None) => Err(format!("key {key} is not readable on a fresh market ({resp})")),
                (Some(Val::B(_)), _) => Err(format!("{cname} is not a factor")),
            })
        }
        ["c17", "flag", flag] => {
            if flag.parse::<MarketConfigFlag>().is_err() { return None; }
            Some(match (documented_flag_default(flag), resp) {
                (Some(Val::B(want)), r) if r == format!("ok {}", want as u8) => Ok(()),
                (Some(Val::B(want)), r) => Err(format!("fresh market has flag {flag}: {r}, documented default {want}")),
                _ => Err(format!("no documented default for flag {flag}")),
            })
        }
        ["c17", "pool", l, s, kind] => {
            let same = l == s;
            let always_impure = matches!(*kind, "PositionImpact" | "BorrowingFactor" | "TotalBorrowing");
            let want = format!("ok {} 0 0", (same && !always_impure) as u8);
            Some(if resp == want { Ok(()) } else { Err(format!("pool {kind} of a fresh market (tokens {}) is `{resp}`, expected `{want}`", if same { "coincide" } else { "differ" })) })
        }
        _ => None,
    }
}

fn main() {
    h_store::install_stubs();
    let cli = cli();
    let mut out = Out::new();
    std::panic::set_hook(Box::new(|_| {}));
    let reqs: Vec<String> = if cli.mode == "replay" {
        read_requests(cli.file.as_deref().unwrap())
    } else {
        let mut r = Rng::new(cli.seed);
        let mut v = vec!["c17 nkeys".to_string()];
        for key in MarketConfigKey::iter() { v.push(format!("c17 key {key}")); }
        for flag in MarketConfigFlag::iter() { v.push(format!("c17 flag {flag}")); }
        for (n, _) in const_table() { v.push(format!("c17 const {n}")); }
        v.push("c17 key not_a_key".into());
        // pure and impure markets with random token ids
        let rounds = (cli.n / 40).max(2);
        for i in 0..rounds {
            let l = r.range(1, 1 << 20);
            let s = if i % 2 == 0 { l } else { let mut s = r.range(1, 1 << 20); if s == l { s += 1; } s };
            for (n, _) in KINDS { v.push(format!("c17 pool {l} {s} {n}")); }
        }
        // every key, flag and pool kind on every SHAPE of market: single-token (long == short) with the index token
        // equal to / different from it; two-token with the index token equal to the long / the short / neither
        let (a, b, c) = (r.range(1, 1 << 20), (1 << 20) + r.range(1, 1 << 20), (1 << 21) + r.range(1, 1 << 20));
        for (i, l, s) in [(c, a, a), (a, a, a), (a, a, b), (b, a, b), (c, a, b)] {
            for key in MarketConfigKey::iter() { v.push(format!("c17 skey {i} {l} {s} {key}")); }
            for flag in MarketConfigFlag::iter() { v.push(format!("c17 sflag {i} {l} {s} {flag}")); }
            for (n, _) in KINDS { v.push(format!("c17 spool {i} {l} {s} {n}")); }
        }
        v
    };
    for req in reqs {
        let resp = exec(&req);
        let op = req.split(' ').nth(1).unwrap_or("?").to_string();
        out.stat(&format!("op.{op}"));
        if resp == "panic" { out.oracle_fail("panicked", &req); }
        match oracle(&req, &resp) {
            Some(Err(why)) => out.oracle_fail(&why, &req),
            Some(Ok(())) => out.stat("oracle.checked"),
            None => out.stat("oracle.none"),
        }
        let nt = resp.starts_with("ok ") && resp != "ok 0" && resp != "ok 0 0 0";
        if op.starts_with('s') { out.stat(&format!("shape.{}", { let t: Vec<&str> = req.split(' ').collect(); match (t[2] == t[3], t[2] == t[4], t[3] == t[4]) { (true, _, true) => "all_equal", (false, _, true) => "single_token", (true, _, false) => "index_is_long", (_, true, false) => "index_is_short", _ => "all_differ" } })); }
        out.case_nt(&req, &resp, nt);
    }
    out.finish();
}
