//! C31 correspondence + oracle (program side): the real `Store::order_fee_discount_factor`
//! on a `Store` whose GT table was written through `GtState::set_order_fee_discount_factors`.
//! Request: `disc prog <maxRank> <rank> <isRef> <referral> <f0> … <fk>`.
use anchor_lang::error::Error as AErr;
use gmsol_store::states::Store;
use gmsol_store::verif::c30 as hk;
use hcommon::*;
use num_bigint::BigUint;

const UNIT: u128 = 100_000_000_000_000_000_000;

/// zeroed, 16-aligned heap storage for a zero-copy `Store`
fn with_store<R>(f: impl FnOnce(&mut Store) -> R) -> R {
    let n = std::mem::size_of::<Store>();
    let mut buf = vec![0u128; n / 16 + 1];
    let bytes: &mut [u8] = bytemuck::cast_slice_mut(&mut buf);
    let store: &mut Store = bytemuck::from_bytes_mut(&mut bytes[..n]);
    f(store)
}

fn err_name(e: &AErr) -> String {
    match e {
        AErr::AnchorError(a) => a.error_name.clone(),
        AErr::ProgramError(p) => format!("{:?}", p.program_error),
    }
}

fn run(t: &[&str]) -> Option<String> {
    if t.len() < 6 || t[0] != "disc" || t[1] != "prog" { return None; }
    let max_rank: u64 = t[2].parse().ok()?;
    let rank: u8 = t[3].parse().ok()?;
    let is_ref = match t[4] { "1" => true, "0" => false, _ => return None };
    let referral: u128 = t[5].parse().ok()?;
    let fs: Vec<u128> = t[6..].iter().map(|x| x.parse::<u128>().ok()).collect::<Option<Vec<_>>>()?;
    if max_rank > 15 { return None; }
    Some(with_store(|store| {
        let ranks: Vec<u64> = (1..=max_rank).map(|i| i * 1000).collect();
        hk::gt_init(hk::store_gt_mut(store), 6, UNIT / 20, UNIT + UNIT / 100, 1_000_000, &ranks).expect("gt init");
        if hk::gt_set_order_fee_discount_factors(hk::store_gt_mut(store), &fs).is_err() {
            return "err Set".to_string();
        }
        *store.get_factor_mut("order_fee_discount_for_referred_user").expect("factor key") = referral;
        match store.order_fee_discount_factor(rank, is_ref) {
            Ok(d) => format!("ok {d}"),
            Err(e) => match err_name(&e).as_str() {
                "InvalidArgument" => "err Rank".into(),
                "Internal" => "err Complement".into(),
                "ValueOverflow" => "err Overflow".into(),
                other => format!("err Other({other})"),
            },
        }
    }))
}

fn exec(req: &str) -> String {
    let t: Vec<&str> = req.split(' ').collect();
    match std::panic::catch_unwind(|| run(&t)) {
        Ok(Some(s)) => s,
        Ok(None) => "bad-op".into(),
        Err(_) => "err Index".into(),
    }
}

/// Property oracle (exact big integers, independent of the Lean model).
/// `Err(msg)` = property violated on the implementation.
fn oracle(req: &str, resp: &str) -> Result<bool, String> {
    let t: Vec<&str> = req.split(' ').collect();
    let max_rank: u64 = t[2].parse().unwrap();
    let rank: u64 = t[3].parse().unwrap();
    let is_ref = t[4] == "1";
    let b = t[5].parse::<u128>().unwrap();
    let fs: Vec<u128> = t[6..].iter().map(|x| x.parse().unwrap()).collect();
    let table_ok = fs.len() as u64 == max_rank + 1 && fs.iter().all(|f| *f <= UNIT);
    if resp == "err Set" {
        return if table_ok { Err("valid table rejected".into()) } else { Ok(false) };
    }
    if !table_ok { return Err("table with a factor above 100% (or wrong length) was stored".into()); }
    if rank > max_rank {
        return if resp == "err Rank" { Ok(false) } else { Err(format!("rank above max accepted: {resp}")) };
    }
    let a = fs[rank as usize];
    let u = BigUint::from(UNIT);
    match resp.strip_prefix("ok ") {
        Some(d) => {
            let d: u128 = d.parse().unwrap();
            if d > UNIT { return Err(format!("discount {d} above 100%")); }
            if !is_ref {
                if d != a { return Err("unreferred discount differs from the rank discount".into()); }
                return Ok(a != 0);
            }
            if b > UNIT { return Err("referral factor above 100% accepted".into()); }
            if d < a { return Err(format!("referred discount {d} below unreferred {a}")); }
            // |d − (1 − (1−A)(1−B))| < 1 ulp, cross-multiplied by U
            let exact_times_u = &u * &u - (&u - BigUint::from(a)) * (&u - BigUint::from(b));
            let du = BigUint::from(d) * &u;
            let diff = if du > exact_times_u { &du - &exact_times_u } else { &exact_times_u - &du };
            if diff >= u { return Err(format!("discount {d} differs from 1-(1-A)(1-B) by a unit or more")); }
            Ok(a != 0 && b != 0)
        }
        None => {
            // valid fractions can never fail
            if !is_ref || b <= UNIT { Err(format!("valid inputs rejected: {resp}")) } else if resp == "err Complement" { Ok(false) } else { Err(format!("unexpected {resp}")) }
        }
    }
}

fn frac(r: &mut Rng) -> u128 {
    match r.below(10) {
        0 => 0,
        1 => UNIT,
        2 => UNIT - 1,
        3 => UNIT + 1 + r.below(3) as u128,
        4 => 1 + r.below(3) as u128,
        5 => UNIT / 1000 * r.below(1001) as u128,
        6 => UNIT / 100 * r.below(101) as u128,
        7 => r.num(128),
        _ => r.u128() % (UNIT + 1),
    }
}

fn gen_req(r: &mut Rng) -> String {
    let max_rank = r.below(16);
    let rank = match r.below(10) { 0 => max_rank + 1, 1 => r.below(256), _ => r.below(max_rank + 1) };
    let n = if r.chance(1, 12) { r.below(17) } else { max_rank + 1 };
    let mostly_valid = r.chance(5, 6);
    let fs: Vec<String> = (0..n).map(|_| { let mut f = frac(r); if mostly_valid && f > UNIT { f %= UNIT + 1; } f.to_string() }).collect();
    let mut referral = frac(r);
    if r.chance(5, 6) && referral > UNIT { referral %= UNIT + 1; }
    format!("disc prog {max_rank} {rank} {} {referral} {}", r.below(2), fs.join(" ")).trim_end().to_string()
}

fn main() {
    h_store::install_stubs();
    let cli = cli();
    let mut out = Out::new();
    std::panic::set_hook(Box::new(|_| {}));
    let reqs: Vec<String> = if cli.mode == "replay" {
        read_requests(cli.file.as_deref().unwrap())
    } else {
        let mut r = Rng::new(cli.seed);
        r = Rng(r.next()); // decorrelate: hcommon streams of consecutive seeds are one draw apart
        (0..cli.n).map(|_| gen_req(&mut r)).collect()
    };
    for req in reqs {
        let resp = exec(&req);
        out.stat(&format!("resp.{}", resp.split(' ').take(2).collect::<Vec<_>>().join("_").replace(|c: char| c.is_ascii_digit(), "")));
        if resp == "bad-op" { out.case(&req, &resp); continue; }
        let nt = match oracle(&req, &resp) {
            Ok(nt) => { out.stat("oracle.checked"); nt }
            Err(what) => { out.oracle_fail(&what, &req); false }
        };
        if nt { out.stat("nontrivial"); }
        out.stat(if req.split(' ').nth(4) == Some("1") { "referred" } else { "unreferred" });
        out.case_nt(&req, &resp, nt);
    }
    out.finish();
}
