//! C33 correspondence + oracle: the store program's referral instructions (`prepare_user`,
//! `initialize_referral_code`, `set_referrer`, `transfer_referral_code`,
//! `cancel_referral_code_transfer`, `accept_referral_code`) run through the REAL native entrypoint
//! `gmsol_store::entry`, so every constraint of the Anchor `Accounts` structs (PDA seeds, `has_one`,
//! `key() != key()` checks, …) is exercised, not transcribed. The only emulated piece is the system
//! program's `CreateAccount` behind Anchor `init` / `init_if_needed`.
//!
//! Protocol `ref <op> <sid> …` (users 0..5, codes 0..4; code 9 = the all-zero code):
//!   new sid | prepare sid u | initcode sid u c | setref sid u c v | transfer sid u c v
//!   cancel sid u c | accept sid n c v        (v = which user account is passed as `user`/`referrer_user`/`receiver_user`)
use anchor_lang::prelude::*;
use anchor_lang::solana_program::instruction::Instruction;
use anchor_lang::solana_program::program_stubs::{set_syscall_stubs, SyscallStubs};
use anchor_lang::{Discriminator, InstructionData};
use bytemuck::Zeroable;
use gmsol_store::states::user::{ReferralCodeV2, UserHeader};
use gmsol_store::states::{Seed, Store};
use hcommon::*;
use std::collections::BTreeMap;

struct Stubs;
impl SyscallStubs for Stubs {
    fn sol_get_clock_sysvar(&self, var_addr: *mut u8) -> u64 {
        let clock = anchor_lang::solana_program::clock::Clock { slot: 1000, epoch_start_timestamp: 0, epoch: 0, leader_schedule_epoch: 0, unix_timestamp: 1_700_000_000 };
        unsafe { std::ptr::write_unaligned(var_addr as *mut anchor_lang::solana_program::clock::Clock, clock) };
        0
    }
    fn sol_get_rent_sysvar(&self, var_addr: *mut u8) -> u64 {
        unsafe { std::ptr::write_unaligned(var_addr as *mut anchor_lang::solana_program::rent::Rent, anchor_lang::solana_program::rent::Rent::default()) };
        0
    }
    fn sol_get_last_restart_slot(&self, var_addr: *mut u8) -> u64 { unsafe { std::ptr::write_unaligned(var_addr as *mut u64, 0) }; 0 }
    fn sol_log(&self, _m: &str) {}
    fn sol_invoke_signed(&self, ix: &Instruction, infos: &[AccountInfo], _seeds: &[&[&[u8]]]) -> anchor_lang::solana_program::entrypoint::ProgramResult {
        if ix.program_id == anchor_lang::system_program::ID && ix.data.len() == 52 && ix.data[..4] == [0, 0, 0, 0] {
            let lamports = u64::from_le_bytes(ix.data[4..12].try_into().unwrap());
            let space = u64::from_le_bytes(ix.data[12..20].try_into().unwrap()) as usize;
            let owner = Pubkey::new_from_array(ix.data[20..52].try_into().unwrap());
            let from = infos.iter().find(|i| *i.key == ix.accounts[0].pubkey).ok_or(ProgramError::NotEnoughAccountKeys)?;
            let to = infos.iter().find(|i| *i.key == ix.accounts[1].pubkey).ok_or(ProgramError::NotEnoughAccountKeys)?;
            if to.lamports() != 0 || !to.data_is_empty() || *to.owner != anchor_lang::system_program::ID { return Err(ProgramError::AccountAlreadyInitialized); }
            if from.lamports() < lamports { return Err(ProgramError::InsufficientFunds); }
            **from.lamports.borrow_mut() -= lamports;
            **to.lamports.borrow_mut() += lamports;
            to.realloc(space, true)?;
            to.assign(&owner);
            return Ok(());
        }
        Err(ProgramError::InvalidInstructionData)
    }
}

extern "C" { fn dup(fd: i32) -> i32; fn dup2(a: i32, b: i32) -> i32; fn close(fd: i32) -> i32; }
struct Quiet { saved: i32 }
impl Quiet {
    fn new() -> Self {
        use std::io::Write; use std::os::fd::AsRawFd;
        std::io::stdout().flush().unwrap();
        let null = std::fs::OpenOptions::new().write(true).open("/dev/null").unwrap();
        let saved = unsafe { dup(1) };
        unsafe { dup2(null.as_raw_fd(), 1) };
        Quiet { saved }
    }
}
impl Drop for Quiet {
    fn drop(&mut self) { use std::io::Write; let _ = std::io::stdout().flush(); unsafe { dup2(self.saved, 1); close(self.saved); } }
}

#[repr(C)]
struct KeyBox { pad: u64, key: Pubkey }
struct Acc { key: KeyBox, lamports: u64, buf: Vec<u128>, len: usize, owner: Pubkey, signer: bool, writable: bool, exec: bool }
impl Acc {
    fn with_cap(key: Pubkey, owner: Pubkey, data: &[u8], cap: usize) -> Self {
        let cap = cap.max(data.len());
        let mut buf = vec![0u128; (cap + 8) / 16 + 2];
        bytemuck::cast_slice_mut::<u128, u8>(&mut buf)[8..8 + data.len()].copy_from_slice(data);
        Acc { key: KeyBox { pad: 0, key }, lamports: 1_000_000_000, buf, len: data.len(), owner, signer: false, writable: false, exec: false }
    }
    fn new(key: Pubkey, owner: Pubkey, data: &[u8]) -> Self { Self::with_cap(key, owner, data, 0) }
    fn signer(mut self) -> Self { self.signer = true; self }
    fn writable(mut self) -> Self { self.writable = true; self }
    fn exec(mut self) -> Self { self.exec = true; self }
    fn lamports(mut self, l: u64) -> Self { self.lamports = l; self }
}

fn call_entry(accs: &mut [Acc], data: &[u8]) -> (bool, Vec<(Pubkey, u64, Vec<u8>)>) {
    let infos: Vec<AccountInfo> = accs.iter_mut().map(|a| {
        let d = &mut bytemuck::cast_slice_mut::<u128, u8>(&mut a.buf)[8..8 + a.len];
        AccountInfo::new(&a.key.key, a.signer, a.writable, &mut a.lamports, d, &a.owner, a.exec, 0)
    }).collect();
    fn go<'a>(infos: &[AccountInfo<'a>], data: &[u8]) -> anchor_lang::solana_program::entrypoint::ProgramResult {
        let infos: &'a [AccountInfo<'a>] = unsafe { std::mem::transmute(infos) };
        let _q = Quiet::new();
        gmsol_store::entry(&gmsol_store::ID, infos, data)
    }
    let r = go(&infos, data);
    let after = infos.iter().map(|i| (*i.owner, i.lamports(), i.data.borrow().to_vec())).collect();
    (r.is_ok(), after)
}

const NU: u8 = 6;
const NC: u8 = 5;
fn owner_key(u: u8) -> Pubkey { Pubkey::new_from_array([20 + u; 32]) }
fn code_bytes(c: u8) -> [u8; 8] { if c == 9 { [0; 8] } else { [c + 1, 0, 0, 0, 0, 0, 0, 7] } }

struct Consts { store: Pubkey, user_pda: Vec<Pubkey>, code_pda: BTreeMap<u8, Pubkey> }
fn consts() -> Consts {
    let store = Pubkey::new_from_array([5; 32]);
    let user_pda = (0..NU).map(|u| Pubkey::find_program_address(&[UserHeader::SEED, store.as_ref(), owner_key(u).as_ref()], &gmsol_store::ID).0).collect();
    let mut code_pda = BTreeMap::new();
    for c in (0..NC).chain([9u8]) { code_pda.insert(c, Pubkey::find_program_address(&[ReferralCodeV2::SEED, store.as_ref(), &code_bytes(c)], &gmsol_store::ID).0); }
    Consts { store, user_pda, code_pda }
}

#[derive(Default)]
struct World { users: BTreeMap<u8, Vec<u8>>, codes: BTreeMap<u8, Vec<u8>> }

fn user_of(c: &Consts, k: &Pubkey) -> String { (0..NU).find(|u| owner_key(*u) == *k).map(|u| u.to_string()).unwrap_or(if *k == Pubkey::default() { "_".into() } else { let _ = c; "?".into() }) }
fn code_of(c: &Consts, k: &Pubkey) -> String { c.code_pda.iter().find(|(_, v)| *v == k).map(|(i, _)| i.to_string()).unwrap_or(if *k == Pubkey::default() { "_".into() } else { "?".into() }) }

fn load_user(b: &[u8]) -> UserHeader { bytemuck::pod_read_unaligned::<UserHeader>(&b[8..8 + std::mem::size_of::<UserHeader>()]) }
fn load_code(b: &[u8]) -> ReferralCodeV2 { bytemuck::pod_read_unaligned::<ReferralCodeV2>(&b[8..8 + std::mem::size_of::<ReferralCodeV2>()]) }

fn digest(c: &Consts, w: &World) -> String {
    let us: Vec<String> = w.users.iter().map(|(u, b)| {
        let h = load_user(b);
        let r = h.referral();
        // `referee_count` is private: third field of the Pod `Referral` (two pubkeys, then u128)
        let cnt = u128::from_le_bytes(bytemuck::bytes_of(r)[64..80].try_into().unwrap());
        format!("{u}:{}:{}:{cnt}", r.referrer().map(|k| user_of(c, k)).unwrap_or("_".into()), r.code().map(|k| code_of(c, k)).unwrap_or("_".into()))
    }).collect();
    let cs: Vec<String> = w.codes.iter().map(|(i, b)| { let cd = load_code(b); format!("{i}:{}:{}", user_of(c, &cd.owner), user_of(c, cd.next_owner())) }).collect();
    format!("users=[{}] codes=[{}]", us.join(","), cs.join(","))
}

fn acc_user(c: &Consts, w: &World, u: u8) -> Acc {
    match w.users.get(&u) {
        Some(b) => Acc::new(c.user_pda[u as usize], gmsol_store::ID, b).writable(),
        None => Acc::with_cap(c.user_pda[u as usize], anchor_lang::system_program::ID, &[], 1024).writable().lamports(0),
    }
}
fn acc_code(c: &Consts, w: &World, i: u8) -> Acc {
    match w.codes.get(&i) {
        Some(b) => Acc::new(c.code_pda[&i], gmsol_store::ID, b).writable(),
        None => Acc::with_cap(c.code_pda[&i], anchor_lang::system_program::ID, &[], 512).writable().lamports(0),
    }
}
fn acc_store(c: &Consts) -> Acc {
    let s: Box<Store> = Box::new(Zeroable::zeroed());
    let mut d = Store::DISCRIMINATOR.to_vec();
    d.extend_from_slice(bytemuck::bytes_of(&*s));
    Acc::new(c.store, gmsol_store::ID, &d)
}
fn acc_signer(u: u8) -> Acc { Acc::new(owner_key(u), anchor_lang::system_program::ID, &[]).signer().writable() }
fn acc_sys() -> Acc { Acc::new(anchor_lang::system_program::ID, anchor_lang::system_program::ID, &[]).exec() }

fn p8(t: &[&str], i: usize) -> Option<u8> { t.get(i)?.parse().ok() }

/// snapshot used by the property oracle: (referrer, code) per user and (owner, next) per code
type Snap = (BTreeMap<u8, (String, String)>, BTreeMap<u8, (String, String)>);
fn snap(c: &Consts, w: &World) -> Snap {
    (w.users.iter().map(|(u, b)| { let h = load_user(b); (*u, (h.referral().referrer().map(|k| user_of(c, k)).unwrap_or("_".into()), h.referral().code().map(|k| code_of(c, k)).unwrap_or("_".into()))) }).collect(),
     w.codes.iter().map(|(i, b)| { let cd = load_code(b); (*i, (user_of(c, &cd.owner), user_of(c, cd.next_owner()))) }).collect())
}

/// the property, checked on the real account bytes after every successful operation
fn oracle(before: &Snap, after: &Snap, op: &str, signer: u8, req: &str, out: &mut Out) {
    for (u, (r, _)) in &after.0 {
        if *r == u.to_string() { out.oracle_fail(&format!("user {u} refers themselves"), req); }
        if let Some((r0, _)) = before.0.get(u) {
            if r0 != "_" && r0 != r { out.oracle_fail(&format!("referrer of user {u} changed from {r0} to {r}"), req); }
            if r0 == "_" && r != "_" {
                // set now: never to a user already referred by them
                if let Ok(v) = r.parse::<u8>() { if before.0.get(&v).map(|x| x.0 == u.to_string()).unwrap_or(false) { out.oracle_fail(&format!("mutual referral {u} <-> {v}"), req); } }
                if op != "setref" || signer != *u { out.oracle_fail("referrer set by something else than the user's own set_referrer", req); }
            }
        }
    }
    // a code belongs to exactly one user: user.code = c  <->  code.owner = user
    for (u, (_, cd)) in &after.0 {
        if cd != "_" { let ok = cd.parse::<u8>().ok().and_then(|i| after.1.get(&i)).map(|x| x.0 == u.to_string()).unwrap_or(false); if !ok { out.oracle_fail(&format!("user {u} holds code {cd} it does not own"), req); } }
    }
    for (i, (o, _)) in &after.1 {
        let holders: Vec<&u8> = after.0.iter().filter(|(_, x)| x.1 == i.to_string()).map(|(u, _)| u).collect();
        if holders.len() != 1 || holders[0].to_string() != *o { out.oracle_fail(&format!("code {i}: owner {o} but held by {holders:?}"), req); }
        if let Some((o0, n0)) = before.1.get(i) {
            if o0 != o {
                if op != "accept" { out.oracle_fail(&format!("code {i} changed owner outside accept"), req); }
                if *o != signer.to_string() || n0 != o { out.oracle_fail(&format!("code {i} went to {o}, not to the accepting proposed owner"), req); }
            }
        }
    }
}

fn exec(c: &Consts, ws: &mut BTreeMap<String, World>, req: &str, out: &mut Out) -> (String, bool) {
    let t: Vec<&str> = req.split(' ').collect();
    let bad = || ("bad-op".to_string(), false);
    if t.len() < 3 || t[0] != "ref" { return bad(); }
    let sid = t[2].to_string();
    if t[1] == "new" { if t.len() != 3 { return bad(); } ws.insert(sid, World::default()); return (format!("ok | {}", digest(c, &ws[t[2]])), false); }
    let Some(w) = ws.get_mut(&sid) else { return bad() };
    let before = snap(c, w);
    let uok = |u: Option<u8>| u.filter(|x| *x < NU);
    let cok = |i: Option<u8>| i.filter(|x| *x < NC || *x == 9);
    // (accounts, instruction data, [(account index, is user?, id)] to write back, signer)
    let (mut accs, data, wb, signer): (Vec<Acc>, Vec<u8>, Vec<(usize, bool, u8)>, u8) = match t[1] {
        "prepare" => {
            let Some(u) = uok(p8(&t, 3)) else { return bad() };
            if t.len() != 4 { return bad(); }
            (vec![acc_signer(u), acc_store(c), acc_user(c, w, u), acc_sys()], gmsol_store::instruction::PrepareUser {}.data(), vec![(2, true, u)], u)
        }
        "initcode" => {
            let (Some(u), Some(i)) = (uok(p8(&t, 3)), cok(p8(&t, 4))) else { return bad() };
            if t.len() != 5 { return bad(); }
            (vec![acc_signer(u), acc_store(c), acc_code(c, w, i), acc_user(c, w, u), acc_sys()],
             gmsol_store::instruction::InitializeReferralCode { code: code_bytes(i) }.data(), vec![(2, false, i), (3, true, u)], u)
        }
        "setref" => {
            let (Some(u), Some(i), Some(v)) = (uok(p8(&t, 3)), cok(p8(&t, 4)), uok(p8(&t, 5))) else { return bad() };
            if t.len() != 6 { return bad(); }
            if u == v {
                // the same account passed twice: one shared buffer is not expressible here; Solana would hand the
                // program the same account for both, and the `referrer_user.key() != user.key()` constraint rejects it
                let mut accs = vec![acc_signer(u), acc_store(c), acc_user(c, w, u), acc_code(c, w, i), acc_user(c, w, v)];
                let (ok, _) = call_entry(&mut accs, &gmsol_store::instruction::SetReferrer { code: code_bytes(i) }.data());
                if ok { out.oracle_fail("self referral accepted", req); }
                return (format!("{} | {}", if ok { "ok" } else { "err" }, digest(c, w)), false);
            }
            (vec![acc_signer(u), acc_store(c), acc_user(c, w, u), acc_code(c, w, i), acc_user(c, w, v)],
             gmsol_store::instruction::SetReferrer { code: code_bytes(i) }.data(), vec![(2, true, u), (4, true, v)], u)
        }
        "transfer" => {
            let (Some(u), Some(i), Some(v)) = (uok(p8(&t, 3)), cok(p8(&t, 4)), uok(p8(&t, 5))) else { return bad() };
            if t.len() != 6 { return bad(); }
            let wb = if u == v { vec![] } else { vec![(3, false, i)] };
            (vec![acc_signer(u), acc_store(c), acc_user(c, w, u), acc_code(c, w, i), acc_user(c, w, v)],
             gmsol_store::instruction::TransferReferralCode {}.data(), wb, u)
        }
        "cancel" => {
            let (Some(u), Some(i)) = (uok(p8(&t, 3)), cok(p8(&t, 4))) else { return bad() };
            if t.len() != 5 { return bad(); }
            (vec![acc_signer(u), acc_store(c), acc_user(c, w, u), acc_code(c, w, i)], gmsol_store::instruction::CancelReferralCodeTransfer {}.data(), vec![(3, false, i)], u)
        }
        "accept" => {
            let (Some(n), Some(i), Some(v)) = (uok(p8(&t, 3)), cok(p8(&t, 4)), uok(p8(&t, 5))) else { return bad() };
            if t.len() != 6 { return bad(); }
            let wb = if n == v { vec![] } else { vec![(2, true, v), (3, false, i), (4, true, n)] };
            (vec![acc_signer(n), acc_store(c), acc_user(c, w, v), acc_code(c, w, i), acc_user(c, w, n)],
             gmsol_store::instruction::AcceptReferralCode {}.data(), wb, n)
        }
        _ => return bad(),
    };
    // consent probe (independent of the model): the same instruction with the same accounts but WITHOUT the signature of
    // its first account (the user / the accepting proposed owner) must be rejected; it runs on a copy, nothing is kept
    {
        let mut probe: Vec<Acc> = accs.iter().map(|a| Acc { key: KeyBox { pad: a.key.pad, key: a.key.key }, lamports: a.lamports, buf: a.buf.clone(), len: a.len, owner: a.owner, signer: a.signer, writable: a.writable, exec: a.exec }).collect();
        probe[0].signer = false;
        let (pok, _) = call_entry(&mut probe, &data);
        if pok { out.oracle_fail(&format!("`{}` went through without the signature of the acting user (for accept: the proposed new owner)", t[1]), req); }
        out.stat("probe.unsigned");
    }
    let (ok, after) = call_entry(&mut accs, &data);
    let alias = (t[1] == "transfer" || t[1] == "accept") && wb.is_empty();
    if ok && alias { out.oracle_fail("an instruction with the same user account on both sides succeeded", req); }
    if ok {
        for (idx, is_user, id) in wb {
            let (owner, _, bytes) = &after[idx];
            if *owner == gmsol_store::ID && !bytes.is_empty() { if is_user { w.users.insert(id, bytes.clone()); } else { w.codes.insert(id, bytes.clone()); } }
        }
        let now = snap(c, w);
        oracle(&before, &now, t[1], signer, req, out);
        let changed = now != before;
        return (format!("ok | {}", digest(c, w)), changed);
    }
    (format!("err | {}", digest(c, w)), false)
}

// ---------------------------------------------------------------- generator (state-relative)

struct Gen { sid: usize, left: u64 }

fn gen_next(r: &mut Rng, c: &Consts, ws: &BTreeMap<String, World>, g: &mut Gen) -> String {
    if g.left == 0 { g.sid += 1; g.left = r.range(15, 70); return format!("ref new r{}", g.sid); }
    g.left -= 1;
    let sid = format!("r{}", g.sid);
    let w = &ws[&sid];
    let (us, cs) = snap(c, w);
    let any_user = |r: &mut Rng| r.below(NU as u64) as u8;
    let any_code = |r: &mut Rng| if r.chance(1, 12) { 9 } else { r.below(NC as u64) as u8 };
    let existing: Vec<u8> = us.keys().copied().collect();
    let pick_user = |r: &mut Rng| -> u8 { if existing.is_empty() || r.chance(1, 6) { any_user(r) } else { existing[r.below(existing.len() as u64) as usize] } };
    let owned: Vec<(u8, u8, u8)> = cs.iter().filter_map(|(i, (o, n))| Some((*i, o.parse().ok()?, n.parse().ok()?))).collect();
    match r.below(14) {
        0 | 1 | 2 => format!("ref prepare {sid} {}", if r.chance(2, 3) { (0..NU).find(|u| !us.contains_key(u)).unwrap_or(any_user(r)) } else { any_user(r) }),
        3 | 4 => {
            let u = if r.chance(3, 4) { existing.iter().copied().find(|u| us[u].1 == "_").unwrap_or(pick_user(r)) } else { pick_user(r) };
            let i = if r.chance(3, 4) { (0..NC).find(|i| !cs.contains_key(i)).unwrap_or(any_code(r)) } else { any_code(r) };
            format!("ref initcode {sid} {u} {i}")
        }
        5 | 6 | 7 | 8 => {
            // usually a well-formed attempt: code i owned by v, user u ≠ v — including mutual and repeated attempts
            if !owned.is_empty() && r.chance(5, 6) {
                let (i, o, _) = owned[r.below(owned.len() as u64) as usize];
                let u = if r.chance(1, 10) { o } else { pick_user(r) };
                let v = if r.chance(9, 10) { o } else { pick_user(r) };
                format!("ref setref {sid} {u} {i} {v}")
            } else { format!("ref setref {sid} {} {} {}", pick_user(r), any_code(r), pick_user(r)) }
        }
        9 | 10 => {
            if !owned.is_empty() && r.chance(5, 6) {
                let (i, o, _) = owned[r.below(owned.len() as u64) as usize];
                let u = if r.chance(9, 10) { o } else { pick_user(r) };
                let v = if r.chance(2, 3) { existing.iter().copied().find(|x| us[x].1 == "_" && *x != o).unwrap_or(pick_user(r)) } else { pick_user(r) };
                format!("ref transfer {sid} {u} {i} {v}")
            } else { format!("ref transfer {sid} {} {} {}", pick_user(r), any_code(r), pick_user(r)) }
        }
        11 => {
            if !owned.is_empty() && r.chance(5, 6) { let (i, o, _) = owned[r.below(owned.len() as u64) as usize]; format!("ref cancel {sid} {} {i}", if r.chance(9, 10) { o } else { pick_user(r) }) }
            else { format!("ref cancel {sid} {} {}", pick_user(r), any_code(r)) }
        }
        _ => {
            let pending: Vec<&(u8, u8, u8)> = owned.iter().filter(|x| x.1 != x.2).collect();
            if !pending.is_empty() && r.chance(5, 6) {
                let (i, o, n) = *pending[r.below(pending.len() as u64) as usize];
                let who = if r.chance(5, 6) { n } else { pick_user(r) };
                let v = if r.chance(9, 10) { o } else { pick_user(r) };
                format!("ref accept {sid} {who} {i} {v}")
            } else if !owned.is_empty() { let (i, o, _) = owned[r.below(owned.len() as u64) as usize]; format!("ref accept {sid} {} {i} {o}", pick_user(r)) }
            else { format!("ref accept {sid} {} {} {}", pick_user(r), any_code(r), pick_user(r)) }
        }
    }
}

fn main() {
    let cli = cli();
    let mut out = Out::new();
    if std::env::var("HARNESS_DEBUG").is_err() { std::panic::set_hook(Box::new(|_| {})); }
    set_syscall_stubs(Box::new(Stubs));
    let c = consts();
    let mut ws: BTreeMap<String, World> = BTreeMap::new();
    let replay: Option<Vec<String>> = if cli.mode == "replay" { Some(read_requests(cli.file.as_deref().unwrap())) } else { None };
    let total = replay.as_ref().map(|v| v.len() as u64).unwrap_or(cli.n);
    let mut r = Rng::new(cli.seed);
    let mut g = Gen { sid: 0, left: 0 };
    for k in 0..total {
        let req = match &replay { Some(v) => v[k as usize].clone(), None => gen_next(&mut r, &c, &ws, &mut g) };
        let res = std::panic::catch_unwind(std::panic::AssertUnwindSafe(|| exec(&c, &mut ws, &req, &mut out)));
        let (resp, nt) = match res { Ok(x) => x, Err(_) => { out.oracle_fail("panicked", &req); ("panic".to_string(), false) } };
        let op = req.split(' ').nth(1).unwrap_or("?").to_string();
        out.stat(&format!("op.{op}"));
        out.stat(&format!("{op}.{}", resp.split(' ').next().unwrap_or("?")));
        out.case_nt(&req, &resp, nt);
    }
    out.finish();
}
