//! C40 correspondence + oracle: the SDK's market model (`gmsol_programs::model::MarketModel`, decoded
//! from account bytes) against the program's own `Market`, in one process.
//!
//!  * `c40 param …`      — a program `Market` is filled with one sentinel per config key (through the
//!                         program's `get_config_mut`), serialised to account bytes, decoded by the SDK
//!                         (`AccountDeserialize`), and every gmsol-model parameter is read through the
//!                         SDK's `MarketModel`. The Lean driver predicts the SDK's answer from the
//!                         tables generated out of the SDK source. Oracle: SDK answer = program answer.
//!  * `c40 poolop …`     — one `gmsol_model::Pool`/`Balance` operation on a raw pool, on the program's
//!                         `Pool` (`prog`) or the SDK's `Pool` (`sdk`). Oracle: both sides agree.
//!  * `c40 randbytes s`  — random account bytes decoded by both; all pools (16 kinds, through the trait
//!                         accessors), all parameters, balances, funding factor compared.
use anchor_lang::{AccountDeserialize, Discriminator};
use borsh::{BorshDeserialize, BorshSerialize};
use gmsol_model::{Balance, BaseMarket, BorrowingFeeMarket, LiquidityMarket, PerpMarket, PnlFactorKind, Pool as _, PositionImpactMarket, SwapMarket};
use gmsol_programs::gmsol_store::accounts::Market as SdkMarket;
use gmsol_programs::gmsol_store::types::Pool as SdkPool;
use gmsol_programs::model::{MarketModel, SwapPricingKind};
use gmsol_model::{price::{Price, Prices}, LiquidityMarketMutExt, MarketAction, SwapMarketMutExt};
use gmsol_store::states::Store;
use gmsol_store::verif::{c40 as hook40, c44 as hook44};
use anchor_lang::prelude::{Account, AccountInfo, AccountLoader, Pubkey};
use gmsol_store::states::market::pool::Pool as ProgPool;
use gmsol_store::states::Market;
use gmsol_utils::market::{MarketConfigFlag, MarketConfigKey, MarketFlag};
use hcommon::*;
use std::collections::BTreeMap;
use std::sync::Arc;
use strum::IntoEnumIterator;

const BASE: u128 = 1_000_000;
const D: u8 = 20;

fn kidx(k: MarketConfigKey) -> u128 { u16::from(k) as u128 }

fn build_market(closed: bool, mask: u64) -> Box<Market> {
    let mut m = Box::<Market>::default();
    for k in MarketConfigKey::iter() {
        if let Ok(p) = m.get_config_mut(&k.to_string()) { *p = BASE + kidx(k); }
    }
    for f in MarketConfigFlag::iter() {
        let bit = u8::from(f) as u64;
        let _ = m.set_config_flag(&f.to_string(), (mask >> bit) & 1 == 1);
    }
    m.set_flag(MarketFlag::Closed, closed);
    m
}

fn account_bytes(m: &Market) -> Vec<u8> {
    let mut v = Market::DISCRIMINATOR.to_vec();
    v.extend_from_slice(bytemuck::bytes_of(m));
    v
}

fn sdk_decode(bytes: &[u8]) -> Result<MarketModel, String> { sdk_decode_supply(bytes, 1_000_000_000) }

fn sdk_decode_supply(bytes: &[u8], supply: u64) -> Result<MarketModel, String> {
    // zero-copy deserialisation casts in place: the body (after the 8-byte discriminator) must be 16-aligned
    let mut buf: Vec<u128> = vec![0; bytes.len() / 16 + 2];
    let raw: &mut [u8] = bytemuck::cast_slice_mut(&mut buf);
    raw[8..8 + bytes.len()].copy_from_slice(bytes);
    let m = SdkMarket::try_deserialize(&mut &raw[8..8 + bytes.len()]).map_err(|e| format!("sdk-decode-error {e}"))?;
    Ok(MarketModel::from_parts(Arc::new(m), supply))
}

fn debug_fields(s: &str) -> BTreeMap<String, String> {
    fn skip_ws(b: &[u8], i: &mut usize) { while *i < b.len() && (b[*i] == b' ' || b[*i] == b'\n' || b[*i] == b',') { *i += 1; } }
    fn ident(b: &[u8], i: &mut usize) -> String { let st = *i; while *i < b.len() && (b[*i].is_ascii_alphanumeric() || b[*i] == b'_' || b[*i] == b'-') { *i += 1; } String::from_utf8_lossy(&b[st..*i]).into() }
    fn value(b: &[u8], i: &mut usize, prefix: &str, out: &mut BTreeMap<String, String>) {
        skip_ws(b, i);
        let st = *i;
        let _name = ident(b, i);
        let end = *i;
        skip_ws(b, i);
        if *i < b.len() && b[*i] == b'{' {
            *i += 1;
            loop {
                skip_ws(b, i);
                if *i >= b.len() || b[*i] == b'}' { *i += 1; break; }
                let f = ident(b, i);
                skip_ws(b, i);
                if *i < b.len() && b[*i] == b':' { *i += 1; }
                let p = if prefix.is_empty() { f } else { format!("{prefix}.{f}") };
                value(b, i, &p, out);
            }
        } else if *i < b.len() && b[*i] == b'(' {
            let mut depth = 0;
            while *i < b.len() { if b[*i] == b'(' { depth += 1; } if b[*i] == b')' { depth -= 1; if depth == 0 { *i += 1; break; } } *i += 1; }
            out.insert(prefix.to_string(), String::from_utf8_lossy(&b[st..*i]).into());
        } else {
            *i = end;
            out.insert(prefix.to_string(), String::from_utf8_lossy(&b[st..end]).into());
        }
    }
    let mut out = BTreeMap::new();
    let b = s.as_bytes();
    let mut i = 0;
    value(b, &mut i, "", &mut out);
    out
}

fn canon(v: &str) -> String {
    if v == "None" { return "none".into(); }
    if v == "true" { return "ok b1".into(); }
    if v == "false" { return "ok b0".into(); }
    if let Some(x) = v.strip_prefix("Some(").and_then(|x| x.strip_suffix(')')) { return format!("ok {x}"); }
    format!("ok {v}")
}

const PNL: &[(&str, PnlFactorKind)] = &[
    ("MaxAfterDeposit", PnlFactorKind::MaxAfterDeposit), ("MaxAfterWithdrawal", PnlFactorKind::MaxAfterWithdrawal),
    ("MaxForTrader", PnlFactorKind::MaxForTrader), ("ForAdl", PnlFactorKind::ForAdl), ("MinAfterAdl", PnlFactorKind::MinAfterAdl),
];
const STRUCT_METHODS: &[&str] = &["swap_impact_params", "swap_fee_params", "position_impact_params",
    "position_impact_distribution_params", "borrowing_fee_params", "borrowing_fee_kink_model_params", "funding_fee_params",
    "position_params", "order_fee_params", "liquidation_fee_params"];
const SIDE_METHODS: &[&str] = &["max_pool_amount", "max_open_interest", "min_collateral_factor_for_open_interest_multiplier", "max_pool_value_for_deposit"];
const PLAIN_METHODS: &[&str] = &["reserve_factor", "open_interest_reserve_factor", "ignore_open_interest_for_usage_factor"];

trait M20: PerpMarket<D, Num = u128, Signed = i128> {}
impl<T: PerpMarket<D, Num = u128, Signed = i128>> M20 for T {}

fn struct_debug<M: M20>(m: &M, method: &str) -> Option<String> {
    Some(match method {
        "swap_impact_params" => format!("{:?}", m.swap_impact_params().ok()?),
        "swap_fee_params" => format!("{:?}", m.swap_fee_params().ok()?),
        "position_impact_params" => format!("{:?}", m.position_impact_params().ok()?),
        "position_impact_distribution_params" => format!("{:?}", m.position_impact_distribution_params().ok()?),
        "borrowing_fee_params" => format!("{:?}", m.borrowing_fee_params().ok()?),
        "borrowing_fee_kink_model_params" => format!("{:?}", m.borrowing_fee_kink_model_params().ok()?),
        "funding_fee_params" => format!("{:?}", m.funding_fee_params().ok()?),
        "position_params" => format!("{:?}", m.position_params().ok()?),
        "order_fee_params" => format!("{:?}", m.order_fee_params().ok()?),
        "liquidation_fee_params" => format!("{:?}", m.liquidation_fee_params().ok()?),
        _ => return None,
    })
}

/// read one model parameter through the gmsol-model traits; `mpv` = max_pool_value_for_deposit accessor
fn read_param<M: M20>(m: &M, mpv: &dyn Fn(bool) -> Option<u128>, method: &str, variant: &str, side: Option<bool>, param: &str) -> String {
    if STRUCT_METHODS.contains(&method) {
        if variant != "-" || side.is_some() { return "norow".into(); }
        let Some(d) = struct_debug(m, method) else { return "err".into() };
        let f = debug_fields(&d);
        // `discount_factor` is the SDK-only `with_discount_factor(..)`; reported under that name
        let key = if param == "with_discount_factor" { "discount_factor" } else { param };
        return match f.get(key) { Some(v) => canon(v), None => "norow".into() };
    }
    if param != "-" { return "norow".into(); }
    let r: Option<String> = match (method, variant, side) {
        ("max_pool_amount", "-", Some(s)) => m.max_pool_amount(s).ok().map(|v| v.to_string()),
        ("max_open_interest", "-", Some(s)) => m.max_open_interest(s).ok().map(|v| v.to_string()),
        ("min_collateral_factor_for_open_interest_multiplier", "-", Some(s)) => m.min_collateral_factor_for_open_interest_multiplier(s).ok().map(|v| v.to_string()),
        ("max_pool_value_for_deposit", "-", Some(s)) => mpv(s).map(|v| v.to_string()),
        ("reserve_factor", "-", None) => m.reserve_factor().ok().map(|v| v.to_string()),
        ("open_interest_reserve_factor", "-", None) => m.open_interest_reserve_factor().ok().map(|v| v.to_string()),
        ("ignore_open_interest_for_usage_factor", "-", None) => m.ignore_open_interest_for_usage_factor().ok().map(|v| v.to_string()),
        ("pnl_factor_config", v, Some(s)) => match PNL.iter().find(|(n, _)| *n == v) {
            Some((_, k)) => m.pnl_factor_config(*k, s).ok().map(|v| v.to_string()),
            None => return "norow".into(),
        },
        _ => return "norow".into(),
    };
    match r { Some(v) => canon(&v), None => "err".into() }
}

fn all_rows() -> Vec<(String, String, Option<bool>, String)> {
    let m = build_market(false, 0);
    let mut v = Vec::new();
    for me in STRUCT_METHODS {
        let d = struct_debug(&*m, me).unwrap();
        for (p, _) in debug_fields(&d) {
            if p == "discount_factor" { continue; }
            v.push((me.to_string(), "-".to_string(), None, p));
        }
    }
    for me in SIDE_METHODS { for s in [true, false] { v.push((me.to_string(), "-".into(), Some(s), "-".into())); } }
    for me in PLAIN_METHODS { v.push((me.to_string(), "-".into(), None, "-".into())); }
    for (n, _) in PNL { for s in [true, false] { v.push(("pnl_factor_config".into(), n.to_string(), Some(s), "-".into())); } }
    v
}

/// every observable of a market through the gmsol-model traits (pools by kind, params, scalars)
fn dump<M: M20>(m: &M, mpv: &dyn Fn(bool) -> Option<u128>, rows: &[(String, String, Option<bool>, String)]) -> Vec<(String, String)> {
    let mut out = Vec::new();
    let pool = |name: &str, p: gmsol_model::Result<&<M as BaseMarket<D>>::Pool>, out: &mut Vec<(String, String)>| {
        let s = match p { Ok(p) => format!("{:?} {:?}", p.long_amount().ok(), p.short_amount().ok()), Err(_) => "err".into() };
        out.push((format!("pool {name}"), s));
    };
    pool("liquidity", m.liquidity_pool(), &mut out);
    pool("claimable_fee", m.claimable_fee_pool(), &mut out);
    pool("swap_impact", m.swap_impact_pool(), &mut out);
    pool("position_impact", m.position_impact_pool(), &mut out);
    pool("borrowing_factor", m.borrowing_factor_pool(), &mut out);
    pool("total_borrowing", m.total_borrowing_pool(), &mut out);
    for s in [true, false] {
        pool(&format!("open_interest {s}"), m.open_interest_pool(s), &mut out);
        pool(&format!("open_interest_in_tokens {s}"), m.open_interest_in_tokens_pool(s), &mut out);
        pool(&format!("collateral_sum {s}"), m.collateral_sum_pool(s), &mut out);
        pool(&format!("funding_amount_per_size {s}"), m.funding_amount_per_size_pool(s), &mut out);
        pool(&format!("claimable_funding_amount_per_size {s}"), m.claimable_funding_amount_per_size_pool(s), &mut out);
    }
    out.push(("funding_factor_per_second".into(), m.funding_factor_per_second().to_string()));
    out.push(("usd_to_amount_divisor".into(), m.usd_to_amount_divisor().to_string()));
    out.push(("funding_amount_per_size_adjustment".into(), m.funding_amount_per_size_adjustment().to_string()));
    for (me, var, side, p) in rows {
        out.push((format!("param {me} {var} {side:?} {p}"), read_param(m, mpv, me, var, *side, p)));
    }
    out
}

// ------------------------------------------------------------------------------------- pools
fn prog_pool(pure: bool, l: u128, s: u128) -> ProgPool {
    let mut b = vec![pure as u8];
    b.extend_from_slice(&[0u8; 15]);
    b.extend_from_slice(&l.to_le_bytes());
    b.extend_from_slice(&s.to_le_bytes());
    ProgPool::try_from_slice(&b).unwrap()
}
fn prog_raw(p: &ProgPool) -> String {
    let mut b = Vec::new();
    p.serialize(&mut b).unwrap();
    format!("ok {} {} {}", (b[0] != 0) as u8, u128::from_le_bytes(b[16..32].try_into().unwrap()), u128::from_le_bytes(b[32..48].try_into().unwrap()))
}
fn sdk_pool(pure: bool, l: u128, s: u128) -> SdkPool {
    SdkPool { is_pure: pure as u8, padding: [0; 15], long_token_amount: l, short_token_amount: s }
}
fn sdk_raw(p: &SdkPool) -> String { format!("ok {} {} {}", (p.is_pure != 0) as u8, p.long_token_amount, p.short_token_amount) }

fn pool_op<P: gmsol_model::Pool<Num = u128, Signed = i128> + Clone>(p: &P, raw: &dyn Fn(&P) -> String, op: &str, a: &str, b: &str) -> Option<String> {
    let d = |x: &str| -> Option<Option<i128>> { if x == "-" { Some(None) } else { x.parse::<i128>().ok().map(Some) } };
    Some(match op {
        "amounts" => format!("ok {} {}", p.long_amount().ok()?, p.short_amount().ok()?),
        "apply_long" => { let mut q = p.clone(); match q.apply_delta_to_long_amount(&a.parse().ok()?) { Ok(()) => raw(&q), Err(_) => "err".into() } }
        "apply_short" => { let mut q = p.clone(); match q.apply_delta_to_short_amount(&a.parse().ok()?) { Ok(()) => raw(&q), Err(_) => "err".into() } }
        "apply_delta" => {
            let (dl, ds) = (d(a)?, d(b)?);
            let delta = gmsol_model::Delta::new(dl.as_ref(), ds.as_ref());
            match p.checked_apply_delta(delta) { Ok(q) => raw(&q), Err(_) => "err".into() }
        }
        "cancel" => match p.checked_cancel_amounts() { Ok(q) => raw(&q), Err(_) => "err".into() },
        _ => return None,
    })
}

fn exec_poolop(side: &str, pure: bool, l: u128, s: u128, op: &str, a: &str, b: &str) -> Option<String> {
    match side {
        "prog" => pool_op(&prog_pool(pure, l, s), &prog_raw, op, a, b),
        "sdk" => pool_op(&sdk_pool(pure, l, s), &sdk_raw, op, a, b),
        _ => None,
    }
}

fn random_market_bytes(seed: u64) -> Vec<u8> {
    let mut r = Rng::new(seed ^ 0xC40C40);
    let n = std::mem::size_of::<Market>();
    let mut v = Market::DISCRIMINATOR.to_vec();
    // structured randomness: zero / small / full-range words so that flags, pure bytes and amounts vary
    let mut body = vec![0u8; n];
    let mut i = 0;
    while i < n {
        let w: u128 = match r.below(5) { 0 => 0, 1 => r.below(3) as u128, 2 => r.num(64), 3 => r.num(127), _ => r.u128() };
        let bytes = w.to_le_bytes();
        let take = (n - i).min(16);
        body[i..i + take].copy_from_slice(&bytes[..take]);
        i += take;
    }
    // flags byte and pure markers: make both values common
    v.extend_from_slice(&body);
    v
}

fn compare_decoded(bytes: &[u8]) -> Result<usize, String> {
    let prog: Market = bytemuck::pod_read_unaligned(&bytes[8..]);
    let sdk = sdk_decode(bytes)?;
    let rows = all_rows();
    let a = dump(&prog, &|s| prog.max_pool_value_for_deposit(s).ok(), &rows);
    let b = dump(&sdk, &|s| sdk.max_pool_value_for_deposit(s).ok(), &rows);
    for ((ka, va), (_, vb)) in a.iter().zip(b.iter()) {
        if va != vb { return Err(format!("{ka}: program `{va}` sdk `{vb}`")); }
    }
    if prog.is_pure() != sdk.is_pure() { return Err(format!("is_pure: program {} sdk {}", prog.is_pure(), sdk.is_pure())); }
    Ok(a.len() + 1)
}

// ------------------------------------------------------------------------------------- actions
/// One deposit / withdrawal / swap on the same market bytes: program side through the REAL
/// `RevertibleLiquidityMarket` (hook `gmsol_store::verif::c40::run_action`, commit included), SDK
/// side through `MarketModel`. Returns Ok(outcome tag) when report and resulting state agree.
static LAST_ACTION: std::sync::Mutex<Option<String>> = std::sync::Mutex::new(None);
fn run_action_case(seed: u64) -> Result<String, String> {
    let r = quiet(|| run_action_case_inner(seed));
    *LAST_ACTION.lock().unwrap() = r.as_ref().ok().cloned();
    r
}

/// run `f` with fd 1 pointing at /dev/null (natively `msg!` prints to stdout and would interleave with the protocol)
fn quiet<T>(f: impl FnOnce() -> T) -> T {
    use std::io::Write;
    // fd 1 is restored even if `f` panics (the panic is caught further up)
    struct Restore(i32);
    impl Drop for Restore {
        fn drop(&mut self) { let _ = std::io::stdout().flush(); unsafe { libc::dup2(self.0, 1); libc::close(self.0); } }
    }
    let _ = std::io::stdout().flush();
    let _r = unsafe {
        let saved = libc::dup(1);
        let null = libc::open(b"/dev/null\0".as_ptr() as *const libc::c_char, libc::O_WRONLY);
        libc::dup2(null, 1);
        libc::close(null);
        Restore(saved)
    };
    f()
}

struct Ctx {
    info: &'static AccountInfo<'static>, loader: AccountLoader<'static, Market>, store_loader: AccountLoader<'static, Store>,
    mint_info: &'static AccountInfo<'static>, tp: &'static AccountInfo<'static>, recv: &'static AccountInfo<'static>, ev: &'static AccountInfo<'static>,
    prices: Prices<u128>, supply: u64, store_key: Pubkey, r: Rng,
}

/// a seeded market (program account + everything around it); `fees` overrides the two swap fee factors
fn build_ctx(seed: u64, fees: Option<(u128, u128)>) -> Result<Ctx, String> {
    use anchor_spl::token::spl_token;
    use spl_token::solana_program::program_pack::Pack;
    let mut r = Rng::new(seed ^ 0xAC71);
    // clocks far in the future: the SDK reads the wall clock, the program the stubbed sysvar; both see 0 s passed
    h_store::set_now(4_000_000_000);
    let pure = r.chance(1, 6);
    let store_key = h_store::pk(7);
    let (mt, lt) = (h_store::pk(100), h_store::pk(101));
    let st = if pure { lt } else { h_store::pk(102) };
    let mut cfg: Vec<(String, u128)> = Vec::new();
    let unit: u128 = 100_000_000_000_000_000_000;
    let pick_factor = |r: &mut Rng| -> u128 { match r.below(4) { 0 => 0, 1 => unit / 10_000 * r.range(1, 50) as u128, 2 => unit / 1_000_000_000 * r.range(1, 900) as u128, _ => unit / 100_000 * r.range(1, 300) as u128 } };
    for k in ["swap_impact_positive_factor", "swap_impact_negative_factor", "swap_fee_factor_for_positive_impact", "swap_fee_factor_for_negative_impact"] {
        cfg.push((k.to_string(), pick_factor(&mut r)));
    }
    if let Some((p, n)) = fees { for (k, v) in cfg.iter_mut() { if k == "swap_fee_factor_for_positive_impact" { *v = p; } if k == "swap_fee_factor_for_negative_impact" { *v = n; } } }
    cfg.push(("swap_impact_exponent".into(), if r.chance(1, 2) { unit } else { 2 * unit }));
    cfg.push(("swap_fee_receiver_factor".into(), unit / 100 * r.range(0, 100) as u128));
    for k in ["max_pool_amount_for_long_token", "max_pool_amount_for_short_token"] { cfg.push((k.to_string(), if r.chance(1, 8) { r.range(1, 9) as u128 * 100_000_000_000 } else { u64::MAX as u128 })); }
    for k in ["max_pool_value_for_deposit_for_long_token", "max_pool_value_for_deposit_for_short_token"] { cfg.push((k.to_string(), if r.chance(1, 8) { unit * r.range(1, 2_000_000) as u128 } else { u128::MAX / 4 })); }
    cfg.push(("reserve_factor".into(), unit / 100 * r.range(1, 100) as u128));
    let info = h_store::zero_copy_account::<Market>(h_store::pk(5000), gmsol_store::ID, |m| {
        m.init(255, store_key, "m", mt, lt, lt, st, true).unwrap();
        for (k, v) in &cfg { *m.get_config_mut(k).unwrap() = *v; }
    });
    let info: &'static AccountInfo<'static> = Box::leak(Box::new(info));
    let loader = AccountLoader::<Market>::try_from(info).map_err(|e| format!("loader {e}"))?;
    let ev: &'static AccountInfo<'static> = Box::leak(Box::new(h_store::leak_account(h_store::pk(8), gmsol_store::ID, 0, false, false)));
    let amt = |r: &mut Rng| -> u128 { match r.below(5) { 0 => 0, 1 => r.range(1, 1000) as u128, _ => r.range(1, 900) as u128 * 1_000_000_000 } };
    let (liq_l, liq_s0) = (amt(&mut r), amt(&mut r));
    let liq_s = if pure { 0 } else { liq_s0 };
    let imp = |r: &mut Rng| -> u128 { if r.chance(1, 2) { 0 } else { r.range(1, 5_000_000_000) as u128 } };
    let (imp_l, imp_s0) = (imp(&mut r), imp(&mut r));
    let imp_s = if pure { 0 } else { imp_s0 };
    hook44::seed_market(&loader, ev, (liq_l, liq_s), (imp_l, imp_s), ((liq_l + imp_l) as u64, (liq_s + imp_s) as u64)).map_err(|e| format!("seed {e}"))?;
    let fee = |r: &mut Rng| -> u128 { if r.chance(2, 3) { 0 } else { r.range(1, 1_000_000) as u128 } };
    let (f_l, f_s0) = (fee(&mut r), fee(&mut r));
    hook44::seed_fee_and_collateral(&loader, ev, (f_l, if pure { 0 } else { f_s0 }), (0, 0), (0, 0)).map_err(|e| format!("seed2 {e}"))?;
    let supply: u64 = if liq_l + liq_s == 0 { 0 } else { r.range(1, 2_000_000_000_000) };
    // accounts around the market
    let store_info: &'static AccountInfo<'static> = Box::leak(Box::new(h_store::zero_copy_account::<Store>(store_key, gmsol_store::ID, |s: &mut Store| { s.init(h_store::pk(1), "", 255, h_store::pk(2), h_store::pk(3)).unwrap(); })));
    let store_loader = AccountLoader::<Store>::try_from(store_info).map_err(|e| format!("store {e}"))?;
    let mint_info: &'static AccountInfo<'static> = Box::leak(Box::new(h_store::leak_account(mt, spl_token::ID, spl_token::state::Mint::LEN, false, true)));
    {
        let mint = spl_token::state::Mint { mint_authority: Some(store_key).into(), supply, decimals: 9, is_initialized: true, freeze_authority: None.into() };
        spl_token::state::Mint::pack(mint, &mut mint_info.try_borrow_mut_data().unwrap()).map_err(|e| format!("mint {e}"))?;
    }
    let tp: &'static AccountInfo<'static> = Box::leak(Box::new(h_store::leak_account(spl_token::ID, h_store::pk(0), 0, false, false)));
    let recv: &'static AccountInfo<'static> = Box::leak(Box::new(h_store::leak_account(h_store::pk(9), spl_token::ID, 0, false, true)));
    // prices (unit prices with a small spread)
    let price = |r: &mut Rng, base: u128| -> Price<u128> { let min = base * r.range(1, 5000) as u128; Price { min, max: min + min / r.range(50, 5000) as u128 } };
    let long_price = price(&mut r, 100_000_000_000);
    let short_price = if pure { long_price } else { price(&mut r, 20_000_000_000) };
    let prices = Prices { index_token_price: long_price, long_token_price: long_price, short_token_price: short_price };
    Ok(Ctx { info, loader, store_loader, mint_info, tp, recv, ev, prices, supply, store_key, r })
}

fn set_mint_supply(ctx: &Ctx, supply: u64) -> Result<Account<'static, anchor_spl::token::Mint>, String> {
    use anchor_spl::token::spl_token;
    use spl_token::solana_program::program_pack::Pack;
    let mint = spl_token::state::Mint { mint_authority: Some(ctx.store_key).into(), supply, decimals: 9, is_initialized: true, freeze_authority: None.into() };
    spl_token::state::Mint::pack(mint, &mut ctx.mint_info.try_borrow_mut_data().unwrap()).map_err(|e| format!("mint {e}"))?;
    Account::try_from(ctx.mint_info).map_err(|e| format!("mint-account {e}"))
}

fn run_action_case_inner(seed: u64) -> Result<String, String> {
    let ctx = build_ctx(seed, None)?;
    let Ctx { info, loader, store_loader, tp, recv, ev, prices, supply, .. } = &ctx;
    let (info, tp, recv, ev, prices, supply) = (*info, *tp, *recv, *ev, *prices, *supply);
    let mint_acc = set_mint_supply(&ctx, supply)?;
    let mut r = ctx.r.clone();
    // the action
    let kind = r.below(3);
    let a1 = match r.below(4) { 0 => 0u128, 1 => r.range(1, 5000) as u128, _ => r.range(1, 400) as u128 * 500_000_000 };
    let a2 = if r.chance(1, 3) { 0u128 } else { r.range(1, 400) as u128 * 500_000_000 };
    let side = r.chance(1, 2);
    let wd = if supply == 0 { 0 } else { r.range(0, supply) as u128 };
    // bytes BEFORE the action, for the SDK
    let bytes_before = info.try_borrow_data().unwrap().to_vec();
    let mut sdk = sdk_decode_supply(&bytes_before, supply)?;
    let sdk_res: Result<String, String> = match kind {
        0 => sdk.with_swap_pricing(SwapPricingKind::Deposit, |m| m.deposit(a1, a2, prices).and_then(|d| d.execute()).map(|x| format!("{x:?}")).map_err(|e| e.to_string())),
        1 => sdk.with_swap_pricing(SwapPricingKind::Withdrawal, |m| m.withdraw(wd, prices).and_then(|d| d.execute()).map(|x| format!("{x:?}")).map_err(|e| e.to_string())),
        _ => sdk.with_swap_pricing(SwapPricingKind::Swap, |m| m.swap(side, a1, prices).and_then(|d| d.execute()).map(|x| format!("{x:?}")).map_err(|e| e.to_string())),
    };
    let action = match kind { 0 => hook40::Action::Deposit(a1, a2), 1 => hook40::Action::Withdraw(wd), _ => hook40::Action::Swap(side, a1) };
    let _ = h_store::take_events();
    let prog_res = hook40::run_action(&loader, &store_loader, &mint_acc, tp, recv, ev, prices, action);
    let _ = h_store::take_events();
    let what = ["deposit", "withdraw", "swap"][kind as usize];
    let rows = all_rows();
    match (&prog_res, &sdk_res) {
        (Ok(p), Ok(s)) => {
            if p != s { return Err(format!("{what}: reports differ: program `{p}` sdk `{s}`")); }
            let prog_after = loader.load().map_err(|e| format!("load {e}"))?;
            let a = dump(&*prog_after, &|x| prog_after.max_pool_value_for_deposit(x).ok(), &rows);
            let b = dump(&sdk, &|x| sdk.max_pool_value_for_deposit(x).ok(), &rows);
            for ((ka, va), (_, vb)) in a.iter().zip(b.iter()) { if va != vb { return Err(format!("{what}: state after differs at {ka}: program `{va}` sdk `{vb}`")); } }
            Ok(format!("{what}.ok"))
        }
        (Err(_), Err(_)) => {
            // a failed (uncommitted) action must leave the program's observable market state untouched
            // (the revertible buffer's revision counter may move: C21)
            let before: Market = bytemuck::pod_read_unaligned(&bytes_before[8..]);
            let after = loader.load().map_err(|e| format!("load {e}"))?;
            let a = dump(&before, &|x| before.max_pool_value_for_deposit(x).ok(), &rows);
            let b = dump(&*after, &|x| after.max_pool_value_for_deposit(x).ok(), &rows);
            if a != b { return Err(format!("{what}: failed on both sides but the program's observable market state changed")); }
            Ok(format!("{what}.err"))
        }
        (Ok(p), Err(e)) => Err(format!("{what}: program ok `{p}` but sdk failed `{e}`")),
        (Err(e), Ok(s)) => Err(format!("{what}: sdk ok `{s}` but program failed `{e}`")),
    }
}


// ------------------------------------------------------------------------------------- histories
fn kind_of(c: &str) -> Option<(SwapPricingKind, u8)> {
    Some(match c { "S" => (SwapPricingKind::Swap, 0), "D" => (SwapPricingKind::Deposit, 1), "W" => (SwapPricingKind::Withdrawal, 2), "H" => (SwapPricingKind::Shift, 3), _ => return None })
}

/// swap fee factors (positive, negative impact) the SDK model would apply right now
fn sdk_fee_factors(m: &MarketModel) -> String {
    match m.swap_fee_params() { Ok(p) => { let f = debug_fields(&format!("{p:?}")); format!("{}/{}", f.get("positive_impact_fee_factor").cloned().unwrap_or_default(), f.get("negative_impact_fee_factor").cloned().unwrap_or_default()) } Err(_) => "?".into() }
}

/// A HISTORY on ONE long-lived SDK `MarketModel` against the program's model re-created per step from the stored market.
/// steps (comma separated):  `K:op` op under `with_swap_pricing(K, ..)`;  `-:op` plain op (the model's own pricing kind);
/// `K>J:op` nested scopes;  `K!` a scope whose closure fails.   K,J in S(wap) D(eposit) W(ithdrawal) H(shift);
/// op in swap0 | swap1 | dep | wd.  Returns the fee factors the SDK used per op step.
fn run_history(pos: u128, neg: u128, seed: u64, steps: &str) -> Result<String, String> {
    let ctx = build_ctx(seed, Some((pos, neg)))?;
    let mut supply = ctx.supply;
    let mut r = ctx.r.clone();
    let rows = all_rows();
    let bytes0 = ctx.info.try_borrow_data().unwrap().to_vec();
    let mut sdk = sdk_decode_supply(&bytes0, supply)?;
    let initial = format!("{:?}", sdk.swap_pricing());
    let prices = ctx.prices;
    let mut used: Vec<String> = Vec::new();
    for (i, st) in steps.split(',').enumerate() {
        let here = |what: &str| format!("step {} `{st}`: {what}", i + 1);
        // gmsol-model actions are not transactional: a failed `execute` leaves partial writes in the model it ran on (the
        // program discards its revertible market instead), so a failed step is undone by going back to this copy
        let backup = sdk.clone();
        if let Some(k) = st.strip_suffix('!') {
            let (kk, _) = kind_of(k).ok_or("bad step")?;
            let _: Result<(), ()> = sdk.with_swap_pricing(kk, |_m| Err(()));
        } else {
            let (scope, op) = st.split_once(':').ok_or("bad step")?;
            let amt: u128 = match r.below(3) { 0 => r.range(1, 5000) as u128, _ => r.range(1, 200) as u128 * 500_000_000 };
            let amt2: u128 = if r.chance(1, 2) { 0 } else { r.range(1, 200) as u128 * 500_000_000 };
            let wd: u128 = if supply == 0 { 0 } else { r.range(1, supply.min(1_000_000_000_000)) as u128 / 8 };
            let run = |m: &mut MarketModel, used: &mut Vec<String>| -> Result<String, String> {
                used.push(sdk_fee_factors(m));
                match op {
                    "swap0" => m.swap(false, amt, prices).and_then(|d| d.execute()).map(|x| format!("{x:?}")).map_err(|e| e.to_string()),
                    "swap1" => m.swap(true, amt, prices).and_then(|d| d.execute()).map(|x| format!("{x:?}")).map_err(|e| e.to_string()),
                    "dep" => m.deposit(amt, amt2, prices).and_then(|d| d.execute()).map(|x| format!("{x:?}")).map_err(|e| e.to_string()),
                    "wd" => m.withdraw(wd, prices).and_then(|d| d.execute()).map(|x| format!("{x:?}")).map_err(|e| e.to_string()),
                    _ => Err("bad op".into()),
                }
            };
            // the pricing kind the PROGRAM is asked to use: the innermost explicit scope, else the model's resting kind (Swap)
            let (sdk_res, prog_kind): (Result<String, String>, u8) = if scope == "-" {
                (run(&mut sdk, &mut used), 0)
            } else if let Some((k, j)) = scope.split_once('>') {
                let ((kk, _), (jj, jn)) = (kind_of(k).ok_or("bad step")?, kind_of(j).ok_or("bad step")?);
                let mut inner_restored = String::new();
                let res = sdk.with_swap_pricing(kk, |m| { let x = m.with_swap_pricing(jj, |m2| run(m2, &mut used)); inner_restored = format!("{:?}", m.swap_pricing()); x });
                if inner_restored != format!("{kk:?}") { return Err(here(&format!("after the INNER with_swap_pricing returned the model's kind is {inner_restored}, not the outer scope's {kk:?}"))); }
                (res, jn)
            } else {
                let (kk, kn) = kind_of(scope).ok_or("bad step")?;
                (sdk.with_swap_pricing(kk, |m| run(m, &mut used)), kn)
            };
            let action = match op { "swap0" => hook40::Action::Swap(false, amt), "swap1" => hook40::Action::Swap(true, amt), "dep" => hook40::Action::Deposit(amt, amt2), _ => hook40::Action::Withdraw(wd) };
            let mint_acc = set_mint_supply(&ctx, supply)?;
            let _ = h_store::take_events();
            let prog_res = hook40::run_action_with_kind(&ctx.loader, &ctx.store_loader, &mint_acc, ctx.tp, ctx.recv, ctx.ev, prices, action, prog_kind);
            let _ = h_store::take_events();
            match (&prog_res, &sdk_res) {
                (Ok(p), Ok(s)) => {
                    if p != s { return Err(here(&format!("reports differ: program `{p}` sdk `{s}`"))); }
                    if op == "dep" {
                        // `minted: N` of the report is what the program would mint
                        if let Some(pos) = p.find("minted: ") { let n: String = p[pos + 8..].chars().take_while(|c| c.is_ascii_digit()).collect(); supply = supply.saturating_add(n.parse::<u128>().unwrap_or(0).min(u64::MAX as u128) as u64); }
                    }
                    if op == "wd" { supply = supply.saturating_sub(wd as u64); }
                }
                (Err(_), Err(_)) => { sdk = backup; }
                (Ok(p), Err(e)) => return Err(here(&format!("program ok `{p}` but sdk failed `{e}`"))),
                (Err(e), Ok(s2)) => return Err(here(&format!("sdk ok `{s2}` but program failed `{e}`"))),
            }
            let prog_after = ctx.loader.load().map_err(|e| format!("load {e}"))?;
            let a = dump(&*prog_after, &|x| prog_after.max_pool_value_for_deposit(x).ok(), &rows);
            let b = dump(&sdk, &|x| sdk.max_pool_value_for_deposit(x).ok(), &rows);
            for ((ka, va), (_, vb)) in a.iter().zip(b.iter()) { if va != vb { return Err(here(&format!("state differs at {ka}: program `{va}` sdk `{vb}`"))); } }
        }
        // the scoped setter must have restored the model's own pricing kind — also after a failing closure / nested scopes
        let now = format!("{:?}", sdk.swap_pricing());
        if now != initial { return Err(here(&format!("with_swap_pricing did not restore the pricing kind: model is left in {now}, was {initial}"))); }
    }
    Ok(used.join(";"))
}

// ------------------------------------------------------------------------------------- layouts
macro_rules! sizes { ($($n:ident),* $(,)?) => { vec![$((stringify!($n), std::mem::size_of::<gmsol_store::states::$n>(), std::mem::size_of::<gmsol_programs::gmsol_store::accounts::$n>())),*] } }
/// (type name, size of the program's type, size of the SDK's `declare_program!` type)
fn account_sizes() -> Vec<(&'static str, usize, usize)> {
    sizes![Market, Store, Position, Oracle, Order, Deposit, Withdrawal, Shift, UserHeader, Glv, TokenMapHeader, PriceFeed, GlvDeposit, GlvWithdrawal, GlvShift]
}

/// first changed byte and number of changed bytes between two images
fn changed(a: &[u8], b: &[u8]) -> Option<(usize, usize)> {
    let first = a.iter().zip(b.iter()).position(|(x, y)| x != y)?;
    let last = a.iter().zip(b.iter()).rposition(|(x, y)| x != y)?;
    Some((first, last - first + 1))
}

fn exec_inner(t: &[&str]) -> Option<String> {
    Some(match t {
        ["c40", "param", closed, mask, wk, v, method, variant, side, param] => {
            let mut m = build_market(*closed == "1", mask.parse().ok()?);
            let v: u128 = v.parse().ok()?;
            let side = match *side { "-" => None, "1" => Some(true), "0" => Some(false), _ => return None };
            if *wk != "-" { match m.get_config_mut(wk) { Ok(p) => *p = v, Err(_) => return Some("nokey".into()) } }
            let sdk = match sdk_decode(&account_bytes(&m)) { Ok(s) => s, Err(e) => return Some(e) };
            read_param(&sdk, &|s| sdk.max_pool_value_for_deposit(s).ok(), method, variant, side, param)
        }
        ["c40", "poolop", side, pure, l, s, op, a, b] => exec_poolop(side, *pure == "1", l.parse().ok()?, s.parse().ok()?, op, a, b)?,
        ["c40", "layout", "size", ty] => match account_sizes().into_iter().find(|(n, _, _)| n == ty) { Some((_, p, s)) => format!("ok {p} {s}"), None => "notype".into() },
        ["c40", "layout", "key", key] => {
            if key.parse::<MarketConfigKey>().is_err() { return Some("nokey".into()); }
            let mut m = Box::<Market>::default();
            let before = account_bytes(&m);
            *m.get_config_mut(key).ok()? = u128::MAX;
            let after = account_bytes(&m);
            // the SDK must read the same bytes back through its own key table
            let sdk = sdk_decode(&after).ok()?;
            let k: MarketConfigKey = key.parse().ok()?;
            if sdk.config.get(k).copied() != Some(u128::MAX) { return Some("sdk-mismatch".into()); }
            match changed(&before, &after) { Some((o, l)) => format!("ok {o} {l}"), None => "unchanged".into() }
        }
        ["c40", "layout", "flag", flag] => {
            if flag.parse::<MarketConfigFlag>().is_err() { return Some("noflag".into()); }
            let mut m = Box::<Market>::default();
            let before = account_bytes(&m);
            m.set_config_flag(flag, true).ok()?;
            let after = account_bytes(&m);
            match changed(&before, &after) { Some((o, 1)) => format!("ok {o} {}", before[o] ^ after[o]), Some((o, l)) => format!("wide {o} {l}"), None => "unchanged".into() }
        }
        ["c40", "hist", pos, neg, seed, steps] => {
            let (pos, neg, seed): (u128, u128, u64) = (pos.parse().ok()?, neg.parse().ok()?, seed.parse().ok()?);
            match quiet(|| run_history(pos, neg, seed, steps)) { Ok(used) => format!("same {used}"), Err(e) => format!("diff {e}") }
        }
        ["c40", "action", seed] => match run_action_case(seed.parse().ok()?) { Ok(_) => "same".into(), Err(e) => format!("diff {e}") },
        ["c40", "randbytes", seed] => match compare_decoded(&random_market_bytes(seed.parse().ok()?)) { Ok(_) => "same".into(), Err(e) => format!("diff {e}") },
        _ => return None,
    })
}

fn exec(req: &str) -> String {
    let t: Vec<&str> = req.split(' ').collect();
    match std::panic::catch_unwind(|| exec_inner(&t)) { Ok(Some(s)) => s, Ok(None) => "bad-op".into(), Err(_) => "panic".into() }
}

enum Verdict { Ok, Fail(String), NoOracle }

/// the property: the SDK's view equals the program's view
fn oracle(req: &str, resp: &str) -> Verdict {
    let t: Vec<&str> = req.split(' ').collect();
    match t.as_slice() {
        ["c40", "param", closed, mask, wk, v, method, variant, side, param] => {
            if *param == "with_discount_factor" { return Verdict::NoOracle; }
            let Ok(mask) = mask.parse() else { return Verdict::NoOracle };
            let mut m = build_market(*closed == "1", mask);
            let sd = match *side { "-" => None, "1" => Some(true), _ => Some(false) };
            if *wk != "-" { if let (Ok(p), Ok(v)) = (m.get_config_mut(wk), v.parse::<u128>()) { *p = v; } }
            let prog = read_param(&*m, &|s| m.max_pool_value_for_deposit(s).ok(), method, variant, sd, param);
            if prog == resp { Verdict::Ok } else {
                Verdict::Fail(format!("SDK reads {method}/{variant}/{sd:?}/{param} = `{resp}` but the program reads `{prog}` from the same account bytes"))
            }
        }
        ["c40", "poolop", side, pure, l, s, op, a, b] => {
            let other = if *side == "sdk" { "prog" } else { "sdk" };
            let (Ok(lv), Ok(sv)) = (l.parse::<u128>(), s.parse::<u128>()) else { return Verdict::NoOracle };
            let Some(o) = exec_poolop(other, *pure == "1", lv, sv, op, a, b) else { return Verdict::NoOracle };
            if o == resp { return Verdict::Ok; }
            Verdict::Fail(format!("Pool::{op} on (pure={pure}, {lv}, {sv}) args ({a}, {b}): {side} `{resp}` vs {other} `{o}`"))
        }
        ["c40", "layout", "size", _] => { let p: Vec<&str> = resp.split(' ').collect(); if p.len() == 3 && p[0] == "ok" && p[1] == p[2] { Verdict::Ok } else { Verdict::Fail(format!("account size differs between the program and the SDK declaration: {resp}")) } }
        ["c40", "layout", _, _] => if resp.starts_with("ok ") { Verdict::Ok } else { Verdict::Fail(format!("a write through the program's key is not where the SDK layout reads it: {resp}")) },
        ["c40", "hist", ..] => if resp.starts_with("same") { Verdict::Ok } else { Verdict::Fail(format!("a history on one SDK model diverges from the program (or the scoped pricing setter does not restore): {resp}")) },
        ["c40", "action", _] => if resp == "same" { Verdict::Ok } else { Verdict::Fail(format!("an action gives different results on the program's market and on the SDK model: {resp}")) },
        ["c40", "randbytes", _] => if resp == "same" { Verdict::Ok } else { Verdict::Fail(format!("random account bytes decode differently: {resp}")) },
        _ => Verdict::NoOracle,
    }
}

fn main() {
    h_store::install_capturing_stubs();
    let cli = cli();
    let mut out = Out::new();
    std::panic::set_hook(Box::new(|_| {}));
    let reqs: Vec<String> = if cli.mode == "replay" {
        read_requests(cli.file.as_deref().unwrap())
    } else {
        let mut r = Rng::new(cli.seed);
        let mut v = Vec::new();
        let keys: Vec<String> = MarketConfigKey::iter().map(|k| k.to_string()).collect();
        let rows = all_rows();
        for (me, var, side, p) in &rows {
            let s = match side { None => "-", Some(true) => "1", Some(false) => "0" };
            for closed in 0..2 { for mask in [0u64, 4, 5, 11, 15] { v.push(format!("c40 param {closed} {mask} - 0 {me} {var} {s} {p}")); } }
        }
        v.push("c40 param 0 0 - 0 order_fee_params - - with_discount_factor".into());
        let extra = cli.n.max(100);
        for _ in 0..extra {
            let (me, var, side, p) = r.pick(&rows).clone();
            let s = match side { None => "-", Some(true) => "1", Some(false) => "0" };
            let wk = r.pick(&keys).clone();
            let val = if r.chance(1, 4) { 0 } else { r.num(127) };
            v.push(format!("c40 param {} {} {wk} {val} {me} {var} {s} {p}", r.below(2), r.below(16)));
        }
        // pool operations: amounts near 0, i128::MAX, u128::MAX; deltas likewise
        for _ in 0..extra * 3 {
            let pure = r.below(2);
            let amt = |r: &mut Rng| -> u128 { match r.below(6) { 0 => r.below(5) as u128, 1 => (1u128 << 127) - 2 + r.below(5) as u128, 2 => u128::MAX - r.below(3) as u128, _ => r.num(128) } };
            let (l, s0) = (amt(&mut r), amt(&mut r));
            let s = if pure == 1 { 0 } else { s0 };
            let d = |r: &mut Rng| -> String { if r.chance(1, 8) { "-".into() } else { r.inum(128).to_string() } };
            let side = if r.chance(1, 2) { "sdk" } else { "prog" };
            let (op, a, b) = match r.below(5) {
                0 => ("amounts", "-".to_string(), "-".to_string()),
                1 => ("apply_long", r.inum(128).to_string(), "-".to_string()),
                2 => ("apply_short", r.inum(128).to_string(), "-".to_string()),
                3 => ("apply_delta", d(&mut r), d(&mut r)),
                _ => ("cancel", "-".to_string(), "-".to_string()),
            };
            v.push(format!("c40 poolop {side} {pure} {l} {s} {op} {a} {b}"));
        }
        for (n, _, _) in account_sizes() { v.push(format!("c40 layout size {n}")); }
        for k in &keys { v.push(format!("c40 layout key {k}")); }
        for f in MarketConfigFlag::iter() { v.push(format!("c40 layout flag {f}")); }
        for i in 0..(extra / 4).max(10) { v.push(format!("c40 randbytes {}", cli.seed * 100_000 + i)); }
        for i in 0..extra * 2 { v.push(format!("c40 action {}", cli.seed * 1_000_000 + i)); }
        // histories on one long-lived SDK model: scoped pricing kinds interleaved with plain operations, non-zero swap fees
        let unit: u128 = 100_000_000_000_000_000_000;
        for i in 0..extra {
            let (pos, neg) = (unit / 100_000 * r.range(1, 300) as u128, unit / 100_000 * r.range(1, 500) as u128);
            let n = r.range(2, 6);
            let mut steps: Vec<String> = Vec::new();
            for _ in 0..n {
                let op = *r.pick(&["swap0", "swap1", "swap0", "swap1", "dep", "wd"]);
                let k = *r.pick(&["S", "D", "W", "H"]);
                steps.push(match r.below(8) { 0 | 1 | 2 => format!("-:{op}"), 3 | 4 => format!("{k}:{op}"), 5 => format!("H:{op}"), 6 => format!("{k}>{}:{op}", r.pick(&["S", "D", "W", "H"])), _ => format!("{k}!") });
            }
            // most histories end with ordinary swaps: that is where a kept temporary kind shows
            steps.push("-:swap1".into()); steps.push("-:swap0".into());
            v.push(format!("c40 hist {pos} {neg} {} {}", cli.seed * 1_000_000 + i, steps.join(",")));
        }
        v
    };
    for req in reqs {
        let resp = exec(&req);
        let mut it = req.split(' ');
        let op = it.nth(1).unwrap_or("?").to_string();
        out.stat(&format!("op.{op}"));
        if op == "action" { if let Some(tag) = LAST_ACTION.lock().unwrap().take() { out.stat(&format!("action.{tag}")); } }
        if op == "poolop" { out.stat(&format!("poolop.{}", req.split(' ').nth(6).unwrap_or("?"))); }
        out.stat(&format!("resp.{}", resp.split(' ').next().unwrap_or("?")));
        if resp == "panic" { out.oracle_fail("panicked", &req); }
        match oracle(&req, &resp) {
            Verdict::Fail(why) => out.oracle_fail(&why, &req),
            Verdict::Ok => out.stat("oracle.checked"),
            Verdict::NoOracle => out.stat("oracle.none"),
        }
        let nt = (resp.starts_with("ok ") && resp != "ok 0" && resp != "ok b0") || resp == "same";
        out.case_nt(&req, &resp, nt);
    }
    out.finish();
}
