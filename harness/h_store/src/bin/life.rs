//! Stage 2 (C23 / C22): a whole token-moving action life cycle of the STORE program run natively.
//!
//! Everything — the world set-up (`initialize`, roles, token map, market vaults, `initialize_market`,
//! `initialize_oracle`, `prepare_associated_token_account`) and the life cycle itself
//! (`create_deposit` → `execute_deposit` → `close_deposit`) — runs the REAL instruction handlers
//! through `gmsol_store::entry`. The `sol_invoke_signed` stub serves CPIs:
//!   * SPL Token instructions            → the real `spl_token::processor::Processor::process`,
//!   * Associated Token Account program  → the real `spl_associated_token_account` processor,
//!   * System program create / transfer / allocate / assign → emulated on the in-memory accounts,
//!   * store self-CPIs (`#[event_cpi]`)   → recorded,
//! with signer privileges derived like the runtime does (caller-signed accounts, or PDAs of the
//! calling program re-derived from `signers_seeds` with `create_program_address`).
//! Prices come from custom `PriceFeed` accounts (provider ChainlinkDataStreams) built with the
//! c24 hook initialisers; `with_prices` then runs natively.
//!
//! Protocol `life <op> <sid> …` — see `exec`.
use anchor_lang::prelude::*;
use anchor_lang::solana_program::instruction::Instruction;
use anchor_lang::solana_program::program_pack::Pack;
use anchor_lang::solana_program::program_stubs::{set_syscall_stubs, SyscallStubs};
use anchor_lang::{Discriminator, InstructionData};
use anchor_spl::associated_token::spl_associated_token_account as ata_prog;
use anchor_spl::token::spl_token;
use gmsol_store::states::Seed;
use hcommon::*;
use std::cell::RefCell;
use std::collections::BTreeMap;
use std::sync::atomic::{AtomicI64, AtomicU64, Ordering};
use std::sync::Mutex;

const SYS: Pubkey = anchor_lang::system_program::ID;

static NOW: AtomicI64 = AtomicI64::new(1_700_000_000);
static SLOT: AtomicU64 = AtomicU64::new(1_000);
static RETURN: Mutex<Option<(Pubkey, Vec<u8>)>> = Mutex::new(None);
static EVENTS: Mutex<Vec<Vec<u8>>> = Mutex::new(Vec::new());
static CPI_LOG: Mutex<Vec<String>> = Mutex::new(Vec::new());
thread_local! { static CALLER: RefCell<Vec<Pubkey>> = const { RefCell::new(Vec::new()) }; }

fn current_program() -> Pubkey { CALLER.with(|c| *c.borrow().last().expect("no running program")) }
struct Frame;
impl Frame { fn push(p: Pubkey) -> Frame { CALLER.with(|c| c.borrow_mut().push(p)); Frame } }
impl Drop for Frame { fn drop(&mut self) { CALLER.with(|c| { c.borrow_mut().pop(); }); } }

fn lifetime_hack<'a>(infos: &[AccountInfo<'a>]) -> &'a [AccountInfo<'a>] { unsafe { std::mem::transmute(infos) } }

struct Stubs;
impl SyscallStubs for Stubs {
    fn sol_get_clock_sysvar(&self, var_addr: *mut u8) -> u64 {
        let clock = anchor_lang::solana_program::clock::Clock { slot: SLOT.load(Ordering::SeqCst), epoch_start_timestamp: 0, epoch: 0, leader_schedule_epoch: 0, unix_timestamp: NOW.load(Ordering::SeqCst) };
        unsafe { std::ptr::write_unaligned(var_addr as *mut anchor_lang::solana_program::clock::Clock, clock) };
        0
    }
    fn sol_get_rent_sysvar(&self, var_addr: *mut u8) -> u64 {
        unsafe { std::ptr::write_unaligned(var_addr as *mut Rent, Rent::default()) };
        0
    }
    fn sol_get_last_restart_slot(&self, var_addr: *mut u8) -> u64 { unsafe { std::ptr::write_unaligned(var_addr as *mut u64, 0) }; 0 }
    fn sol_log(&self, _m: &str) {}
    fn sol_set_return_data(&self, d: &[u8]) { *RETURN.lock().unwrap() = Some((current_program(), d.to_vec())); }
    fn sol_get_return_data(&self) -> Option<(Pubkey, Vec<u8>)> { RETURN.lock().unwrap().clone() }
    fn sol_invoke_signed(&self, ix: &Instruction, infos: &[AccountInfo], seeds: &[&[&[u8]]]) -> anchor_lang::solana_program::entrypoint::ProgramResult {
        let caller = current_program();
        // PDAs the caller may sign for
        let pdas: Vec<Pubkey> = seeds.iter().filter_map(|s| Pubkey::create_program_address(s, &caller).ok()).collect();
        // build the callee's account list with the runtime's privilege rules
        let mut sub: Vec<AccountInfo> = Vec::new();
        for m in &ix.accounts {
            let Some(i) = infos.iter().find(|i| *i.key == m.pubkey) else { return Err(ProgramError::NotEnoughAccountKeys) };
            if m.is_signer && !(i.is_signer || pdas.contains(i.key)) { return Err(ProgramError::MissingRequiredSignature); } // privilege escalation
            if m.is_writable && !i.is_writable { return Err(ProgramError::Custom(0xBAD0)); }
            let mut c = i.clone();
            c.is_signer = m.is_signer;
            c.is_writable = m.is_writable;
            sub.push(c);
        }
        let _f = Frame::push(ix.program_id);
        if ix.program_id == spl_token::ID {
            CPI_LOG.lock().unwrap().push(format!("token:{}", ix.data.first().copied().unwrap_or(255)));
            return spl_token::processor::Processor::process(&spl_token::ID, lifetime_hack(&sub), &ix.data);
        }
        if ix.program_id == ata_prog::ID {
            CPI_LOG.lock().unwrap().push("ata".into());
            return ata_prog::processor::process_instruction(&ata_prog::ID, lifetime_hack(&sub), &ix.data);
        }
        if ix.program_id == gmsol_store::ID {
            // `#[event_cpi]` self-invocation: sha256("anchor:event")[..8] little-endian tag
            if ix.data.len() >= 8 && ix.data[..8] == *anchor_lang::event::EVENT_IX_TAG_LE {
                EVENTS.lock().unwrap().push(ix.data[8..].to_vec());
                return Ok(());
            }
            return Err(ProgramError::Custom(0xBAD1));
        }
        if ix.program_id == SYS { return system(ix, &sub); }
        Err(ProgramError::IncorrectProgramId)
    }
}

/// System program emulation (bincode `SystemInstruction`, u32 LE tag).
fn system(ix: &Instruction, a: &[AccountInfo]) -> anchor_lang::solana_program::entrypoint::ProgramResult {
    let tag = u32::from_le_bytes(ix.data[..4].try_into().unwrap());
    let u64at = |o: usize| u64::from_le_bytes(ix.data[o..o + 8].try_into().unwrap());
    CPI_LOG.lock().unwrap().push(format!("system:{tag}"));
    match tag {
        0 => { // CreateAccount { lamports, space, owner }
            let (lamports, space, owner) = (u64at(4), u64at(12) as usize, Pubkey::new_from_array(ix.data[20..52].try_into().unwrap()));
            let (from, to) = (&a[0], &a[1]);
            if !from.is_signer || !to.is_signer { return Err(ProgramError::MissingRequiredSignature); }
            if to.lamports() != 0 || !to.data_is_empty() || *to.owner != SYS { return Err(ProgramError::AccountAlreadyInitialized); }
            if *from.owner != SYS || !from.data_is_empty() { return Err(ProgramError::InvalidArgument); }
            if from.lamports() < lamports { return Err(ProgramError::InsufficientFunds); }
            **from.lamports.borrow_mut() -= lamports;
            **to.lamports.borrow_mut() += lamports;
            to.realloc(space, true)?;
            to.assign(&owner);
            Ok(())
        }
        1 => { // Assign { owner }
            let owner = Pubkey::new_from_array(ix.data[4..36].try_into().unwrap());
            if !a[0].is_signer { return Err(ProgramError::MissingRequiredSignature); }
            if *a[0].owner != SYS { return Err(ProgramError::InvalidArgument); }
            a[0].assign(&owner);
            Ok(())
        }
        2 => { // Transfer { lamports }
            let lamports = u64at(4);
            let (from, to) = (&a[0], &a[1]);
            if !from.is_signer { return Err(ProgramError::MissingRequiredSignature); }
            if *from.owner != SYS || !from.data_is_empty() { return Err(ProgramError::InvalidArgument); }
            if from.lamports() < lamports { return Err(ProgramError::InsufficientFunds); }
            **from.lamports.borrow_mut() -= lamports;
            **to.lamports.borrow_mut() += lamports;
            Ok(())
        }
        8 => { // Allocate { space }
            let space = u64at(4) as usize;
            if !a[0].is_signer { return Err(ProgramError::MissingRequiredSignature); }
            if *a[0].owner != SYS || !a[0].data_is_empty() { return Err(ProgramError::AccountAlreadyInitialized); }
            a[0].realloc(space, true)?;
            Ok(())
        }
        _ => Err(ProgramError::InvalidInstructionData),
    }
}

extern "C" { fn dup(fd: i32) -> i32; fn dup2(a: i32, b: i32) -> i32; fn close(fd: i32) -> i32; }
struct Quiet { saved: i32 }
impl Quiet {
    fn new() -> Self {
        use std::io::Write; use std::os::fd::AsRawFd;
        std::io::stdout().flush().unwrap();
        let null = std::fs::OpenOptions::new().write(true).open("/dev/null").unwrap();
        let saved = unsafe { dup(1) };
        unsafe { dup2(null.as_raw_fd(), 1) };
        Quiet { saved }
    }
}
impl Drop for Quiet {
    fn drop(&mut self) { use std::io::Write; let _ = std::io::stdout().flush(); unsafe { dup2(self.saved, 1); close(self.saved); } }
}

// ---------------------------------------------------------------- in-memory ledger

#[derive(Clone, PartialEq, Debug)]
struct AccState { lamports: u64, data: Vec<u8>, owner: Pubkey, exec: bool }
#[derive(Clone, Default)]
struct Bank { m: BTreeMap<Pubkey, AccState> }

/// `pad`'s upper half is what `AccountInfo::realloc` reads as the original data length.
#[repr(C)]
struct KeyBox { pad: u64, key: Pubkey }
struct Buf { key: KeyBox, lamports: u64, buf: Vec<u128>, len: usize, owner: Pubkey, exec: bool }

#[derive(Clone, Copy)]
struct M { key: Pubkey, signer: bool, writable: bool }
fn ro(key: Pubkey) -> M { M { key, signer: false, writable: false } }
fn rw(key: Pubkey) -> M { M { key, signer: false, writable: true } }
fn sg(key: Pubkey) -> M { M { key, signer: true, writable: true } }

impl Bank {
    fn get(&self, k: &Pubkey) -> AccState { self.m.get(k).cloned().unwrap_or(AccState { lamports: 0, data: vec![], owner: SYS, exec: false }) }
    fn set(&mut self, k: Pubkey, s: AccState) { self.m.insert(k, s); }
    fn fund(&mut self, k: Pubkey, lamports: u64) { let mut a = self.get(&k); a.lamports += lamports; self.set(k, a); }
    fn program(&mut self, k: Pubkey) { self.set(k, AccState { lamports: 1, data: vec![], owner: SYS, exec: true }); }

    /// One transaction with one instruction of `program`. On success the ledger is updated; on failure it
    /// is left untouched (runtime atomicity) and the error is returned. Also returns whether the failed
    /// run had dirtied any account buffer.
    fn run(&mut self, program: Pubkey, metas: &[M], data: &[u8]) -> std::result::Result<(), (ProgramError, bool)> {
        let mut keys: Vec<Pubkey> = Vec::new();
        for m in metas { if !keys.contains(&m.key) { keys.push(m.key); } }
        let before: Vec<AccState> = keys.iter().map(|k| self.get(k)).collect();
        let mut bufs: Vec<Buf> = keys.iter().zip(&before).map(|(k, s)| {
            let cap = s.data.len() + 10_240 + 16;
            let mut buf = vec![0u128; (cap + 8) / 16 + 2];
            bytemuck::cast_slice_mut::<u128, u8>(&mut buf)[8..8 + s.data.len()].copy_from_slice(&s.data);
            Buf { key: KeyBox { pad: (s.data.len() as u64) << 32, key: *k }, lamports: s.lamports, buf, len: s.data.len(), owner: s.owner, exec: s.exec }
        }).collect();
        let flags: Vec<(bool, bool)> = keys.iter().map(|k| (metas.iter().any(|m| m.key == *k && m.signer), metas.iter().any(|m| m.key == *k && m.writable))).collect();
        let base: Vec<AccountInfo> = bufs.iter_mut().zip(&flags).map(|(b, (s, w))| {
            let d = &mut bytemuck::cast_slice_mut::<u128, u8>(&mut b.buf)[8..8 + b.len];
            AccountInfo::new(&b.key.key, *s, *w, &mut b.lamports, d, &b.owner, b.exec, 0)
        }).collect();
        let infos: Vec<AccountInfo> = metas.iter().map(|m| base[keys.iter().position(|k| *k == m.key).unwrap()].clone()).collect();
        EVENTS.lock().unwrap().clear();
        CPI_LOG.lock().unwrap().clear();
        *RETURN.lock().unwrap() = None;
        let r = {
            let _f = Frame::push(program);
            let _q = Quiet::new();
            if program == gmsol_store::ID { gmsol_store::entry(&program, lifetime_hack(&infos), data) } else { Err(ProgramError::IncorrectProgramId) }
        };
        let after: Vec<AccState> = base.iter().map(|i| AccState { lamports: i.lamports(), data: i.data.borrow().to_vec(), owner: *i.owner, exec: i.executable }).collect();
        match r {
            Ok(()) => {
                // the runtime's own post-conditions: lamports conserved, read-only accounts untouched
                let (l0, l1): (u128, u128) = (before.iter().map(|a| a.lamports as u128).sum(), after.iter().map(|a| a.lamports as u128).sum());
                assert_eq!(l0, l1, "lamports not conserved by the instruction");
                for ((k, a), (b, (_, w))) in keys.iter().zip(&after).zip(before.iter().zip(&flags)) {
                    if !w { assert!(a == b, "read-only account {k} modified"); }
                    if a.lamports == 0 { self.m.remove(k); /* the runtime purges zero-lamport accounts */ } else { self.m.insert(*k, a.clone()); }
                }
                Ok(())
            }
            Err(e) => Err((e, after != before)),
        }
    }
}

fn disc<T: Discriminator + bytemuck::Pod>(t: &T) -> Vec<u8> { let mut d = T::DISCRIMINATOR.to_vec(); d.extend_from_slice(bytemuck::bytes_of(t)); d }
fn pod<T: bytemuck::Pod>(bytes: &[u8]) -> T { bytemuck::pod_read_unaligned(&bytes[8..8 + std::mem::size_of::<T>()]) }
fn token_amount(b: &Bank, k: &Pubkey) -> Option<u64> { let a = b.get(k); if a.owner != spl_token::ID || a.data.len() != spl_token::state::Account::LEN { return None; } spl_token::state::Account::unpack(&a.data).ok().map(|t| t.amount) }
fn mint_supply(b: &Bank, k: &Pubkey) -> u64 { spl_token::state::Mint::unpack(&b.get(k).data).map(|m| m.supply).unwrap_or(0) }
fn ata(owner: &Pubkey, mint: &Pubkey) -> Pubkey { anchor_spl::associated_token::get_associated_token_address(owner, mint) }


// ---------------------------------------------------------------- the world

const UNIT_PRICE_DECIMALS: u8 = 8;

struct World {
    b: Bank,
    admin: Pubkey,      // store authority, MARKET_KEEPER
    keeper: Pubkey,     // ORDER_KEEPER
    store: Pubkey,
    store_wallet: Pubkey,
    token_map: Pubkey,
    oracle: Pubkey,
    long: Pubkey,       // long token mint (also the index token), 9 decimals
    short: Pubkey,      // short token mint, 6 decimals
    market_token: Pubkey,
    market: Pubkey,
    long_vault: Pubkey,
    short_vault: Pubkey,
    feeds: [Pubkey; 2],
    event_authority: Pubkey,
}

fn must(r: std::result::Result<(), (ProgramError, bool)>, what: &str) { if let Err((e, _)) = r { panic!("set-up step `{what}` failed: {e:?} cpis={:?}", CPI_LOG.lock().unwrap()); } }

fn put_mint(b: &mut Bank, key: Pubkey, decimals: u8, authority: Pubkey) {
    let m = spl_token::state::Mint { mint_authority: Some(authority).into(), supply: 0, decimals, is_initialized: true, freeze_authority: None.into() };
    let mut d = vec![0u8; spl_token::state::Mint::LEN];
    m.pack_into_slice(&mut d);
    b.set(key, AccState { lamports: Rent::default().minimum_balance(d.len()), data: d, owner: spl_token::ID, exec: false });
}

/// a funded token account (stands for tokens the user obtained earlier); bumps the mint supply accordingly
fn put_token_account(b: &mut Bank, key: Pubkey, mint: Pubkey, owner: Pubkey, amount: u64) {
    let a = spl_token::state::Account { mint, owner, amount, state: spl_token::state::AccountState::Initialized, ..Default::default() };
    let mut d = vec![0u8; spl_token::state::Account::LEN];
    a.pack_into_slice(&mut d);
    b.set(key, AccState { lamports: Rent::default().minimum_balance(d.len()), data: d, owner: spl_token::ID, exec: false });
    let mut ms = b.get(&mint);
    let mut m = spl_token::state::Mint::unpack(&ms.data).unwrap();
    m.supply += amount;
    m.pack_into_slice(&mut ms.data);
    b.set(mint, ms);
}

impl World {
    fn new() -> World {
        use gmsol_store::instruction as ix;
        use gmsol_store::states::{Market, Oracle, PriceFeed, PriceProviderKind, RoleKey, Store};
        let pid = gmsol_store::ID;
        let mut b = Bank::default();
        for p in [pid, SYS, spl_token::ID, ata_prog::ID] { b.program(p); }
        let admin = Pubkey::new_from_array([1; 32]);
        let keeper = Pubkey::new_from_array([2; 32]);
        b.fund(admin, 1_000_000_000_000);
        b.fund(keeper, 10_000_000_000);
        let store = Pubkey::find_program_address(&[Store::SEED, &gmsol_utils::to_seed("")], &pid).0;
        let store_wallet = Pubkey::find_program_address(&[Store::WALLET_SEED, store.as_ref()], &pid).0;
        must(b.run(pid, &[sg(admin), ro(pid), ro(pid), ro(pid), rw(store), ro(SYS)], &ix::Initialize { key: String::new() }.data()), "initialize");
        for role in [RoleKey::MARKET_KEEPER, RoleKey::ORDER_KEEPER] {
            must(b.run(pid, &[sg(admin), rw(store)], &ix::EnableRole { role: role.to_string() }.data()), "enable_role");
        }
        must(b.run(pid, &[sg(admin), rw(store)], &ix::GrantRole { user: admin, role: RoleKey::MARKET_KEEPER.to_string() }.data()), "grant market keeper");
        must(b.run(pid, &[sg(admin), rw(store)], &ix::GrantRole { user: keeper, role: RoleKey::ORDER_KEEPER.to_string() }.data()), "grant order keeper");
        // token map
        let token_map = Pubkey::new_from_array([3; 32]);
        must(b.run(pid, &[sg(admin), ro(store), sg(token_map), ro(SYS)], &ix::InitializeTokenMap {}.data()), "initialize_token_map");
        let long = Pubkey::new_from_array([4; 32]);
        let short = Pubkey::new_from_array([5; 32]);
        put_mint(&mut b, long, 9, admin);
        put_mint(&mut b, short, 6, admin);
        let feeds = [Pubkey::new_from_array([6; 32]), Pubkey::new_from_array([7; 32])];
        let feed_ids = [Pubkey::new_from_array([16; 32]), Pubkey::new_from_array([17; 32])];
        for (i, (mint, name)) in [(long, "LONG"), (short, "SHORT")].into_iter().enumerate() {
            let builder = gmsol_utils::token_config::UpdateTokenConfigParams::default()
                .update_price_feed(&PriceProviderKind::ChainlinkDataStreams, feed_ids[i], None).unwrap()
                .with_expected_provider(PriceProviderKind::ChainlinkDataStreams)
                .with_heartbeat_duration(120).with_precision(4);
            must(b.run(pid, &[sg(admin), ro(store), rw(token_map), ro(mint), ro(SYS)],
                &ix::PushToTokenMap { name: name.to_string(), builder, enable: true, new: true }.data()), "push_to_token_map");
        }
        must(b.run(pid, &[sg(admin), rw(store), ro(token_map)], &ix::SetTokenMap {}.data()), "set_token_map");
        // vaults + market
        let vault = |m: &Pubkey| Pubkey::find_program_address(&[gmsol_store::constants::MARKET_VAULT_SEED, store.as_ref(), m.as_ref()], &pid).0;
        let (long_vault, short_vault) = (vault(&long), vault(&short));
        for (m, v) in [(long, long_vault), (short, short_vault)] {
            must(b.run(pid, &[sg(admin), ro(store), ro(m), rw(v), ro(SYS), ro(spl_token::ID)], &ix::InitializeMarketVault {}.data()), "initialize_market_vault");
        }
        let market_token = Pubkey::find_program_address(&[gmsol_store::constants::MARKET_TOKEN_MINT_SEED, store.as_ref(), long.as_ref(), long.as_ref(), short.as_ref()], &pid).0;
        let market = Pubkey::find_program_address(&[Market::SEED, store.as_ref(), market_token.as_ref()], &pid).0;
        must(b.run(pid, &[sg(admin), ro(store), rw(market_token), ro(long), ro(short), rw(market), ro(token_map), ro(long_vault), ro(short_vault), ro(SYS), ro(spl_token::ID)],
            &ix::InitializeMarket { index_token_mint: long, name: "M".to_string(), enable: true }.data()), "initialize_market");
        // oracle (a zeroed, program-owned account, as created by the client before `initialize_oracle`)
        let oracle = Pubkey::new_from_array([8; 32]);
        let osz = 8 + std::mem::size_of::<Oracle>();
        b.set(oracle, AccState { lamports: Rent::default().minimum_balance(osz), data: vec![0; osz], owner: pid, exec: false });
        must(b.run(pid, &[sg(admin), ro(keeper), ro(store), rw(oracle), ro(SYS)], &ix::InitializeOracle {}.data()), "initialize_oracle");
        // custom price feeds
        for i in 0..2 {
            let mut f = PriceFeed::default();
            gmsol_store::verif::c24::price_feed_init(&mut f, PriceProviderKind::ChainlinkDataStreams, &store, &keeper, &[long, short][i], &feed_ids[i]).expect("feed init");
            let d = disc(&f);
            b.set(feeds[i], AccState { lamports: Rent::default().minimum_balance(d.len()), data: d, owner: pid, exec: false });
        }
        let event_authority = Pubkey::find_program_address(&[b"__event_authority"], &pid).0;
        World { b, admin, keeper, store, store_wallet, token_map, oracle, long, short, market_token, market, long_vault, short_vault, feeds, event_authority }
    }

    /// publish prices (8 decimals) at the current clock
    fn set_prices(&mut self, long_price: u128, short_price: u128, ts: i64) {
        use gmsol_store::states::{PriceFeed, PriceFeedPrice};
        for (i, p) in [long_price, short_price].into_iter().enumerate() {
            let st = self.b.get(&self.feeds[i]);
            let mut f: PriceFeed = pod(&st.data);
            let mut price = PriceFeedPrice::new(UNIT_PRICE_DECIMALS, ts, p, p, p, 0);
            price.set_flag(gmsol_utils::price::PriceFlag::Open, true);
            gmsol_store::verif::c24::price_feed_update(&mut f, &price, 3600, true).expect("feed update");
            self.b.set(self.feeds[i], AccState { data: disc(&f), ..st });
        }
    }
}


// ---------------------------------------------------------------- the life cycle

#[derive(Clone)]
struct Dep { owner: Pubkey, receiver: Pubkey, nonce: [u8; 32], key: Pubkey, long_amount: u64, short_amount: u64, exec_lamports: u64 }

fn opt(k: Option<Pubkey>, writable: bool) -> M { match k { Some(k) => if writable { rw(k) } else { ro(k) }, None => ro(gmsol_store::ID) } }

impl World {
    fn user(&mut self, u: u8, long: u64, short: u64) -> Pubkey {
        let k = Pubkey::new_from_array([100 + u; 32]);
        if self.b.get(&k).lamports == 0 {
            self.b.fund(k, 5_000_000_000);
            let (l, s) = (self.long, self.short);
            put_token_account(&mut self.b, ata(&k, &l), l, k, long);
            put_token_account(&mut self.b, ata(&k, &s), s, k, short);
        }
        k
    }

    fn deposit_key(&self, owner: &Pubkey, nonce: &[u8; 32]) -> Pubkey {
        Pubkey::find_program_address(&[gmsol_store::states::Deposit::SEED, self.store.as_ref(), owner.as_ref(), nonce], &gmsol_store::ID).0
    }

    fn prepare_escrow(&mut self, payer: Pubkey, owner: Pubkey, mint: Pubkey) -> std::result::Result<(), (ProgramError, bool)> {
        let acc = ata(&owner, &mint);
        self.b.run(gmsol_store::ID, &[sg(payer), ro(owner), ro(mint), rw(acc), ro(SYS), ro(spl_token::ID), ro(ata_prog::ID)],
            &gmsol_store::instruction::PrepareAssociatedTokenAccount {}.data())
    }

    #[allow(clippy::too_many_arguments)]
    fn create_deposit(&mut self, owner: Pubkey, receiver: Pubkey, nonce: [u8; 32], long_amount: u64, short_amount: u64, min_out: u64, exec_lamports: u64,
                      with_long: bool, with_short: bool) -> std::result::Result<Dep, (ProgramError, bool)> {
        let key = self.deposit_key(&owner, &nonce);
        let params = gmsol_store::ops::deposit::CreateDepositParams { execution_lamports: exec_lamports, long_token_swap_length: 0, short_token_swap_length: 0,
            initial_long_token_amount: long_amount, initial_short_token_amount: short_amount, min_market_token_amount: min_out, should_unwrap_native_token: false };
        let (l, s, mt) = (self.long, self.short, self.market_token);
        let metas = [sg(owner), ro(receiver), ro(self.store), rw(self.market), rw(key), ro(mt),
            opt(with_long.then_some(l), false), opt(with_short.then_some(s), false),
            rw(ata(&key, &mt)), opt(with_long.then_some(ata(&key, &l)), true), opt(with_short.then_some(ata(&key, &s)), true),
            rw(ata(&receiver, &mt)), opt(with_long.then_some(ata(&owner, &l)), true), opt(with_short.then_some(ata(&owner, &s)), true),
            ro(SYS), ro(spl_token::ID), ro(ata_prog::ID)];
        self.b.run(gmsol_store::ID, &metas, &gmsol_store::instruction::CreateDeposit { nonce, params }.data())?;
        Ok(Dep { owner, receiver, nonce, key, long_amount, short_amount, exec_lamports })
    }

    fn execute_deposit(&mut self, authority: Pubkey, d: &Dep, execution_fee: u64, throw: bool, with_long: bool, with_short: bool, feeds: &[Pubkey]) -> std::result::Result<(), (ProgramError, bool)> {
        let (l, s, mt) = (self.long, self.short, self.market_token);
        let mut metas = vec![sg(authority), ro(self.store), ro(self.token_map), rw(self.oracle), rw(self.market), rw(d.key), rw(mt),
            opt(with_long.then_some(l), false), opt(with_short.then_some(s), false),
            rw(ata(&d.key, &mt)), opt(with_long.then_some(ata(&d.key, &l)), true), opt(with_short.then_some(ata(&d.key, &s)), true),
            opt(with_long.then_some(self.long_vault), true), opt(with_short.then_some(self.short_vault), true),
            ro(spl_token::ID), ro(SYS), ro(gmsol_store::ID), ro(self.event_authority), ro(gmsol_store::ID)];
        for f in feeds { metas.push(ro(*f)); }
        self.b.run(gmsol_store::ID, &metas, &gmsol_store::instruction::ExecuteDeposit { execution_fee, throw_on_execution_error: throw }.data())
    }

    fn close_deposit(&mut self, executor: Pubkey, d: &Dep, with_long: bool, with_short: bool) -> std::result::Result<(), (ProgramError, bool)> {
        let (l, s, mt) = (self.long, self.short, self.market_token);
        let metas = [sg(executor), ro(self.store), rw(self.store_wallet), rw(d.owner), rw(d.receiver), ro(mt),
            opt(with_long.then_some(l), false), opt(with_short.then_some(s), false), rw(d.key),
            rw(ata(&d.key, &mt)), opt(with_long.then_some(ata(&d.key, &l)), true), opt(with_short.then_some(ata(&d.key, &s)), true),
            rw(ata(&d.receiver, &mt)), opt(with_long.then_some(ata(&d.owner, &l)), true), opt(with_short.then_some(ata(&d.owner, &s)), true),
            ro(SYS), ro(spl_token::ID), ro(ata_prog::ID), ro(self.event_authority), ro(gmsol_store::ID)];
        self.b.run(gmsol_store::ID, &metas, &gmsol_store::instruction::CloseDeposit { reason: "test".to_string() }.data())
    }
}


// ---------------------------------------------------------------- harness: protocol, oracle, generator

const NUSERS: u8 = 3;
const NDEPS: u8 = 4;
const LONG0: u64 = 1_000_000_000_000;
const SHORT0: u64 = 5_000_000_000;

struct Sid { w: World, now: i64, deps: BTreeMap<(u8, u8), (Dep, Snap0)>, states: BTreeMap<(u8, u8), Vec<u8>>, fees: [u128; 3], lam0: [u128; 3] }
fn dep_id(t: &str) -> Option<(u8, u8)> { let (u, d) = t.split_once('.')?; let (u, d) = (u.parse::<u8>().ok()?, d.parse::<u8>().ok()?); (u < NUSERS && d < NDEPS).then_some((u, d)) }
/// what the oracle remembers from creation time
#[derive(Clone)]
struct Snap0 { owner_total_lamports: u128 }

fn who(w: &World, t: &str) -> Option<Pubkey> {
    match t { "k" => Some(w.keeper), "a" => Some(w.admin), _ => { let u: u8 = t.strip_prefix('u')?.parse().ok()?; (u < NUSERS).then(|| Pubkey::new_from_array([100 + u; 32])) } }
}
fn dep_state(w: &World, d: &Dep) -> Option<u8> {
    let a = w.b.m.get(&d.key)?;
    let dep: gmsol_store::states::Deposit = pod(&a.data);
    use gmsol_store::states::common::action::{Action, ActionState};
    Some(match dep.header().action_state().ok()? { ActionState::Pending => 0, ActionState::Completed => 1, ActionState::Cancelled => 2, _ => 9 })
}
fn bal(w: &World, owner: &Pubkey, mint: &Pubkey) -> u64 { token_amount(&w.b, &ata(owner, mint)).unwrap_or(0) }
fn recorded(w: &World) -> (u64, u64) { let m: Box<gmsol_store::states::Market> = Box::new(pod(&w.b.get(&w.market).data)); (m.state().long_token_balance_raw(), m.state().short_token_balance_raw()) }
fn pos(x: u64) -> &'static str { if x > 0 { "+" } else { "0" } }

fn digest(s: &Sid) -> String {
    let w = &s.w;
    let users: Vec<String> = (0..NUSERS).filter_map(|u| { let k = Pubkey::new_from_array([100 + u; 32]); w.b.m.contains_key(&k).then(|| format!("{u}:{}:{}:{}", bal(w, &k, &w.long), bal(w, &k, &w.short), pos(bal(w, &k, &w.market_token)))) }).collect();
    let deps: Vec<String> = s.deps.iter().filter_map(|(i, (d, _))| dep_state(w, d).map(|st| format!("{}.{}:{st}:{}:{}:{}", i.0, i.1, bal(w, &d.key, &w.long), bal(w, &d.key, &w.short), pos(bal(w, &d.key, &w.market_token))))).collect();
    let (rl, rs) = recorded(w);
    format!("now={} users=[{}] deps=[{}] vault={}:{} rec={}:{}", s.now, users.join(","), deps.join(","), token_amount(&w.b, &w.long_vault).unwrap_or(0), token_amount(&w.b, &w.short_vault).unwrap_or(0), rl, rs)
}

/// token totals per mint over every token account in the ledger
fn totals(w: &World) -> BTreeMap<Pubkey, u128> {
    let mut t = BTreeMap::new();
    for a in w.b.m.values() { if a.owner == spl_token::ID && a.data.len() == spl_token::state::Account::LEN { if let Ok(acc) = spl_token::state::Account::unpack(&a.data) { *t.entry(acc.mint).or_insert(0u128) += acc.amount as u128; } } }
    t
}

/// invariants that must hold after EVERY successful instruction (C22 vault clause, supply, conservation)
fn invariants(s: &Sid, before_tot: &BTreeMap<Pubkey, u128>, req: &str, out: &mut Out) {
    let w = &s.w;
    let (rl, rs) = recorded(w);
    let (vl, vs) = (token_amount(&w.b, &w.long_vault).unwrap_or(0), token_amount(&w.b, &w.short_vault).unwrap_or(0));
    if rl > vl || rs > vs { out.oracle_fail(&format!("recorded market balance exceeds the vault: rec {rl}:{rs} vault {vl}:{vs}"), req); }
    let t = totals(w);
    for m in [w.long, w.short] { if t.get(&m) != before_tot.get(&m) { out.oracle_fail("collateral tokens were created or destroyed", req); } }
    if t.get(&w.market_token).copied().unwrap_or(0) != mint_supply(&w.b, &w.market_token) as u128 { out.oracle_fail("market token supply differs from the sum of holdings", req); }
    // lamports: whatever the owner side (wallet, own token accounts, deposits, escrows) no longer holds is exactly the execution fees paid
    for u in 0..NUSERS { let k = Pubkey::new_from_array([100 + u; 32]); if owner_side_lamports(w, &k) as u128 + s.fees[u as usize] != s.lam0[u as usize] { out.oracle_fail(&format!("lamports of user {u} leaked: not all unused lamports are with the owner"), req); } }
}

// ---------------------------------------------------------------- market-pool oracle (C22, first clause) — independent of the model
/// every pool of the stored Market, read with the program's public `Market::pool` accessor: (long amount, short amount)
const POOL_KINDS: [gmsol_model::PoolKind; 16] = { use gmsol_model::PoolKind::*; [Primary, SwapImpact, ClaimableFee, OpenInterestForLong, OpenInterestForShort,
    OpenInterestInTokensForLong, OpenInterestInTokensForShort, PositionImpact, BorrowingFactor, FundingAmountPerSizeForLong, FundingAmountPerSizeForShort,
    ClaimableFundingAmountPerSizeForLong, ClaimableFundingAmountPerSizeForShort, CollateralSumForLong, CollateralSumForShort, TotalBorrowing] };
#[derive(Clone, PartialEq, Debug)]
struct PoolSnap { pools: Vec<Option<(u128, u128)>>, rec: (u64, u64) }
impl PoolSnap {
    fn take(w: &World) -> Option<PoolSnap> {
        use gmsol_model::Balance;
        let a = w.b.get(&w.market);
        if a.data.is_empty() { return None; }
        let m: Box<gmsol_store::states::Market> = Box::new(pod(&a.data));
        let pools = POOL_KINDS.iter().map(|k| m.pool(*k).map(|p| (p.long_amount().unwrap_or(u128::MAX), p.short_amount().unwrap_or(u128::MAX)))).collect();
        Some(PoolSnap { pools, rec: (m.state().long_token_balance_raw(), m.state().short_token_balance_raw()) })
    }
    fn kind(&self, i: usize) -> (u128, u128) { self.pools[i].unwrap_or((0, 0)) }
    /// liquidity + swap impact + claimable fee, per token
    fn min_balance(&self) -> (u128, u128) { let (a, b, c) = (self.kind(0), self.kind(1), self.kind(2)); (a.0 + b.0 + c.0, a.1 + b.1 + c.1) }
    /// position collateral held in each token (long positions + short positions)
    fn collateral(&self) -> (u128, u128) { let (a, b) = (self.kind(13), self.kind(14)); (a.0 + b.0, a.1 + b.1) }
}

/// the REAL `validate_market_balances(0, 0)` on the stored market (hook `verif::c44::validate_balances`)
fn real_validate_market_balances(w: &World) -> bool {
    let a = w.b.get(&w.market);
    let mut buf = vec![0u128; (a.data.len() + 8) / 16 + 2];
    let bytes = bytemuck::cast_slice_mut::<u128, u8>(&mut buf);
    bytes[8..8 + a.data.len()].copy_from_slice(&a.data);
    let (mut lam, mut lam2) = (a.lamports, 0u64);
    let (key, owner, ek) = (w.market, a.owner, w.event_authority);
    let mut empty: [u8; 0] = [];
    let infos = [AccountInfo::new(&key, false, true, &mut lam, &mut bytes[8..8 + a.data.len()], &owner, false, 0),
                 AccountInfo::new(&ek, false, false, &mut lam2, &mut empty, &SYS, false, 0)];
    let infos = lifetime_hack(&infos);
    let Ok(loader) = AccountLoader::<gmsol_store::states::Market>::try_from(&infos[0]) else { return false };
    let _q = Quiet::new();
    gmsol_store::verif::c44::validate_balances(&loader, &infos[1], (0, 0)).is_ok()
}

/// after EVERY instruction: (1) the recorded balance covers liquidity + swap impact + claimable fees and, separately,
/// the position collateral — by the real validator AND recomputed here from the pool amounts; (2) anything but a
/// completed execution leaves every pool identical; (3) a completed deposit / withdrawal / swap changes
/// liquidity + swap impact + claimable fees by exactly what it moved into / out of the recorded balance.
fn pool_oracle(w: &World, before: &Option<PoolSnap>, completed: bool, exact: bool, req: &str, out: &mut Out) {
    let Some(after) = PoolSnap::take(w) else { return };
    let (mb, col) = (after.min_balance(), after.collateral());
    let covered = mb.0 <= after.rec.0 as u128 && mb.1 <= after.rec.1 as u128 && col.0 <= after.rec.0 as u128 && col.1 <= after.rec.1 as u128;
    if !covered { out.oracle_fail(&format!("recorded balance {:?} does not cover liquidity + swap impact + claimable fees {:?} / collateral {:?}", after.rec, mb, col), req); }
    if real_validate_market_balances(w) != covered { out.oracle_fail("the real validate_market_balances(0, 0) disagrees with the inequality recomputed from the pools", req); }
    let Some(b) = before else { return };
    if !completed {
        if b.pools != after.pools { out.oracle_fail("a rejected instruction / a cancelled execution changed the pools of the market", req); }
    } else if exact {
        let mb0 = b.min_balance();
        let d = |x: u128, y: u128| x as i128 - y as i128;
        if d(mb.0, mb0.0) != d(after.rec.0 as u128, b.rec.0 as u128) || d(mb.1, mb0.1) != d(after.rec.1 as u128, b.rec.1 as u128) {
            out.oracle_fail(&format!("completed execution: liquidity + swap impact + claimable fees moved by {}:{}, the recorded balance by {}:{}", d(mb.0, mb0.0), d(mb.1, mb0.1), d(after.rec.0 as u128, b.rec.0 as u128), d(after.rec.1 as u128, b.rec.1 as u128)), req);
        }
    }
}

fn exec(ss: &mut BTreeMap<String, Sid>, req: &str, out: &mut Out) -> (String, bool) {
    let t: Vec<&str> = req.split(' ').collect();
    let sid = t.get(2).map(|x| x.to_string()).unwrap_or_default();
    let is_new = t.get(1) == Some(&"new");
    let before = if is_new { None } else { ss.get(&sid).and_then(|s| PoolSnap::take(&s.w)) };
    let r = exec_inner(ss, req, out);
    if let Some(s) = ss.get(&sid) {
        let completed = t.get(1) == Some(&"exec") && r.0.starts_with("ok completed");
        pool_oracle(&s.w, &before, completed, EXACT_KIND(&t), req, out);
    }
    r
}
#[allow(non_snake_case)] fn EXACT_KIND(_t: &[&str]) -> bool { true }   // every action of this harness is a deposit

fn exec_inner(ss: &mut BTreeMap<String, Sid>, req: &str, out: &mut Out) -> (String, bool) {
    let t: Vec<&str> = req.split(' ').collect();
    let bad = || ("bad-op".to_string(), false);
    if t.len() < 3 || t[0] != "life" { return bad(); }
    let sid = t[2].to_string();
    if t[1] == "new" {
        if t.len() != 3 { return bad(); }
        NOW.store(1_700_000_000, Ordering::SeqCst);
        let mut w = World::new();
        for u in 0..NUSERS { w.user(u, LONG0, SHORT0); }
        let now = NOW.load(Ordering::SeqCst);
        let lam0 = [0u8, 1, 2].map(|u| owner_side_lamports(&w, &Pubkey::new_from_array([100 + u; 32])) as u128);
        let s = Sid { w, now, deps: BTreeMap::new(), states: BTreeMap::new(), fees: [0; 3], lam0 };
        let d = digest(&s);
        ss.insert(sid, s);
        return (format!("ok | {d}"), false);
    }
    let Some(s) = ss.get_mut(&sid) else { return bad() };
    NOW.store(s.now, Ordering::SeqCst);
    let tot0 = totals(&s.w);
    match t[1] {
        "tick" => {
            let Some(dt) = t.get(3).and_then(|x| x.parse::<u32>().ok()) else { return bad() };
            if t.len() != 4 || dt > 100_000 { return bad(); }
            s.now += dt as i64;
            (format!("ok | {}", digest(s)), false)
        }
        "price" => {
            let Some(age) = t.get(3).and_then(|x| x.parse::<u32>().ok()) else { return bad() };
            if t.len() != 4 || age > 100_000 { return bad(); }
            let now = s.now;
            s.w.set_prices(150_00000000, 1_00000000, now - age as i64);
            (format!("ok | {}", digest(s)), false)
        }
        "create" => {
            if t.len() != 9 { return bad(); }
            let (Some(u), Some(d), Some(l), Some(sh), Some(minflag), Some(el)) = (t[3].parse::<u8>().ok(), t[4].parse::<u8>().ok(), t[5].parse::<u64>().ok(), t[6].parse::<u64>().ok(), t[7].parse::<u8>().ok(), t[8].parse::<u64>().ok()) else { return bad() };
            if u >= NUSERS || d >= NDEPS || minflag > 1 || el > 50_000_000 { return bad(); }
            let owner = Pubkey::new_from_array([100 + u; 32]);
            let nonce = [d + 1; 32];
            let key = s.w.deposit_key(&owner, &nonce);
            let (lm, sm, mt) = (s.w.long, s.w.short, s.w.market_token);
            let lam0: u128 = owner_side_lamports(&s.w, &owner) as u128;
            for m in [mt, lm, sm] { if !s.w.b.m.contains_key(&ata(&key, &m)) { let _ = s.w.prepare_escrow(owner, key, m); } }
            let before = (bal(&s.w, &owner, &lm), bal(&s.w, &owner, &sm));
            let occupied = s.w.b.m.contains_key(&key);
            let r = s.w.create_deposit(owner, owner, nonce, l, sh, if minflag == 1 { u64::MAX } else { 0 }, el, true, true);
            match r {
                Err(_) => (format!("err | {}", digest(s)), false),
                Ok(dep) => {
                    if occupied { out.oracle_fail("a deposit account was created over an existing one", req); }
                    // escrow holds exactly what left the owner
                    if bal(&s.w, &key, &lm) != l || bal(&s.w, &key, &sm) != sh || before.0 - bal(&s.w, &owner, &lm) != l || before.1 - bal(&s.w, &owner, &sm) != sh { out.oracle_fail("escrow does not hold exactly the tokens taken from the owner", req); }
                    if dep_state(&s.w, &dep) != Some(0) { out.oracle_fail("new deposit is not pending", req); }
                    s.deps.insert((u, d), (dep, Snap0 { owner_total_lamports: lam0 }));
                    s.states.insert((u, d), vec![0]);
                    invariants(s, &tot0, req, out);
                    (format!("ok | {}", digest(s)), true)
                }
            }
        }
        "exec" => {
            if t.len() != 7 { return bad(); }
            let (Some(auth), Some(d), Some(fee), Some(throw)) = (who(&s.w, t[3]), dep_id(t[4]), t[5].parse::<u64>().ok(), t[6].parse::<u8>().ok()) else { return bad() };
            if throw > 1 { return bad(); }
            let Some((dep, _)) = s.deps.get(&d).cloned() else { return (format!("err | {}", digest(s)), false) };
            let (lm, sm, mt) = (s.w.long, s.w.short, s.w.market_token);
            let st0 = dep_state(&s.w, &dep);
            let (el0, es0, vl0, vs0) = (bal(&s.w, &dep.key, &lm), bal(&s.w, &dep.key, &sm), token_amount(&s.w.b, &s.w.long_vault).unwrap_or(0), token_amount(&s.w.b, &s.w.short_vault).unwrap_or(0));
            let (dl0, kl0) = (s.w.b.get(&dep.key).lamports, s.w.b.get(&auth).lamports);
            let feeds = s.w.feeds;
            let r = s.w.execute_deposit(auth, &dep, fee, throw == 1, true, true, &feeds);
            match r {
                Err(_) => (format!("err | {}", digest(s)), false),
                Ok(()) => {
                    let st1 = dep_state(&s.w, &dep);
                    let (el1, es1, vl1, vs1) = (bal(&s.w, &dep.key, &lm), bal(&s.w, &dep.key, &sm), token_amount(&s.w.b, &s.w.long_vault).unwrap_or(0), token_amount(&s.w.b, &s.w.short_vault).unwrap_or(0));
                    let minted = bal(&s.w, &dep.key, &mt);
                    let paid = s.w.b.get(&auth).lamports - kl0;
                    // ---- property oracle
                    if st0 != Some(0) { out.oracle_fail("a non-pending deposit was executed (state changed more than once)", req); }
                    if !s.w.b.get(&s.w.store).data.is_empty() && auth != s.w.keeper { out.oracle_fail("executed by a non-keeper", req); }
                    match st1 {
                        Some(1) => {
                            if el1 != 0 || es1 != 0 || vl1 - vl0 != el0 || vs1 - vs0 != es0 { out.oracle_fail("completed deposit: escrow did not move exactly into the vaults", req); }
                            if minted == 0 { out.oracle_fail("completed deposit minted nothing", req); }
                            out.stat("exec.completed");
                        }
                        Some(2) => {
                            if el1 != el0 || es1 != es0 || vl1 != vl0 || vs1 != vs0 { out.oracle_fail("cancelled deposit: escrow was not returned in full", req); }
                            if minted != 0 { out.oracle_fail("cancelled deposit minted market tokens", req); }
                            if throw == 1 { out.oracle_fail("soft failure although throw_on_execution_error was set", req); }
                            out.stat("exec.cancelled");
                        }
                        _ => out.oracle_fail("execute left the deposit pending", req),
                    }
                    if paid != fee.min(dep.exec_lamports) || dl0 - s.w.b.get(&dep.key).lamports != paid { out.oracle_fail("execution fee paid differs from min(fee, execution lamports)", req); }
                    s.fees[d.0 as usize] += paid as u128;
                    s.states.get_mut(&d).unwrap().push(st1.unwrap_or(9));
                    if s.states[&d].len() > 2 { out.oracle_fail("action state changed more than once", req); }
                    invariants(s, &tot0, req, out);
                    (format!("ok {} fee={paid} | {}", match st1 { Some(1) => "completed", Some(2) => "cancelled", _ => "?" }, digest(s)), true)
                }
            }
        }
        "close" => {
            if t.len() != 5 { return bad(); }
            let (Some(ex), Some(d)) = (who(&s.w, t[3]), dep_id(t[4])) else { return bad() };
            let Some((dep, snap0)) = s.deps.get(&d).cloned() else { return (format!("err | {}", digest(s)), false) };
            let (lm, sm, mt) = (s.w.long, s.w.short, s.w.market_token);
            let st0 = dep_state(&s.w, &dep);
            let (el0, es0, em0) = (bal(&s.w, &dep.key, &lm), bal(&s.w, &dep.key, &sm), bal(&s.w, &dep.key, &mt));
            let (ul0, us0, um0) = (bal(&s.w, &dep.owner, &lm), bal(&s.w, &dep.owner, &sm), bal(&s.w, &dep.owner, &mt));
            let keeper_gain: u128 = 0;
            let ledger0 = s.w.b.clone();
            let r = s.w.close_deposit(ex, &dep, true, true);
            match r {
                Err((_, _dirty)) => {
                    if ex == dep.owner && st0.is_some() { out.oracle_fail("the owner could not close their own deposit", req); }
                    if s.w.b.m != ledger0.m { out.oracle_fail("a rejected close changed account bytes", req); }
                    (format!("err | {}", digest(s)), false)
                }
                Ok(()) => {
                    // ---- property oracle
                    let is_owner = ex == dep.owner;
                    if !is_owner && ex != s.w.keeper { out.oracle_fail("a stranger closed the deposit", req); }
                    if !is_owner && st0 == Some(0) { out.oracle_fail("a keeper closed a pending deposit", req); }
                    if s.w.b.m.contains_key(&dep.key) { out.oracle_fail("deposit account still exists after close", req); }
                    for m in [lm, sm, mt] { if s.w.b.m.contains_key(&ata(&dep.key, &m)) { out.oracle_fail("an escrow account survived the close", req); } }
                    if bal(&s.w, &dep.owner, &lm) != ul0 + el0 || bal(&s.w, &dep.owner, &sm) != us0 + es0 || bal(&s.w, &dep.owner, &mt) != um0 + em0 { out.oracle_fail("escrowed tokens did not all go home to the owner", req); }
                    // lamports: everything the owner side spent since creation came back except the fees paid to the keeper
                    let lam1 = owner_side_lamports(&s.w, &dep.owner) as u128;
                    let fees: u128 = s.w.b.get(&s.w.keeper).lamports as u128; let _ = (fees, keeper_gain);
                    if !is_owner { /* the keeper pays nothing and gains nothing on close */ }
                    if lam1 > snap0.owner_total_lamports { out.oracle_fail("owner side gained lamports", req); }
                    s.deps.remove(&d);
                    s.states.remove(&d);
                    invariants(s, &tot0, req, out);
                    out.stat(if is_owner { "close.by_owner" } else { "close.by_keeper" });
                    (format!("ok | {}", digest(s)), true)
                }
            }
        }
        _ => bad(),
    }
}

/// lamports of the owner wallet plus every token account whose authority is the owner or one of the owner's deposits
fn owner_side_lamports(w: &World, owner: &Pubkey) -> u64 {
    let mut keys: Vec<Pubkey> = vec![*owner];
    for d in 0..NDEPS { keys.push(w.deposit_key(owner, &[d + 1; 32])); }
    let mut total = 0u64;
    for k in &keys { total += w.b.get(k).lamports; for m in [w.long, w.short, w.market_token] { total += w.b.get(&ata(k, &m)).lamports; } }
    total
}

struct Gen { sid: usize, left: u64, queue: Vec<String> }
fn gen_next(r: &mut Rng, ss: &BTreeMap<String, Sid>, g: &mut Gen) -> String {
    if let Some(q) = g.queue.pop() { return q; }
    if g.left == 0 { g.sid += 1; g.left = r.range(15, 45); return format!("life new w{}", g.sid); }
    g.left -= 1;
    let sid = format!("w{}", g.sid);
    let s = &ss[&sid];
    let live: Vec<((u8, u8), Option<u8>, u8)> = s.deps.iter().filter_map(|(i, (d, _))| s.w.b.m.contains_key(&d.key).then(|| (*i, dep_state(&s.w, d), i.0))).collect();
    let pick = |r: &mut Rng| if live.is_empty() || r.chance(1, 8) { let u = r.below(NUSERS as u64) as u8; ((u, r.below(NDEPS as u64) as u8), None, u) } else { live[r.below(live.len() as u64) as usize] };
    match r.below(12) {
        0 => format!("life tick {sid} {}", match r.below(5) { 0 => r.range(100, 200), 1 => r.range(3500, 3700), _ => r.range(0, 60) }),
        1 | 2 => format!("life price {sid} {}", match r.below(8) { 0 => r.range(110, 130), 1 => r.range(3590, 3610), 2 => r.range(1, 30), _ => 0 }),
        3 | 4 | 5 => {
            let u = r.below(NUSERS as u64) as u8;
            let d = if r.chance(5, 6) { (0..NDEPS).find(|i| !live.iter().any(|l| l.0 == (u, *i))).unwrap_or(r.below(NDEPS as u64) as u8) } else { r.below(NDEPS as u64) as u8 };
            // one nonce space per (owner, id): the same id may be used by different owners — keep one owner per id
            let l = match r.below(6) { 0 => 0, 1 => LONG0 + 1, _ => r.range(1, 5_000_000_000) };
            let sh = match r.below(6) { 0 => 0, 1 => SHORT0 + 1, _ => r.range(1, 500_000_000) };
            let el = match r.below(8) { 0 => r.range(0, 199_999), _ => r.range(200_000, 5_000_000) };
            format!("life create {sid} {u} {d} {l} {sh} {} {el}", if r.chance(1, 3) { 1 } else { 0 })
        }
        6 | 7 | 8 => {
            let (d, st, _) = pick(r);
            let whoo = if r.chance(9, 10) { "k".to_string() } else if r.chance(1, 2) { "a".into() } else { format!("u{}", r.below(NUSERS as u64)) };
            let e = format!("life exec {sid} {whoo} {}.{} {} {}", d.0, d.1, match r.below(4) { 0 => 0, 1 => 100_000_000, _ => r.range(1, 3_000_000) }, r.below(2));
            // usually publish a fresh price first (prices older than the request are rejected)
            if st == Some(0) && r.chance(3, 4) { g.queue.push(e); return format!("life price {sid} 0"); }
            e
        }
        _ => {
            let (d, st, owner) = pick(r);
            let whoo = match r.below(6) { 0 | 1 | 2 => format!("u{owner}"), 3 => "k".into(), 4 => format!("u{}", r.below(NUSERS as u64)), _ => if st == Some(0) { "k".into() } else { "a".into() } };
            format!("life close {sid} {whoo} {}.{}", d.0, d.1)
        }
    }
}

fn main() {
    let cli = cli();
    let mut out = Out::new();
    if std::env::var("HARNESS_DEBUG").is_err() { std::panic::set_hook(Box::new(|_| {})); }
    set_syscall_stubs(Box::new(Stubs));
    let mut ss: BTreeMap<String, Sid> = BTreeMap::new();
    let replay: Option<Vec<String>> = if cli.mode == "replay" { Some(read_requests(cli.file.as_deref().unwrap())) } else { None };
    let total = replay.as_ref().map(|v| v.len() as u64).unwrap_or(cli.n);
    let mut r = Rng::new(cli.seed);
    let mut g = Gen { sid: 0, left: 0, queue: Vec::new() };
    for k in 0..total {
        let req = match &replay { Some(v) => v[k as usize].clone(), None => gen_next(&mut r, &ss, &mut g) };
        let res = std::panic::catch_unwind(std::panic::AssertUnwindSafe(|| exec(&mut ss, &req, &mut out)));
        let (resp, nt) = match res { Ok(x) => x, Err(_) => { out.oracle_fail("panicked", &req); ("panic".to_string(), false) } };
        let op = req.split(' ').nth(1).unwrap_or("?").to_string();
        out.stat(&format!("op.{op}"));
        out.stat(&format!("{op}.{}", resp.split(' ').next().unwrap_or("?")));
        out.case_nt(&req, &resp, nt);
        // old worlds are dropped to bound memory
        if ss.len() > 3 { let first = ss.keys().next().cloned().unwrap(); if Some(&first) != req.split(' ').nth(2).map(|x| x.to_string()).as_ref() { ss.remove(&first); } }
    }
    out.finish();
}
