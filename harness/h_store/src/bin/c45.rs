//! C45 correspondence + oracle (composition and balance caps): the real `Glv` state natively.
use anchor_lang::prelude::*;
use gmsol_store::states::{Glv, Market};
use gmsol_store::verif::c45 as hook;
use h_store::*;
use hcommon::*;
use std::collections::BTreeSet;

fn tokpk(t: u64) -> Pubkey { pk(1000 + t) }
fn parse_meta(s: &str) -> Option<(u64, u64, u64)> { let v: Vec<u64> = s.split(':').map(|x| x.parse().ok()).collect::<Option<_>>()?; if v.len() == 3 { Some((v[0], v[1], v[2])) } else { None } }
fn parse_list(s: &str) -> Option<Vec<u64>> { if s == "-" { Some(vec![]) } else { s.split(',').map(|x| x.parse().ok()).collect() } }

fn market_info(store: Pubkey, tok: u64, l: u64, s: u64) -> &'static AccountInfo<'static> {
    let info = zero_copy_account::<Market>(pk(5000 + tok), gmsol_store::ID, |m| { m.init(255, store, "m", tokpk(tok), tokpk(l), tokpk(l), tokpk(s), true).unwrap(); });
    Box::leak(Box::new(info))
}

fn new_glv(store: Pubkey, l: u64, s: u64, toks: &[u64]) -> Option<Box<Glv>> {
    let mut glv: Box<Glv> = Box::new(bytemuck::Zeroable::zeroed());
    let set: BTreeSet<Pubkey> = toks.iter().map(|t| tokpk(*t)).collect();
    hook::glv_init(&mut glv, 0, &store, &tokpk(l), &tokpk(s), &set).ok()?;
    Some(glv)
}

fn exec(req: &str) -> Option<String> {
    let t: Vec<&str> = req.split(' ').collect();
    if t.len() < 3 || t[0] != "glv" { return None; }
    let store = pk(7);
    Some(match t[1] {
        "insert" => {
            let (gl, gs): (u64, u64) = (t[2].parse().ok()?, t[3].parse().ok()?);
            let existing = parse_list(t[4])?; let (mt, ml, ms) = parse_meta(t[5])?;
            let mut glv = new_glv(store, gl, gs, &existing)?;
            let info = market_info(store, mt, ml, ms);
            let loader = AccountLoader::<Market>::try_from(info).ok()?;
            let m = loader.load().ok()?;
            let before: Vec<Pubkey> = glv.market_tokens().collect();
            let r = hook::glv_insert_market(&mut glv, &store, &m);
            let after: Vec<Pubkey> = glv.market_tokens().collect();
            match r {
                Ok(()) => { if glv.long_token() != &tokpk(gl) || glv.short_token() != &tokpk(gs) || !after.contains(&tokpk(mt)) { "ok-but-wrong".into() } else { "ok".into() } }
                Err(_) => { if before != after { "err-but-changed".into() } else { "err".into() } }
            }
        }
        "init" => {
            let metas: Vec<(u64, u64, u64)> = if t[2] == "-" { vec![] } else { t[2].split(',').map(parse_meta).collect::<Option<_>>()? };
            // distinct accounts per position so that duplicates are duplicates of the market TOKEN
            let infos: Vec<AccountInfo<'static>> = metas.iter().enumerate().map(|(i, (tok, l, s))| {
                zero_copy_account::<Market>(pk(6000 + i as u64), gmsol_store::ID, |m| { m.init(255, store, "m", tokpk(*tok), tokpk(*l), tokpk(*l), tokpk(*s), true).unwrap(); })
            }).collect();
            let infos: &'static [AccountInfo<'static>] = Box::leak(infos.into_boxed_slice());
            match hook::glv_validate_markets_for_init(infos, &store) {
                Ok((l, s, _)) => { let f = |p: Pubkey| (0..64u64).find(|t| tokpk(*t) == p).unwrap_or(999); format!("ok {} {}", f(l), f(s)) }
                Err(_) => "err".into(),
            }
        }
        "balance" => {
            let (ma, mv, nb): (u64, u128, u64) = (t[2].parse().ok()?, t[3].parse().ok()?, t[4].parse().ok()?);
            let (pv, sup): (i128, u128) = (t[5].parse().ok()?, t[6].parse().ok()?);
            let mut glv = new_glv(store, 1, 2, &[10])?;
            hook::glv_update_market_config(&mut glv, &tokpk(10), Some(ma), Some(mv)).ok()?;
            match hook::glv_validate_market_token_balance(&glv, &tokpk(10), nb, &pv, &sup) { Ok(()) => "ok".into(), Err(_) => "err".into() }
        }
        _ => return None,
    })
}

fn gen_req(r: &mut Rng) -> String {
    match r.below(3) {
        0 => {
            let (gl, gs) = (r.below(3), r.below(3));
            let n = r.below(4); let existing: Vec<u64> = (0..n).map(|i| 10 + i).collect();
            let mt = if r.chance(1, 5) && n > 0 { 10 + r.below(n) } else { 20 + r.below(5) };
            let (ml, ms) = if r.chance(2, 3) { (gl, gs) } else { (r.below(3), r.below(3)) };
            let ex = if existing.is_empty() { "-".to_string() } else { existing.iter().map(|x| x.to_string()).collect::<Vec<_>>().join(",") };
            format!("glv insert {gl} {gs} {ex} {mt}:{ml}:{ms}")
        }
        1 => {
            let n = r.below(5); let (l, s) = (r.below(3), r.below(3));
            let metas: Vec<String> = (0..n).map(|i| { let tok = if r.chance(1, 8) && i > 0 { 10 } else { 10 + i }; let (ml, ms) = if r.chance(5, 6) { (l, s) } else { (r.below(3), r.below(3)) }; format!("{tok}:{ml}:{ms}") }).collect();
            format!("glv init {}", if metas.is_empty() { "-".to_string() } else { metas.join(",") })
        }
        _ => {
            let ma = if r.chance(1, 3) { 0 } else { r.range(1, 1_000_000) };
            let mv: u128 = if r.chance(1, 3) { 0 } else { r.range(1, 1_000_000_000) as u128 * 1_000_000 };
            let nb = match r.below(4) { 0 => ma, 1 => ma + 1, 2 => ma.saturating_sub(1), _ => r.range(0, 2_000_000) };
            let sup: u128 = if r.chance(1, 12) { 0 } else { r.range(1, 5_000_000) as u128 };
            // pool value chosen so that the balance's value hugs max_value
            let pv: i128 = if r.chance(1, 10) { -(r.range(1, 1000) as i128) } else if nb > 0 && sup > 0 && mv > 0 && r.chance(2, 3) { ((mv * sup / nb as u128) as i128) + r.range(0, 4) as i128 - 2 } else { r.range(0, 1_000_000_000) as i128 * 1000 };
            format!("glv balance {ma} {mv} {nb} {pv} {sup}")
        }
    }
}

fn main() {
    install_capturing_stubs();
    let cli = cli();
    let mut out = Out::new();
    std::panic::set_hook(Box::new(|_| {}));
    let reqs: Vec<String> = if cli.mode == "replay" { read_requests(cli.file.as_deref().unwrap()) } else { let mut r = Rng::new(cli.seed); (0..cli.n).map(|_| gen_req(&mut r)).collect() };
    for req in reqs {
        let resp = match std::panic::catch_unwind(|| exec(&req)) { Ok(Some(s)) => s, Ok(None) => "bad-op".into(), Err(_) => "panic".into() };
        take_events();
        let t: Vec<&str> = req.split(' ').collect();
        out.stat(&format!("op.{}", t.get(1).unwrap_or(&"?")));
        if resp == "panic" { out.oracle_fail("panicked", &req); }
        if resp == "ok-but-wrong" || resp == "err-but-changed" { out.oracle_fail("insert_market changed the GLV's tokens / a failed insert changed the market list", &req); }
        // property oracle
        match t[1] {
            "insert" if resp == "ok" => { let (ml, ms) = { let m = parse_meta(t[5]).unwrap(); (m.1, m.2) }; if t[2].parse::<u64>().unwrap() != ml || t[3].parse::<u64>().unwrap() != ms { out.oracle_fail("a market with other tokens was added to the GLV", &req); } }
            "init" if resp.starts_with("ok") => { let metas: Vec<(u64, u64, u64)> = t[2].split(',').filter_map(parse_meta).collect(); if metas.iter().any(|m| (m.1, m.2) != (metas[0].1, metas[0].2)) { out.oracle_fail("GLV created from markets with different tokens", &req); } }
            "balance" if resp == "ok" => {
                let (ma, mv, nb): (u128, u128, u128) = (t[2].parse().unwrap(), t[3].parse().unwrap(), t[4].parse().unwrap());
                let (pv, sup): (i128, u128) = (t[5].parse().unwrap(), t[6].parse().unwrap());
                if ma > 0 && nb > ma { out.oracle_fail("balance above the configured max amount accepted", &req); }
                if mv > 0 { if pv < 0 || sup == 0 { out.oracle_fail("max value configured but an unpriceable balance was accepted", &req); } else { let v = num_bigint::BigUint::from(nb) * num_bigint::BigUint::from(pv as u128) / num_bigint::BigUint::from(sup); if v > num_bigint::BigUint::from(mv) { out.oracle_fail("balance value above the configured max value accepted", &req); } } }
            }
            _ => {}
        }
        out.case_nt(&req, &resp, resp.starts_with("ok"));
    }
    out.finish();
}
