//! C23 correspondence: the real `ActionState` / `ActionHeader` transitions and the real
//! `Close::preprocess` permission decision, natively over in-memory accounts.
use anchor_lang::prelude::*;
use gmsol_store::states::{Deposit, RoleKey, Store};
use gmsol_store::verif::c23 as hook;
use gmsol_utils::action::ActionState;
use h_store::*;
use hcommon::*;

fn st(n: u8) -> Option<ActionState> { ActionState::try_from(n).ok() }
fn st_num(s: ActionState) -> u8 { s.into() }

/// a deposit account whose header is in raw state `raw` and owned by `owner`
fn deposit_account(raw: u8, owner: Pubkey) -> AccountInfo<'static> {
    let info = zero_copy_account::<Deposit>(pk(900), gmsol_store::ID, |d| { hook::deposit_header_mut(d).owner = owner; });
    // `action_state` is the second byte of the header (version: u8, action_state: u8)
    info.try_borrow_mut_data().unwrap()[8 + 1] = raw;
    info
}

fn exec(req: &str) -> String {
    let t: Vec<&str> = req.split(' ').collect();
    if t.len() < 2 || t[0] != "act" { return "bad-op".into(); }
    let r = std::panic::catch_unwind(|| -> Option<String> {
        Some(match t[1] {
            // pure enum transition
            "enum" => {
                let s = st(t.get(2)?.parse().ok()?)?;
                let r = match *t.get(3)? { "complete" => s.completed(), "cancel" => s.cancelled(), _ => return None };
                match r { Ok(n) => format!("ok {}", st_num(n)), Err(_) => "err".into() }
            }
            // header transition on a real Deposit account (raw state byte, may be invalid)
            "trans" => {
                let raw: u8 = t.get(2)?.parse().ok()?;
                let info = deposit_account(raw, pk(1));
                let loader = AccountLoader::<Deposit>::try_from(Box::leak(Box::new(info))).ok()?;
                let mut d = loader.load_mut().ok()?;
                let h = hook::deposit_header_mut(&mut d);
                let r = match *t.get(3)? { "complete" => hook::header_completed(h), "cancel" => hook::header_cancelled(h), _ => return None };
                match r {
                    Ok(()) => format!("ok {}", st_num(h.action_state().ok()?)),
                    Err(_) => { if h.action_state().map(st_num).ok() == st(raw).map(st_num) || st(raw).is_none() { "err".into() } else { "err-but-changed".into() } }
                }
            }
            // Close::preprocess: act closepre <isOwner> <hasRole> <state> <skip>
            "closepre" => {
                let is_owner = *t.get(2)? == "1";
                let has_role = *t.get(3)? == "1";
                let raw: u8 = t.get(4)?.parse().ok()?;
                let skip = *t.get(5)? == "1";
                let (owner, keeper, other) = (pk(1), pk(2), pk(3));
                let caller = if is_owner { owner } else if has_role { keeper } else { other };
                let store_info = zero_copy_account::<Store>(pk(800), gmsol_store::ID, |s| {
                    s.init(pk(7), "", 255, pk(8), pk(9)).unwrap();
                    s.enable_role(RoleKey::ORDER_KEEPER).unwrap();
                    s.grant(&keeper, RoleKey::ORDER_KEEPER).unwrap();
                    // the owner may ALSO hold the role: ownership wins
                    s.grant(&owner, RoleKey::ORDER_KEEPER).unwrap();
                });
                let store_info: &'static AccountInfo<'static> = Box::leak(Box::new(store_info));
                let action_info: &'static AccountInfo<'static> = Box::leak(Box::new(deposit_account(raw, owner)));
                let auth_info: &'static AccountInfo<'static> = Box::leak(Box::new(leak_account(caller, anchor_lang::system_program::ID, 0, true, true)));
                let ctx = hook::VerifClose {
                    authority: Signer::try_from(auth_info).ok()?,
                    store: AccountLoader::try_from(store_info).ok()?,
                    action: AccountLoader::try_from(action_info).ok()?,
                    keeper_role: RoleKey::ORDER_KEEPER.to_string(),
                    skip_completion_check: skip,
                };
                match hook::close_preprocess(&ctx) { Ok(true) => "ok owner".into(), Ok(false) => "ok keeper".into(), Err(_) => "err".into() }
            }
            // Close::preprocess with an explicit caller identity:
            // act closepre2 <who: o|r|x> <hasRole> <state> <skip> <receiverDistinct>
            "closepre2" => {
                let who = *t.get(2)?;
                let has_role = *t.get(3)? == "1";
                let raw: u8 = t.get(4)?.parse().ok()?;
                let skip = *t.get(5)? == "1";
                let rd = *t.get(6)? == "1";
                if !matches!(who, "o" | "r" | "x") || t.len() != 7 { return None; }
                let (owner, keeper, other, receiver) = (pk(1), pk(2), pk(3), pk(4));
                let action_info: &'static AccountInfo<'static> = Box::leak(Box::new(deposit_account(raw, owner)));
                if rd {
                    // `receiver` is a private field: owner, nonce[32], max_execution_lamports, updated_at, updated_at_slot,
                    // creator, rent_receiver, receiver — written by offset and checked through the public getter
                    let header_off = {
                        let l = AccountLoader::<Deposit>::try_from(action_info).ok()?;
                        let mut d = l.load_mut().ok()?;
                        let base = &*d as *const Deposit as usize;
                        hook::deposit_header_mut(&mut d) as *mut _ as usize - base
                    };
                    let off = 8 + header_off + std::mem::offset_of!(gmsol_store::states::common::action::ActionHeader, owner) + 32 + 32 + 8 + 8 + 8 + 32 + 32;
                    action_info.try_borrow_mut_data().unwrap()[off..off + 32].copy_from_slice(receiver.as_ref());
                }
                let action: AccountLoader<'static, Deposit> = AccountLoader::try_from(action_info).ok()?;
                {
                    use gmsol_store::states::common::action::Action;
                    let d = action.load().ok()?;
                    let got = d.header().receiver();
                    if got != (if rd { receiver } else { owner }) || d.header().owner != owner { return Some("layout-changed".into()); }
                }
                let caller = match who { "o" => owner, "r" => if rd { receiver } else { owner }, _ => other };
                let store_info = zero_copy_account::<Store>(pk(800), gmsol_store::ID, |s| {
                    s.init(pk(7), "", 255, pk(8), pk(9)).unwrap();
                    s.enable_role(RoleKey::ORDER_KEEPER).unwrap();
                    s.grant(&keeper, RoleKey::ORDER_KEEPER).unwrap();
                    if has_role { s.grant(&caller, RoleKey::ORDER_KEEPER).unwrap(); }
                });
                let store_info: &'static AccountInfo<'static> = Box::leak(Box::new(store_info));
                let auth_info: &'static AccountInfo<'static> = Box::leak(Box::new(leak_account(caller, anchor_lang::system_program::ID, 0, true, true)));
                let ctx = hook::VerifClose {
                    authority: Signer::try_from(auth_info).ok()?,
                    store: AccountLoader::try_from(store_info).ok()?,
                    action,
                    keeper_role: RoleKey::ORDER_KEEPER.to_string(),
                    skip_completion_check: skip,
                };
                match hook::close_preprocess(&ctx) { Ok(true) => "ok owner".into(), Ok(false) => "ok keeper".into(), Err(_) => "err".into() }
            }
            _ => return None,
        })
    });
    match r { Ok(Some(s)) => s, Ok(None) => "bad-op".into(), Err(_) => "panic".into() }
}

fn main() {
    install_stubs();
    let cli = cli();
    let mut out = Out::new();
    std::panic::set_hook(Box::new(|_| {}));
    let reqs: Vec<String> = if cli.mode == "replay" { read_requests(cli.file.as_deref().unwrap()) } else {
        // the whole space is finite: enumerate it completely (exhaustive), then pad with random repeats
        let mut v = Vec::new();
        for s in 0..3u8 { for op in ["complete", "cancel"] { v.push(format!("act enum {s} {op}")); } }
        for s in 0..6u8 { for op in ["complete", "cancel"] { v.push(format!("act trans {s} {op}")); } }
        for o in 0..2 { for h in 0..2 { for s in 0..3u8 { for k in 0..2 { v.push(format!("act closepre {o} {h} {s} {k}")); } } } }
        for who in ["o", "r", "x"] { for h in 0..2 { for s in 0..3u8 { for k in 0..2 { for rd in 0..2 { v.push(format!("act closepre2 {who} {h} {s} {k} {rd}")); } } } } }
        let mut r = Rng::new(cli.seed);
        while (v.len() as u64) < cli.n.min(400) { let i = r.below(v.len() as u64) as usize; v.push(v[i].clone()); }
        v
    };
    for req in reqs {
        let resp = exec(&req);
        if resp == "panic" { out.oracle_fail("panicked", &req); }
        if resp == "err-but-changed" { out.oracle_fail("a rejected transition changed the stored state", &req); }
        let t: Vec<&str> = req.split(' ').collect();
        out.stat(&format!("op.{}", t[1]));
        // property oracle, independent of the model
        match t[1] {
            "enum" | "trans" => {
                let raw: u8 = t[2].parse().unwrap();
                let should_ok = raw == 0;
                if resp.starts_with("ok") != should_ok { out.oracle_fail("transition allowed from a non-pending state (or refused from pending)", &req); }
                if resp.starts_with("ok") { let want = if t[3] == "complete" { "ok 1" } else { "ok 2" }; if resp != want { out.oracle_fail("wrong target state", &req); } }
            }
            "closepre" => {
                let (o, h, s, k) = (t[2] == "1", t[3] == "1", t[4].parse::<u8>().unwrap(), t[5] == "1");
                let want = if o { "ok owner" } else if h && (k || s != 0) { "ok keeper" } else { "err" };
                if resp != want { out.oracle_fail(&format!("close policy violated: expected {want}, got {resp}"), &req); }
            }
            "closepre2" => {
                let (who, h, s, k, rd) = (t[2], t[3] == "1", t[4].parse::<u8>().unwrap(), t[5] == "1", t[6] == "1");
                // the signer is the owner iff its key is the header's owner key: the owner, or the "receiver" when no separate receiver is recorded
                let is_owner = who == "o" || (who == "r" && !rd);
                let want = if is_owner { "ok owner" } else if h && (k || s != 0) { "ok keeper" } else { "err" };
                if resp != want { out.oracle_fail(&format!("close policy violated for caller `{who}` (separate receiver: {rd}): expected {want}, got {resp}"), &req); }
            }
            _ => {}
        }
        out.case_nt(&req, &resp, resp.starts_with("ok"));
    }
    out.finish();
}
