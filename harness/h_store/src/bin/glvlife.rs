//! C45 (and C23 clauses for GLV actions): GLV deposit / withdrawal / shift life cycles run natively through the
//! REAL `gmsol_store::entry`, two markets over the same long/short tokens inside one GLV, two users.
//! Infrastructure (in-memory ledger, `sol_invoke_signed` stub serving the real spl_token / spl_token_2022 /
//! associated-token processors, emulated system program, custom price feeds, clock) copied from `l2life.rs`;
//! the GLV token is a Token-2022 mint, so the real `spl_token_2022` processor is served too.
//!
//! Protocol `gl <op> <sid> …` — see `exec`.
use anchor_lang::prelude::*;
use anchor_lang::solana_program::instruction::Instruction;
use anchor_lang::solana_program::program_pack::Pack;
use anchor_lang::solana_program::program_stubs::{set_syscall_stubs, SyscallStubs};
use anchor_lang::{Discriminator, InstructionData};
use anchor_spl::associated_token::spl_associated_token_account as ata_prog;
use anchor_spl::token::spl_token;
use anchor_spl::token_2022::spl_token_2022 as t22;
use gmsol_store::states::Seed;
use hcommon::*;
use std::cell::RefCell;
use std::collections::BTreeMap;
use std::sync::atomic::{AtomicI64, AtomicU64, Ordering};
use std::sync::Mutex;

const SYS: Pubkey = anchor_lang::system_program::ID;

static NOW: AtomicI64 = AtomicI64::new(1_700_000_000);
static SLOT: AtomicU64 = AtomicU64::new(1_000);
static PANICS: AtomicU64 = AtomicU64::new(0);
static RETURN: Mutex<Option<(Pubkey, Vec<u8>)>> = Mutex::new(None);
static EVENTS: Mutex<Vec<Vec<u8>>> = Mutex::new(Vec::new());
static CPI_LOG: Mutex<Vec<String>> = Mutex::new(Vec::new());
thread_local! { static CALLER: RefCell<Vec<Pubkey>> = const { RefCell::new(Vec::new()) }; }

fn current_program() -> Pubkey { CALLER.with(|c| *c.borrow().last().expect("no running program")) }
struct Frame;
impl Frame { fn push(p: Pubkey) -> Frame { CALLER.with(|c| c.borrow_mut().push(p)); Frame } }
impl Drop for Frame { fn drop(&mut self) { CALLER.with(|c| { c.borrow_mut().pop(); }); } }

fn lifetime_hack<'a>(infos: &[AccountInfo<'a>]) -> &'a [AccountInfo<'a>] { unsafe { std::mem::transmute(infos) } }

struct Stubs;
impl SyscallStubs for Stubs {
    fn sol_get_clock_sysvar(&self, var_addr: *mut u8) -> u64 {
        let clock = anchor_lang::solana_program::clock::Clock { slot: SLOT.load(Ordering::SeqCst), epoch_start_timestamp: 0, epoch: 0, leader_schedule_epoch: 0, unix_timestamp: NOW.load(Ordering::SeqCst) };
        unsafe { std::ptr::write_unaligned(var_addr as *mut anchor_lang::solana_program::clock::Clock, clock) };
        0
    }
    fn sol_get_rent_sysvar(&self, var_addr: *mut u8) -> u64 {
        unsafe { std::ptr::write_unaligned(var_addr as *mut Rent, Rent::default()) };
        0
    }
    fn sol_get_last_restart_slot(&self, var_addr: *mut u8) -> u64 { unsafe { std::ptr::write_unaligned(var_addr as *mut u64, 0) }; 0 }
    fn sol_log(&self, _m: &str) {}
    fn sol_set_return_data(&self, d: &[u8]) { *RETURN.lock().unwrap() = Some((current_program(), d.to_vec())); }
    fn sol_get_return_data(&self) -> Option<(Pubkey, Vec<u8>)> { RETURN.lock().unwrap().clone() }
    fn sol_invoke_signed(&self, ix: &Instruction, infos: &[AccountInfo], seeds: &[&[&[u8]]]) -> anchor_lang::solana_program::entrypoint::ProgramResult {
        let caller = current_program();
        // PDAs the caller may sign for
        let pdas: Vec<Pubkey> = seeds.iter().filter_map(|s| Pubkey::create_program_address(s, &caller).ok()).collect();
        // build the callee's account list with the runtime's privilege rules
        let mut sub: Vec<AccountInfo> = Vec::new();
        for m in &ix.accounts {
            let Some(i) = infos.iter().find(|i| *i.key == m.pubkey) else { return Err(ProgramError::NotEnoughAccountKeys) };
            if m.is_signer && !(i.is_signer || pdas.contains(i.key)) { return Err(ProgramError::MissingRequiredSignature); } // privilege escalation
            if m.is_writable && !i.is_writable { return Err(ProgramError::Custom(0xBAD0)); }
            let mut c = i.clone();
            c.is_signer = m.is_signer;
            c.is_writable = m.is_writable;
            sub.push(c);
        }
        let _f = Frame::push(ix.program_id);
        if ix.program_id == spl_token::ID {
            CPI_LOG.lock().unwrap().push(format!("token:{}", ix.data.first().copied().unwrap_or(255)));
            return spl_token::processor::Processor::process(&spl_token::ID, lifetime_hack(&sub), &ix.data);
        }
        if ix.program_id == t22::ID {
            CPI_LOG.lock().unwrap().push(format!("token22:{}", ix.data.first().copied().unwrap_or(255)));
            return t22::processor::Processor::process(&t22::ID, lifetime_hack(&sub), &ix.data);
        }
        if ix.program_id == ata_prog::ID {
            CPI_LOG.lock().unwrap().push("ata".into());
            return ata_prog::processor::process_instruction(&ata_prog::ID, lifetime_hack(&sub), &ix.data);
        }
        if ix.program_id == gmsol_store::ID {
            // `#[event_cpi]` self-invocation: sha256("anchor:event")[..8] little-endian tag
            if ix.data.len() >= 8 && ix.data[..8] == *anchor_lang::event::EVENT_IX_TAG_LE {
                EVENTS.lock().unwrap().push(ix.data[8..].to_vec());
                return Ok(());
            }
            return Err(ProgramError::Custom(0xBAD1));
        }
        if ix.program_id == SYS { return system(ix, &sub); }
        Err(ProgramError::IncorrectProgramId)
    }
}

/// System program emulation (bincode `SystemInstruction`, u32 LE tag).
fn system(ix: &Instruction, a: &[AccountInfo]) -> anchor_lang::solana_program::entrypoint::ProgramResult {
    let tag = u32::from_le_bytes(ix.data[..4].try_into().unwrap());
    let u64at = |o: usize| u64::from_le_bytes(ix.data[o..o + 8].try_into().unwrap());
    CPI_LOG.lock().unwrap().push(format!("system:{tag}"));
    match tag {
        0 => { // CreateAccount { lamports, space, owner }
            let (lamports, space, owner) = (u64at(4), u64at(12) as usize, Pubkey::new_from_array(ix.data[20..52].try_into().unwrap()));
            let (from, to) = (&a[0], &a[1]);
            if !from.is_signer || !to.is_signer { return Err(ProgramError::MissingRequiredSignature); }
            if to.lamports() != 0 || !to.data_is_empty() || *to.owner != SYS { return Err(ProgramError::AccountAlreadyInitialized); }
            if *from.owner != SYS || !from.data_is_empty() { return Err(ProgramError::InvalidArgument); }
            if from.lamports() < lamports { return Err(ProgramError::InsufficientFunds); }
            **from.lamports.borrow_mut() -= lamports;
            **to.lamports.borrow_mut() += lamports;
            to.realloc(space, true)?;
            to.assign(&owner);
            Ok(())
        }
        1 => { // Assign { owner }
            let owner = Pubkey::new_from_array(ix.data[4..36].try_into().unwrap());
            if !a[0].is_signer { return Err(ProgramError::MissingRequiredSignature); }
            if *a[0].owner != SYS { return Err(ProgramError::InvalidArgument); }
            a[0].assign(&owner);
            Ok(())
        }
        2 => { // Transfer { lamports }
            let lamports = u64at(4);
            let (from, to) = (&a[0], &a[1]);
            if !from.is_signer { return Err(ProgramError::MissingRequiredSignature); }
            if *from.owner != SYS || !from.data_is_empty() { return Err(ProgramError::InvalidArgument); }
            if from.lamports() < lamports { return Err(ProgramError::InsufficientFunds); }
            **from.lamports.borrow_mut() -= lamports;
            **to.lamports.borrow_mut() += lamports;
            Ok(())
        }
        8 => { // Allocate { space }
            let space = u64at(4) as usize;
            if !a[0].is_signer { return Err(ProgramError::MissingRequiredSignature); }
            if *a[0].owner != SYS || !a[0].data_is_empty() { return Err(ProgramError::AccountAlreadyInitialized); }
            a[0].realloc(space, true)?;
            Ok(())
        }
        _ => Err(ProgramError::InvalidInstructionData),
    }
}

extern "C" { fn dup(fd: i32) -> i32; fn dup2(a: i32, b: i32) -> i32; fn close(fd: i32) -> i32; }
struct Quiet { saved: i32 }
impl Quiet {
    fn new() -> Self {
        use std::io::Write; use std::os::fd::AsRawFd;
        std::io::stdout().flush().unwrap();
        let null = std::fs::OpenOptions::new().write(true).open("/dev/null").unwrap();
        let saved = unsafe { dup(1) };
        unsafe { dup2(null.as_raw_fd(), 1) };
        Quiet { saved }
    }
}
impl Drop for Quiet {
    fn drop(&mut self) { use std::io::Write; let _ = std::io::stdout().flush(); unsafe { dup2(self.saved, 1); close(self.saved); } }
}

// ---------------------------------------------------------------- in-memory ledger

#[derive(Clone, PartialEq, Debug)]
struct AccState { lamports: u64, data: Vec<u8>, owner: Pubkey, exec: bool }
#[derive(Clone, Default)]
struct Bank { m: BTreeMap<Pubkey, AccState> }

/// `pad`'s upper half is what `AccountInfo::realloc` reads as the original data length.
#[repr(C)]
struct KeyBox { pad: u64, key: Pubkey }
struct Buf { key: KeyBox, lamports: u64, buf: Vec<u128>, len: usize, owner: Pubkey, exec: bool }

#[derive(Clone, Copy)]
struct M { key: Pubkey, signer: bool, writable: bool }
fn ro(key: Pubkey) -> M { M { key, signer: false, writable: false } }
fn rw(key: Pubkey) -> M { M { key, signer: false, writable: true } }
fn sg(key: Pubkey) -> M { M { key, signer: true, writable: true } }

impl Bank {
    fn get(&self, k: &Pubkey) -> AccState { self.m.get(k).cloned().unwrap_or(AccState { lamports: 0, data: vec![], owner: SYS, exec: false }) }
    fn set(&mut self, k: Pubkey, s: AccState) { self.m.insert(k, s); }
    fn fund(&mut self, k: Pubkey, lamports: u64) { let mut a = self.get(&k); a.lamports += lamports; self.set(k, a); }
    fn program(&mut self, k: Pubkey) { self.set(k, AccState { lamports: 1, data: vec![], owner: SYS, exec: true }); }

    /// One transaction with one instruction of `program`. On success the ledger is updated; on failure it
    /// is left untouched (runtime atomicity) and the error is returned. Also returns whether the failed
    /// run had dirtied any account buffer.
    fn run(&mut self, program: Pubkey, metas: &[M], data: &[u8]) -> std::result::Result<(), (ProgramError, bool)> {
        let mut keys: Vec<Pubkey> = Vec::new();
        for m in metas { if !keys.contains(&m.key) { keys.push(m.key); } }
        let before: Vec<AccState> = keys.iter().map(|k| self.get(k)).collect();
        let mut bufs: Vec<Buf> = keys.iter().zip(&before).map(|(k, s)| {
            let cap = s.data.len() + 10_240 + 16;
            let mut buf = vec![0u128; (cap + 8) / 16 + 2];
            bytemuck::cast_slice_mut::<u128, u8>(&mut buf)[8..8 + s.data.len()].copy_from_slice(&s.data);
            Buf { key: KeyBox { pad: (s.data.len() as u64) << 32, key: *k }, lamports: s.lamports, buf, len: s.data.len(), owner: s.owner, exec: s.exec }
        }).collect();
        let flags: Vec<(bool, bool)> = keys.iter().map(|k| (metas.iter().any(|m| m.key == *k && m.signer), metas.iter().any(|m| m.key == *k && m.writable))).collect();
        let base: Vec<AccountInfo> = bufs.iter_mut().zip(&flags).map(|(b, (s, w))| {
            let d = &mut bytemuck::cast_slice_mut::<u128, u8>(&mut b.buf)[8..8 + b.len];
            AccountInfo::new(&b.key.key, *s, *w, &mut b.lamports, d, &b.owner, b.exec, 0)
        }).collect();
        let infos: Vec<AccountInfo> = metas.iter().map(|m| base[keys.iter().position(|k| *k == m.key).unwrap()].clone()).collect();
        EVENTS.lock().unwrap().clear();
        CPI_LOG.lock().unwrap().clear();
        *RETURN.lock().unwrap() = None;
        let r = {
            let _f = Frame::push(program);
            let _q = Quiet::new();
            // a panic inside the program aborts the transaction, like any other failure
            if program == gmsol_store::ID {
                match std::panic::catch_unwind(std::panic::AssertUnwindSafe(|| gmsol_store::entry(&program, lifetime_hack(&infos), data))) {
                    Ok(r) => r,
                    Err(_) => { CALLER.with(|c| c.borrow_mut().truncate(1)); PANICS.fetch_add(1, Ordering::SeqCst); Err(ProgramError::Custom(0xDEAD)) }
                }
            } else { Err(ProgramError::IncorrectProgramId) }
        };
        let after: Vec<AccState> = base.iter().map(|i| AccState { lamports: i.lamports(), data: i.data.borrow().to_vec(), owner: *i.owner, exec: i.executable }).collect();
        match r {
            Ok(()) => {
                // the runtime's own post-conditions: lamports conserved, read-only accounts untouched
                let (l0, l1): (u128, u128) = (before.iter().map(|a| a.lamports as u128).sum(), after.iter().map(|a| a.lamports as u128).sum());
                assert_eq!(l0, l1, "lamports not conserved by the instruction");
                for ((k, a), (b, (_, w))) in keys.iter().zip(&after).zip(before.iter().zip(&flags)) {
                    if !w { assert!(a == b, "read-only account {k} modified"); }
                    if a.lamports == 0 { self.m.remove(k); /* the runtime purges zero-lamport accounts */ } else { self.m.insert(*k, a.clone()); }
                }
                Ok(())
            }
            Err(e) => Err((e, after != before)),
        }
    }
}

fn disc<T: Discriminator + bytemuck::Pod>(t: &T) -> Vec<u8> { let mut d = T::DISCRIMINATOR.to_vec(); d.extend_from_slice(bytemuck::bytes_of(t)); d }
fn pod<T: bytemuck::Pod>(bytes: &[u8]) -> T { bytemuck::pod_read_unaligned(&bytes[8..8 + std::mem::size_of::<T>()]) }
/// (mint, amount) of a token account of either token program
fn token_acc(a: &AccState) -> Option<(Pubkey, u64)> {
    if a.owner == spl_token::ID && a.data.len() == spl_token::state::Account::LEN {
        return spl_token::state::Account::unpack(&a.data).ok().map(|t| (t.mint, t.amount));
    }
    if a.owner == t22::ID && a.data.len() >= t22::state::Account::LEN && a.data.len() != t22::state::Mint::LEN {
        return t22::extension::StateWithExtensions::<t22::state::Account>::unpack(&a.data).ok().map(|t| (t.base.mint, t.base.amount));
    }
    None
}
fn token_amount(b: &Bank, k: &Pubkey) -> Option<u64> { token_acc(&b.get(k)).map(|x| x.1) }
fn mint_supply(b: &Bank, k: &Pubkey) -> u64 {
    let a = b.get(k);
    if a.owner == t22::ID { return t22::extension::StateWithExtensions::<t22::state::Mint>::unpack(&a.data).map(|m| m.base.supply).unwrap_or(0); }
    spl_token::state::Mint::unpack(&a.data).map(|m| m.supply).unwrap_or(0)
}
fn ata(owner: &Pubkey, mint: &Pubkey) -> Pubkey { anchor_spl::associated_token::get_associated_token_address(owner, mint) }
fn ata22(owner: &Pubkey, mint: &Pubkey) -> Pubkey { anchor_spl::associated_token::get_associated_token_address_with_program_id(owner, mint, &t22::ID) }



// ---------------------------------------------------------------- the world

const UNIT_PRICE_DECIMALS: u8 = 8;
const SPREAD_DIV: u128 = 1000;

#[derive(Clone)]
struct World {
    b: Bank,
    admin: Pubkey,      // store authority, MARKET_KEEPER
    keeper: Pubkey,     // ORDER_KEEPER
    store: Pubkey,
    store_wallet: Pubkey,
    token_map: Pubkey,
    oracle: Pubkey,
    long: Pubkey,       // long token mint, 9 decimals
    short: Pubkey,      // short token mint, 6 decimals
    long_vault: Pubkey,
    short_vault: Pubkey,
    /// two markets over the same long/short tokens (index token long / short), sorted by market token address
    mt: [Pubkey; 2],
    market: [Pubkey; 2],
    mt_vault: [Pubkey; 2],   // the store's market-token (withdrawal/burn) vaults
    glv_token: Pubkey,
    glv: Pubkey,
    glv_vault: [Pubkey; 2],  // the GLV's vaults of each market token
    feeds: [Pubkey; 2],
    event_authority: Pubkey,
}

fn must(r: std::result::Result<(), (ProgramError, bool)>, what: &str) { if let Err((e, _)) = r { panic!("set-up step `{what}` failed: {e:?} cpis={:?}", CPI_LOG.lock().unwrap()); } }

fn put_mint(b: &mut Bank, key: Pubkey, decimals: u8, authority: Pubkey) {
    let m = spl_token::state::Mint { mint_authority: Some(authority).into(), supply: 0, decimals, is_initialized: true, freeze_authority: None.into() };
    let mut d = vec![0u8; spl_token::state::Mint::LEN];
    m.pack_into_slice(&mut d);
    b.set(key, AccState { lamports: Rent::default().minimum_balance(d.len()), data: d, owner: spl_token::ID, exec: false });
}

/// a funded token account (stands for tokens the user obtained earlier); bumps the mint supply accordingly
fn put_token_account(b: &mut Bank, key: Pubkey, mint: Pubkey, owner: Pubkey, amount: u64) {
    let a = spl_token::state::Account { mint, owner, amount, state: spl_token::state::AccountState::Initialized, ..Default::default() };
    let mut d = vec![0u8; spl_token::state::Account::LEN];
    a.pack_into_slice(&mut d);
    b.set(key, AccState { lamports: Rent::default().minimum_balance(d.len()), data: d, owner: spl_token::ID, exec: false });
    let mut ms = b.get(&mint);
    let mut m = spl_token::state::Mint::unpack(&ms.data).unwrap();
    m.supply += amount;
    m.pack_into_slice(&mut ms.data);
    b.set(mint, ms);
}

impl World {
    fn new() -> World {
        use gmsol_store::instruction as ix;
        use gmsol_store::states::{Glv, Market, Oracle, PriceFeed, PriceProviderKind, RoleKey, Store};
        let pid = gmsol_store::ID;
        let mut b = Bank::default();
        for p in [pid, SYS, spl_token::ID, t22::ID, ata_prog::ID] { b.program(p); }
        let admin = Pubkey::new_from_array([1; 32]);
        let keeper = Pubkey::new_from_array([2; 32]);
        b.fund(admin, 1_000_000_000_000);
        b.fund(keeper, 10_000_000_000);
        let store = Pubkey::find_program_address(&[Store::SEED, &gmsol_utils::to_seed("")], &pid).0;
        let store_wallet = Pubkey::find_program_address(&[Store::WALLET_SEED, store.as_ref()], &pid).0;
        must(b.run(pid, &[sg(admin), ro(pid), ro(pid), ro(pid), rw(store), ro(SYS)], &ix::Initialize { key: String::new() }.data()), "initialize");
        for role in [RoleKey::MARKET_KEEPER, RoleKey::ORDER_KEEPER] {
            must(b.run(pid, &[sg(admin), rw(store)], &ix::EnableRole { role: role.to_string() }.data()), "enable_role");
        }
        must(b.run(pid, &[sg(admin), rw(store)], &ix::GrantRole { user: admin, role: RoleKey::MARKET_KEEPER.to_string() }.data()), "grant market keeper");
        must(b.run(pid, &[sg(admin), rw(store)], &ix::GrantRole { user: keeper, role: RoleKey::ORDER_KEEPER.to_string() }.data()), "grant order keeper");
        let token_map = Pubkey::new_from_array([3; 32]);
        must(b.run(pid, &[sg(admin), ro(store), sg(token_map), ro(SYS)], &ix::InitializeTokenMap {}.data()), "initialize_token_map");
        let long = Pubkey::new_from_array([4; 32]);
        let short = Pubkey::new_from_array([5; 32]);
        put_mint(&mut b, long, 9, admin);
        put_mint(&mut b, short, 6, admin);
        let feeds = [Pubkey::new_from_array([6; 32]), Pubkey::new_from_array([7; 32])];
        let feed_ids = [Pubkey::new_from_array([16; 32]), Pubkey::new_from_array([17; 32])];
        for (i, (mint, name)) in [(long, "LONG"), (short, "SHORT")].into_iter().enumerate() {
            let builder = gmsol_utils::token_config::UpdateTokenConfigParams::default()
                .update_price_feed(&PriceProviderKind::ChainlinkDataStreams, feed_ids[i], None).unwrap()
                .with_expected_provider(PriceProviderKind::ChainlinkDataStreams)
                .with_heartbeat_duration(120).with_precision(4);
            must(b.run(pid, &[sg(admin), ro(store), rw(token_map), ro(mint), ro(SYS)],
                &ix::PushToTokenMap { name: name.to_string(), builder, enable: true, new: true }.data()), "push_to_token_map");
        }
        must(b.run(pid, &[sg(admin), rw(store), ro(token_map)], &ix::SetTokenMap {}.data()), "set_token_map");
        let vault = |m: &Pubkey| Pubkey::find_program_address(&[gmsol_store::constants::MARKET_VAULT_SEED, store.as_ref(), m.as_ref()], &pid).0;
        let (long_vault, short_vault) = (vault(&long), vault(&short));
        for (m, v) in [(long, long_vault), (short, short_vault)] {
            must(b.run(pid, &[sg(admin), ro(store), ro(m), rw(v), ro(SYS), ro(spl_token::ID)], &ix::InitializeMarketVault {}.data()), "initialize_market_vault");
        }
        // two markets: index token = long token / short token
        let mut ms: Vec<(Pubkey, Pubkey, Pubkey)> = [long, short].iter().map(|index| {
            let mt = Pubkey::find_program_address(&[gmsol_store::constants::MARKET_TOKEN_MINT_SEED, store.as_ref(), index.as_ref(), long.as_ref(), short.as_ref()], &pid).0;
            let market = Pubkey::find_program_address(&[Market::SEED, store.as_ref(), mt.as_ref()], &pid).0;
            (mt, market, *index)
        }).collect();
        ms.sort();
        for (k, (mt, market, index)) in ms.iter().enumerate() {
            must(b.run(pid, &[sg(admin), ro(store), rw(*mt), ro(long), ro(short), rw(*market), ro(token_map), ro(long_vault), ro(short_vault), ro(SYS), ro(spl_token::ID)],
                &ix::InitializeMarket { index_token_mint: *index, name: format!("M{k}"), enable: true }.data()), "initialize_market");
            must(b.run(pid, &[sg(admin), ro(store), ro(*mt), rw(vault(mt)), ro(SYS), ro(spl_token::ID)], &ix::InitializeMarketVault {}.data()), "initialize_market_vault (market token)");
        }
        let mt = [ms[0].0, ms[1].0];
        let market = [ms[0].1, ms[1].1];
        let mt_vault = [vault(&mt[0]), vault(&mt[1])];
        // oracle
        let oracle = Pubkey::new_from_array([8; 32]);
        let osz = 8 + std::mem::size_of::<Oracle>();
        b.set(oracle, AccState { lamports: Rent::default().minimum_balance(osz), data: vec![0; osz], owner: pid, exec: false });
        must(b.run(pid, &[sg(admin), ro(keeper), ro(store), rw(oracle), ro(SYS)], &ix::InitializeOracle {}.data()), "initialize_oracle");
        for i in 0..2 {
            let mut f = PriceFeed::default();
            gmsol_store::verif::c24::price_feed_init(&mut f, PriceProviderKind::ChainlinkDataStreams, &store, &keeper, &[long, short][i], &feed_ids[i]).expect("feed init");
            let d = disc(&f);
            b.set(feeds[i], AccState { lamports: Rent::default().minimum_balance(d.len()), data: d, owner: pid, exec: false });
        }
        // the GLV over both markets
        let glv_index: u16 = 0;
        let glv_token = Pubkey::find_program_address(&[Glv::GLV_TOKEN_SEED, store.as_ref(), &glv_index.to_le_bytes()], &pid).0;
        let glv = Pubkey::find_program_address(&[Glv::SEED, glv_token.as_ref()], &pid).0;
        let glv_vault = [ata(&glv, &mt[0]), ata(&glv, &mt[1])];
        must(b.run(pid, &[sg(admin), ro(store), rw(glv_token), rw(glv), ro(SYS), ro(t22::ID), ro(spl_token::ID), ro(ata_prog::ID),
                ro(market[0]), ro(market[1]), ro(mt[0]), ro(mt[1]), rw(glv_vault[0]), rw(glv_vault[1])],
            &ix::InitializeGlv { index: glv_index, length: 2 }.data()), "initialize_glv");
        for m in mt {
            must(b.run(pid, &[sg(admin), ro(store), rw(glv), ro(m)],
                &ix::ToggleGlvMarketFlag { flag: "is_deposit_allowed".to_string(), enable: true }.data()), "toggle_glv_market_flag");
        }
        let event_authority = Pubkey::find_program_address(&[b"__event_authority"], &pid).0;
        World { b, admin, keeper, store, store_wallet, token_map, oracle, long, short, long_vault, short_vault, mt, market, mt_vault, glv_token, glv, glv_vault, feeds, event_authority }
    }

    /// publish prices (8 decimals) at the given timestamp
    fn set_prices(&mut self, long_price: u128, short_price: u128, ts: i64) {
        use gmsol_store::states::{PriceFeed, PriceFeedPrice};
        for (i, p) in [long_price, short_price].into_iter().enumerate() {
            let st = self.b.get(&self.feeds[i]);
            let mut f: PriceFeed = pod(&st.data);
            // a real spread: min < price < max (0.1 % each side), so minimised and maximised values differ
            let mut price = PriceFeedPrice::new(UNIT_PRICE_DECIMALS, ts, p, p - p / SPREAD_DIV, p + p / SPREAD_DIV, 0);
            price.set_flag(gmsol_utils::price::PriceFlag::Open, true);
            gmsol_store::verif::c24::price_feed_update(&mut f, &price, 3600, true).expect("feed update");
            self.b.set(self.feeds[i], AccState { data: disc(&f), ..st });
        }
    }
}


// ---------------------------------------------------------------- the life cycles

fn opt(k: Option<Pubkey>, writable: bool) -> M { match k { Some(k) => if writable { rw(k) } else { ro(k) }, None => ro(gmsol_store::ID) } }
type R = std::result::Result<(), (ProgramError, bool)>;

#[derive(Clone)]
struct Act { owner: Pubkey, key: Pubkey, m: usize, exec_lamports: u64 }

impl World {
    fn prepare_ata(&mut self, payer: Pubkey, owner: Pubkey, mint: Pubkey) -> R {
        let is22 = mint == self.glv_token;
        let (acc, prog) = if is22 { (ata22(&owner, &mint), t22::ID) } else { (ata(&owner, &mint), spl_token::ID) };
        if self.b.m.contains_key(&acc) { return Ok(()); }
        self.b.run(gmsol_store::ID, &[sg(payer), ro(owner), ro(mint), rw(acc), ro(SYS), ro(prog), ro(ata_prog::ID)],
            &gmsol_store::instruction::PrepareAssociatedTokenAccount {}.data())
    }

    fn user(&mut self, u: u8, long: u64, short: u64) -> Pubkey {
        let k = user_key(u);
        if self.b.get(&k).lamports == 0 {
            self.b.fund(k, 5_000_000_000);
            let (l, s) = (self.long, self.short);
            put_token_account(&mut self.b, ata(&k, &l), l, k, long);
            put_token_account(&mut self.b, ata(&k, &s), s, k, short);
            for m in [self.mt[0], self.mt[1], self.glv_token] { self.prepare_ata(k, k, m).expect("user ata"); }
        }
        k
    }

    // ---- plain market deposit (to obtain market tokens): create → execute → close in one go
    fn market_deposit(&mut self, owner: Pubkey, m: usize, nonce: [u8; 32], long_amount: u64, short_amount: u64) -> R {
        let pid = gmsol_store::ID;
        let key = Pubkey::find_program_address(&[gmsol_store::states::Deposit::SEED, self.store.as_ref(), owner.as_ref(), &nonce], &pid).0;
        let (l, s, mt, market) = (self.long, self.short, self.mt[m], self.market[m]);
        for x in [mt, l, s] { self.prepare_ata(owner, key, x)?; }
        let params = gmsol_store::ops::deposit::CreateDepositParams { execution_lamports: 300_000, long_token_swap_length: 0, short_token_swap_length: 0,
            initial_long_token_amount: long_amount, initial_short_token_amount: short_amount, min_market_token_amount: 0, should_unwrap_native_token: false };
        self.b.run(pid, &[sg(owner), ro(owner), ro(self.store), rw(market), rw(key), ro(mt), ro(l), ro(s),
            rw(ata(&key, &mt)), rw(ata(&key, &l)), rw(ata(&key, &s)), rw(ata(&owner, &mt)), rw(ata(&owner, &l)), rw(ata(&owner, &s)),
            ro(SYS), ro(spl_token::ID), ro(ata_prog::ID)], &gmsol_store::instruction::CreateDeposit { nonce, params }.data())?;
        self.b.run(pid, &[sg(self.keeper), ro(self.store), ro(self.token_map), rw(self.oracle), rw(market), rw(key), rw(mt), ro(l), ro(s),
            rw(ata(&key, &mt)), rw(ata(&key, &l)), rw(ata(&key, &s)), rw(self.long_vault), rw(self.short_vault),
            ro(spl_token::ID), ro(SYS), ro(pid), ro(self.event_authority), ro(pid), ro(self.feeds[0]), ro(self.feeds[1])],
            &gmsol_store::instruction::ExecuteDeposit { execution_fee: 0, throw_on_execution_error: true }.data())?;
        self.b.run(pid, &[sg(owner), ro(self.store), rw(self.store_wallet), rw(owner), rw(owner), ro(mt), ro(l), ro(s), rw(key),
            rw(ata(&key, &mt)), rw(ata(&key, &l)), rw(ata(&key, &s)), rw(ata(&owner, &mt)), rw(ata(&owner, &l)), rw(ata(&owner, &s)),
            ro(SYS), ro(spl_token::ID), ro(ata_prog::ID), ro(self.event_authority), ro(pid)], &gmsol_store::instruction::CloseDeposit { reason: "t".to_string() }.data())
    }

    // ---- GLV deposit
    fn gd_key(&self, owner: &Pubkey, nonce: &[u8; 32]) -> Pubkey {
        Pubkey::find_program_address(&[gmsol_store::states::GlvDeposit::SEED, self.store.as_ref(), owner.as_ref(), nonce], &gmsol_store::ID).0
    }
    #[allow(clippy::too_many_arguments)]
    fn create_glv_deposit(&mut self, owner: Pubkey, m: usize, nonce: [u8; 32], mt_amount: u64, long_amount: u64, short_amount: u64, min_glv: u64, exec_lamports: u64) -> std::result::Result<Act, (ProgramError, bool)> {
        let key = self.gd_key(&owner, &nonce);
        let (l, s, mt, g) = (self.long, self.short, self.mt[m], self.glv_token);
        let params = gmsol_store::ops::glv::CreateGlvDepositParams { execution_lamports: exec_lamports, long_token_swap_length: 0, short_token_swap_length: 0,
            initial_long_token_amount: long_amount, initial_short_token_amount: short_amount, market_token_amount: mt_amount,
            min_market_token_amount: 0, min_glv_token_amount: min_glv, should_unwrap_native_token: false };
        let metas = [sg(owner), ro(owner), ro(self.store), rw(self.market[m]), ro(self.glv), rw(key), ro(g), ro(mt), ro(l), ro(s),
            rw(ata(&owner, &mt)), rw(ata(&owner, &l)), rw(ata(&owner, &s)),
            rw(ata22(&key, &g)), rw(ata(&key, &mt)), rw(ata(&key, &l)), rw(ata(&key, &s)),
            ro(SYS), ro(spl_token::ID), ro(t22::ID), ro(ata_prog::ID)];
        self.b.run(gmsol_store::ID, &metas, &gmsol_store::instruction::CreateGlvDeposit { nonce, params }.data())?;
        Ok(Act { owner, key, m, exec_lamports })
    }
    fn execute_glv_deposit(&mut self, authority: Pubkey, a: &Act, fee: u64, throw: bool) -> R {
        let pid = gmsol_store::ID;
        let (l, s, mt, g, key) = (self.long, self.short, self.mt[a.m], self.glv_token, a.key);
        let metas = [sg(authority), ro(self.store), ro(self.token_map), rw(self.oracle), rw(self.glv), rw(self.market[a.m]), rw(key), rw(g), rw(mt), ro(l), ro(s),
            rw(ata22(&key, &g)), rw(ata(&key, &mt)), rw(ata(&key, &l)), rw(ata(&key, &s)), rw(self.long_vault), rw(self.short_vault), rw(self.glv_vault[a.m]),
            ro(spl_token::ID), ro(t22::ID), ro(SYS), ro(pid), ro(self.event_authority), ro(pid),
            ro(self.market[0]), ro(self.market[1]), ro(self.mt[0]), ro(self.mt[1]), ro(self.feeds[0]), ro(self.feeds[1])];
        self.b.run(pid, &metas, &gmsol_store::instruction::ExecuteGlvDeposit { execution_lamports: fee, throw_on_execution_error: throw }.data())
    }
    fn close_glv_deposit(&mut self, executor: Pubkey, a: &Act) -> R {
        let pid = gmsol_store::ID;
        let (l, s, mt, g, key, o) = (self.long, self.short, self.mt[a.m], self.glv_token, a.key, a.owner);
        let metas = [sg(executor), ro(self.store), rw(self.store_wallet), rw(o), rw(o), rw(key), ro(mt), ro(l), ro(s), ro(g),
            rw(ata(&key, &mt)), rw(ata(&key, &l)), rw(ata(&key, &s)), rw(ata22(&key, &g)),
            rw(ata(&o, &mt)), rw(ata(&o, &l)), rw(ata(&o, &s)), rw(ata22(&o, &g)),
            ro(SYS), ro(spl_token::ID), ro(t22::ID), ro(ata_prog::ID), ro(self.event_authority), ro(pid)];
        self.b.run(pid, &metas, &gmsol_store::instruction::CloseGlvDeposit { reason: "t".to_string() }.data())
    }

    // ---- GLV withdrawal
    fn gw_key(&self, owner: &Pubkey, nonce: &[u8; 32]) -> Pubkey {
        Pubkey::find_program_address(&[gmsol_store::states::GlvWithdrawal::SEED, self.store.as_ref(), owner.as_ref(), nonce], &gmsol_store::ID).0
    }
    #[allow(clippy::too_many_arguments)]
    fn create_glv_withdrawal(&mut self, owner: Pubkey, m: usize, nonce: [u8; 32], glv_amount: u64, min_long: u64, min_short: u64, exec_lamports: u64) -> std::result::Result<Act, (ProgramError, bool)> {
        let key = self.gw_key(&owner, &nonce);
        let (l, s, mt, g) = (self.long, self.short, self.mt[m], self.glv_token);
        let params = gmsol_store::ops::glv::CreateGlvWithdrawalParams { execution_lamports: exec_lamports, long_token_swap_length: 0, short_token_swap_length: 0,
            glv_token_amount: glv_amount, min_final_long_token_amount: min_long, min_final_short_token_amount: min_short, should_unwrap_native_token: false };
        let metas = [sg(owner), ro(owner), ro(self.store), rw(self.market[m]), ro(self.glv), rw(key), ro(g), ro(mt), ro(l), ro(s),
            rw(ata22(&owner, &g)), rw(ata22(&key, &g)), rw(ata(&key, &mt)), rw(ata(&key, &l)), rw(ata(&key, &s)),
            ro(SYS), ro(spl_token::ID), ro(t22::ID), ro(ata_prog::ID)];
        self.b.run(gmsol_store::ID, &metas, &gmsol_store::instruction::CreateGlvWithdrawal { nonce, params }.data())?;
        Ok(Act { owner, key, m, exec_lamports })
    }
    fn execute_glv_withdrawal(&mut self, authority: Pubkey, a: &Act, fee: u64, throw: bool) -> R {
        let pid = gmsol_store::ID;
        let (l, s, mt, g, key) = (self.long, self.short, self.mt[a.m], self.glv_token, a.key);
        let metas = [sg(authority), ro(self.store), ro(self.token_map), rw(self.oracle), rw(self.glv), rw(self.market[a.m]), rw(key), rw(g), rw(mt), ro(l), ro(s),
            rw(ata22(&key, &g)), rw(ata(&key, &mt)), rw(ata(&key, &l)), rw(ata(&key, &s)),
            rw(self.mt_vault[a.m]), rw(self.long_vault), rw(self.short_vault), rw(self.glv_vault[a.m]),
            ro(spl_token::ID), ro(t22::ID), ro(SYS), ro(pid), ro(self.event_authority), ro(pid),
            ro(self.market[0]), ro(self.market[1]), ro(self.mt[0]), ro(self.mt[1]), ro(self.feeds[0]), ro(self.feeds[1])];
        self.b.run(pid, &metas, &gmsol_store::instruction::ExecuteGlvWithdrawal { execution_lamports: fee, throw_on_execution_error: throw }.data())
    }
    fn close_glv_withdrawal(&mut self, executor: Pubkey, a: &Act) -> R {
        let pid = gmsol_store::ID;
        let (l, s, mt, g, key, o) = (self.long, self.short, self.mt[a.m], self.glv_token, a.key, a.owner);
        let metas = [sg(executor), ro(self.store), rw(self.store_wallet), rw(o), rw(o), rw(key), ro(mt), ro(l), ro(s), ro(g),
            rw(ata(&key, &mt)), rw(ata(&key, &l)), rw(ata(&key, &s)), rw(ata(&o, &mt)), rw(ata(&o, &l)), rw(ata(&o, &s)),
            rw(ata22(&key, &g)), rw(ata22(&o, &g)),
            ro(SYS), ro(spl_token::ID), ro(t22::ID), ro(ata_prog::ID), ro(self.event_authority), ro(pid)];
        self.b.run(pid, &metas, &gmsol_store::instruction::CloseGlvWithdrawal { reason: "t".to_string() }.data())
    }
}

impl World {
    /// the real `get_glv_token_value` instruction: USD value (unit 10^-20) of `amount` GLV tokens, maximised or minimised
    fn glv_token_value(&mut self, amount: u64, maximize: bool) -> Option<u128> {
        let pid = gmsol_store::ID;
        let metas = [sg(self.keeper), ro(self.store), ro(self.token_map), rw(self.oracle), ro(self.glv), ro(self.glv_token), ro(self.event_authority), ro(pid),
            ro(self.market[0]), ro(self.market[1]), ro(self.mt[0]), ro(self.mt[1]), ro(self.feeds[0]), ro(self.feeds[1])];
        self.b.run(pid, &metas, &gmsol_store::instruction::GetGlvTokenValue { amount, maximize, max_age: 3600, emit_event: false }.data()).ok()?;
        let r = RETURN.lock().unwrap().clone()?;
        Some(u128::from_le_bytes(r.1.get(..16)?.try_into().ok()?))
    }
}

// ---- GLV shift (keeper only): market tokens of market `from` are withdrawn and the proceeds deposited into market `to`, inside the GLV
#[derive(Clone)]
struct Shift { key: Pubkey, from: usize, to: usize, amount: u64, exec_lamports: u64 }
impl World {
    fn gs_key(&self, authority: &Pubkey, nonce: &[u8; 32]) -> Pubkey {
        Pubkey::find_program_address(&[gmsol_store::states::GlvShift::SEED, self.store.as_ref(), authority.as_ref(), nonce], &gmsol_store::ID).0
    }
    fn create_glv_shift(&mut self, authority: Pubkey, nonce: [u8; 32], from: usize, to: usize, amount: u64, exec_lamports: u64) -> std::result::Result<Shift, (ProgramError, bool)> {
        let key = self.gs_key(&authority, &nonce);
        let params = gmsol_store::ops::shift::CreateShiftParams { execution_lamports: exec_lamports, from_market_token_amount: amount, min_to_market_token_amount: 0 };
        let metas = [sg(authority), ro(self.store), rw(self.glv), rw(self.market[from]), rw(self.market[to]), rw(key), ro(self.mt[from]), ro(self.mt[to]),
            ro(self.glv_vault[from]), ro(self.glv_vault[to]), ro(SYS), ro(spl_token::ID), ro(ata_prog::ID)];
        self.b.run(gmsol_store::ID, &metas, &gmsol_store::instruction::CreateGlvShift { nonce, params }.data())?;
        Ok(Shift { key, from, to, amount, exec_lamports })
    }
    fn execute_glv_shift(&mut self, authority: Pubkey, sh: &Shift, fee: u64, throw: bool) -> R {
        let pid = gmsol_store::ID;
        let metas = [sg(authority), ro(self.store), ro(self.token_map), rw(self.oracle), rw(self.glv), rw(self.market[sh.from]), rw(self.market[sh.to]), rw(sh.key),
            rw(self.mt[sh.from]), rw(self.mt[sh.to]), rw(self.glv_vault[sh.from]), rw(self.glv_vault[sh.to]), rw(self.mt_vault[sh.from]),
            ro(spl_token::ID), ro(pid), ro(self.event_authority), ro(pid), ro(self.feeds[0]), ro(self.feeds[1])];
        self.b.run(pid, &metas, &gmsol_store::instruction::ExecuteGlvShift { execution_lamports: fee, throw_on_execution_error: throw }.data())
    }
    fn close_glv_shift(&mut self, authority: Pubkey, funder: Pubkey, sh: &Shift) -> R {
        let pid = gmsol_store::ID;
        let metas = [sg(authority), rw(funder), ro(self.store), rw(self.store_wallet), ro(self.glv), rw(sh.key), ro(self.mt[sh.from]), ro(self.mt[sh.to]),
            ro(SYS), ro(spl_token::ID), ro(ata_prog::ID), ro(self.event_authority), ro(pid)];
        self.b.run(pid, &metas, &gmsol_store::instruction::CloseGlvShift { reason: "t".to_string() }.data())
    }
}

fn user_key(u: u8) -> Pubkey { Pubkey::new_from_array([100 + u; 32]) }
fn bal(w: &World, owner: &Pubkey, mint: &Pubkey) -> u64 { let k = if *mint == w.glv_token { ata22(owner, mint) } else { ata(owner, mint) }; token_amount(&w.b, &k).unwrap_or(0) }
fn glv_recorded(w: &World) -> [u64; 2] {
    let g: Box<gmsol_store::states::Glv> = Box::new(pod(&w.b.get(&w.glv).data));
    [0, 1].map(|i| g.market_config(&w.mt[i]).map(|c| c.balance()).unwrap_or(u64::MAX))
}

// ---------------------------------------------------------------- harness: protocol, oracle, generator

const NUSERS: u8 = 2;
const NSLOTS: u8 = 2;
const LONG0: u64 = 1_000_000_000_000;
const SHORT0: u64 = 5_000_000_000;
const PL: u128 = 150_00000000;
const PS: u128 = 1_00000000;

type Id = (u8, char, u8);
struct Sid { w: World, now: i64, acts: BTreeMap<Id, Act>, changes: BTreeMap<Id, u32>, mdeps: u32, shifts: BTreeMap<u8, Shift>, last_shift: i64 }

fn parse_id(t: &str) -> Option<Id> {
    let p: Vec<&str> = t.split('.').collect();
    if p.len() != 3 || p[1].len() != 1 { return None; }
    let (u, k, i) = (p[0].parse::<u8>().ok()?, p[1].chars().next()?, p[2].parse::<u8>().ok()?);
    (u < NUSERS && i < NSLOTS && "dw".contains(k)).then_some((u, k, i))
}
fn nonce_of(k: char, i: u8) -> [u8; 32] { [(k as u8).wrapping_mul(7).wrapping_add(i + 1); 32] }
fn action_key(w: &World, id: Id) -> Pubkey {
    let (o, n) = (user_key(id.0), nonce_of(id.1, id.2));
    if id.1 == 'd' { w.gd_key(&o, &n) } else { w.gw_key(&o, &n) }
}
fn who(w: &World, t: &str) -> Option<Pubkey> {
    match t { "k" => Some(w.keeper), "a" => Some(w.admin), _ => { let u: u8 = t.strip_prefix('u')?.parse().ok()?; (u < NUSERS).then(|| user_key(u)) } }
}
fn act_state(w: &World, id: Id) -> Option<u8> {
    use gmsol_store::states::common::action::{Action, ActionState};
    let a = w.b.m.get(&action_key(w, id))?;
    let st = if id.1 == 'd' { let x: Box<gmsol_store::states::GlvDeposit> = Box::new(pod(&a.data)); x.header().action_state().ok()? }
             else { let x: Box<gmsol_store::states::GlvWithdrawal> = Box::new(pod(&a.data)); x.header().action_state().ok()? };
    Some(match st { ActionState::Pending => 0, ActionState::Completed => 1, ActionState::Cancelled => 2, _ => 9 })
}
/// escrow of an action on market m: (long, short, market token, glv token)
fn esc(w: &World, key: &Pubkey, m: usize) -> (u64, u64, u64, u64) { (bal(w, key, &w.long), bal(w, key, &w.short), bal(w, key, &w.mt[m]), bal(w, key, &w.glv_token)) }
fn vaults(w: &World) -> (u64, u64) { (token_amount(&w.b, &w.long_vault).unwrap_or(0), token_amount(&w.b, &w.short_vault).unwrap_or(0)) }
fn glv_vaults(w: &World) -> [u64; 2] { [0, 1].map(|i| token_amount(&w.b, &w.glv_vault[i]).unwrap_or(0)) }
fn glv_composition(w: &World) -> Vec<Pubkey> { let g: Box<gmsol_store::states::Glv> = Box::new(pod(&w.b.get(&w.glv).data)); g.market_tokens().collect() }

fn shift_state(w: &World, sh: &Shift) -> Option<u8> {
    use gmsol_store::states::common::action::{Action, ActionState};
    let a = w.b.m.get(&sh.key)?;
    let x: Box<gmsol_store::states::GlvShift> = Box::new(pod(&a.data));
    Some(match x.header().action_state().ok()? { ActionState::Pending => 0, ActionState::Completed => 1, ActionState::Cancelled => 2, _ => 9 })
}
fn shift_nonce(i: u8) -> [u8; 32] { [200 + i; 32] }

fn digest(s: &Sid) -> String {
    let w = &s.w;
    let shifts: Vec<String> = s.shifts.iter().filter_map(|(i, sh)| shift_state(w, sh).map(|st| format!("{i}:{st}:{}:{}:{}", sh.from, sh.to, sh.amount))).collect();
    let users: Vec<String> = (0..NUSERS).map(|u| { let k = user_key(u); format!("{u}:{}:{}:{}:{}:{}", bal(w, &k, &w.long), bal(w, &k, &w.short), bal(w, &k, &w.mt[0]), bal(w, &k, &w.mt[1]), bal(w, &k, &w.glv_token)) }).collect();
    let acts: Vec<String> = s.acts.iter().filter_map(|(id, a)| act_state(w, *id).map(|st| { let e = esc(w, &a.key, a.m); format!("{}.{}.{}:{st}:{}:{}:{}:{}:{}", id.0, id.1, id.2, a.m, e.0, e.1, e.2, e.3) })).collect();
    let (v, gv, gr) = (vaults(w), glv_vaults(w), glv_recorded(w));
    format!("now={} users=[{}] acts=[{}] shifts=[{}] vault={}:{} glvvault={}:{} glvrec={}:{} mtsupply={}:{} glvsupply={}", s.now, users.join(","), acts.join(","), shifts.join(","),
        v.0, v.1, gv[0], gv[1], gr[0], gr[1], mint_supply(&w.b, &w.mt[0]), mint_supply(&w.b, &w.mt[1]), mint_supply(&w.b, &w.glv_token))
}

/// token totals per mint over every token account (of both token programs) in the ledger
fn totals(w: &World) -> BTreeMap<Pubkey, u128> {
    let mut t = BTreeMap::new();
    for a in w.b.m.values() { if let Some((mint, amount)) = token_acc(a) { *t.entry(mint).or_insert(0u128) += amount as u128; } }
    t
}

/// independent property oracle after EVERY successful instruction
fn invariants(s: &Sid, before_tot: &BTreeMap<Pubkey, u128>, comp0: &[Pubkey], req: &str, out: &mut Out) {
    let w = &s.w;
    let t = totals(w);
    // (i) per-mint conservation
    for m in [w.long, w.short] { if t.get(&m) != before_tot.get(&m) { out.oracle_fail("collateral tokens were created or destroyed", req); } }
    for m in [w.mt[0], w.mt[1], w.glv_token] { if t.get(&m).copied().unwrap_or(0) != mint_supply(&w.b, &m) as u128 { out.oracle_fail("token supply differs from the sum of holdings", req); } }
    // (ii) GLV supply is what the holders (users and escrows) have
    let held: u128 = (0..NUSERS).map(|u| bal(w, &user_key(u), &w.glv_token) as u128).sum::<u128>() + s.acts.values().map(|a| bal(w, &a.key, &w.glv_token) as u128).sum::<u128>();
    if held != mint_supply(&w.b, &w.glv_token) as u128 { out.oracle_fail(&format!("GLV supply {} differs from what users and escrows hold {held}", mint_supply(&w.b, &w.glv_token)), req); }
    // (iii) recorded market-token balances of the GLV = its real vault balances
    let (gv, gr) = (glv_vaults(w), glv_recorded(w));
    if gv != gr { out.oracle_fail(&format!("GLV recorded balances {gr:?} differ from its vault balances {gv:?}"), req); }
    // (iv) the composition does not change
    if glv_composition(w) != comp0 { out.oracle_fail("the GLV's market list changed", req); }
    for i in 0..2 { if token_amount(&w.b, &w.mt_vault[i]).unwrap_or(0) != 0 { out.oracle_fail("market tokens were left in the burn vault", req); } }
}

fn run_exec(w: &mut World, auth: Pubkey, id: Id, a: &Act, fee: u64, throw: bool) -> R {
    if id.1 == 'd' { w.execute_glv_deposit(auth, a, fee, throw) } else { w.execute_glv_withdrawal(auth, a, fee, throw) }
}
/// the amounts only the pool maths decides. deposit: (market tokens minted into the GLV vault, GLV minted, 0);
/// withdrawal: (market tokens taken from the GLV vault and burned, long out, short out)
fn result_amounts(w0: &World, w1: &World, id: Id, a: &Act) -> (u64, u64, u64) {
    let (e0, e1) = (esc(w0, &a.key, a.m), esc(w1, &a.key, a.m));
    let (g0, g1) = (glv_vaults(w0)[a.m], glv_vaults(w1)[a.m]);
    if id.1 == 'd' { (g1 - g0 - e0.2, e1.3 - e0.3, 0) } else { (g0 - g1, e1.0 - e0.0, e1.1 - e0.1) }
}

/// USD value (unit 10^-20) of collateral at the given feed prices (8 decimals; long has 9, short 6 token decimals)
fn value_at(long: u64, short: u64, pl: u128, ps: u128) -> u128 { long as u128 * pl * 1_000 + short as u128 * ps * 1_000_000 }
fn value(long: u64, short: u64) -> u128 { value_at(long, short, PL, PS) }
fn value_lo(long: u64, short: u64) -> u128 { value_at(long, short, PL - PL / SPREAD_DIV, PS - PS / SPREAD_DIV) }
fn value_hi(long: u64, short: u64) -> u128 { value_at(long, short, PL + PL / SPREAD_DIV, PS + PS / SPREAD_DIV) }

/// independent valuation on the real market account with the model crate: (value of `x` market tokens at the MAXIMISED
/// market-token price, pay-out pool value = MaxAfterWithdrawal maximised, valuation pool value = MaxAfterDeposit minimised)
fn market_eval(w: &World, m: usize, x: u128) -> Option<(u128, i128, i128)> {
    use anchor_lang::AccountDeserialize;
    use gmsol_model::price::{Price, Prices};
    use gmsol_model::{LiquidityMarketExt, PnlFactorKind};
    let market: Box<gmsol_store::states::Market> = Box::new(pod(&w.b.get(&w.market[m]).data));
    let mint = anchor_spl::token::Mint::try_deserialize(&mut &w.b.get(&w.mt[m]).data[..]).ok()?;
    let lm = market.as_liquidity_market(&mint);
    let pr = |p: u128, dec: u32| Price { min: (p - p / SPREAD_DIV) * 10u128.pow(12 - dec), max: (p + p / SPREAD_DIV) * 10u128.pow(12 - dec) };
    let (lp, sp) = (pr(PL, 9), pr(PS, 6));
    let index = if market.meta().index_token_mint == w.long { lp.clone() } else { sp.clone() };
    let prices = Prices { index_token_price: index, long_token_price: lp, short_token_price: sp };
    let v = gmsol_model::glv::get_glv_value_for_market(&prices, &lm, x, true).ok()?;
    let payout = lm.pool_value(&prices, PnlFactorKind::MaxAfterWithdrawal, true).ok()?;
    let valuation = lm.pool_value(&prices, PnlFactorKind::MaxAfterDeposit, false).ok()?;
    Some((v.market_token_value_in_glv, payout, valuation))
}

/// (v) PRICE IN THE VAULT'S FAVOUR, on clones of the world: user `u` deposits `long`/`short` into the GLV through market `m`
/// and immediately withdraws the minted GLV tokens at unchanged prices; a second holder's redemption value is sampled
/// before and after. Returns a description of a violation.
fn round_trip(s: &Sid, u: u8, m: usize, long: u64, short: u64, out: &mut Out) -> Option<(bool, String)> {
    // F-C45-orphan: all GLV tokens were redeemed (supply 0) but the GLV vault still holds the market tokens the redemptions left
    // behind (priced in the vault's favour); the next depositor is the first depositor again and is credited the WHOLE GLV value
    let orphan = mint_supply(&s.w.b, &s.w.glv_token) == 0 && glv_vaults(&s.w).iter().any(|x| *x > 0);
    if orphan { out.stat("rt.orphaned_vault_state"); }
    // what the orphaned vault is worth (maximised): the finding's predicate bounds the gain by it
    let residue: u128 = if orphan { (0..2).map(|k| market_eval(&s.w, k, glv_vaults(&s.w)[k] as u128).map(|e| e.0).unwrap_or(0)).sum() } else { 0 };
    let mut w = s.w.clone();
    let now = s.now;
    NOW.store(now, Ordering::SeqCst);
    w.set_prices(PL, PS, now);
    let owner = user_key(u);
    let other = user_key(1 - u);
    // what the other holder gets for a fixed amount of GLV tokens, on a clone
    let sample = |w: &World| -> Option<u128> {
        let mut c = w.clone();
        let g = bal(&c, &other, &c.glv_token);
        if g < 1000 { return None; }
        let amt = g / 2;
        let key = c.gw_key(&other, &[201; 32]);
        for x in [c.glv_token, c.mt[m], c.long, c.short] { c.prepare_ata(other, key, x).ok()?; }
        let a = c.create_glv_withdrawal(other, m, [201; 32], amt, 0, 0, 300_000).ok()?;
        c.execute_glv_withdrawal(c.keeper, &a, 0, true).ok()?;
        let e = esc(&c, &a.key, m);
        Some(value(e.0, e.1))
    };
    let v_other0 = sample(&w);
    let (l0, s0, g0) = (bal(&w, &owner, &w.long), bal(&w, &owner, &w.short), bal(&w, &owner, &w.glv_token));
    let key = w.gd_key(&owner, &[200; 32]);
    for x in [w.glv_token, w.mt[m], w.long, w.short] { w.prepare_ata(owner, key, x).ok()?; }
    let mut pre_deposit = w.clone();
    let a = w.create_glv_deposit(owner, m, [200; 32], 0, long, short, 0, 300_000).ok()?;
    w.execute_glv_deposit(w.keeper, &a, 0, true).ok()?;
    w.close_glv_deposit(owner, &a).ok()?;
    let minted = bal(&w, &owner, &w.glv_token) - g0;
    if minted == 0 { out.stat("rt.minted_zero"); return None; }
    // DIRECTION of the deposit pricing: the GLV tokens received, valued at the MAXIMISED GLV value before the deposit (the real
    // `get_glv_token_value`), are worth no more than the deposited collateral at MINIMISED prices
    if let Some(vg) = pre_deposit.glv_token_value(minted, true) {
        out.stat("rt.deposit_direction_checked");
        if vg > value_lo(long, short) { return Some((false, format!("GLV deposit priced against the vault: {minted} GLV tokens are worth {vg} (maximised GLV value) for collateral worth {} at minimised prices", value_lo(long, short)))); }
    }
    let mut pre_withdrawal = w.clone();
    let key = w.gw_key(&owner, &[202; 32]);
    for x in [w.glv_token, w.mt[m], w.long, w.short] { w.prepare_ata(owner, key, x).ok()?; }
    let a = w.create_glv_withdrawal(owner, m, [202; 32], minted, 0, 0, 300_000).ok()?;
    // hypothesis of the Lean theorem `glv_roundtrip_no_gain` on this state: pay-out pool value >= valuation pool value
    let hyp = market_eval(&w, m, 0).map(|(_, payout, valuation)| payout >= valuation);
    let gv_before = glv_vaults(&w)[m];
    if w.execute_glv_withdrawal(w.keeper, &a, 0, true).is_err() { out.stat("rt.withdraw_rejected"); return None; }
    match hyp { Some(true) => out.stat("rt.hypothesis_holds"), Some(false) => out.stat("rt.hypothesis_FAILS_on_accepted_round_trip"), None => out.stat("rt.hypothesis_not_evaluated") }
    // DIRECTION of the withdrawal pricing, sharp form: the market tokens taken out of the GLV vault, valued at the MAXIMISED
    // market-token price, are worth no more than the burned GLV tokens at the MINIMISED GLV value
    let x = gv_before - glv_vaults(&w)[m];
    if let (Some((vx, _, _)), Some(vg)) = (market_eval(&pre_withdrawal, m, x as u128), pre_withdrawal.glv_token_value(minted, false)) {
        out.stat("rt.withdrawal_market_token_direction_checked");
        if vx > vg + 1 { return Some((false, format!("GLV withdrawal priced against the vault: {x} market tokens worth {vx} (maximised) left the vault for {minted} GLV tokens worth {vg} (minimised GLV value)"))); }
    }
    w.close_glv_withdrawal(owner, &a).ok()?;
    out.stat("rt.completed");
    let (l1, s1) = (bal(&w, &owner, &w.long), bal(&w, &owner, &w.short));
    // DIRECTION of the withdrawal pricing: what is paid out, valued at MAXIMISED prices, is worth no more than the burned GLV
    // tokens at the MINIMISED GLV value before the withdrawal
    let (out_l, out_s) = (l1 + long - l0, s1 + short - s0);
    if let Some(vg) = pre_withdrawal.glv_token_value(minted, false) {
        out.stat("rt.withdrawal_direction_checked");
        if value_hi(out_l, out_s) > vg { return Some((false, format!("GLV withdrawal priced against the vault: paid {out_l}/{out_s} worth {} at maximised prices for {minted} GLV tokens worth {vg} (minimised GLV value)", value_hi(out_l, out_s)))); }
    }
    // and the whole round trip never gains, at ANY prices inside the published band
    // narrow predicate of F-C45-orphan: GLV supply 0 with a non-empty vault before the deposit, and the gain is bounded by the
    // value of that orphaned vault
    let orphan_gain = orphan && value_hi(out_l, out_s) <= value_hi(long, short) + residue;
    if value_hi(out_l, out_s) > value_lo(long, short) { return Some((orphan_gain, format!("round trip gains inside the price band: paid out {out_l}/{out_s} worth {} at maximised prices for {long}/{short} worth {} at minimised prices", value_hi(out_l, out_s), value_lo(long, short)))); }
    let (vin, vout) = (value(l0, s0), value(l1, s1));
    if vout > vin { return Some((orphan_gain, format!("GLV deposit+withdrawal round trip returned more value than went in: {vin} -> {vout} (long {l0}->{l1}, short {s0}->{s1})"))); }
    if let (Some(a0), Some(a1)) = (v_other0, sample(&w)) {
        out.stat("rt.other_holder_sampled");
        // each leg floors a token amount: allow one smallest unit of each token
        if a1 + PL + PS * 1000 < a0 { return Some((false, format!("the round trip of user {u} lowered the redemption value of the other holder: {a0} -> {a1}"))); }
    }
    None
}

fn exec(ss: &mut BTreeMap<String, Sid>, req: &str, out: &mut Out) -> (String, bool) {
    let t: Vec<&str> = req.split(' ').collect();
    let bad = || ("bad-op".to_string(), false);
    if t.len() < 3 || t[0] != "gl" { return bad(); }
    let sid = t[2].to_string();
    if t[1] == "new" {
        if t.len() != 3 { return bad(); }
        NOW.store(1_700_000_000, Ordering::SeqCst);
        let mut w = World::new();
        for u in 0..NUSERS { w.user(u, LONG0, SHORT0); }
        let s = Sid { w, now: 1_700_000_000, acts: BTreeMap::new(), changes: BTreeMap::new(), mdeps: 0, shifts: BTreeMap::new(), last_shift: 0 };
        let d = digest(&s);
        ss.insert(sid, s);
        return (format!("ok | {d}"), false);
    }
    let Some(s) = ss.get_mut(&sid) else { return bad() };
    NOW.store(s.now, Ordering::SeqCst);
    let tot0 = totals(&s.w);
    let comp0 = glv_composition(&s.w);
    match t[1] {
        "tick" => {
            let Some(dt) = t.get(3).and_then(|x| x.parse::<u32>().ok()) else { return bad() };
            if t.len() != 4 || dt > 100_000 { return bad(); }
            s.now += dt as i64;
            (format!("ok | {}", digest(s)), false)
        }
        "price" => {
            let Some(age) = t.get(3).and_then(|x| x.parse::<u32>().ok()) else { return bad() };
            if t.len() != 4 || age > 100_000 { return bad(); }
            let now = s.now;
            s.w.set_prices(PL, PS, now - age as i64);
            (format!("ok | {}", digest(s)), false)
        }
        // plain market deposit (create → execute → close as one atomic step, fresh prices): where market tokens come from
        "mdep" => {
            if t.len() != 9 { return bad(); }
            let (Some(u), Some(m), Some(l), Some(sh), Some(dfail), Some(dx)) = (t[3].parse::<u8>().ok().filter(|u| *u < NUSERS), t[4].parse::<usize>().ok().filter(|m| *m < 2),
                t[5].parse::<u64>().ok(), t[6].parse::<u64>().ok(), t[7].parse::<u8>().ok().filter(|f| *f < 2), t[8].parse::<u64>().ok()) else { return bad() };
            let owner = user_key(u);
            let mut w2 = s.w.clone();
            let now = s.now;
            w2.set_prices(PL, PS, now);
            s.mdeps += 1;
            let nonce = { let mut n = [77u8; 32]; n[..4].copy_from_slice(&s.mdeps.to_le_bytes()); n };
            let m0 = bal(&w2, &owner, &w2.mt[m]);
            match w2.market_deposit(owner, m, nonce, l, sh) {
                Err(_) => (format!("err | {}", digest(s)), false), // nothing persists, not even the price publication
                Ok(()) => {
                    let minted = bal(&w2, &owner, &w2.mt[m]) - m0;
                    s.w = w2;
                    if dfail == 1 || minted != dx { out.oracle_fail(&format!("market deposit minted {minted}, declared {dx} (fail={dfail})"), req); }
                    invariants(s, &tot0, &comp0, req, out);
                    (format!("ok | {}", digest(s)), true)
                }
            }
        }
        "create" => {
            if t.len() != 11 { return bad(); }
            let (Some(id), Some(m), Some(a), Some(b), Some(c), Some(flag), Some(el)) = (parse_id(&format!("{}.{}.{}", t[3], t[4], t[5])), t[6].parse::<usize>().ok().filter(|m| *m < 2),
                t[7].parse::<u64>().ok(), t[8].parse::<u64>().ok(), t[9].parse::<u64>().ok(),
                t[10].split(':').next().and_then(|x| x.parse::<u8>().ok()), t[10].split(':').nth(1).and_then(|x| x.parse::<u64>().ok())) else { return bad() };
            if flag > 1 || el > 50_000_000 || (id.1 == 'w' && (b != 0 || c != 0)) { return bad(); }
            let owner = user_key(id.0);
            let key = action_key(&s.w, id);
            let nonce = nonce_of(id.1, id.2);
            let (lm, sm, mt, g) = (s.w.long, s.w.short, s.w.mt[m], s.w.glv_token);
            for x in [g, mt, lm, sm] { let _ = s.w.prepare_ata(owner, key, x); }
            let ub = esc(&s.w, &owner, m);
            let occupied = s.w.b.m.contains_key(&key);
            let big = flag == 1;
            let r = if id.1 == 'd' { s.w.create_glv_deposit(owner, m, nonce, a, b, c, if big { u64::MAX } else { 0 }, el) }
                    else { s.w.create_glv_withdrawal(owner, m, nonce, a, if big { u64::MAX } else { 0 }, 0, el) };
            match r {
                Err(_) => (format!("err | {}", digest(s)), false),
                Ok(h) => {
                    if occupied { out.oracle_fail("C23: an action account was created over an existing one", req); }
                    let e = esc(&s.w, &key, m);
                    let ua = esc(&s.w, &owner, m);
                    if (ub.0 - ua.0, ub.1 - ua.1, ub.2 - ua.2, ub.3 - ua.3) != e { out.oracle_fail("C23: escrow does not hold exactly the tokens taken from the owner", req); }
                    if act_state(&s.w, id) != Some(0) { out.oracle_fail("C23: new action is not pending", req); }
                    s.acts.insert(id, h);
                    s.changes.insert(id, 0);
                    invariants(s, &tot0, &comp0, req, out);
                    (format!("ok | {}", digest(s)), true)
                }
            }
        }
        "exec" => {
            if t.len() != 11 { return bad(); }
            let (Some(auth), Some(id), Some(fee), Some(throw), Some(dfail), Some(dx), Some(dy), Some(dz)) = (who(&s.w, t[3]), parse_id(t[4]), t[5].parse::<u64>().ok(), t[6].parse::<u8>().ok(), t[7].parse::<u8>().ok(),
                t[8].parse::<u64>().ok(), t[9].parse::<u64>().ok(), t[10].parse::<u64>().ok()) else { return bad() };
            if throw > 1 || dfail > 1 { return bad(); }
            let Some(h) = s.acts.get(&id).cloned() else { return (format!("err | {}", digest(s)), false) };
            let st0 = act_state(&s.w, id);
            let w0 = s.w.clone();
            let (e0, v0) = (esc(&w0, &h.key, h.m), vaults(&w0));
            let (sup_mt0, sup_g0, gv0) = (mint_supply(&w0.b, &w0.mt[h.m]), mint_supply(&w0.b, &w0.glv_token), glv_vaults(&w0));
            let (al0, kl0) = (s.w.b.get(&h.key).lamports, s.w.b.get(&auth).lamports);
            match run_exec(&mut s.w, auth, id, &h, fee, throw == 1) {
                Err(_) => (format!("err | {}", digest(s)), false),
                Ok(()) => {
                    let st1 = act_state(&s.w, id);
                    let (e1, v1) = (esc(&s.w, &h.key, h.m), vaults(&s.w));
                    let (sup_mt1, sup_g1, gv1) = (mint_supply(&s.w.b, &s.w.mt[h.m]), mint_supply(&s.w.b, &s.w.glv_token), glv_vaults(&s.w));
                    let paid = s.w.b.get(&auth).lamports - kl0;
                    if st0 != Some(0) { out.oracle_fail("C23: an already completed or cancelled action was executed again", req); }
                    if auth != s.w.keeper { out.oracle_fail("executed by a non-keeper", req); }
                    match st1 {
                        Some(1) => {
                            let (x, y, z) = result_amounts(&w0, &s.w, id, &h);
                            let ok = if id.1 == 'd' {
                                // collateral escrow → market vaults; escrowed + freshly minted market tokens → GLV vault; GLV minted to the escrow
                                e1.0 == 0 && e1.1 == 0 && e1.2 == 0 && v1.0 - v0.0 == e0.0 && v1.1 - v0.1 == e0.1 && sup_mt1 - sup_mt0 == x
                                    && gv1[h.m] - gv0[h.m] == e0.2 + x && gv1[1 - h.m] == gv0[1 - h.m] && sup_g1 - sup_g0 == y && e1.3 - e0.3 == y
                            } else {
                                // escrowed GLV burned; market tokens leave the GLV vault and are burned; collateral paid to the escrow
                                e1.3 == 0 && sup_g0 - sup_g1 == e0.3 && gv0[h.m] - gv1[h.m] == x && sup_mt0 - sup_mt1 == x && gv1[1 - h.m] == gv0[1 - h.m]
                                    && v0.0 - v1.0 == y && v0.1 - v1.1 == z && e1.0 - e0.0 == y && e1.1 - e0.1 == z && e1.2 == e0.2
                            };
                            if !ok { out.oracle_fail("completed GLV action: tokens did not move exactly between escrow, vaults and supplies", req); }
                            if (x, y, z) != (dx, dy, dz) || dfail == 1 { out.oracle_fail(&format!("result amounts ({x},{y},{z}) differ from the declared ({dx},{dy},{dz}) / declared a failure"), req); }
                            out.stat(&format!("exec.completed.{}", id.1));
                        }
                        Some(2) => {
                            if e1 != e0 || v1 != v0 || sup_mt1 != sup_mt0 || sup_g1 != sup_g0 || gv1 != gv0 { out.oracle_fail("C23: cancelled GLV action: escrow was not returned in full", req); }
                            if throw == 1 { out.oracle_fail("soft failure although throw_on_execution_error was set", req); }
                            out.stat(&format!("exec.cancelled.{}", id.1));
                        }
                        _ => out.oracle_fail("C23: execute left the action pending", req),
                    }
                    if paid != fee.min(h.exec_lamports) || al0 - s.w.b.get(&h.key).lamports != paid { out.oracle_fail("execution fee paid differs from min(fee, execution lamports)", req); }
                    *s.changes.get_mut(&id).unwrap() += 1;
                    if s.changes[&id] > 1 { out.oracle_fail("C23: action state changed more than once", req); }
                    invariants(s, &tot0, &comp0, req, out);
                    (format!("ok {} fee={paid} | {}", match st1 { Some(1) => "completed", Some(2) => "cancelled", _ => "?" }, digest(s)), true)
                }
            }
        }
        "close" => {
            if t.len() != 5 { return bad(); }
            let (Some(ex), Some(id)) = (who(&s.w, t[3]), parse_id(t[4])) else { return bad() };
            let Some(h) = s.acts.get(&id).cloned() else { return (format!("err | {}", digest(s)), false) };
            let (key, owner) = (h.key, h.owner);
            let st0 = act_state(&s.w, id);
            let e0 = esc(&s.w, &key, h.m);
            let ub = esc(&s.w, &owner, h.m);
            let ledger0 = s.w.b.clone();
            let r = if id.1 == 'd' { s.w.close_glv_deposit(ex, &h) } else { s.w.close_glv_withdrawal(ex, &h) };
            match r {
                Err(_) => {
                    if ex == owner && st0.is_some() { out.oracle_fail("C23: the owner could not close their own action", req); }
                    if s.w.b.m != ledger0.m { out.oracle_fail("a rejected close changed account bytes", req); }
                    (format!("err | {}", digest(s)), false)
                }
                Ok(()) => {
                    let is_owner = ex == owner;
                    if !is_owner && ex != s.w.keeper { out.oracle_fail("C23: a stranger closed the action", req); }
                    if !is_owner && st0 == Some(0) { out.oracle_fail("C23: a keeper closed a pending action", req); }
                    if s.w.b.m.contains_key(&key) { out.oracle_fail("C23: action account still exists after close", req); }
                    for mint in [s.w.long, s.w.short, s.w.mt[h.m], s.w.glv_token] { let k = if mint == s.w.glv_token { ata22(&key, &mint) } else { ata(&key, &mint) }; if s.w.b.m.contains_key(&k) { out.oracle_fail("C23: escrow is not empty/closed after close", req); } }
                    let ua = esc(&s.w, &owner, h.m);
                    if (ua.0 - ub.0, ua.1 - ub.1, ua.2 - ub.2, ua.3 - ub.3) != e0 { out.oracle_fail("C23: escrowed tokens did not all go home to the owner", req); }
                    s.acts.remove(&id);
                    s.changes.remove(&id);
                    invariants(s, &tot0, &comp0, req, out);
                    out.stat(if is_owner { "close.by_owner" } else { "close.by_keeper" });
                    (format!("ok | {}", digest(s)), true)
                }
            }
        }
        // ---- GLV shifts (keeper only)
        "screate" => {
            if t.len() != 9 { return bad(); }
            let (Some(auth), Some(i), Some(from), Some(to), Some(amount), Some(el)) = (who(&s.w, t[3]), t[4].parse::<u8>().ok().filter(|i| *i < 2), t[5].parse::<usize>().ok().filter(|m| *m < 2),
                t[6].parse::<usize>().ok().filter(|m| *m < 2), t[7].parse::<u64>().ok(), t[8].parse::<u64>().ok().filter(|e| *e <= 50_000_000)) else { return bad() };
            if from == to {
                // the account constraint rejects equal markets; the harness's fixed arrays would alias, so do not call
                return (format!("err | {}", digest(s)), false);
            }
            let keeper = s.w.keeper;
            let occupied = s.shifts.contains_key(&i);
            // one slot = one (keeper, nonce) address: a live shift of ANY creator occupies it in the model; only the keeper can create
            if occupied || auth != keeper && s.w.b.m.contains_key(&s.w.gs_key(&keeper, &shift_nonce(i))) { return (format!("err | {}", digest(s)), false); }
            let gv0 = glv_vaults(&s.w);
            match s.w.create_glv_shift(auth, shift_nonce(i), from, to, amount, el) {
                Err(_) => (format!("err | {}", digest(s)), false),
                Ok(sh) => {
                    if auth != keeper { out.oracle_fail("a GLV shift was created by a non-keeper", req); }
                    if amount == 0 || amount > gv0[from] { out.oracle_fail("a GLV shift was created for an amount the vault does not hold", req); }
                    if s.now < s.last_shift + 3600 { out.oracle_fail("a GLV shift was created before the shift interval passed", req); }
                    if shift_state(&s.w, &sh) != Some(0) { out.oracle_fail("new GLV shift is not pending", req); }
                    s.shifts.insert(i, sh);
                    invariants(s, &tot0, &comp0, req, out);
                    (format!("ok | {}", digest(s)), true)
                }
            }
        }
        "sexec" => {
            if t.len() != 9 { return bad(); }
            let (Some(auth), Some(i), Some(fee), Some(throw), Some(dfail), Some(dx)) = (who(&s.w, t[3]), t[4].parse::<u8>().ok().filter(|i| *i < 2), t[5].parse::<u64>().ok(),
                t[6].parse::<u8>().ok().filter(|x| *x < 2), t[7].parse::<u8>().ok().filter(|x| *x < 2), t[8].parse::<u64>().ok()) else { return bad() };
            let Some(sh) = s.shifts.get(&i).cloned() else { return (format!("err | {}", digest(s)), false) };
            let st0 = shift_state(&s.w, &sh);
            let w0 = s.w.clone();
            let users0: Vec<_> = (0..NUSERS).map(|u| esc(&w0, &user_key(u), 0)).collect();
            let kl0 = s.w.b.get(&auth).lamports;
            // GLV value of the whole supply (minimised), through the real instruction on a clone
            let gsup = mint_supply(&w0.b, &w0.glv_token);
            let val0 = { let mut c = w0.clone(); c.glv_token_value(gsup, false) };
            match s.w.execute_glv_shift(auth, &sh, fee, throw == 1) {
                Err(_) => (format!("err | {}", digest(s)), false),
                Ok(()) => {
                    let st1 = shift_state(&s.w, &sh);
                    let paid = s.w.b.get(&auth).lamports - kl0;
                    if st0 != Some(0) { out.oracle_fail("C23: an already completed or cancelled GLV shift was executed again", req); }
                    if auth != s.w.keeper { out.oracle_fail("GLV shift executed by a non-keeper", req); }
                    let (gv0, gv1) = (glv_vaults(&w0), glv_vaults(&s.w));
                    let sup = |w: &World, m: usize| mint_supply(&w.b, &w.mt[m]);
                    // never touches users, the shared collateral vaults or the GLV supply
                    let users1: Vec<_> = (0..NUSERS).map(|u| esc(&s.w, &user_key(u), 0)).collect();
                    if users1 != users0 || vaults(&s.w) != vaults(&w0) || mint_supply(&s.w.b, &s.w.glv_token) != gsup { out.oracle_fail("a GLV shift moved user funds, collateral vaults or the GLV supply", req); }
                    match st1 {
                        Some(1) => {
                            let x = gv1[sh.to] - gv0[sh.to];
                            let ok = gv0[sh.from] - gv1[sh.from] == sh.amount && sup(&w0, sh.from) - sup(&s.w, sh.from) == sh.amount && sup(&s.w, sh.to) - sup(&w0, sh.to) == x;
                            if !ok { out.oracle_fail("completed GLV shift: market tokens did not move exactly between the GLV vaults and the supplies", req); }
                            if x != dx || dfail == 1 { out.oracle_fail(&format!("shift received {x}, declared {dx} (fail={dfail})"), req); }
                            if s.now < s.last_shift + 3600 { out.oracle_fail("a GLV shift was executed before the shift interval passed", req); }
                            // GLV value (minimised, whole supply) does not drop by more than the max shift price impact (1 %) of the
                            // shifted value — bounded here by 1 % of the whole GLV value — plus rounding
                            let val1 = { let mut c = s.w.clone(); c.glv_token_value(gsup, false) };
                            if let (Some(a), Some(b)) = (val0, val1) {
                                out.stat("shift.value_checked");
                                if b + a / 100 + 1_000_000 < a { out.oracle_fail(&format!("GLV value dropped from {a} to {b} in a shift (more than the 1 % price-impact guard allows)"), req); }
                                if b < a { out.stat("shift.value_dropped_within_guard"); }
                            }
                            s.last_shift = s.now;
                            out.stat("sexec.completed");
                        }
                        Some(2) => {
                            if gv1 != gv0 || sup(&s.w, 0) != sup(&w0, 0) || sup(&s.w, 1) != sup(&w0, 1) { out.oracle_fail("cancelled GLV shift moved market tokens", req); }
                            if throw == 1 { out.oracle_fail("soft failure although throw_on_execution_error was set", req); }
                            out.stat("sexec.cancelled");
                        }
                        _ => out.oracle_fail("execute left the GLV shift pending", req),
                    }
                    if paid != fee.min(sh.exec_lamports) { out.oracle_fail("shift execution fee differs from min(fee, execution lamports)", req); }
                    invariants(s, &tot0, &comp0, req, out);
                    (format!("ok {} fee={paid} | {}", match st1 { Some(1) => "completed", Some(2) => "cancelled", _ => "?" }, digest(s)), true)
                }
            }
        }
        "sclose" => {
            if t.len() != 5 { return bad(); }
            let (Some(auth), Some(i)) = (who(&s.w, t[3]), t[4].parse::<u8>().ok().filter(|i| *i < 2)) else { return bad() };
            let Some(sh) = s.shifts.get(&i).cloned() else { return (format!("err | {}", digest(s)), false) };
            let keeper = s.w.keeper;
            match s.w.close_glv_shift(auth, keeper, &sh) {
                Err(_) => (format!("err | {}", digest(s)), false),
                Ok(()) => {
                    if auth != keeper { out.oracle_fail("a GLV shift was closed by a non-keeper", req); }
                    if s.w.b.m.contains_key(&sh.key) { out.oracle_fail("GLV shift account still exists after close", req); }
                    s.shifts.remove(&i);
                    invariants(s, &tot0, &comp0, req, out);
                    (format!("ok | {}", digest(s)), true)
                }
            }
        }
        // (v) round-trip probe on clones; never changes the world
        "rt" => {
            if t.len() != 7 { return bad(); }
            let (Some(u), Some(m), Some(l), Some(sh)) = (t[3].parse::<u8>().ok().filter(|u| *u < NUSERS), t[4].parse::<usize>().ok().filter(|m| *m < 2), t[5].parse::<u64>().ok(), t[6].parse::<u64>().ok()) else { return bad() };
            match round_trip(s, u, m, l, sh, out) {
                Some((true, v)) => out.known("F-C45-orphan", &v, req),
                Some((false, v)) => out.oracle_fail(&v, req),
                None => {}
            }
            NOW.store(s.now, Ordering::SeqCst);
            (format!("ok | {}", digest(s)), false)
        }
        _ => bad(),
    }
}

struct Gen { sid: usize, left: u64, queue: Vec<String> }
fn gen_next(r: &mut Rng, ss: &BTreeMap<String, Sid>, g: &mut Gen) -> String {
    if let Some(q) = g.queue.pop() { return q; }
    if g.left == 0 { g.sid += 1; g.left = r.range(25, 60); return format!("gl new w{}", g.sid); }
    g.left -= 1;
    let sid = format!("w{}", g.sid);
    let s = &ss[&sid];
    let w = &s.w;
    let live: Vec<(Id, Option<u8>)> = s.acts.keys().map(|id| (*id, act_state(w, *id))).collect();
    let rand_id = |r: &mut Rng| (r.below(NUSERS as u64) as u8, ['d', 'w'][r.below(2) as usize], r.below(NSLOTS as u64) as u8);
    let pick = |r: &mut Rng| if live.is_empty() || r.chance(1, 8) { (rand_id(r), None) } else { live[r.below(live.len() as u64) as usize] };
    let ids = |id: Id| format!("{}.{}.{}", id.0, id.1, id.2);
    let no_liquidity = mint_supply(&w.b, &w.mt[0]) == 0 || mint_supply(&w.b, &w.mt[1]) == 0;
    let pending: Vec<(Id, Option<u8>)> = live.iter().filter(|l| l.1 == Some(0)).cloned().collect();
    let choice = if no_liquidity && r.chance(2, 3) { 2 } else { let c = r.below(16); if live.is_empty() && c >= 8 && c != 12 && r.chance(4, 5) { 4 } else { c } };
    match choice {
        0 => format!("gl tick {sid} {}", match r.below(5) { 0 => r.range(100, 200), 1 => r.range(3500, 3700), _ => r.range(0, 60) }),
        1 => format!("gl price {sid} {}", match r.below(8) { 0 => r.range(110, 130), 1 => r.range(3590, 3610), 2 => r.range(1, 30), _ => 0 }),
        2 | 3 => {
            let u = r.below(NUSERS as u64) as u8;
            let m = if mint_supply(&w.b, &w.mt[0]) == 0 { 0 } else if mint_supply(&w.b, &w.mt[1]) == 0 { 1 } else { r.below(2) as usize };
            let (l, sh) = (match r.below(6) { 0 => 0, 1 => LONG0 + 1, _ => r.range(1, 20_000_000_000) }, match r.below(6) { 0 => 0, 1 => SHORT0 + 1, _ => r.range(1, 1_000_000_000) });
            // dry run on a clone declares the minted amount
            let mut w2 = w.clone();
            NOW.store(s.now, Ordering::SeqCst);
            w2.set_prices(PL, PS, s.now);
            let owner = user_key(u);
            let m0 = bal(&w2, &owner, &w2.mt[m]);
            let nonce = { let mut n = [77u8; 32]; n[..4].copy_from_slice(&(s.mdeps + 1).to_le_bytes()); n };
            let (f, x) = match w2.market_deposit(owner, m, nonce, l, sh) { Ok(()) => (0, bal(&w2, &owner, &w2.mt[m]) - m0), Err(_) => (1, 0) };
            format!("gl mdep {sid} {u} {m} {l} {sh} {f} {x}")
        }
        4 | 5 | 6 | 7 => {
            let u = r.below(NUSERS as u64) as u8;
            let owner = user_key(u);
            let m = r.below(2) as usize;
            let have_g = bal(w, &owner, &w.glv_token);
            let have_mt = bal(w, &owner, &w.mt[m]);
            let k = if have_g > 0 && r.chance(2, 5) { 'w' } else { 'd' };
            let i = if r.chance(5, 6) { (0..NSLOTS).find(|i| !live.iter().any(|l| l.0 == (u, k, *i))).unwrap_or(r.below(NSLOTS as u64) as u8) } else { r.below(NSLOTS as u64) as u8 };
            let (a, b, c) = if k == 'd' {
                (match r.below(8) { 0 | 1 | 2 => 0, 3 => have_mt.saturating_add(1), _ => if have_mt == 0 { 0 } else { r.next() % have_mt + 1 } },
                 match r.below(8) { 0 | 1 => 0, 2 => LONG0 + 1, _ => r.range(1, 5_000_000_000) },
                 match r.below(8) { 0 | 1 => 0, 2 => SHORT0 + 1, _ => r.range(1, 500_000_000) })
            } else { (match r.below(10) { 0 => 0, 1 => have_g.saturating_add(1), 2 | 3 => have_g, _ => r.next() % have_g + 1 }, 0, 0) };
            let el = match r.below(12) { 0 => r.range(0, 199_999), _ => r.range(200_000, 5_000_000) };
            format!("gl create {sid} {u} {k} {i} {m} {a} {b} {c} {}:{el}", if r.chance(1, 7) { 1 } else { 0 })
        }
        8 | 9 | 10 | 11 => {
            let (id, st) = if !pending.is_empty() && r.chance(4, 5) { pending[r.below(pending.len() as u64) as usize] } else { pick(r) };
            let whoo = if r.chance(9, 10) { "k".to_string() } else if r.chance(1, 2) { "a".into() } else { format!("u{}", r.below(NUSERS as u64)) };
            let fee = match r.below(4) { 0 => 0, 1 => 100_000_000, _ => r.range(1, 3_000_000) };
            let throw = r.below(2) as u8;
            let fresh = st == Some(0) && r.chance(3, 4);
            let (mut x, mut y, mut z, mut f) = (0, 0, 0, 0);
            if let (Some(h), Some(auth)) = (s.acts.get(&id), who(w, &whoo)) {
                let mut w2 = w.clone();
                NOW.store(s.now, Ordering::SeqCst);
                if fresh { w2.set_prices(PL, PS, s.now); }
                let w0 = w2.clone();
                if run_exec(&mut w2, auth, id, h, fee, false).is_ok() {
                    match act_state(&w2, id) { Some(1) => { (x, y, z) = result_amounts(&w0, &w2, id, h); } Some(2) => { f = 1; } _ => {} }
                }
            }
            let e = format!("gl exec {sid} {whoo} {} {fee} {throw} {f} {x} {y} {z}", ids(id));
            if fresh { g.queue.push(e); return format!("gl price {sid} 0"); }
            e
        }
        13 if r.chance(2, 3) => {
            // GLV shifts
            let gv = glv_vaults(w);
            let live_sh: Vec<(u8, Option<u8>)> = s.shifts.iter().map(|(i, sh)| (*i, shift_state(w, sh))).collect();
            let whoo = if r.chance(9, 10) { "k".to_string() } else if r.chance(1, 2) { "a".into() } else { format!("u{}", r.below(NUSERS as u64)) };
            match if live_sh.is_empty() { 0 } else { r.below(4) } {
                0 => {
                    let from = if gv[0] >= gv[1] { 0 } else { 1 };
                    let from = if r.chance(1, 6) { 1 - from } else { from };
                    let to = if r.chance(1, 12) { from } else { 1 - from };
                    let i = (0..2u8).find(|i| !s.shifts.contains_key(i)).unwrap_or(r.below(2) as u8);
                    let amount = match r.below(6) { 0 => 0, 1 => gv[from].saturating_add(1), _ => if gv[from] == 0 { 1 } else { r.next() % gv[from] + 1 } };
                    // far enough from the previous shift most of the time
                    if s.now < s.last_shift + 3600 && r.chance(3, 4) { return format!("gl tick {sid} {}", r.range(3600, 3700)); }
                    format!("gl screate {sid} {whoo} {i} {from} {to} {amount} {}", match r.below(3) { 0 => 0, _ => r.range(1, 3_000_000) })
                }
                1 | 2 => {
                    let (i, st) = live_sh[r.below(live_sh.len() as u64) as usize];
                    let fee = match r.below(3) { 0 => 0, _ => r.range(1, 3_000_000) };
                    let throw = r.below(2) as u8;
                    let fresh = st == Some(0) && r.chance(4, 5);
                    let (mut x, mut f) = (0, 0);
                    if let (Some(sh), Some(auth)) = (s.shifts.get(&i), who(w, &whoo)) {
                        let mut w2 = w.clone();
                        NOW.store(s.now, Ordering::SeqCst);
                        if fresh { w2.set_prices(PL, PS, s.now); }
                        let g0 = glv_vaults(&w2)[sh.to];
                        if w2.execute_glv_shift(auth, sh, fee, false).is_ok() {
                            match shift_state(&w2, sh) { Some(1) => x = glv_vaults(&w2)[sh.to] - g0, Some(2) => f = 1, _ => {} }
                        }
                    }
                    let e = format!("gl sexec {sid} {whoo} {i} {fee} {throw} {f} {x}");
                    if fresh { g.queue.push(e); return format!("gl price {sid} 0"); }
                    e
                }
                _ => format!("gl sclose {sid} {whoo} {}", live_sh[r.below(live_sh.len() as u64) as usize].0),
            }
        }
        12 => format!("gl rt {sid} {} {} {} {}", r.below(NUSERS as u64), r.below(2), match r.below(4) { 0 => 0, _ => r.range(1, 5_000_000_000) }, match r.below(4) { 0 => 0, _ => r.range(1, 500_000_000) }),
        _ => {
            let done: Vec<&(Id, Option<u8>)> = live.iter().filter(|l| l.1 == Some(1)).collect();
            let (id, st) = if !done.is_empty() && r.chance(1, 2) { *done[r.below(done.len() as u64) as usize] } else { pick(r) };
            let whoo = match r.below(6) { 0 | 1 | 2 => format!("u{}", id.0), 3 => "k".into(), 4 => format!("u{}", r.below(NUSERS as u64)), _ => if st == Some(0) { "k".into() } else { "a".into() } };
            format!("gl close {sid} {whoo} {}", ids(id))
        }
    }
}

fn smoke_shift() {
    let mut w = World::new();
    let u = w.user(0, LONG0, SHORT0);
    w.set_prices(PL, PS, 1_700_000_000);
    for m in 0..2 { println!("mdep {m}: {:?}", w.market_deposit(u, m, [m as u8 + 1; 32], 10_000_000_000, 1_500_000_000)); }
    let key = w.gd_key(&u, &[9; 32]);
    for x in [w.glv_token, w.mt[0], w.long, w.short] { w.prepare_ata(u, key, x).expect("escrow"); }
    let a = w.create_glv_deposit(u, 0, [9; 32], 1_000_000_000_000, 0, 0, 0, 300_000).unwrap();
    println!("glv deposit exec: {:?}", w.execute_glv_deposit(w.keeper, &a, 0, true));
    println!("vaults {:?} rec {:?} value {:?}", glv_vaults(&w), glv_recorded(&w), { let sup = mint_supply(&w.b, &w.glv_token); w.glv_token_value(sup, false) });
    let k = w.keeper;
    let sh = w.create_glv_shift(k, [5; 32], 0, 1, 400_000_000_000, 0);
    println!("create shift: {:?} cpis={:?}", sh.as_ref().map(|_| ()), CPI_LOG.lock().unwrap());
    let sh = sh.unwrap();
    println!("exec shift: {:?}", w.execute_glv_shift(k, &sh, 0, true));
    println!("vaults {:?} rec {:?} value {:?} mtsupply {} {}", glv_vaults(&w), glv_recorded(&w), { let sup = mint_supply(&w.b, &w.glv_token); w.glv_token_value(sup, false) }, mint_supply(&w.b, &w.mt[0]), mint_supply(&w.b, &w.mt[1]));
    println!("close shift: {:?}", w.close_glv_shift(k, k, &sh));
    let sh2 = w.create_glv_shift(k, [6; 32], 1, 0, 1000, 0);
    println!("second shift at once: {:?}", sh2.as_ref().map(|_| ()).map_err(|e| e.0.clone()));
}

fn main() {
    if std::env::var("HARNESS_SMOKE").is_ok() { set_syscall_stubs(Box::new(Stubs)); smoke_shift(); return; }
    let cli = cli();
    let mut out = Out::new();
    if std::env::var("HARNESS_DEBUG").is_err() { std::panic::set_hook(Box::new(|_| {})); }
    set_syscall_stubs(Box::new(Stubs));
    let mut ss: BTreeMap<String, Sid> = BTreeMap::new();
    let replay: Option<Vec<String>> = if cli.mode == "replay" { Some(read_requests(cli.file.as_deref().unwrap())) } else { None };
    let total = replay.as_ref().map(|v| v.len() as u64).unwrap_or(cli.n);
    let mut r = Rng::new(cli.seed);
    let mut g = Gen { sid: 0, left: 0, queue: Vec::new() };
    for k in 0..total {
        let req = match &replay { Some(v) => v[k as usize].clone(), None => gen_next(&mut r, &ss, &mut g) };
        let p0 = PANICS.load(Ordering::SeqCst);
        let res = std::panic::catch_unwind(std::panic::AssertUnwindSafe(|| exec(&mut ss, &req, &mut out)));
        if PANICS.load(Ordering::SeqCst) != p0 { out.stat("program_panicked_inside_tx"); if std::env::var("HARNESS_DEBUG").is_ok() { eprintln!("PANIC-REQ {req}"); } }
        let (resp, nt) = match res { Ok(x) => x, Err(_) => { out.oracle_fail("panicked", &req); ("panic".to_string(), false) } };
        let op = req.split(' ').nth(1).unwrap_or("?").to_string();
        out.stat(&format!("op.{op}"));
        out.stat(&format!("{op}.{}", resp.split(' ').next().unwrap_or("?")));
        out.case_nt(&req, &resp, nt);
        if ss.len() > 3 { let first = ss.keys().next().cloned().unwrap(); if Some(&first) != req.split(' ').nth(2).map(|x| x.to_string()).as_ref() { ss.remove(&first); } }
    }
    out.finish();
}
