//! C37 correspondence + oracle: treasury factor setters and GT-bank exchange claims.
//!
//! `claim` runs the REAL `complete_gt_exchange` instruction through the native entrypoint
//! `gmsol_treasury::entry`. CPIs are intercepted by a syscall stub: the store's
//! `close_gt_exchange` CPI is a no-op (its preconditions — vault confirmed, exchange owned by the
//! owner — are *modelled* as satisfied), every SPL `transfer_checked` CPI is recorded so that the
//! amounts actually requested from the token program are what the harness reports.
//! Bank set-up (`new`, `confirm`, `reserve`) and the factor setters call the real `pub(crate)`
//! methods through `gmsol_treasury::verif::c37`.
//!
//! Protocol `gtb <op> <sid> …`:
//!   new sid b0 b1 …        bank with token i holding b_i            -> ok | digest
//!   reserve sid num den     GtBank::reserve_balances                  -> ok|err | digest
//!   confirm sid G           GtBank::confirm_unchecked                 -> ok|err | digest
//!   claim sid g             complete_gt_exchange with exchange.amount = g
//!                                                       -> ok n [a0,a1,…] | digest   (n = #transfers)
//!   claimx sid g            complete_gt_exchange of an exchange of THIS vault against the bank of ANOTHER vault of
//!                           the same treasury (same tokens, confirmed alike): must be rejected -> err | digest
//!   setf sid gt|buyback f   Config::set_gt_factor / set_buyback_factor -> ok prev | gt buyback
use anchor_lang::prelude::*;
use anchor_lang::solana_program::instruction::Instruction;
use anchor_lang::solana_program::program_stubs::{set_syscall_stubs, SyscallStubs};
use anchor_lang::{Discriminator, InstructionData};
use anchor_spl::token::spl_token;
use bytemuck::Zeroable;
use gmsol_store::states::{gt::GtExchange, Store};
use gmsol_treasury::states::{Config, GtBank, TreasuryVaultConfig};
use gmsol_treasury::verif::c37 as hook;
use hcommon::*;
use num_bigint::BigUint;
use std::collections::BTreeMap;
use std::sync::Mutex;

static CPIS: Mutex<Vec<Instruction>> = Mutex::new(Vec::new());

struct Stubs;
impl SyscallStubs for Stubs {
    fn sol_get_clock_sysvar(&self, var_addr: *mut u8) -> u64 {
        let clock = anchor_lang::solana_program::clock::Clock { slot: 1000, epoch_start_timestamp: 0, epoch: 0, leader_schedule_epoch: 0, unix_timestamp: 1_700_000_000 };
        unsafe { std::ptr::write_unaligned(var_addr as *mut anchor_lang::solana_program::clock::Clock, clock) };
        0
    }
    fn sol_get_last_restart_slot(&self, var_addr: *mut u8) -> u64 {
        unsafe { std::ptr::write_unaligned(var_addr as *mut u64, 0) };
        0
    }
    fn sol_log(&self, _m: &str) {}
    fn sol_invoke_signed(&self, ix: &Instruction, _infos: &[AccountInfo], _seeds: &[&[&[u8]]]) -> anchor_lang::solana_program::entrypoint::ProgramResult {
        CPIS.lock().unwrap().push(ix.clone());
        Ok(())
    }
}

extern "C" { fn dup(fd: i32) -> i32; fn dup2(a: i32, b: i32) -> i32; fn close(fd: i32) -> i32; }
/// `msg!` prints to stdout natively; send fd 1 to /dev/null while program code runs.
struct Quiet { saved: i32 }
impl Quiet {
    fn new() -> Self {
        use std::io::Write; use std::os::fd::AsRawFd;
        std::io::stdout().flush().unwrap();
        let null = std::fs::OpenOptions::new().write(true).open("/dev/null").unwrap();
        let saved = unsafe { dup(1) };
        unsafe { dup2(null.as_raw_fd(), 1) };
        Quiet { saved }
    }
}
impl Drop for Quiet {
    fn drop(&mut self) { use std::io::Write; let _ = std::io::stdout().flush(); unsafe { dup2(self.saved, 1); close(self.saved); } }
}

/// An account whose data starts 8 bytes into a 16-aligned buffer (zero-copy alignment).
struct Acc { key: Pubkey, lamports: u64, buf: Vec<u128>, len: usize, owner: Pubkey, signer: bool, writable: bool, exec: bool }
impl Acc {
    fn new(key: Pubkey, owner: Pubkey, data: &[u8]) -> Self {
        let mut buf = vec![0u128; (data.len() + 8) / 16 + 2];
        bytemuck::cast_slice_mut::<u128, u8>(&mut buf)[8..8 + data.len()].copy_from_slice(data);
        Acc { key, lamports: 1, buf, len: data.len(), owner, signer: false, writable: false, exec: false }
    }
    fn zc<T: bytemuck::Pod + Discriminator>(key: Pubkey, owner: Pubkey, t: &T) -> Self {
        let mut d = T::DISCRIMINATOR.to_vec();
        d.extend_from_slice(bytemuck::bytes_of(t));
        Acc::new(key, owner, &d)
    }
    fn data(&self) -> &[u8] { &bytemuck::cast_slice::<u128, u8>(&self.buf)[8..8 + self.len] }
    fn signer(mut self) -> Self { self.signer = true; self }
    fn writable(mut self) -> Self { self.writable = true; self }
    fn exec(mut self) -> Self { self.exec = true; self }
}

fn call_entry(accs: &mut [Acc], data: &[u8]) -> std::result::Result<(), ()> {
    let infos: Vec<AccountInfo> = accs.iter_mut().map(|a| {
        let d = &mut bytemuck::cast_slice_mut::<u128, u8>(&mut a.buf)[8..8 + a.len];
        AccountInfo::new(&a.key, a.signer, a.writable, &mut a.lamports, d, &a.owner, a.exec, 0)
    }).collect();
    fn go<'a>(infos: &[AccountInfo<'a>], data: &[u8]) -> anchor_lang::solana_program::entrypoint::ProgramResult {
        let infos: &'a [AccountInfo<'a>] = unsafe { std::mem::transmute(infos) };
        let _q = Quiet::new();
        gmsol_treasury::entry(&gmsol_treasury::ID, infos, data)
    }
    go(&infos, data).map_err(|_| ())
}

fn mint_key(i: usize) -> Pubkey { Pubkey::new_from_array([i as u8 + 1; 32]) }

struct Sid {
    bank: GtBank,
    cfg: Config,
    n: usize,
    keys: [Pubkey; 6], // store, config, tvc, gt vault, bank, owner
    atas: Vec<Pubkey>,
    orig: Option<(Vec<u64>, u64)>, // balances and total at confirmation (oracle only)
    paid: Vec<BigUint>,
    /// a second bank of the same treasury vault config, bound to ANOTHER GT exchange vault: (bank, vault key, bank key, atas)
    other: (GtBank, Pubkey, Pubkey, Vec<Pubkey>),
}

fn balances(s: &Sid) -> Vec<u64> { (0..s.n).map(|i| s.bank.get_balance(&mint_key(i)).unwrap_or(0)).collect() }

fn digest(s: &Sid) -> String {
    let b: Vec<String> = balances(s).iter().map(|x| x.to_string()).collect();
    format!("R={} conf={} bal=[{}]", hook::gt_bank_remaining_confirmed_gt_amount(&s.bank), s.bank.is_confirmed() as u8, b.join(","))
}

fn token_account(mint: &Pubkey, authority: &Pubkey) -> Vec<u8> {
    use anchor_lang::solana_program::program_pack::Pack;
    let a = spl_token::state::Account { mint: *mint, owner: *authority, amount: u64::MAX, state: spl_token::state::AccountState::Initialized, ..Default::default() };
    let mut v = vec![0u8; spl_token::state::Account::LEN];
    a.pack_into_slice(&mut v);
    v
}
fn mint_account() -> Vec<u8> {
    use anchor_lang::solana_program::program_pack::Pack;
    let m = spl_token::state::Mint { decimals: 6, is_initialized: true, supply: u64::MAX, ..Default::default() };
    let mut v = vec![0u8; spl_token::state::Mint::LEN];
    m.pack_into_slice(&mut v);
    v
}

/// complete_gt_exchange through the real entrypoint; returns per-token transferred amounts.
fn claim(s: &mut Sid, g: u64) -> std::result::Result<(usize, Vec<u64>), ()> { claim_with(s, g, false) }

/// `cross`: the exchange and the GT exchange vault account are this session's vault A, the bank account (and its token
/// vaults) are those of the OTHER vault B.
fn claim_with(s: &mut Sid, g: u64, cross: bool) -> std::result::Result<(usize, Vec<u64>), ()> {
    let [store_k, config_k, tvc_k, vault_k, own_bank_k, owner_k] = s.keys;
    let (bank_k, bank_state, atas) = if cross { (s.other.2, s.other.0, s.other.3.clone()) } else { (own_bank_k, s.bank, s.atas.clone()) };
    let tre = gmsol_treasury::ID;
    let sto = gmsol_store::ID;
    let sys = anchor_lang::system_program::ID;
    let store: Store = Zeroable::zeroed();
    let mut tvc: TreasuryVaultConfig = Zeroable::zeroed();
    hook::treasury_vault_config_init(&mut tvc, 255, 0, &config_k);
    let mut ex: GtExchange = Zeroable::zeroed();
    ex.owner = owner_k; ex.store = store_k; ex.vault = vault_k;
    let mut exacc = Acc::zc(Pubkey::new_from_array([77; 32]), sto, &ex).writable();
    // `amount` is private: u64 at struct offset 8 (checked below through the public getter)
    bytemuck::cast_slice_mut::<u128, u8>(&mut exacc.buf)[8 + 8 + 8..8 + 8 + 16].copy_from_slice(&g.to_le_bytes());
    let chk: &GtExchange = bytemuck::from_bytes(&exacc.data()[8..]);
    assert_eq!(chk.amount(), g);
    let mut accs = vec![
        Acc::new(owner_k, sys, &[]).signer(),
        Acc::zc(store_k, sto, &store),
        Acc::zc(config_k, tre, &s.cfg),
        Acc::zc(tvc_k, tre, &tvc),
        Acc::new(vault_k, spl_token::ID, &[]).writable(),
        Acc::zc(bank_k, tre, &bank_state).writable(),
        exacc,
        Acc::new(sto, sys, &[]).exec(),
        Acc::new(spl_token::ID, sys, &[]).exec(),
        Acc::new(anchor_spl::token_2022::ID, sys, &[]).exec(),
    ];
    for i in 0..s.n { accs.push(Acc::new(mint_key(i), spl_token::ID, &mint_account())); }
    for i in 0..s.n { accs.push(Acc::new(atas[i], spl_token::ID, &token_account(&mint_key(i), &bank_k)).writable()); }
    for i in 0..s.n { accs.push(Acc::new(Pubkey::new_from_array([100 + i as u8; 32]), spl_token::ID, &token_account(&mint_key(i), &owner_k)).writable()); }
    CPIS.lock().unwrap().clear();
    let data = gmsol_treasury::instruction::CompleteGtExchange {}.data();
    let r = call_entry(&mut accs, &data);
    let cpis: Vec<Instruction> = CPIS.lock().unwrap().drain(..).collect();
    r?;
    // transaction succeeded: the bank account bytes are the new state
    let new_bank = *bytemuck::from_bytes::<GtBank>(&accs[5].data()[8..]);
    if cross { s.other.0 = new_bank; } else { s.bank = new_bank; }
    let mut amts = vec![0u64; s.n];
    let mut nx = 0;
    for ix in cpis {
        if ix.program_id == spl_token::ID || ix.program_id == anchor_spl::token_2022::ID {
            // TransferChecked: tag 12, amount u64 LE, decimals; accounts = [source, mint, dest, authority]
            assert_eq!(ix.data[0], 12);
            let amount = u64::from_le_bytes(ix.data[1..9].try_into().unwrap());
            let i = atas.iter().position(|a| *a == ix.accounts[0].pubkey).expect("transfer from an unknown vault");
            assert_eq!(ix.accounts[1].pubkey, mint_key(i));
            assert_eq!(ix.accounts[3].pubkey, bank_k);
            amts[i] = amts[i].checked_add(amount).unwrap();
            nx += 1;
        }
    }
    Ok((nx, amts))
}

fn parse<T: std::str::FromStr>(t: &[&str], i: usize) -> Option<T> { t.get(i)?.parse().ok() }

fn exec(w: &mut BTreeMap<String, Sid>, req: &str, out: &mut Out) -> (String, bool) {
    let t: Vec<&str> = req.split(' ').collect();
    if t.len() < 3 || t[0] != "gtb" { return ("bad-op".into(), false); }
    let sid = t[2].to_string();
    let bad = || ("bad-op".to_string(), false);
    match t[1] {
        "new" => {
            let n = t.len() - 3;
            if n > 16 { return bad(); }
            let mut bs = Vec::new();
            for i in 0..n { let Some(b) = parse::<u64>(&t, 3 + i) else { return bad() }; bs.push(b); }
            let h = sid.bytes().fold(7u8, |a, b| a.wrapping_mul(31).wrapping_add(b));
            let k = |x: u8| Pubkey::new_from_array([x ^ h, 200, x, h, 1, 2, 3, 4, 5, 6, 7, 8, 9, 10, 11, 12, 13, 14, 15, 16, 17, 18, 19, 20, 21, 22, 23, 24, 25, 26, 27, 28]);
            let keys = [k(1), k(2), k(3), k(4), k(5), k(6)];
            let mut cfg: Config = Zeroable::zeroed();
            hook::config_init(&mut cfg, 255, 254, &keys[0]);
            hook::config_set_treasury_vault_config(&mut cfg, keys[2]).unwrap();
            let mut bank: GtBank = Zeroable::zeroed();
            hook::gt_bank_try_init(&mut bank, 255, keys[2], keys[3]).unwrap();
            for (i, b) in bs.iter().enumerate() { hook::gt_bank_record_transferred_in(&mut bank, &mint_key(i), *b).unwrap(); }
            let atas = (0..n).map(|i| anchor_spl::associated_token::get_associated_token_address_with_program_id(&keys[4], &mint_key(i), &spl_token::ID)).collect();
            let (vault2, bank2_k) = (k(7), k(8));
            let mut bank2: GtBank = Zeroable::zeroed();
            hook::gt_bank_try_init(&mut bank2, 255, keys[2], vault2).unwrap();
            for (i, b) in bs.iter().enumerate() { hook::gt_bank_record_transferred_in(&mut bank2, &mint_key(i), *b).unwrap(); }
            let atas2 = (0..n).map(|i| anchor_spl::associated_token::get_associated_token_address_with_program_id(&bank2_k, &mint_key(i), &spl_token::ID)).collect();
            let s = Sid { bank, cfg, n, keys, atas, orig: None, paid: vec![BigUint::from(0u8); n], other: (bank2, vault2, bank2_k, atas2) };
            let d = digest(&s);
            w.insert(sid, s);
            (format!("ok | {d}"), false)
        }
        "reserve" => {
            let (Some(s), Some(num), Some(den)) = (w.get_mut(&sid), parse::<u128>(&t, 3), parse::<u128>(&t, 4)) else { return bad() };
            if t.len() != 5 { return bad(); }
            let before = balances(s);
            let snapshot = s.bank;
            let r = { let _q = Quiet::new(); hook::gt_bank_reserve_balances(&mut s.bank, &num, &den) };
            if r.is_err() { s.bank = snapshot; } // "not atomic" on its own; the transaction is
            let after = balances(s);
            if r.is_ok() {
                for (b, a) in before.iter().zip(&after) {
                    let want = BigUint::from(*b) * BigUint::from(num) / BigUint::from(den.max(1));
                    if *b != 0 && (den == 0 || BigUint::from(*a) != want) { out.oracle_fail("reserve_balances is not floor(balance*num/den)", req); }
                    if a > b { out.oracle_fail("reserve_balances increased a balance", req); }
                }
            }
            (format!("{} | {}", if r.is_ok() { "ok" } else { "err" }, digest(s)), r.is_ok() && before != after)
        }
        "confirm" => {
            let (Some(s), Some(g)) = (w.get_mut(&sid), parse::<u64>(&t, 3)) else { return bad() };
            if t.len() != 4 { return bad(); }
            let snapshot = s.bank;
            let r = { let _q = Quiet::new(); hook::gt_bank_confirm_unchecked(&mut s.bank, g) };
            if r.is_err() { s.bank = snapshot; } else { s.orig = Some((balances(s), g)); s.paid = vec![BigUint::from(0u8); s.n];
                let snap2 = s.other.0; let r2 = { let _q = Quiet::new(); hook::gt_bank_confirm_unchecked(&mut s.other.0, g) }; if r2.is_err() { s.other.0 = snap2; } }
            (format!("{} | {}", if r.is_ok() { "ok" } else { "err" }, digest(s)), r.is_ok())
        }
        "claim" => {
            let (Some(s), Some(g)) = (w.get_mut(&sid), parse::<u64>(&t, 3)) else { return bad() };
            if t.len() != 4 { return bad(); }
            let before = balances(s);
            let rem = hook::gt_bank_remaining_confirmed_gt_amount(&s.bank);
            let r = claim(s, g);
            let after = balances(s);
            let rem2 = hook::gt_bank_remaining_confirmed_gt_amount(&s.bank);
            match r {
                Err(()) => {
                    if g <= rem { out.oracle_fail("a claim within the remaining confirmed GT failed", req); }
                    (format!("err | {}", digest(s)), false)
                }
                Ok((nx, amts)) => {
                    // ---- property oracle (exact integers, independent of the model)
                    if g > rem { out.oracle_fail("claimed more GT than remains confirmed", req); }
                    if rem2 as u128 + g as u128 != rem as u128 { out.oracle_fail("remaining confirmed GT not reduced by the claim", req); }
                    for i in 0..s.n {
                        let want = if g == 0 { BigUint::from(0u8) } else { BigUint::from(before[i]) * BigUint::from(g) / BigUint::from(rem.max(1)) };
                        if BigUint::from(amts[i]) != want { out.oracle_fail(&format!("token {i}: paid {} but floor(balance*gt/remaining) = {}", amts[i], want), req); }
                        if amts[i] > before[i] { out.oracle_fail(&format!("token {i}: paid more than the bank holds"), req); }
                        if before[i] - amts[i].min(before[i]) != after[i] { out.oracle_fail(&format!("token {i}: recorded balance not reduced by the payout"), req); }
                        if let Some((b0, r0)) = &s.orig {
                            let floor_share = BigUint::from(b0[i]) * BigUint::from(g) / BigUint::from((*r0).max(1));
                            if g > 0 && BigUint::from(amts[i]) < floor_share { out.oracle_fail(&format!("token {i}: paid {} < floor share of the original balance {}", amts[i], floor_share), req); }
                            s.paid[i] += BigUint::from(amts[i]);
                            if s.paid[i] > BigUint::from(b0[i]) { out.oracle_fail(&format!("token {i}: total paid exceeds the original balance"), req); }
                        }
                    }
                    if g > 0 && rem2 == 0 && after.iter().any(|b| *b != 0) { out.oracle_fail("the last claim did not drain the bank", req); }
                    let a: Vec<String> = amts.iter().map(|x| x.to_string()).collect();
                    (format!("ok {nx} [{}] | {}", a.join(","), digest(s)), g > 0)
                }
            }
        }
        "claimx" => {
            // account binding: exchange + exchange vault of THIS vault, bank (and token vaults) of the OTHER vault
            let (Some(s), Some(g)) = (w.get_mut(&sid), parse::<u64>(&t, 3)) else { return bad() };
            if t.len() != 4 { return bad(); }
            let other0 = s.other.0;
            let own0 = s.bank;
            let r = claim_with(s, g, true);
            if let Ok((_, amts)) = &r {
                out.oracle_fail(&format!("an exchange of one GT exchange vault was completed against the bank of ANOTHER vault (paid {:?} from it, its remaining GT {} -> {})", amts,
                    hook::gt_bank_remaining_confirmed_gt_amount(&other0), hook::gt_bank_remaining_confirmed_gt_amount(&s.other.0)), req);
            }
            if bytemuck::bytes_of(&own0) != bytemuck::bytes_of(&s.bank) { out.oracle_fail("a cross-vault completion changed the own bank", req); }
            (format!("{} | {}", if r.is_ok() { "ok" } else { "err" }, digest(s)), false)
        }
        "setf" => {
            let (Some(s), Some(f)) = (w.get_mut(&sid), parse::<u128>(&t, 4)) else { return bad() };
            if t.len() != 5 { return bad(); }
            let r = { let _q = Quiet::new(); match t[3] {
                "gt" => hook::config_set_gt_factor(&mut s.cfg, f),
                "buyback" => hook::config_set_buyback_factor(&mut s.cfg, f),
                _ => return bad(),
            } };
            let unit = gmsol_store::constants::MARKET_USD_UNIT;
            if s.cfg.gt_factor() > unit || s.cfg.buyback_factor() > unit { out.oracle_fail("a treasury factor exceeds 100%", req); }
            if r.is_ok() && f > unit { out.oracle_fail("setter accepted a factor above 100%", req); }
            match r {
                Ok(prev) => (format!("ok {prev} | {} {}", s.cfg.gt_factor(), s.cfg.buyback_factor()), true),
                Err(_) => (format!("err | {} {}", s.cfg.gt_factor(), s.cfg.buyback_factor()), false),
            }
        }
        _ => bad(),
    }
}

fn gen_history(r: &mut Rng, sid: usize, reqs: &mut Vec<String>) {
    let sid = format!("b{sid}");
    let n = match r.below(10) { 0 => 0, 1 => 16, 2 => 1, _ => r.range(1, 6) } as usize;
    let style = r.below(4);
    let bal = |r: &mut Rng| -> u64 { match style { 0 => r.range(0, 30), 1 => r.num(64) as u64, _ => if r.chance(1, 6) { 0 } else { r.num(40) as u64 } } };
    let bs: Vec<String> = (0..n).map(|_| bal(r).to_string()).collect();
    reqs.push(format!("gtb new {sid} {}", bs.join(" ")).trim_end().to_string());
    for _ in 0..r.below(3) {
        let unit = 100_000_000_000_000_000_000u128;
        let f = match r.below(6) { 0 => unit, 1 => unit + 1, 2 => unit - 1, 3 => 0, 4 => r.num(128), _ => unit / 100 * r.range(0, 100) as u128 };
        reqs.push(format!("gtb setf {sid} {} {f}", if r.chance(1, 2) { "gt" } else { "buyback" }));
    }
    if r.chance(1, 3) {
        let den = match r.below(5) { 0 => 0, 1 => r.num(128), _ => r.range(1, 1000) as u128 };
        let num = match r.below(5) { 0 => den, 1 => den.saturating_add(1), _ => if den == 0 { 0 } else { r.u128() % den } };
        reqs.push(format!("gtb reserve {sid} {num} {den}"));
    }
    if r.chance(1, 12) { reqs.push(format!("gtb claim {sid} {}", r.below(3))); }
    let total: u64 = match r.below(5) { 0 => r.num(64) as u64, 1 => r.range(1, 10), _ => r.range(1, 100_000) };
    reqs.push(format!("gtb confirm {sid} {total}"));
    if r.chance(1, 10) { reqs.push(format!("gtb confirm {sid} {}", r.range(0, 9))); }
    let mut rem = total;
    let mut k = 0;
    while k < 14 {
        k += 1;
        let g = match r.below(8) {
            0 => rem,
            1 => 0,
            2 => rem.saturating_add(r.range(1, 3)),
            3 => 1.min(rem),
            4 => rem / 2,
            _ => if rem == 0 { 0 } else { r.next() % rem + 1 },
        };
        if r.chance(1, 5) { reqs.push(format!("gtb claimx {sid} {}", if r.chance(1, 4) { r.below(3) } else if rem == 0 { 0 } else { r.next() % rem + 1 })); }
        reqs.push(format!("gtb claim {sid} {g}"));
        if g <= rem { rem -= g; }
        if rem == 0 && r.chance(2, 3) { break; }
    }
    if rem > 0 && r.chance(3, 4) { reqs.push(format!("gtb claim {sid} {rem}")); }
}

fn main() {
    let cli = cli();
    let mut out = Out::new();
    std::panic::set_hook(Box::new(|_| {}));
    set_syscall_stubs(Box::new(Stubs));
    let reqs: Vec<String> = if cli.mode == "replay" {
        read_requests(cli.file.as_deref().unwrap())
    } else {
        let mut r = Rng::new(cli.seed);
        let mut reqs = Vec::new();
        let mut sid = 0;
        while (reqs.len() as u64) < cli.n { sid += 1; gen_history(&mut r, sid, &mut reqs); }
        reqs.truncate(cli.n as usize);
        reqs
    };
    let mut w: BTreeMap<String, Sid> = BTreeMap::new();
    for req in reqs {
        let r = std::panic::catch_unwind(std::panic::AssertUnwindSafe(|| exec(&mut w, &req, &mut out)));
        let (resp, nt) = match r { Ok(x) => x, Err(_) => { out.oracle_fail("panicked", &req); ("panic".to_string(), false) } };
        let op = req.split(' ').nth(1).unwrap_or("?").to_string();
        out.stat(&format!("op.{op}"));
        out.stat(&format!("{op}.{}", resp.split(' ').next().unwrap_or("?")));
        if op == "claim" && resp.starts_with("ok") {
            if resp.contains("| R=0 ") { out.stat("claim.drained"); }
        }
        out.case_nt(&req, &resp, nt);
    }
    out.finish();
}
