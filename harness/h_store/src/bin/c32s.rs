//! C32 settlement, END TO END: the real `settle_builder_fee` instruction through the program's native
//! entrypoint (`gmsol_store::entry`): Anchor account validation (ATA / has_one / constraints),
//! `SettleBuilderFee::invoke`, and the SPL `transfer_checked` CPI, which the `sol_invoke_signed`
//! stub EXECUTES with the real `spl_token` processor on the in-memory token accounts (the PDA signer
//! flag is set from the instruction metas, as the runtime does for signer seeds). Event CPIs are
//! recorded. Request:
//!   bfee settlex <accounts 0=none|1=builder|2=other user> <recorded> <escrow> <vault> <times 1|2>
//!   -> ok <transferred…> | <recorded'> <escrow'> <vault'>   |  err NotProvided|InvalidUser|Transfer
//!   bfee settlef <recorded> <escrowFinal> <vaultFinal> <escrowOther> <vaultOther> <which 0|1>
//!   -> ok <transferred> | <recorded'> <escrowFinal'> <vaultFinal'> <escrowOther'> <vaultOther'> | err Mismatched|Transfer
//!      the order also owns a funded escrow of ANOTHER mint (e.g. its initial collateral); which = 1: a permissionless
//!      caller passes that other mint, the order's ATA for it and the builder's ATA for it
//!   bfee hist <escrow0> <vault0> <n> { i <incr> <size> <factor> <pmin> | d <size> <factor> <pmin> <output> | s }*
//!   -> ok <recorded> <escrow> <vault> | <i:after:fee|i:err|d:recorded|d:err|s:amount|s:err>…
//! `hist`: ONE order account and ONE escrow/claim-vault pair live through a whole history; increases and
//! decreases run the real helpers + `Order::record_builder_fee` on the order account's bytes (the routed
//! amounts are credited to the real SPL escrow account), settlements run the real instruction.
use anchor_lang::prelude::*;
use anchor_lang::solana_program::instruction::Instruction;
use anchor_lang::solana_program::program_pack::Pack;
use anchor_lang::solana_program::program_stubs::{set_syscall_stubs, SyscallStubs};
use anchor_lang::{Discriminator, InstructionData};
use anchor_spl::associated_token::get_associated_token_address;
use anchor_spl::token::spl_token;
use bytemuck::Zeroable;
use gmsol_store::states::{Order, Store, UserHeader};
use gmsol_store::verif::{c30, c32};
use gmsol_store::CoreError;
use hcommon::*;
use std::sync::Mutex;

static TRANSFERS: Mutex<Vec<u64>> = Mutex::new(Vec::new());
static EVENTS: Mutex<u64> = Mutex::new(0);
static SPL_FAILED: Mutex<bool> = Mutex::new(false);

struct Stubs;
impl SyscallStubs for Stubs {
    fn sol_get_clock_sysvar(&self, var_addr: *mut u8) -> u64 {
        let clock = anchor_lang::solana_program::clock::Clock { slot: 1000, epoch_start_timestamp: 0, epoch: 0, leader_schedule_epoch: 0, unix_timestamp: 1_700_000_000 };
        unsafe { std::ptr::write_unaligned(var_addr as *mut anchor_lang::solana_program::clock::Clock, clock) };
        0
    }
    fn sol_get_last_restart_slot(&self, var_addr: *mut u8) -> u64 { unsafe { std::ptr::write_unaligned(var_addr as *mut u64, 0) }; 0 }
    fn sol_log(&self, _m: &str) {}
    fn sol_invoke_signed(&self, ix: &Instruction, infos: &[AccountInfo], _seeds: &[&[&[u8]]]) -> anchor_lang::solana_program::entrypoint::ProgramResult {
        if ix.program_id == spl_token::ID {
            // run the real SPL token processor on the accounts named by the instruction metas
            let mut accs: Vec<AccountInfo> = Vec::new();
            for m in &ix.accounts {
                let mut a = infos.iter().find(|i| *i.key == m.pubkey).expect("CPI account not passed").clone();
                a.is_signer = m.is_signer; // PDA signer seeds ⇒ signer for the callee
                a.is_writable = m.is_writable;
                accs.push(a);
            }
            let r = spl_token::processor::Processor::process(&spl_token::ID, &accs, &ix.data);
            match &r {
                Ok(()) => { if ix.data.first() == Some(&12) { TRANSFERS.lock().unwrap().push(u64::from_le_bytes(ix.data[1..9].try_into().unwrap())); } }
                Err(_) => { *SPL_FAILED.lock().unwrap() = true; }
            }
            r
        } else {
            *EVENTS.lock().unwrap() += 1; // anchor `emit_cpi`
            Ok(())
        }
    }
}

extern "C" { fn dup(fd: i32) -> i32; fn dup2(a: i32, b: i32) -> i32; fn close(fd: i32) -> i32; }
struct Quiet { saved: i32 }
impl Quiet {
    fn new() -> Self {
        use std::io::Write; use std::os::fd::AsRawFd;
        std::io::stdout().flush().unwrap();
        let null = std::fs::OpenOptions::new().write(true).open("/dev/null").unwrap();
        let saved = unsafe { dup(1) };
        unsafe { dup2(null.as_raw_fd(), 1) };
        Quiet { saved }
    }
}
impl Drop for Quiet { fn drop(&mut self) { use std::io::Write; let _ = std::io::stdout().flush(); unsafe { dup2(self.saved, 1); close(self.saved); } } }

#[repr(C)]
struct KeyBox { pad: u64, key: Pubkey }
struct Acc { key: KeyBox, lamports: u64, buf: Vec<u128>, len: usize, owner: Pubkey, signer: bool, writable: bool, exec: bool }
impl Acc {
    fn new(key: Pubkey, owner: Pubkey, data: &[u8]) -> Self {
        let mut buf = vec![0u128; (data.len() + 8) / 16 + 2];
        bytemuck::cast_slice_mut::<u128, u8>(&mut buf)[8..8 + data.len()].copy_from_slice(data);
        Acc { key: KeyBox { pad: 0, key }, lamports: 1_000_000, buf, len: data.len(), owner, signer: false, writable: false, exec: false }
    }
    fn zc<T: bytemuck::Pod + Discriminator>(key: Pubkey, owner: Pubkey, t: &T) -> Self {
        let mut d = T::DISCRIMINATOR.to_vec();
        d.extend_from_slice(bytemuck::bytes_of(t));
        Acc::new(key, owner, &d)
    }
    fn writable(mut self) -> Self { self.writable = true; self }
    fn exec(mut self) -> Self { self.exec = true; self }
    fn data(&self) -> &[u8] { &bytemuck::cast_slice::<u128, u8>(&self.buf)[8..8 + self.len] }
}

fn call_entry(accs: &mut [Acc], data: &[u8]) -> std::result::Result<(), ProgramError> {
    let infos: Vec<AccountInfo> = accs.iter_mut().map(|a| {
        let d = &mut bytemuck::cast_slice_mut::<u128, u8>(&mut a.buf)[8..8 + a.len];
        AccountInfo::new(&a.key.key, a.signer, a.writable, &mut a.lamports, d, &a.owner, a.exec, 0)
    }).collect();
    fn go<'a>(infos: &[AccountInfo<'a>], data: &[u8]) -> anchor_lang::solana_program::entrypoint::ProgramResult {
        let infos: &'a [AccountInfo<'a>] = unsafe { std::mem::transmute(infos) };
        let _q = Quiet::new();
        gmsol_store::entry(&gmsol_store::ID, infos, data)
    }
    go(&infos, data)
}

fn token_account(mint: &Pubkey, authority: &Pubkey, amount: u64) -> Vec<u8> {
    let a = spl_token::state::Account { mint: *mint, owner: *authority, amount, state: spl_token::state::AccountState::Initialized, ..Default::default() };
    let mut v = vec![0u8; spl_token::state::Account::LEN];
    a.pack_into_slice(&mut v);
    v
}
fn token_amount(d: &[u8]) -> u64 { spl_token::state::Account::unpack(d).unwrap().amount }
fn mint_account() -> Vec<u8> {
    let m = spl_token::state::Mint { decimals: 6, is_initialized: true, supply: u64::MAX, ..Default::default() };
    let mut v = vec![0u8; spl_token::state::Mint::LEN];
    m.pack_into_slice(&mut v);
    v
}

fn boxed<T: bytemuck::Pod>() -> Box<T> {
    let layout = std::alloc::Layout::new::<T>();
    unsafe { Box::from_raw(std::alloc::alloc_zeroed(layout) as *mut T) }
}

fn k(n: u8) -> Pubkey { Pubkey::new_from_array([n; 32]) }

fn run(t: &[&str]) -> Option<String> {
    if t.len() != 7 || t[0] != "bfee" || t[1] != "settlex" { return None; }
    let accounts: u8 = t[2].parse().ok()?; if accounts > 2 { return None; }
    let (recorded, escrow_amt, vault_amt): (u64, u64, u64) = (t[3].parse().ok()?, t[4].parse().ok()?, t[5].parse().ok()?);
    let times: u8 = t[6].parse().ok()?; if times == 0 || times > 2 { return None; }
    TRANSFERS.lock().unwrap().clear(); *EVENTS.lock().unwrap() = 0; *SPL_FAILED.lock().unwrap() = false;
    let sto = gmsol_store::ID;
    let sys = anchor_lang::system_program::ID;
    let (store_k, order_k, mint_k, builder_k, other_k) = (k(21), k(22), k(23), k(24), k(25));
    let escrow_k = get_associated_token_address(&order_k, &mint_k);
    let passed_user_k = if accounts == 2 { other_k } else { builder_k };
    let vault_k = get_associated_token_address(&passed_user_k, &mint_k);
    let ev_k = Pubkey::find_program_address(&[b"__event_authority"], &sto).0;

    let store: Box<Store> = boxed();
    let mut order: Box<Order> = boxed();
    c32::order_prepare_for_settlement(&mut order, &store_k, &builder_k, &mint_k, &escrow_k, recorded);
    let mut user: Box<UserHeader> = boxed();
    c30::user_init(&mut user, &store_k, &k(26), 255).ok()?;
    let _ = UserHeader::zeroed;

    let a_store = Acc::zc(store_k, sto, &*store);
    let a_order = Acc::zc(order_k, sto, &*order).writable();
    let a_mint = Acc::new(mint_k, spl_token::ID, &mint_account());
    let a_escrow = Acc::new(escrow_k, spl_token::ID, &token_account(&mint_k, &order_k, escrow_amt)).writable();
    // optional accounts: `None` is encoded by passing the program id
    let (a_user, a_vault) = if accounts == 0 {
        (Acc::new(sto, sys, &[]).exec(), Acc::new(sto, sys, &[]).exec())
    } else {
        (Acc::zc(passed_user_k, sto, &*user), Acc::new(vault_k, spl_token::ID, &token_account(&mint_k, &passed_user_k, vault_amt)).writable())
    };
    let a_tok = Acc::new(spl_token::ID, sys, &[]).exec();
    let a_ev = Acc::new(ev_k, sys, &[]);
    let a_prog = Acc::new(sto, sys, &[]).exec();
    let mut accs = vec![a_store, a_order, a_mint, a_escrow, a_user, a_vault, a_tok, a_ev, a_prog];
    let data = gmsol_store::instruction::SettleBuilderFee {}.data();
    let core = |c: CoreError| -> u32 { c.into() };
    for _ in 0..times {
        if let Err(e) = call_entry(&mut accs, &data) {
            return Some(match e {
                ProgramError::Custom(c) if c == core(CoreError::TokenAccountNotProvided) => "err NotProvided".into(),
                ProgramError::Custom(c) if c == core(CoreError::InvalidUserAccount) => "err InvalidUser".into(),
                _ if *SPL_FAILED.lock().unwrap() => "err Transfer".into(),
                other => format!("err Other({other:?})").replace(' ', ""),
            });
        }
    }
    let order_after: &Order = bytemuck::from_bytes(&accs[1].data()[8..]);
    let esc = token_amount(accs[3].data());
    let vlt = if accounts == 0 { vault_amt } else { token_amount(accs[5].data()) };
    // one `transfer_checked` and one `BuilderFeeSettled` event per non-trivial settlement; none on the no-op path
    let tr = TRANSFERS.lock().unwrap().clone();
    if *EVENTS.lock().unwrap() != tr.len() as u64 { return Some("err Other(events≠transfers)".into()); }
    // report one amount per call (0 for a call that performed no CPI)
    let mut amts: Vec<u64> = tr.clone(); while amts.len() < times as usize { amts.push(0); }
    if tr.len() > times as usize { return Some("err Other(more than one transfer per call)".into()); }
    Some(format!("ok {} | {} {esc} {vlt}", amts.iter().map(|x| x.to_string()).collect::<Vec<_>>().join(" "), order_after.builder_fee_amount()))
}

fn run_settlef(t: &[&str]) -> Option<String> {
    if t.len() != 8 { return None; }
    let v: Vec<u64> = t[2..8].iter().map(|x| x.parse::<u64>().ok()).collect::<Option<Vec<_>>>()?;
    let (recorded, esc_a, vlt_a, esc_b, vlt_b, which) = (v[0], v[1], v[2], v[3], v[4], v[5]);
    if which > 1 { return None; }
    TRANSFERS.lock().unwrap().clear(); *EVENTS.lock().unwrap() = 0; *SPL_FAILED.lock().unwrap() = false;
    let sto = gmsol_store::ID;
    let sys = anchor_lang::system_program::ID;
    let (store_k, order_k, mint_a, mint_b, builder_k) = (k(21), k(22), k(23), k(27), k(24));
    let (escrow_a, escrow_b) = (get_associated_token_address(&order_k, &mint_a), get_associated_token_address(&order_k, &mint_b));
    let (vault_a, vault_b) = (get_associated_token_address(&builder_k, &mint_a), get_associated_token_address(&builder_k, &mint_b));
    let ev_k = Pubkey::find_program_address(&[b"__event_authority"], &sto).0;
    let store: Box<Store> = boxed();
    let mut order: Box<Order> = boxed();
    // the order records mint A / escrow A as its final output token account
    c32::order_prepare_for_settlement(&mut order, &store_k, &builder_k, &mint_a, &escrow_a, recorded);
    let mut user: Box<UserHeader> = boxed();
    c30::user_init(&mut user, &store_k, &k(26), 255).ok()?;
    // both token worlds exist and are funded; the caller chooses which one to pass
    let mut all = vec![
        Acc::new(escrow_a, spl_token::ID, &token_account(&mint_a, &order_k, esc_a)).writable(),
        Acc::new(vault_a, spl_token::ID, &token_account(&mint_a, &builder_k, vlt_a)).writable(),
        Acc::new(escrow_b, spl_token::ID, &token_account(&mint_b, &order_k, esc_b)).writable(),
        Acc::new(vault_b, spl_token::ID, &token_account(&mint_b, &builder_k, vlt_b)).writable(),
    ];
    let (mint_k, ei, vi) = if which == 0 { (mint_a, 0usize, 1usize) } else { (mint_b, 2, 3) };
    let passed_vault = std::mem::replace(&mut all[vi], Acc::new(k(99), sys, &[]));
    let passed_escrow = std::mem::replace(&mut all[ei], Acc::new(k(98), sys, &[]));
    let mut accs = vec![Acc::zc(store_k, sto, &*store), Acc::zc(order_k, sto, &*order).writable(), Acc::new(mint_k, spl_token::ID, &mint_account()),
        passed_escrow, Acc::zc(builder_k, sto, &*user), passed_vault, Acc::new(spl_token::ID, sys, &[]).exec(), Acc::new(ev_k, sys, &[]), Acc::new(sto, sys, &[]).exec()];
    let data = gmsol_store::instruction::SettleBuilderFee {}.data();
    let core = |c: CoreError| -> u32 { c.into() };
    let r = call_entry(&mut accs, &data);
    // balances after, whichever pair was passed
    let bal = |passed: bool, acc_passed: &Acc, acc_kept: &Acc| token_amount(if passed { acc_passed.data() } else { acc_kept.data() });
    let (ea, va) = (bal(which == 0, &accs[3], &all[0]), bal(which == 0, &accs[5], &all[1]));
    let (eb, vb) = (bal(which == 1, &accs[3], &all[2]), bal(which == 1, &accs[5], &all[3]));
    let rec_after = { let o: &Order = bytemuck::from_bytes(&accs[1].data()[8..]); o.builder_fee_amount() };
    let tr = TRANSFERS.lock().unwrap().clone();
    let state = format!("{rec_after} {ea} {va} {eb} {vb}");
    Some(match r {
        Ok(()) => format!("ok {} | {state}", tr.first().copied().unwrap_or(0)),
        Err(e) => {
            let tag = match e {
                ProgramError::Custom(c) if c == core(CoreError::TokenAccountMismatched) => "err Mismatched".to_string(),
                _ if *SPL_FAILED.lock().unwrap() => "err Transfer".to_string(),
                other => format!("err Other({other:?})").replace(' ', ""),
            };
            // a rejected call must change nothing
            if (rec_after, ea, va, eb, vb) != (recorded, esc_a, vlt_a, esc_b, vlt_b) { format!("err Other(rejected-but-changed {state})") } else { tag }
        }
    })
}

fn set_token_amount(a: &mut Acc, amount: u64) {
    let d = &mut bytemuck::cast_slice_mut::<u128, u8>(&mut a.buf)[8..8 + a.len];
    let mut t = spl_token::state::Account::unpack(d).unwrap();
    t.amount = amount;
    t.pack_into_slice(d);
}
fn order_mut(a: &mut Acc) -> &mut Order {
    let d = &mut bytemuck::cast_slice_mut::<u128, u8>(&mut a.buf)[8..8 + a.len];
    bytemuck::from_bytes_mut(&mut d[8..])
}

enum HOp { Inc(u64, u128, u128, u128), Dec(u128, u128, u128, u64), Settle }

fn parse_hist(t: &[&str]) -> Option<(u64, u64, Vec<HOp>)> {
    if t.len() < 5 || t[0] != "bfee" || t[1] != "hist" { return None; }
    let (escrow, vault): (u64, u64) = (t[2].parse().ok()?, t[3].parse().ok()?);
    let n: usize = t[4].parse().ok()?;
    let mut ops = Vec::new();
    let mut i = 5;
    while i < t.len() {
        match t[i] {
            "i" => { ops.push(HOp::Inc(t.get(i + 1)?.parse().ok()?, t.get(i + 2)?.parse().ok()?, t.get(i + 3)?.parse().ok()?, t.get(i + 4)?.parse().ok()?)); i += 5; }
            "d" => { ops.push(HOp::Dec(t.get(i + 1)?.parse().ok()?, t.get(i + 2)?.parse().ok()?, t.get(i + 3)?.parse().ok()?, t.get(i + 4)?.parse().ok()?)); i += 5; }
            "s" => { ops.push(HOp::Settle); i += 1; }
            _ => return None,
        }
    }
    if ops.len() != n { return None; }
    Some((escrow, vault, ops))
}

/// returns the response and the list of property violations seen on the real state along the way
fn run_hist(t: &[&str]) -> Option<(String, Vec<String>)> {
    let (escrow0, vault0, ops) = parse_hist(t)?;
    TRANSFERS.lock().unwrap().clear(); *EVENTS.lock().unwrap() = 0; *SPL_FAILED.lock().unwrap() = false;
    let sto = gmsol_store::ID;
    let sys = anchor_lang::system_program::ID;
    let (store_k, order_k, mint_k, builder_k) = (k(21), k(22), k(23), k(24));
    let escrow_k = get_associated_token_address(&order_k, &mint_k);
    let vault_k = get_associated_token_address(&builder_k, &mint_k);
    let ev_k = Pubkey::find_program_address(&[b"__event_authority"], &sto).0;
    let store: Box<Store> = boxed();
    let mut order: Box<Order> = boxed();
    c32::order_prepare_for_settlement(&mut order, &store_k, &builder_k, &mint_k, &escrow_k, 0);
    let mut user: Box<UserHeader> = boxed();
    c30::user_init(&mut user, &store_k, &k(26), 255).ok()?;
    let mut accs = vec![
        Acc::zc(store_k, sto, &*store), Acc::zc(order_k, sto, &*order).writable(), Acc::new(mint_k, spl_token::ID, &mint_account()),
        Acc::new(escrow_k, spl_token::ID, &token_account(&mint_k, &order_k, escrow0)).writable(),
        Acc::zc(builder_k, sto, &*user), Acc::new(vault_k, spl_token::ID, &token_account(&mint_k, &builder_k, vault0)).writable(),
        Acc::new(spl_token::ID, sys, &[]).exec(), Acc::new(ev_k, sys, &[]), Acc::new(sto, sys, &[]).exec()];
    let data = gmsol_store::instruction::SettleBuilderFee {}.data();
    let mut labels = Vec::new();
    let mut viol = Vec::new();
    let mut inflow: u128 = 0; // tokens credited to the escrow by charges / decreases
    for op in &ops {
        let rec_before = order_mut(&mut accs[1]).builder_fee_amount();
        let esc_before = token_amount(accs[3].data());
        match op {
            HOp::Inc(incr, size, factor, pmin) => {
                let p = c32::Price { min: *pmin, max: *pmin };
                // builder-fee block of execute_increase_position: charge → transfer_out(fee) → record(fee)
                let r = c32::charge_builder_fee_on_collateral_increment(*incr, *size, *factor, &p)
                    .and_then(|(after, fee)| { c32::record_builder_fee(order_mut(&mut accs[1]), fee)?; Ok((after, fee)) });
                match r {
                    Ok((after, fee)) => {
                        let e = esc_before.checked_add(fee)?; // outside the protocol if the escrow leaves u64
                        set_token_amount(&mut accs[3], e);
                        inflow += fee as u128;
                        if after as u128 + fee as u128 != *incr as u128 { viol.push("increase: after + fee ≠ increment".into()); }
                        labels.push(format!("i:{after}:{fee}"));
                    }
                    Err(_) => labels.push("i:err".into()),
                }
            }
            HOp::Dec(size, factor, pmin, output) => {
                let p = c32::Price { min: *pmin, max: *pmin };
                // builder-fee block of execute_decrease_position: compute → clamp(payable, output) → u64 → record;
                // the final output amount lands in the order's escrow
                let r = c32::compute_builder_fee_amount(*size, *factor, &p).and_then(|payable| {
                    let paid = c32::clamp_builder_fee_amount(payable, (*output).into());
                    let rec = u64::try_from(paid).map_err(|_| anchor_lang::error!(CoreError::TokenAmountOverflow))?;
                    c32::record_builder_fee(order_mut(&mut accs[1]), rec)?;
                    Ok(rec)
                });
                match r {
                    Ok(rec) => {
                        let e = esc_before.checked_add(*output)?;
                        set_token_amount(&mut accs[3], e);
                        inflow += *output as u128;
                        if rec > *output { viol.push(format!("decrease: recorded {rec} exceeds the output {output}")); }
                        labels.push(format!("d:{}", order_mut(&mut accs[1]).builder_fee_amount()));
                    }
                    Err(_) => labels.push("d:err".into()),
                }
            }
            HOp::Settle => {
                let before = TRANSFERS.lock().unwrap().len();
                match call_entry(&mut accs, &data) {
                    Ok(()) => {
                        let tr = TRANSFERS.lock().unwrap().clone();
                        let amt = if tr.len() > before { tr[before] } else { 0 };
                        if amt != rec_before { viol.push(format!("settlement paid {amt} although {rec_before} was recorded and backed")); }
                        if order_mut(&mut accs[1]).builder_fee_amount() != 0 { viol.push("record not zeroed by settlement".into()); }
                        labels.push(format!("s:{amt}"));
                    }
                    Err(_) => labels.push("s:err".into()),
                }
            }
        }
        // charging invariant on the REAL state after every step, and conservation
        let (rec, esc, vlt) = (order_mut(&mut accs[1]).builder_fee_amount(), token_amount(accs[3].data()), token_amount(accs[5].data()));
        if rec > esc { viol.push(format!("recorded {rec} exceeds the escrow {esc}")); }
        if esc as u128 + vlt as u128 != escrow0 as u128 + vault0 as u128 + inflow { viol.push("tokens not conserved between escrow and claim vault".into()); }
    }
    let (rec, esc, vlt) = (order_mut(&mut accs[1]).builder_fee_amount(), token_amount(accs[3].data()), token_amount(accs[5].data()));
    Some((format!("ok {rec} {esc} {vlt} | {}", labels.join(" ")), viol))
}

thread_local! { static HIST_VIOL: std::cell::RefCell<Vec<String>> = const { std::cell::RefCell::new(Vec::new()) }; }

fn exec(req: &str) -> String {
    let t: Vec<&str> = req.split(' ').collect();
    if t.get(1) == Some(&"settlef") {
        return match std::panic::catch_unwind(|| run_settlef(&t)) { Ok(Some(s)) => s, Ok(None) => "bad-op".into(), Err(_) => "panic".into() };
    }
    if t.get(1) == Some(&"hist") {
        return match std::panic::catch_unwind(|| run_hist(&t)) {
            Ok(Some((s, v))) => { HIST_VIOL.with(|h| *h.borrow_mut() = v); s }
            Ok(None) => "bad-op".into(),
            Err(_) => "panic".into(),
        };
    }
    match std::panic::catch_unwind(|| run(&t)) { Ok(Some(s)) => s, Ok(None) => "bad-op".into(), Err(_) => "panic".into() }
}

/// Property oracle on the implementation (no model): Ok(nt) / Err(violation)
fn oracle(req: &str, resp: &str) -> std::result::Result<bool, String> {
    let t: Vec<&str> = req.split(' ').collect();
    if t[1] == "settlef" {
        // a successful settlement moves tokens of the order's RECORDED final output token only, out of the recorded
        // final-output escrow only; pointing it at another escrow of the order must be rejected and change nothing
        let v: Vec<u128> = t[2..8].iter().map(|x| x.parse().unwrap()).collect();
        let (recorded, esc_a, vlt_a, esc_b, vlt_b, which) = (v[0], v[1], v[2], v[3], v[4], v[5]);
        if resp == "panic" || resp.starts_with("err Other") { return Err(format!("unexpected {resp}")); }
        if let Some(rest) = resp.strip_prefix("ok ") {
            let (a, st) = rest.split_once(" | ").ok_or("malformed")?;
            let amt: u128 = a.parse().unwrap();
            let st: Vec<u128> = st.split(' ').map(|x| x.parse().unwrap()).collect();
            if which == 1 { return Err(format!("settlement accepted the order's escrow of ANOTHER mint: moved {amt} units of the wrong token (other escrow {} -> {}), record {} -> {}, real fee still in the final-output escrow", esc_b, st[3], recorded, st[0])); }
            if st[3] != esc_b || st[4] != vlt_b { return Err("settlement touched a token account of another mint".into()); }
            if amt > recorded || amt > esc_a || st[0] != 0 || st[1] + amt != esc_a || st[2] != vlt_a + amt { return Err("settlement on the recorded escrow violates its bounds".into()); }
            return Ok(amt != 0);
        }
        return match resp {
            "err Mismatched" if which == 1 => Ok(true),
            "err Transfer" if which == 0 && recorded != 0 && vlt_a + recorded.min(esc_a) > u64::MAX as u128 => Ok(false),
            _ => Err(format!("settlement failed without cause: {resp}")),
        };
    }
    if t[1] == "hist" {
        // violations were collected on the real state after every step of the history
        let v = HIST_VIOL.with(|h| std::mem::take(&mut *h.borrow_mut()));
        if resp == "panic" { return Err("panicked".into()); }
        if let Some(first) = v.into_iter().next() { return Err(first); }
        return Ok(resp.split(" | ").nth(1).map(|l| l.split(' ').any(|x| !x.is_empty() && !x.ends_with(":err") && x != "s:0")).unwrap_or(false));
    }
    let accounts: u8 = t[2].parse().unwrap();
    let (recorded, escrow, vault): (u128, u128, u128) = (t[3].parse().unwrap(), t[4].parse().unwrap(), t[5].parse().unwrap());
    let times: usize = t[6].parse().unwrap();
    if resp == "panic" || resp.starts_with("err Other") { return Err(format!("unexpected {resp}")); }
    if let Some(rest) = resp.strip_prefix("ok ") {
        let (a, s) = rest.split_once(" | ").ok_or("malformed")?;
        let amts: Vec<u128> = a.split(' ').map(|x| x.parse().unwrap()).collect();
        let st: Vec<u128> = s.split(' ').map(|x| x.parse().unwrap()).collect();
        if amts[0] > recorded { return Err(format!("transferred {} more than recorded {recorded}", amts[0])); }
        if amts[0] > escrow { return Err(format!("transferred {} more than the escrow holds {escrow}", amts[0])); }
        if st[0] != 0 { return Err(format!("record not zeroed after settlement: {}", st[0])); }
        if times == 2 && amts[1] != 0 { return Err(format!("repeated settlement moved {} tokens", amts[1])); }
        let moved: u128 = amts.iter().sum();
        if st[1] + moved != escrow || (accounts != 0 && st[2] != vault + moved) { return Err("tokens not conserved between escrow and claim vault".into()); }
        if recorded != 0 && accounts != 1 { return Err("settled a non-zero fee without the order's builder accounts".into()); }
        if recorded <= escrow && amts[0] != recorded { return Err("builder not paid in full although the escrow covers the record".into()); }
        Ok(amts[0] != 0)
    } else {
        // failures must be justified
        match resp {
            "err NotProvided" if recorded != 0 && accounts == 0 => Ok(false),
            "err InvalidUser" if recorded != 0 && accounts == 2 => Ok(false),
            "err Transfer" if recorded != 0 && vault + recorded.min(escrow) > u64::MAX as u128 => Ok(false),
            _ => Err(format!("settlement failed without cause: {resp}")),
        }
    }
}

fn gen_hist(r: &mut Rng) -> String {
    const U: u128 = 100_000_000_000_000_000_000;
    let n = r.range(1, 8);
    let escrow0 = if r.chance(1, 2) { 0 } else { r.range(0, 1_000_000) };
    let vault0 = match r.below(6) { 0 => u64::MAX - r.below(2_000_000), _ => r.range(0, 1_000_000) };
    let mut s = format!("bfee hist {escrow0} {vault0} {n}");
    for _ in 0..n {
        let size: u128 = r.range(1, 5_000_000) as u128 * U / r.range(1, 100) as u128;
        let factor: u128 = match r.below(6) { 0 => 0, 1 => U, _ => U / 100_000 * r.range(1, 2000) as u128 };
        let pmin: u128 = match r.below(12) { 0 => 0, _ => 10u128.pow(r.range(12, 18) as u32) * r.range(1, 99_999) as u128 / 1000 };
        let fee = if factor == 0 || pmin == 0 { 0 } else { (size / U * factor / pmin).min(1 << 40) as u64 };
        let near = |r: &mut Rng, x: u64| -> u64 { match r.below(5) { 0 => x, 1 => x + 1, 2 => x.saturating_sub(1), 3 => x / 2, _ => x + r.range(0, 1_000_000) } };
        match r.below(7) {
            0 | 1 => s += &format!(" i {} {size} {factor} {pmin}", near(r, fee)),
            2 | 3 => s += &format!(" d {size} {factor} {pmin} {}", near(r, fee)),
            _ => s += " s",
        }
    }
    s
}

fn gen_req(r: &mut Rng) -> String {
    if r.chance(1, 3) { return gen_hist(r); }
    if r.chance(1, 4) {
        let recorded: u64 = match r.below(5) { 0 => 0, 1 => r.num(64) as u64, _ => r.range(1, 1_000_000) };
        let esc_a: u64 = match r.below(5) { 0 => 0, 1 => recorded.saturating_sub(r.range(1, 10)), _ => recorded.saturating_add(r.range(0, 1_000_000)) };
        let esc_b: u64 = match r.below(5) { 0 => 0, 1 => recorded / 2, _ => recorded.saturating_add(r.range(0, 1_000_000)) };
        let vlt = |r: &mut Rng| if r.chance(1, 8) { u64::MAX - r.below(1_000_000) } else { r.range(0, 1_000_000) };
        return format!("bfee settlef {recorded} {esc_a} {} {esc_b} {} {}", vlt(r), vlt(r), r.below(2));
    }
    let recorded: u64 = match r.below(6) { 0 => 0, 1 => r.num(64) as u64, 2 => u64::MAX, _ => r.range(1, 1_000_000) };
    let escrow: u64 = match r.below(8) { 0 => 0, 1 => recorded.saturating_sub(r.range(1, 10)), 2 => recorded, 3 => r.num(64) as u64, _ => recorded.saturating_add(r.range(0, 1_000_000)) };
    let vault: u64 = match r.below(6) { 0 => u64::MAX - r.below(1_000_000), 1 => r.num(64) as u64, _ => r.range(0, 1_000_000) };
    let accounts = match r.below(8) { 0 => 0, 1 => 2, _ => 1 };
    format!("bfee settlex {accounts} {recorded} {escrow} {vault} {}", r.range(1, 2))
}

fn main() {
    set_syscall_stubs(Box::new(Stubs));
    let cli = cli();
    let mut out = Out::new();
    if std::env::var("H_DEBUG").is_err() { std::panic::set_hook(Box::new(|_| {})); }
    let reqs: Vec<String> = if cli.mode == "replay" { read_requests(cli.file.as_deref().unwrap()) } else {
        let mut r = Rng::new(cli.seed);
        r = Rng(r.next()); // decorrelate: hcommon streams of consecutive seeds are one draw apart
        (0..cli.n).map(|_| gen_req(&mut r)).collect()
    };
    for req in reqs {
        let resp = exec(&req);
        out.stat(&format!("resp.{}", resp.split(' ').take(if resp.starts_with("err") { 2 } else { 1 }).collect::<Vec<_>>().join("_")));
        if resp == "bad-op" { out.case(&req, &resp); continue; }
        let nt = match oracle(&req, &resp) {
            Ok(nt) => { out.stat("oracle.checked"); nt }
            Err(what) => { out.oracle_fail(&what, &req); false }
        };
        out.case_nt(&req, &resp, nt);
    }
    out.finish();
}
