//! C44 correspondence + oracle: the real swap router (`SwapMarkets::revertible_swap`) over
//! in-memory market accounts, with event capture for the per-hop swap reports.
use anchor_lang::prelude::*;
use anchor_lang::AnchorDeserialize;
use gmsol_store::events::SwapExecuted;
use gmsol_store::states::common::swap::SwapActionParams;
use gmsol_store::states::{Market, Oracle};
use gmsol_store::verif::c44 as hook;
use gmsol_utils::price::{Decimal, Price};
use h_store::*;
use hcommon::*;

#[derive(Clone, Debug)]
struct M { tok: u64, long: u64, short: u64, bal_l: u64, bal_s: u64, min_l: u64, min_s: u64, col_l: u64, col_s: u64 }

fn parse_m(s: &str) -> Option<M> {
    let v: Vec<u64> = s.split(':').map(|x| x.parse().ok()).collect::<Option<_>>()?;
    if v.len() != 7 && v.len() != 9 { return None; }
    // optional fields 8, 9: total position collateral held in the long / short token
    let (col_l, col_s) = if v.len() == 9 { (v[7], v[8]) } else { (0, 0) };
    Some(M { tok: v[0], long: v[1], short: v[2], bal_l: v[3], bal_s: v[4], min_l: v[5], min_s: v[6], col_l, col_s })
}
fn parse_list(s: &str) -> Option<Vec<u64>> { if s == "-" { Some(vec![]) } else { s.split(',').map(|x| x.parse().ok()).collect() } }
fn tokpk(t: u64) -> Pubkey { pk(1000 + t) }

struct Built { loaders: &'static [AccountLoader<'static, Market>], current: &'static AccountLoader<'static, Market>, oracle: &'static AccountInfo<'static>, ev: &'static AccountInfo<'static>, store: Pubkey }

fn build(cur: &M, markets: &[M]) -> Option<Built> {
    let store = pk(7);
    let ev: &'static AccountInfo<'static> = Box::leak(Box::new(leak_account(pk(8), gmsol_store::ID, 0, false, false)));
    let mk = |m: &M| -> Option<AccountLoader<'static, Market>> {
        let info = zero_copy_account::<Market>(pk(5000 + m.tok), gmsol_store::ID, |mk| {
            mk.init(255, store, "m", tokpk(m.tok), tokpk(m.long), tokpk(m.long), tokpk(m.short), true).unwrap();
        });
        let info: &'static AccountInfo<'static> = Box::leak(Box::new(info));
        let loader = AccountLoader::<Market>::try_from(info).ok()?;
        // pure market: everything lives in the long slot
        let pure = m.long == m.short;
        let liq = if pure { ((m.min_l + m.min_s) as u128, 0u128) } else { (m.min_l as u128, m.min_s as u128) };
        let bal = if pure { (m.bal_l, 0) } else { (m.bal_l, m.bal_s) };
        hook::seed_market(&loader, ev, liq, (0, 0), bal).ok()?;
        if m.col_l != 0 || m.col_s != 0 { hook::seed_fee_and_collateral(&loader, ev, (0, 0), (m.col_l as u128, m.col_s as u128), (0, 0)).ok()?; }
        Some(loader)
    };
    let loaders: Vec<_> = markets.iter().map(|m| mk(m)).collect::<Option<_>>()?;
    let loaders: &'static [AccountLoader<'static, Market>] = Box::leak(loaders.into_boxed_slice());
    let current: &'static AccountLoader<'static, Market> = Box::leak(Box::new(mk(cur)?));
    let oracle_info = zero_copy_account::<Oracle>(pk(9), gmsol_store::ID, |o: &mut Oracle| {
        let mut toks: Vec<u64> = markets.iter().chain(std::iter::once(cur)).flat_map(|m| [m.long, m.short]).collect();
        toks.sort(); toks.dedup();
        for t in toks {
            // 6-decimals tokens priced around 1–3 USD: unit price = value * 10^8
            let v = 1_000_000u32 + (t as u32 % 3) * 700_000;
            let p = Price { min: Decimal { value: v, decimal_multiplier: 8 }, max: Decimal { value: v + 1000, decimal_multiplier: 8 } };
            hook::oracle_set_price(o, &tokpk(t), p).unwrap();
        }
    });
    let oracle: &'static AccountInfo<'static> = Box::leak(Box::new(oracle_info));
    Some(Built { loaders, current, oracle, ev, store })
}

fn balances(l: &AccountLoader<'static, Market>) -> (u64, u64) {
    let m = l.load().unwrap();
    (m.state().long_token_balance_raw(), m.state().short_token_balance_raw())
}

/// returns (canonical request incl. observed hop outputs, response, observed hops)
fn exec(req: &str) -> Option<(String, String, Vec<(u64, bool, u128, u128)>)> {
    let t: Vec<&str> = req.split(' ').collect();
    if t.len() >= 2 && t[0] == "rt" && t[1] == "find" { return exec_find(&t).map(|(c, r)| (c, r, vec![])); }
    if t.len() >= 2 && t[0] == "rt" && t[1] == "create" { return exec_create(&t).map(|(c, r)| (c, r, vec![])); }
    if t.len() < 13 || t[0] != "rt" || t[1] != "swap" { return None; }
    let into = t[2] == "1";
    let cur = parse_m(t[3])?;
    let markets: Vec<M> = if t[4] == "-" { vec![] } else { t[4].split(',').map(parse_m).collect::<Option<_>>()? };
    let (primary, secondary) = (parse_list(t[5])?, parse_list(t[6])?);
    let tin = |s: &str| -> Option<Option<Pubkey>> { if s == "_" { Some(None) } else { Some(Some(tokpk(s.parse().ok()?))) } };
    let (tin_l, tin_s) = (tin(t[7])?, tin(t[8])?);
    let (amt_l, amt_s): (u64, u64) = (t[9].parse().ok()?, t[10].parse().ok()?);
    let (exp_l, exp_s): (u64, u64) = (t[11].parse().ok()?, t[12].parse().ok()?);
    if primary.len() + secondary.len() > 10 { return None; }
    // `unpack_markets_for_swap`: on chain the loaders are exactly the path's markets (current
    // excluded); a path naming a market whose account is not supplied fails before the router runs.
    if primary.iter().chain(secondary.iter()).any(|p| *p != cur.tok && !markets.iter().any(|m| m.tok == *p)) {
        return Some((format!("{} -", t[..13].join(" ")), "err".into(), vec![]));
    }
    let b = build(&cur, &markets)?;
    let mut params = SwapActionParams::default();
    params.primary_length = primary.len() as u8;
    params.secondary_length = secondary.len() as u8;
    for (i, m) in primary.iter().chain(secondary.iter()).enumerate() { params.paths[i] = tokpk(*m); }
    params.current_market_token = tokpk(cur.tok);
    let before: Vec<(u64, u64)> = b.loaders.iter().chain(std::iter::once(b.current)).map(balances).collect();
    take_events();
    let oracle_loader = AccountLoader::<Oracle>::try_from(b.oracle).ok()?;
    let res = {
        let oracle = oracle_loader.load().ok()?;
        hook::run_swap(&b.store, b.loaders, b.current, &oracle, &params, into, (tokpk(exp_l), tokpk(exp_s)), (tin_l, tin_s), (amt_l, amt_s), b.ev, true)
    };
    let mut hops = Vec::new();
    for data in take_events() {
        if data.len() > 16 && &data[8..16] == <SwapExecuted as anchor_lang::Discriminator>::DISCRIMINATOR {
            if let Ok(e) = SwapExecuted::deserialize(&mut &data[16..]) {
                let mt = markets.iter().chain(std::iter::once(&cur)).find(|m| tokpk(m.tok) == e.market_token).map(|m| m.tok).unwrap_or(u64::MAX);
                hops.push((mt, e.report.params().is_token_in_long(), *e.report.params().token_in_amount(), *e.report.token_out_amount()));
            }
        }
    }
    let after: Vec<(u64, u64)> = b.loaders.iter().chain(std::iter::once(b.current)).map(balances).collect();
    let outs = if hops.is_empty() { "-".to_string() } else { hops.iter().map(|h| h.3.to_string()).collect::<Vec<_>>().join(",") };
    let canon = format!("{} {}", t[..13].join(" "), outs);
    let resp = match res {
        Ok((o1, o2)) => {
            let all: Vec<&M> = markets.iter().chain(std::iter::once(&cur)).collect();
            let trace = if hops.is_empty() { "-".to_string() } else {
                hops.iter().map(|h| { let m = all.iter().find(|m| m.tok == h.0).unwrap(); let (ti, to) = if h.1 { (m.long, m.short) } else { (m.short, m.long) }; format!("{}:{}:{}:{}:{}", h.0, ti, to, h.2, h.3) }).collect::<Vec<_>>().join(",")
            };
            let cb = after.last().unwrap();
            let mb = if markets.is_empty() { "-".to_string() } else { markets.iter().zip(after.iter()).map(|(m, b)| format!("{}:{}:{}", m.tok, b.0, b.1)).collect::<Vec<_>>().join(",") };
            // conservation across markets: per token, the sum of recorded balances is unchanged
            let totals = |bals: &Vec<(u64, u64)>| -> std::collections::BTreeMap<u64, u128> {
                let mut t = std::collections::BTreeMap::new();
                for (m, b) in all.iter().zip(bals.iter()) {
                    *t.entry(m.long).or_insert(0u128) += b.0 as u128;
                    if m.long != m.short { *t.entry(m.short).or_insert(0u128) += b.1 as u128; }
                }
                t
            };
            if totals(&before) != totals(&after) { return Some((canon, "ok-but-unbalanced".into(), hops)); }
            // C22 oracle (independent of the model): swapping OUT of the current market leaves each output amount
            // deposited in its output market, to be paid out by the enclosing instruction — every market must still
            // pass the real balance validation with ALL amounts that are about to leave it excluded
            if !into {
                let out_market = |p: &Vec<u64>| -> u64 { *p.last().unwrap_or(&cur.tok) };
                let mut excl: std::collections::BTreeMap<u64, (u64, u64)> = std::collections::BTreeMap::new();
                for (mt, tok, amt) in [(out_market(&primary), exp_l, o1), (out_market(&secondary), exp_s, o2)] {
                    if amt == 0 { continue; }
                    let m = all.iter().find(|m| m.tok == mt).unwrap();
                    let e = excl.entry(mt).or_insert((0, 0));
                    if tok == m.long { e.0 = e.0.saturating_add(amt); } else { e.1 = e.1.saturating_add(amt); }
                }
                for (mt, e) in excl {
                    let loader = if mt == cur.tok { b.current } else { &b.loaders[markets.iter().position(|m| m.tok == mt).unwrap()] };
                    if hook::validate_balances(loader, b.ev, e).is_err() {
                        return Some((canon, format!("ok-but-insolvent {mt} {} {}", e.0, e.1), hops));
                    }
                }
            }
            format!("ok {o1} {o2} | {trace} | {}:{} | {mb}", cb.0, cb.1)
        }
        Err(_) => { if before != after { "err-but-changed".into() } else { "err".into() } }
    };
    Some((canon, resp, hops))
}


// ---------------------------------------------------------------------------------------------
// creation time: the real `SwapActionParamsExt::validate_and_init` (hook `validate_and_init`)
#[derive(Clone, Debug, PartialEq)]
struct CM { key: u64, tok: u64, index: u64, long: u64, short: u64, usable: u64 }

fn parse_cm(s: &str) -> Option<CM> {
    let v: Vec<u64> = s.split(':').map(|x| x.parse().ok()).collect::<Option<_>>()?;
    if v.len() != 6 || v[5] > 1 { return None; }
    Some(CM { key: v[0], tok: v[1], index: v[2], long: v[3], short: v[4], usable: v[5] })
}
fn fmt_cm(m: &CM) -> String { format!("{}:{}:{}:{}:{}:{}", m.key, m.tok, m.index, m.long, m.short, m.usable) }
fn fmt_list(p: &[u64]) -> String { if p.is_empty() { "-".to_string() } else { p.iter().map(|x| x.to_string()).collect::<Vec<_>>().join(",") } }

/// `rt create <cur> <plen> <slen> <accs|-> <tinP> <tinS> <toutP> <toutS>`; a market is `key:token:index:long:short:usable`
fn exec_create(t: &[&str]) -> Option<(String, String)> {
    if t.len() != 10 { return None; }
    let cur = parse_cm(t[2])?;
    let (plen, slen): (u64, u64) = (t[3].parse().ok()?, t[4].parse().ok()?);
    if plen > 255 || slen > 255 { return None; }
    let accs: Vec<CM> = if t[5] == "-" { vec![] } else { t[5].split(',').map(parse_cm).collect::<Option<_>>()? };
    let tk: Vec<u64> = t[6..10].iter().map(|x| x.parse().ok()).collect::<Option<_>>()?;
    // one account per address: the same address must always carry the same market
    for a in accs.iter() { for b in accs.iter().chain(std::iter::once(&cur)) { if a.key == b.key && a != b { return None; } } }
    let store = pk(7);
    let mut built: std::collections::BTreeMap<u64, AccountInfo<'static>> = Default::default();
    let mut mk = |m: &CM| -> AccountInfo<'static> {
        built.entry(m.key).or_insert_with(|| {
            // an unusable market: of another store (even addresses) or disabled (odd addresses)
            let (st, enabled) = if m.usable == 1 { (store, true) } else if m.key % 2 == 0 { (pk(77), true) } else { (store, false) };
            zero_copy_account::<Market>(pk(5000 + m.key), gmsol_store::ID, |mk| {
                mk.init(255, st, "m", tokpk(m.tok), tokpk(m.index), tokpk(m.long), tokpk(m.short), enabled).unwrap();
            })
        }).clone()
    };
    let cur_info: &'static AccountInfo<'static> = Box::leak(Box::new(mk(&cur)));
    let cur_loader = AccountLoader::<Market>::try_from(cur_info).ok()?;
    let paths: Vec<AccountInfo<'static>> = accs.iter().map(|m| mk(m)).collect();
    let paths: &'static [AccountInfo<'static>] = Box::leak(paths.into_boxed_slice());
    let res = hook::validate_and_init(&cur_loader, plen as u8, slen as u8, paths, &store, (tokpk(tk[0]), tokpk(tk[1])), (tokpk(tk[2]), tokpk(tk[3])));
    let canon = t.join(" ");
    let resp = match res {
        Err(_) => "err".to_string(),
        Ok(params) => {
            let back = |p: &Pubkey| -> u64 {
                accs.iter().chain(std::iter::once(&cur)).flat_map(|m| [m.tok, m.index, m.long, m.short]).find(|x| tokpk(*x) == *p).unwrap_or(u64::MAX)
            };
            let p1: Vec<u64> = params.primary_swap_path().iter().map(back).collect();
            let p2: Vec<u64> = params.secondary_swap_path().iter().map(back).collect();
            let stored = params.tokens();
            if !stored.windows(2).all(|w| w[0] < w[1]) { return Some((canon, "ok-but-tokens-unsorted".into())); }
            let mut toks: Vec<u64> = stored.iter().map(back).collect();
            toks.sort();
            format!("ok {} | {} | {} | {}", fmt_list(&p1), fmt_list(&p2), fmt_list(&toks), back(&params.current_market_token))
        }
    };
    Some((canon, resp))
}

/// property oracle for creation, independent of the Lean model
fn create_oracle(canon: &str, resp: &str, out: &mut Out) {
    let t: Vec<&str> = canon.split(' ').collect();
    if t.len() != 10 { return; }
    let (Some(cur), Ok(plen), Ok(slen)) = (parse_cm(t[2]), t[3].parse::<usize>(), t[4].parse::<usize>()) else { return };
    let accs: Vec<CM> = if t[5] == "-" { vec![] } else { t[5].split(',').filter_map(parse_cm).collect() };
    let tk: Vec<u64> = t[6..10].iter().filter_map(|x| x.parse().ok()).collect();
    if resp == "ok-but-tokens-unsorted" { out.oracle_fail("the token list written at creation is not strictly increasing", canon); return; }
    if !resp.starts_with("ok") { out.stat("create.err"); return; }
    out.stat("create.ok");
    if plen + slen > 10 { out.oracle_fail("a swap path longer than the ten-step limit was accepted at creation", canon); return; }
    if accs.len() < plen + slen { out.oracle_fail("creation accepted more steps than market accounts were supplied", canon); return; }
    let sides = [(&accs[..plen], tk[0], tk[2], "primary"), (&accs[plen..plen + slen], tk[1], tk[3], "secondary")];
    let f: Vec<&str> = resp[3..].split(" | ").collect();
    for (i, (side, tin, tout, name)) in sides.iter().enumerate() {
        let mut keys: Vec<u64> = side.iter().map(|m| m.key).collect(); keys.sort(); keys.dedup();
        if keys.len() != side.len() { out.oracle_fail(&format!("a {name} path with a duplicated market was accepted at creation"), canon); }
        if side.iter().any(|m| m.long == m.short) { out.oracle_fail(&format!("a {name} path with a no-op step was accepted at creation"), canon); }
        if side.iter().any(|m| m.usable == 0) { out.oracle_fail(&format!("a {name} path through a disabled market or a market of another store was accepted at creation"), canon); }
        let mut tok = *tin; let mut broken = false;
        for m in side.iter() { if tok == m.long { tok = m.short } else if tok == m.short { tok = m.long } else { broken = true; break; } }
        if broken { out.oracle_fail(&format!("a {name} path with a step that does not convert the previous step's output token was accepted at creation"), canon); }
        else if tok != *tout { out.oracle_fail(&format!("a {name} path that does not end in the declared output token was accepted at creation"), canon); }
        let want = fmt_list(&side.iter().map(|m| m.tok).collect::<Vec<_>>());
        if f.get(i).map(|x| x.trim()) != Some(want.as_str()) { out.oracle_fail(&format!("the stored {name} path differs from the supplied markets in order"), canon); }
        out.stat(&format!("create.{name}_len.{}", side.len()));
    }
    let mut want: Vec<u64> = accs[..plen + slen].iter().chain(std::iter::once(&cur)).flat_map(|m| [m.index, m.long, m.short]).collect();
    want.sort(); want.dedup();
    if f.get(2).map(|x| x.trim()) != Some(fmt_list(&want).as_str()) { out.oracle_fail("the token list written at creation is not exactly the tokens of the current market and of the markets on both paths", canon); }
}

fn gen_create(r: &mut Rng) -> String {
    let ntok = r.range(2, 6);
    let nm = if r.chance(1, 4) { r.range(6, 13) } else { r.range(0, 6) };
    let mkm = |r: &mut Rng, id: u64, allow_pure: bool| -> CM {
        let a = r.below(ntok); let mut b = r.below(ntok);
        if a == b && !(allow_pure && r.chance(1, 3)) { b = (a + 1) % ntok; }
        let usable = if id != 0 && r.chance(1, 14) { 0 } else { 1 };
        CM { key: id, tok: id, index: 20 + r.below(8), long: a, short: b, usable }
    };
    let cur = mkm(r, 0, false);
    let markets: Vec<CM> = (1..=nm).map(|i| mkm(r, i, true)).collect();
    let all: Vec<&CM> = markets.iter().chain(std::iter::once(&cur)).collect();
    let walk = |r: &mut Rng, start: u64, len: u64| -> (Vec<CM>, u64) {
        let mut path: Vec<CM> = Vec::new(); let mut tok = start;
        for _ in 0..len {
            let mut cands: Vec<&&CM> = all.iter().filter(|m| m.long == tok || m.short == tok).collect();
            if !r.chance(1, 8) { cands.retain(|m| !path.iter().any(|p| p.key == m.key)); }
            if !r.chance(1, 8) { cands.retain(|m| m.long != m.short && m.usable == 1); }
            if cands.is_empty() { break; }
            let m = (*cands[r.below(cands.len() as u64) as usize]).clone();
            tok = if m.long == tok { m.short } else { m.long };
            path.push(m);
        }
        if r.chance(1, 15) && !path.is_empty() { let i = r.below(path.len() as u64) as usize; path[i] = (*all[r.below(all.len() as u64) as usize]).clone(); }
        (path, tok)
    };
    let (tin_p, tin_s) = (r.below(ntok), r.below(ntok));
    let lp = match r.below(8) { 0 => 0, 1 => r.range(5, 9), _ => r.range(1, 5) };
    let ls = match r.below(8) { 0 | 1 => 0, 2 => r.range(4, 7), _ => r.range(1, 4) };
    let (p1, end1) = walk(r, tin_p, lp);
    let (p2, end2) = walk(r, tin_s, ls);
    let tout_p = if r.chance(1, 12) { r.below(ntok) } else { end1 };
    let tout_s = if r.chance(1, 12) { r.below(ntok) } else { end2 };
    let (mut plen, mut slen) = (p1.len() as u64, p2.len() as u64);
    let mut accs: Vec<CM> = p1.into_iter().chain(p2.into_iter()).collect();
    match r.below(12) {
        0 => { for _ in 0..r.range(1, 3) { accs.push((*all[r.below(all.len() as u64) as usize]).clone()); } }   // extra accounts after the paths
        1 => { if r.chance(1, 2) { plen += 1 } else { slen += 1 } }                                                // one more step than accounts
        2 => { if plen > 0 { plen -= 1; slen += 1; } }                                                             // the split point moved
        _ => {}
    }
    format!("rt create {} {} {} {} {} {} {} {}", fmt_cm(&cur), plen, slen,
        if accs.is_empty() { "-".to_string() } else { accs.iter().map(fmt_cm).collect::<Vec<_>>().join(",") }, tin_p, tin_s, tout_p, tout_s)
}

// ---------------------------------------------------------------------------------------------
// which market account the enclosing instruction records the input into / pays the output out of:
// the real `find_first_market` / `find_last_market` (hook `find_end_market`)
/// `rt find <first 0|1> <cur> <path|-> <supplied|->`
fn exec_find(t: &[&str]) -> Option<(String, String)> {
    if t.len() != 6 || (t[2] != "0" && t[2] != "1") { return None; }
    let first = t[2] == "1";
    let cur: u64 = t[3].parse().ok()?;
    let (path, supplied) = (parse_list(t[4])?, parse_list(t[5])?);
    if path.len() > 10 { return None; }
    let store = pk(7);
    let addr = |tok: u64| Market::find_market_address(&store, &tokpk(tok), &gmsol_store::ID).0;
    let infos: Vec<AccountInfo<'static>> = supplied.iter().map(|t| leak_account(addr(*t), gmsol_store::ID, 0, false, false)).collect();
    let infos: &'static [AccountInfo<'static>] = Box::leak(infos.into_boxed_slice());
    let canon = t.join(" ");
    // the same path as the primary side (secondary empty) and as the secondary side (behind a primary path)
    let mut answers = Vec::new();
    for as_primary in [true, false] {
        let mut params = SwapActionParams::default();
        params.current_market_token = tokpk(cur);
        let lead: Vec<u64> = if as_primary || path.len() > 8 { vec![] } else { vec![cur + 77, cur + 78] };
        if as_primary { params.primary_length = path.len() as u8; } else { params.primary_length = lead.len() as u8; params.secondary_length = path.len() as u8; }
        for (i, m) in lead.iter().chain(path.iter()).enumerate() { params.paths[i] = tokpk(*m); }
        let r = hook::find_end_market(&params, &store, as_primary, first, infos);
        answers.push(match r {
            Err(_) => "err".to_string(),
            Ok(None) => "current".to_string(),
            Ok(Some(k)) => match supplied.iter().find(|t| addr(**t) == k) { Some(t) => format!("market {t}"), None => "market ?".to_string() },
        });
    }
    if answers[0] != answers[1] { return Some((canon, format!("sides-differ {} / {}", answers[0], answers[1]))); }
    Some((canon, answers.remove(0)))
}

fn find_oracle(canon: &str, resp: &str, out: &mut Out) {
    let t: Vec<&str> = canon.split(' ').collect();
    if t.len() != 6 { return; }
    let (first, Ok(cur), Some(path)) = (t[2] == "1", t[3].parse::<u64>(), parse_list(t[4])) else { return };
    let end = if first { path.first().copied() } else { path.last().copied() }.unwrap_or(cur);
    let what = if first { "input is recorded into a market other than the FIRST market of the declared path" } else { "output is paid out of a market other than the LAST market of the declared path" };
    if resp.starts_with("sides-differ") { out.oracle_fail("the primary and the secondary side select different markets for the same path", canon); }
    else if let Some(m) = resp.strip_prefix("market ") { if m != end.to_string() { out.oracle_fail(&format!("an action's swap {what}"), canon); } }
    else if resp == "current" && end != cur { out.oracle_fail(&format!("an action's swap {what} (the current market)"), canon); }
    out.stat(&format!("find.{}", resp.split(' ').next().unwrap_or("")));
}

fn gen_find(r: &mut Rng) -> String {
    let nm = r.range(1, 7);
    let len = match r.below(6) { 0 => 0, 1 => 1, _ => r.range(2, 7) };
    let mut path: Vec<u64> = Vec::new();
    for _ in 0..len { let m = r.below(nm + 1); if !path.contains(&m) || r.chance(1, 10) { path.push(m); } }
    if r.chance(1, 3) && !path.is_empty() { let i = if r.chance(1, 2) { 0 } else { path.len() - 1 }; path[i] = 0; }   // ends in the current market (0)
    let mut supplied: Vec<u64> = path.iter().copied().filter(|m| *m != 0 || r.chance(1, 3)).collect();
    supplied.sort(); supplied.dedup();
    if r.chance(1, 8) && !supplied.is_empty() { let i = r.below(supplied.len() as u64) as usize; supplied.remove(i); }   // a missing account
    if r.chance(1, 6) { supplied.push(nm + 1 + r.below(3)); }                                                            // an unrelated account
    format!("rt find {} 0 {} {}", r.below(2), fmt_list(&path), fmt_list(&supplied))
}

fn fmt_m(m: &M) -> String {
    if m.col_l == 0 && m.col_s == 0 { format!("{}:{}:{}:{}:{}:{}:{}", m.tok, m.long, m.short, m.bal_l, m.bal_s, m.min_l, m.min_s) }
    else { format!("{}:{}:{}:{}:{}:{}:{}:{}:{}", m.tok, m.long, m.short, m.bal_l, m.bal_s, m.min_l, m.min_s, m.col_l, m.col_s) }
}

/// Both sides of a swap OUT of the current market end in the same provided market and the same token; that
/// market's position collateral is placed around the point where excluding the two outputs jointly / one at a
/// time makes a difference (the outputs are learnt from a dry run: they do not depend on recorded balances).
fn gen_same_output(r: &mut Rng) -> String {
    let surplus = 10_000_000_000_000u64;
    let liq = |r: &mut Rng| r.range(1, 9) * 100_000_000_000;
    // tokens: a = 0, b = 1, out = 2; current market 0 = (a, b); X = market 1 over (a, out) in either order; Y = market 2 over (b, a)
    let (la, lb) = (liq(r), liq(r));
    let cur = M { tok: 0, long: 0, short: 1, bal_l: la + surplus, bal_s: lb + surplus, min_l: la, min_s: lb, col_l: 0, col_s: 0 };
    let x_out_long = r.chance(1, 2);
    let (xl, xs) = (liq(r), liq(r));
    let mut x = M { tok: 1, long: if x_out_long { 2 } else { 0 }, short: if x_out_long { 0 } else { 2 }, bal_l: xl + surplus, bal_s: xs + surplus, min_l: xl, min_s: xs, col_l: 0, col_s: 0 };
    let (yl, ys) = (liq(r), liq(r));
    let y = M { tok: 2, long: 1, short: 0, bal_l: yl + surplus, bal_s: ys + surplus, min_l: yl, min_s: ys, col_l: 0, col_s: 0 };
    // primary: a -> out through X; secondary: b -> a (through the current market or through Y) -> out through X
    let via_cur = r.chance(1, 2);
    let (p1, p2) = ("1".to_string(), if via_cur { "0,1".to_string() } else { "2,1".to_string() });
    let amt = |r: &mut Rng| -> u64 { match r.below(3) { 0 => r.range(1, 5) * 20_000_000_000, _ => r.range(1_000, 1_000_000_000) } };
    let (a1, a2) = (amt(r), amt(r));
    let mk = |x: &M| format!("rt swap 0 {} {},{} {p1} {p2} 0 1 {a1} {a2} 2 2 -", fmt_m(&cur), fmt_m(x), fmt_m(&y));
    let dry = mk(&x);
    let Some((_, resp, _)) = exec(&dry) else { return dry };
    let f: Vec<&str> = resp.split(' ').collect();
    if f.len() < 3 || f[0] != "ok" { return dry; }
    let (o1, o2): (u64, u64) = (f[1].parse().unwrap_or(0), f[2].parse().unwrap_or(0));
    let bal = if x_out_long { x.bal_l } else { x.bal_s };   // the output token's balance in X is not moved by the swap
    let (lo, hi) = (o1.min(o2), o1.max(o2));
    let col = match r.below(6) {
        0 => bal.saturating_sub(o1 + o2),                                   // exactly covered
        1 => bal.saturating_sub(o1 + o2) + 1,                               // one unit short jointly
        2 | 3 => bal.saturating_sub(hi + r.below(lo.max(1))),               // each alone passes, together they do not
        4 => bal.saturating_sub(hi) + 1,                                    // the larger one alone already fails
        _ => bal.saturating_sub(o1 + o2).saturating_sub(r.below(1000)),     // comfortably covered
    };
    if x_out_long { x.col_l = col } else { x.col_s = col }
    mk(&x)
}

fn gen_req(r: &mut Rng) -> String {
    if r.chance(1, 5) { return gen_create(r); }
    if r.chance(1, 10) { return gen_find(r); }
    if r.chance(1, 8) { return gen_same_output(r); }
    // tokens 0..5, markets 1..6 over random token pairs; the current market is market 0
    let ntok = r.range(2, 5);
    let pair = |r: &mut Rng, allow_pure: bool| -> (u64, u64) { let a = r.below(ntok); let mut b = r.below(ntok); if !allow_pure && a == b { b = (a + 1) % ntok; } if r.chance(1, 12) && allow_pure { (a, a) } else { if a == b { (a, (a + 1) % ntok) } else { (a, b) } } };
    let slack = |r: &mut Rng| -> u64 { match r.below(8) { 0 => 0, 1 => r.below(2000), _ => 10_000_000_000_000 } };
    let mkm = |r: &mut Rng, tok: u64, allow_pure: bool| -> M {
        let (l, s) = pair(r, allow_pure);
        let (min_l, min_s) = (r.range(1, 9) * 100_000_000_000, r.range(1, 9) * 100_000_000_000);
        // only the current market is generated with little or no surplus: the router's own
        // balance check (`From` direction) is modelled; the others are property C22
        let (sl, ss) = if tok == 0 { (slack(r), slack(r)) } else { (10_000_000_000_000, 10_000_000_000_000) };
        M { tok, long: l, short: s, bal_l: min_l + sl, bal_s: min_s + ss, min_l, min_s, col_l: 0, col_s: 0 }
    };
    let mut cur = mkm(r, 0, false);
    let nm = r.range(0, 5);
    let markets: Vec<M> = (1..=nm).map(|i| mkm(r, i, true)).collect();
    let into = r.chance(1, 2);
    // build a path by walking the token graph from a start token
    let cur0 = cur.clone();
    let walk = |r: &mut Rng, start: u64, maxlen: u64| -> (Vec<u64>, u64) {
        let cur = &cur0;
        let mut path = Vec::new(); let mut tok = start;
        let len = r.below(maxlen + 1);
        for _ in 0..len {
            let mut cands: Vec<&M> = markets.iter().chain(std::iter::once(cur)).filter(|m| (m.long == tok || m.short == tok)).collect();
            if !r.chance(1, 10) { cands.retain(|m| !path.contains(&m.tok)); }        // mostly no duplicates
            if cands.is_empty() { break; }
            let m = cands[r.below(cands.len() as u64) as usize];
            path.push(m.tok);
            tok = if m.long == tok { m.short } else { m.long };
        }
        if r.chance(1, 15) && !path.is_empty() { let i = r.below(path.len() as u64) as usize; path[i] = r.below(nm + 2); }   // malformed hop
        (path, tok)
    };
    let start_l = if into { r.below(ntok) } else { cur.long };
    let start_s = if into { r.below(ntok) } else { cur.short };
    let (p1, end1) = walk(r, start_l, 4);
    let (p2, end2) = walk(r, start_s, 3);
    // the current market keeps a tight balance only where the router's own check is the one
    // that decides (From direction, both sides leaving through a non-current first market)
    let leaves = |p: &Vec<u64>| !p.is_empty() && p[0] != 0;
    if into || !leaves(&p1) || !leaves(&p2) { cur.bal_l = cur.min_l + 10_000_000_000_000; cur.bal_s = cur.min_s + 10_000_000_000_000; }
    let exp_l = if r.chance(1, 12) { r.below(ntok) } else { end1 };
    let exp_s = if r.chance(1, 12) { r.below(ntok) } else { end2 };
    let amt = |r: &mut Rng| -> u64 { match r.below(6) { 0 => 0, 1 => 1, 2 => r.range(1, 5) * 200_000_000_000, _ => r.range(1, 1_000_000_000) } };
    let fm = |m: &M| fmt_m(m);
    let ms = if markets.is_empty() { "-".into() } else { markets.iter().map(fm).collect::<Vec<_>>().join(",") };
    let fl = |p: &Vec<u64>| if p.is_empty() { "-".to_string() } else { p.iter().map(|x| x.to_string()).collect::<Vec<_>>().join(",") };
    let tl = if r.chance(1, 10) { "_".to_string() } else { start_l.to_string() };
    let ts = if r.chance(1, 3) { "_".to_string() } else { start_s.to_string() };
    format!("rt swap {} {} {} {} {} {} {} {} {} {} {} -", into as u8, fm(&cur), ms, fl(&p1), fl(&p2), tl, ts, amt(r), amt(r), exp_l, exp_s)
}

fn main() {
    install_capturing_stubs();
    let cli = cli();
    let mut out = Out::new();
    std::panic::set_hook(Box::new(|_| {}));
    let reqs: Vec<String> = if cli.mode == "replay" { read_requests(cli.file.as_deref().unwrap()) } else {
        let mut r = Rng::new(cli.seed);
        (0..cli.n).map(|_| gen_req(&mut r)).collect()
    };
    for req in reqs {
        let r = std::panic::catch_unwind(|| exec(&req));
        let (canon, resp, hops) = match r { Ok(Some(x)) => x, Ok(None) => (req.clone(), "bad-op".to_string(), vec![]), Err(_) => (req.clone(), "panic".to_string(), vec![]) };
        if resp == "panic" { out.oracle_fail("router panicked", &canon); }
        if canon.starts_with("rt find ") {
            if resp != "bad-op" && resp != "panic" { find_oracle(&canon, &resp, &mut out); }
            out.case_nt(&canon, &resp, resp.starts_with("market"));
            continue;
        }
        if canon.starts_with("rt create ") {
            if resp != "bad-op" && resp != "panic" { create_oracle(&canon, &resp, &mut out); }
            out.case_nt(&canon, &resp, resp.starts_with("ok ") && !resp.starts_with("ok - | - "));
            continue;
        }
        if resp == "ok-but-unbalanced" { out.oracle_fail("a hop did not move exactly the swapped amount between the recorded balances of the markets involved", &canon); }
        if resp.starts_with("ok-but-insolvent") { out.oracle_fail(&format!("the router accepted a swap out of the current market after which paying out the outputs leaves a market's recorded balance below its pool amounts or its position collateral (market, excluded long, excluded short = {})", &resp[17..]), &canon); }
        if resp == "err-but-changed" { out.oracle_fail("a failed swap changed stored recorded balances", &canon); }
        // ---- property oracle (independent of the Lean model)
        let t: Vec<&str> = canon.split(' ').collect();
        if t.len() >= 13 && resp != "bad-op" {
            let (primary, secondary) = (parse_list(t[5]).unwrap_or_default(), parse_list(t[6]).unwrap_or_default());
            let dup = |p: &Vec<u64>| { let mut q = p.clone(); q.sort(); q.dedup(); q.len() != p.len() };
            let cur = parse_m(t[3]).unwrap();
            let markets: Vec<M> = if t[4] == "-" { vec![] } else { t[4].split(',').filter_map(parse_m).collect() };
            let all: Vec<&M> = markets.iter().chain(std::iter::once(&cur)).collect();
            let side_runs = |tin: &str, amt: &str| tin != "_" && amt != "0";
            if resp.starts_with("ok") {
                out.stat("resp.ok");
                if dup(&primary) || dup(&secondary) { out.oracle_fail("a path with a duplicated market was executed", &canon); }
                let mut expected_hops: Vec<u64> = Vec::new();
                if side_runs(t[7], t[9]) { expected_hops.extend(primary.iter()); }
                if side_runs(t[8], t[10]) { expected_hops.extend(secondary.iter()); }
                let got: Vec<u64> = hops.iter().map(|h| h.0).collect();
                if got != expected_hops { out.oracle_fail(&format!("executed markets {got:?} differ from the declared path {expected_hops:?}"), &canon); }
                // token chain + exact hand-over + no no-op step
                let mut check_side = |path: &Vec<u64>, tin: &str, amt: &str, exp: &str, off: usize| {
                    if !side_runs(tin, amt) { return; }
                    let mut tok: u64 = tin.parse().unwrap(); let mut a: u128 = amt.parse().unwrap();
                    for (i, mt) in path.iter().enumerate() {
                        let h = &hops[off + i]; let m = all.iter().find(|m| m.tok == *mt).unwrap();
                        let (ti, to) = if h.1 { (m.long, m.short) } else { (m.short, m.long) };
                        if ti == to { out.oracle_fail("a no-op step (pure market) was executed", &canon); }
                        if ti != tok { out.oracle_fail("a hop does not convert the previous hop's output token", &canon); }
                        if h.2 != a { out.oracle_fail("a hop's input amount differs from the previous hop's output amount", &canon); }
                        tok = to; a = h.3;
                    }
                    if tok.to_string() != exp { out.oracle_fail("the swap ended in a token other than the declared output token", &canon); }
                };
                check_side(&primary, t[7], t[9], t[11], 0);
                let off = if side_runs(t[7], t[9]) { primary.len() } else { 0 };
                check_side(&secondary, t[8], t[10], t[12], off);
                if hops.len() > 1 { out.stat("multi_hop"); }
                if hops.iter().any(|h| h.0 == 0) { out.stat("through_current"); }
            } else { out.stat("resp.err"); if dup(&primary) || dup(&secondary) { out.stat("err.duplicate_path"); } }
        }
        out.stat(&format!("hops.{}", hops.len().min(6)));
        let nt = resp.starts_with("ok") && !hops.is_empty();
        out.case_nt(&canon, &resp, nt);
    }
    out.finish();
}
