//! C22 correspondence + oracle: the real `validate_market_balances` over in-memory markets whose
//! pools and recorded balances are seeded through the revertible market.
use anchor_lang::prelude::*;
use gmsol_model::{Balance, PoolKind};
use gmsol_store::states::Market;
use gmsol_store::verif::c44 as hook;
use h_store::*;
use hcommon::*;

/// vlt validate <pure> liqL liqS impL impS feeL feeS cLL cLS cSL cSS balL balS exL exS
fn exec(req: &str) -> Option<(String, String)> {
    let t: Vec<&str> = req.split(' ').collect();
    if t.len() != 17 || t[0] != "vlt" || t[1] != "validate" { return None; }
    let pure = t[2] == "1";
    let v: Vec<u128> = t[3..].iter().map(|x| x.parse().ok()).collect::<Option<_>>()?;
    let (bal_l, bal_s, ex_l, ex_s): (u64, u64, u64, u64) = (v[10].try_into().ok()?, v[11].try_into().ok()?, v[12].try_into().ok()?, v[13].try_into().ok()?);
    let store = pk(7);
    let ev: &'static AccountInfo<'static> = Box::leak(Box::new(leak_account(pk(8), gmsol_store::ID, 0, false, false)));
    let (long, short) = if pure { (pk(1001), pk(1001)) } else { (pk(1001), pk(1002)) };
    let info = zero_copy_account::<Market>(pk(5000), gmsol_store::ID, |m| { m.init(255, store, "m", pk(3000), long, long, short, true).unwrap(); });
    let info: &'static AccountInfo<'static> = Box::leak(Box::new(info));
    let loader = AccountLoader::<Market>::try_from(info).ok()?;
    hook::seed_market(&loader, ev, (v[0], v[1]), (v[2], v[3]), (bal_l, bal_s)).ok()?;
    hook::seed_fee_and_collateral(&loader, ev, (v[4], v[5]), (v[6], v[7]), (v[8], v[9])).ok()?;
    // read the pool VIEWS back (a pure pool splits its stored total into ceil/floor halves)
    let view = |k: PoolKind| -> (u128, u128) { let p = loader.load().unwrap().pool(k).unwrap(); (p.long_amount().unwrap(), p.short_amount().unwrap()) };
    let (liq, imp, fee) = (view(PoolKind::Primary), view(PoolKind::SwapImpact), view(PoolKind::ClaimableFee));
    let (cl, cs) = (view(PoolKind::CollateralSumForLong), view(PoolKind::CollateralSumForShort));
    let (rl, rs) = { let m = loader.load().unwrap(); (m.state().long_token_balance_raw(), m.state().short_token_balance_raw()) };
    let canon = format!("vlt validate {} {} {} {} {} {} {} {} {} {} {} {} {} {} {}", pure as u8, liq.0, liq.1, imp.0, imp.1, fee.0, fee.1, cl.0, cl.1, cs.0, cs.1, rl, rs, ex_l, ex_s);
    let resp = match hook::validate_balances(&loader, ev, (ex_l, ex_s)) { Ok(()) => "ok", Err(_) => "err" };
    Some((canon, resp.to_string()))
}

fn gen_req(r: &mut Rng) -> String {
    let pure = r.chance(1, 4);
    let amt = |r: &mut Rng| -> u128 { match r.below(6) { 0 => 0, 1 => r.below(10) as u128, _ => r.range(1, 1_000_000) as u128 * 1_000_000 + r.below(3) as u128 } };
    let v: Vec<u128> = (0..10).map(|_| amt(r)).collect();
    let (min_l, min_s) = (v[0] + v[2] + v[4], v[1] + v[3] + v[5]);
    let (col_l, col_s) = (v[6] + v[8], v[7] + v[9]);
    let (ex_l, ex_s) = (if r.chance(1, 2) { 0 } else { r.below(1_000_000) as u128 }, if r.chance(1, 2) { 0 } else { r.below(1_000_000) as u128 });
    // balances hugging the two thresholds
    let around = |r: &mut Rng, need: u128| -> u128 { match r.below(5) { 0 => need.saturating_sub(1), 1 => need, 2 => need + 1, 3 => need / 2, _ => need + r.below(1_000_000_000) as u128 } };
    let (bl, bs) = if pure {
        let need = (min_l + min_s).max(col_l + col_s) + ex_l + ex_s;
        (around(r, need), 0)
    } else {
        (around(r, min_l.max(col_l) + ex_l), around(r, min_s.max(col_s) + ex_s))
    };
    format!("vlt validate {} {} {} {} {}", pure as u8, v.iter().map(|x| x.to_string()).collect::<Vec<_>>().join(" "), bl, bs, format!("{ex_l} {ex_s}"))
}

fn main() {
    install_capturing_stubs();
    let cli = cli();
    let mut out = Out::new();
    std::panic::set_hook(Box::new(|_| {}));
    let reqs: Vec<String> = if cli.mode == "replay" { read_requests(cli.file.as_deref().unwrap()) } else {
        let mut r = Rng::new(cli.seed);
        (0..cli.n).map(|_| gen_req(&mut r)).collect()
    };
    for req in reqs {
        let r = std::panic::catch_unwind(|| exec(&req));
        take_events();
        let (canon, resp) = match r { Ok(Some(x)) => x, Ok(None) => (req.clone(), "bad-op".to_string()), Err(_) => (req.clone(), "panic".to_string()) };
        if resp == "panic" { out.oracle_fail("validation panicked", &canon); }
        if resp == "ok" || resp == "err" {
            // property oracle: Ok must mean "recorded balance (minus the excluded amounts) covers
            // liquidity + swap impact + claimable fees, and separately covers total collateral"
            let t: Vec<&str> = canon.split(' ').collect();
            let pure = t[2] == "1";
            let v: Vec<u128> = t[3..].iter().map(|x| x.parse().unwrap()).collect();
            let (min_l, min_s) = (v[0] + v[2] + v[4], v[1] + v[3] + v[5]);
            let (col_l, col_s) = (v[6] + v[8], v[7] + v[9]);
            let solvent = if pure {
                let ex = v[12] + v[13];
                v[10] >= ex && v[10] - ex >= min_l + min_s && v[10] - ex >= col_l + col_s
            } else {
                v[10] >= v[12] && v[11] >= v[13] && v[10] - v[12] >= min_l && v[10] - v[12] >= col_l && v[11] - v[13] >= min_s && v[11] - v[13] >= col_s
            };
            if resp == "ok" && !solvent { out.oracle_fail("validation passed although the recorded balance does not cover the pools / the collateral", &canon); }
            if resp == "err" && solvent { out.oracle_fail("validation failed although the market is solvent (spurious failure)", &canon); }
            out.stat(if pure { "pure" } else { "impure" });
            out.stat(if solvent { "solvent" } else { "insolvent" });
        }
        out.case_nt(&canon, &resp, resp == "ok");
    }
    out.finish();
}
