//! C36 correspondence + oracle: the timelock program's instruction-buffer life cycle, driven through
//! the REAL native entrypoint `gmsol_timelock::entry` for create / approve / cancel / execute /
//! increase-delay. CPIs are served by a syscall stub:
//!   * CPIs into the store program (`check_role`) are dispatched natively to `gmsol_store::entry`
//!     on the same account buffers (return data is passed back);
//!   * the system program's `CreateAccount` (Anchor `init`) is emulated (lamports, owner, size);
//!   * anything else — i.e. the buffered instruction invoked by `execute_instruction` — is
//!     captured and reported (program id, account metas with flags, data).
//! Role membership changes use the store's public `grant` / `revoke` methods (C18 covers them).
//!
//! Protocol `tl <op> <sid> <now> …` (users u = 0..5, executor roles r = 0..2, buffer ids 0..9):
//!   new    sid now delay
//!   grant|revoke sid now user K|A|T<r>
//!   create sid now caller id r prog numAcc dataLen dataHex signers metas…   (meta = a<i>:<w> | w<r>:<w>)
//!   approve sid now caller id r
//!   approveb sid now caller r id1,id2,…|-      (the BATCH instruction `approve_instructions`, buffers as remaining accounts)
//!   cancel  sid now caller id r rrUser
//!   cancelb sid now caller r rrUser id1,id2,…|-   (the BATCH instruction `cancel_instructions`)
//!   exec    sid now caller id r rrUser
//!   delay   sid now caller delta
use anchor_lang::prelude::*;
use anchor_lang::solana_program::instruction::Instruction;
use anchor_lang::solana_program::program_stubs::{set_syscall_stubs, SyscallStubs};
use anchor_lang::{Discriminator, InstructionData};
use bytemuck::Zeroable;
use gmsol_store::states::{Seed, Store};
use gmsol_timelock as tl;
use gmsol_timelock::states::{Executor, InstructionAccess, InstructionHeader, TimelockConfig};
use gmsol_timelock::verif::c36 as hook;
use hcommon::*;
use std::collections::BTreeMap;
use std::sync::atomic::{AtomicI64, Ordering};
use std::sync::Mutex;

static CAPTURED: Mutex<Vec<Instruction>> = Mutex::new(Vec::new());
static RETURN: Mutex<Option<(Pubkey, Vec<u8>)>> = Mutex::new(None);
static NOW: AtomicI64 = AtomicI64::new(0);

const ROLES: [&str; 3] = ["ADMIN", "MARKET_KEEPER", "GT_CONTROLLER"];

struct Stubs;
impl SyscallStubs for Stubs {
    fn sol_get_clock_sysvar(&self, var_addr: *mut u8) -> u64 {
        let clock = anchor_lang::solana_program::clock::Clock { slot: 1000, epoch_start_timestamp: 0, epoch: 0, leader_schedule_epoch: 0, unix_timestamp: NOW.load(Ordering::SeqCst) };
        unsafe { std::ptr::write_unaligned(var_addr as *mut anchor_lang::solana_program::clock::Clock, clock) };
        0
    }
    fn sol_get_rent_sysvar(&self, var_addr: *mut u8) -> u64 {
        unsafe { std::ptr::write_unaligned(var_addr as *mut anchor_lang::solana_program::rent::Rent, anchor_lang::solana_program::rent::Rent::default()) };
        0
    }
    fn sol_get_last_restart_slot(&self, var_addr: *mut u8) -> u64 { unsafe { std::ptr::write_unaligned(var_addr as *mut u64, 0) }; 0 }
    fn sol_log(&self, _m: &str) {}
    fn sol_set_return_data(&self, d: &[u8]) { *RETURN.lock().unwrap() = Some((gmsol_store::ID, d.to_vec())); }
    fn sol_get_return_data(&self) -> Option<(Pubkey, Vec<u8>)> { RETURN.lock().unwrap().clone() }
    fn sol_invoke_signed(&self, ix: &Instruction, infos: &[AccountInfo], _seeds: &[&[&[u8]]]) -> anchor_lang::solana_program::entrypoint::ProgramResult {
        if ix.program_id == gmsol_store::ID {
            // dispatch natively into the real store program
            let mut sub: Vec<AccountInfo> = Vec::new();
            for m in &ix.accounts {
                let Some(i) = infos.iter().find(|i| *i.key == m.pubkey) else { return Err(ProgramError::NotEnoughAccountKeys) };
                let mut c = i.clone();
                c.is_signer = m.is_signer;
                c.is_writable = m.is_writable;
                sub.push(c);
            }
            *RETURN.lock().unwrap() = None;
            fn go<'a>(infos: &[AccountInfo<'a>], data: &[u8]) -> anchor_lang::solana_program::entrypoint::ProgramResult {
                let infos: &'a [AccountInfo<'a>] = unsafe { std::mem::transmute(infos) };
                gmsol_store::entry(&gmsol_store::ID, infos, data)
            }
            return go(&sub, &ix.data);
        }
        if ix.program_id == anchor_lang::system_program::ID {
            // bincode SystemInstruction::CreateAccount { lamports, space, owner } = tag 0u32
            if ix.data.len() == 52 && ix.data[..4] == [0, 0, 0, 0] {
                let lamports = u64::from_le_bytes(ix.data[4..12].try_into().unwrap());
                let space = u64::from_le_bytes(ix.data[12..20].try_into().unwrap()) as usize;
                let owner = Pubkey::new_from_array(ix.data[20..52].try_into().unwrap());
                let from = infos.iter().find(|i| *i.key == ix.accounts[0].pubkey).ok_or(ProgramError::NotEnoughAccountKeys)?;
                let to = infos.iter().find(|i| *i.key == ix.accounts[1].pubkey).ok_or(ProgramError::NotEnoughAccountKeys)?;
                if to.lamports() != 0 || !to.data_is_empty() || *to.owner != anchor_lang::system_program::ID { return Err(ProgramError::AccountAlreadyInitialized); }
                if from.lamports() < lamports { return Err(ProgramError::InsufficientFunds); }
                **from.lamports.borrow_mut() -= lamports;
                **to.lamports.borrow_mut() += lamports;
                to.realloc(space, true)?;
                to.assign(&owner);
                return Ok(());
            }
            return Err(ProgramError::InvalidInstructionData);
        }
        CAPTURED.lock().unwrap().push(ix.clone());
        Ok(())
    }
}

extern "C" { fn dup(fd: i32) -> i32; fn dup2(a: i32, b: i32) -> i32; fn close(fd: i32) -> i32; }
struct Quiet { saved: i32 }
impl Quiet {
    fn new() -> Self {
        use std::io::Write; use std::os::fd::AsRawFd;
        std::io::stdout().flush().unwrap();
        let null = std::fs::OpenOptions::new().write(true).open("/dev/null").unwrap();
        let saved = unsafe { dup(1) };
        unsafe { dup2(null.as_raw_fd(), 1) };
        Quiet { saved }
    }
}
impl Drop for Quiet {
    fn drop(&mut self) { use std::io::Write; let _ = std::io::stdout().flush(); unsafe { dup2(self.saved, 1); close(self.saved); } }
}

#[repr(C)]
struct KeyBox { pad: u64, key: Pubkey }
/// account with `cap` bytes of room; data starts 8 bytes into a 16-aligned buffer
struct Acc { key: KeyBox, lamports: u64, buf: Vec<u128>, len: usize, owner: Pubkey, signer: bool, writable: bool, exec: bool }
impl Acc {
    fn with_cap(key: Pubkey, owner: Pubkey, data: &[u8], cap: usize) -> Self {
        let cap = cap.max(data.len());
        let mut buf = vec![0u128; (cap + 8) / 16 + 2];
        bytemuck::cast_slice_mut::<u128, u8>(&mut buf)[8..8 + data.len()].copy_from_slice(data);
        Acc { key: KeyBox { pad: 0, key }, lamports: 1_000_000_000, buf, len: data.len(), owner, signer: false, writable: false, exec: false }
    }
    fn new(key: Pubkey, owner: Pubkey, data: &[u8]) -> Self { Self::with_cap(key, owner, data, 0) }
    fn zc<T: bytemuck::Pod + Discriminator>(key: Pubkey, owner: Pubkey, t: &T) -> Self {
        let mut d = T::DISCRIMINATOR.to_vec();
        d.extend_from_slice(bytemuck::bytes_of(t));
        Acc::new(key, owner, &d)
    }
    fn signer(mut self) -> Self { self.signer = true; self }
    fn writable(mut self) -> Self { self.writable = true; self }
    fn exec(mut self) -> Self { self.exec = true; self }
    fn lamports(mut self, l: u64) -> Self { self.lamports = l; self }
}

/// Runs the timelock entrypoint; returns (result, per-account (owner, lamports, data) afterwards).
fn call_entry(accs: &mut [Acc], data: &[u8]) -> (bool, Vec<(Pubkey, u64, Vec<u8>)>) {
    let order: Vec<usize> = (0..accs.len()).collect();
    call_entry_order(accs, &order, data)
}

/// as `call_entry`, passing the accounts in `order` (an index may repeat: the same account listed twice shares its
/// data, as in the runtime); the returned vector is per DISTINCT account.
fn call_entry_order(accs: &mut [Acc], order: &[usize], data: &[u8]) -> (bool, Vec<(Pubkey, u64, Vec<u8>)>) {
    let distinct: Vec<AccountInfo> = accs.iter_mut().map(|a| {
        let d = &mut bytemuck::cast_slice_mut::<u128, u8>(&mut a.buf)[8..8 + a.len];
        AccountInfo::new(&a.key.key, a.signer, a.writable, &mut a.lamports, d, &a.owner, a.exec, 0)
    }).collect();
    let infos: Vec<AccountInfo> = order.iter().map(|i| distinct[*i].clone()).collect();
    fn go<'a>(infos: &[AccountInfo<'a>], data: &[u8]) -> anchor_lang::solana_program::entrypoint::ProgramResult {
        let infos: &'a [AccountInfo<'a>] = unsafe { std::mem::transmute(infos) };
        let _q = Quiet::new();
        tl::entry(&tl::ID, infos, data)
    }
    let r = go(&infos, data);
    let after = distinct.iter().map(|i| (*i.owner, i.lamports(), i.data.borrow().to_vec())).collect();
    (r.is_ok(), after)
}

fn user_key(u: u8) -> Pubkey { Pubkey::new_from_array([10 + u; 32]) }
fn prog_key(p: u8) -> Pubkey { Pubkey::new_from_array([60 + p; 32]) }
fn plain_key(a: u8) -> Pubkey { Pubkey::new_from_array([80 + a; 32]) }
fn buf_key(id: u8) -> Pubkey { Pubkey::new_from_array([150 + id; 32]) }

struct Consts { store_key: Pubkey, cfg_key: Pubkey, exec: [(Pubkey, u8, Pubkey, u8); 3], // (executor, bump, wallet, wallet bump)
    /// a second, FOREIGN store with its own timelock config (delay 0) and executors: accounts of it must never be accepted
    f_store: Pubkey, f_cfg_key: Pubkey, f_exec: [(Pubkey, u8, Pubkey, u8); 3] }

fn consts() -> Consts {
    let store_key = Pubkey::new_from_array([7; 32]);
    let cfg_key = Pubkey::new_from_array([8; 32]);
    let mut exec = [(Pubkey::default(), 0u8, Pubkey::default(), 0u8); 3];
    for (i, r) in ROLES.iter().enumerate() {
        let rb = gmsol_store::utils::fixed_str::fixed_str_to_bytes::<{ gmsol_store::states::MAX_ROLE_NAME_LEN }>(r).unwrap();
        let (e, eb) = Pubkey::find_program_address(&[Executor::SEED, store_key.as_ref(), &rb], &tl::ID);
        let (w, wb) = tl::states::find_executor_wallet_pda(&e, &tl::ID);
        exec[i] = (e, eb, w, wb);
    }
    let f_store = Pubkey::new_from_array([0xF7; 32]);
    let f_cfg_key = Pubkey::new_from_array([0xF8; 32]);
    let mut f_exec = exec;
    for (i, r) in ROLES.iter().enumerate() {
        let rb = gmsol_store::utils::fixed_str::fixed_str_to_bytes::<{ gmsol_store::states::MAX_ROLE_NAME_LEN }>(r).unwrap();
        let (e, eb) = Pubkey::find_program_address(&[Executor::SEED, f_store.as_ref(), &rb], &tl::ID);
        let (w, wb) = tl::states::find_executor_wallet_pda(&e, &tl::ID);
        f_exec[i] = (e, eb, w, wb);
    }
    Consts { store_key, cfg_key, exec, f_store, f_cfg_key, f_exec }
}

/// `ghost[id]` = at the moment buffer `id` was approved, did the approver hold the timelocked role of the executor the
/// buffer belongs to (read from the buffer, not from the call)?
struct World { store: Box<Store>, cfg: TimelockConfig, bufs: BTreeMap<u8, Vec<u8>>, ghost: BTreeMap<u8, bool> }

fn role_name(tok: &str) -> Option<String> {
    match tok {
        "K" => Some(tl::roles::TIMELOCK_KEEPER.to_string()),
        "A" => Some(tl::roles::TIMELOCK_ADMIN.to_string()),
        "T0" | "T1" | "T2" => Some(tl::roles::timelocked_role(ROLES[tok[1..].parse::<usize>().ok()?])),
        _ => None,
    }
}

fn key_tok(c: &Consts, k: &Pubkey) -> String {
    for a in 0..20u8 { if *k == plain_key(a) { return format!("a{a}"); } }
    for r in 0..3 { if *k == c.exec[r].2 { return format!("w{r}"); } }
    for u in 0..6u8 { if *k == user_key(u) { return format!("u{u}"); } }
    for p in 0..4u8 { if *k == prog_key(p) { return format!("p{p}"); } }
    if *k == Pubkey::default() { return "_".into(); }
    "?".into()
}

fn tok_key(c: &Consts, t: &str) -> Option<Pubkey> {
    let n: usize = t.get(1..)?.parse().ok()?;
    match &t[..1] { "a" if n < 20 => Some(plain_key(n as u8)), "w" if n < 3 => Some(c.exec[n].2), _ => None }
}

fn show_ix(c: &Consts, program: &Pubkey, data: &[u8], metas: &[(Pubkey, bool, bool)]) -> String {
    let m: Vec<String> = metas.iter().map(|(k, s, w)| format!("{}.{}.{}", key_tok(c, k), *s as u8, *w as u8)).collect();
    format!("{}:{}:[{}]", key_tok(c, program), if data.is_empty() { "-".to_string() } else { hex::encode(data) }, m.join(","))
}

/// decodes a buffer account with the program's own (public) loader-free accessors
fn show_buf(c: &Consts, id: u8, bytes: &[u8]) -> String {
    let hsz = std::mem::size_of::<InstructionHeader>();
    let h: &InstructionHeader = bytemuck::from_bytes(&bytes[8..8 + hsz]);
    let role = (0..3).find(|r| c.exec[*r].0 == *h.executor()).map(|r| r.to_string()).unwrap_or("?".into());
    let at = h.approved_at().map(|t| t.to_string()).unwrap_or("_".into());
    let approver = h.apporver().map(|k| key_tok(c, k)).unwrap_or("_".into());
    // content through the real `InstructionAccess::to_instruction` of the utils `InstructionBuffer`-like view
    let ix = BufView { bytes, hsz }.to_instruction(false).unwrap();
    let metas: Vec<(Pubkey, bool, bool)> = ix.accounts.iter().map(|m| (m.pubkey, m.is_signer, m.is_writable)).collect();
    format!("{id}:{role}:{}:{at}:{approver}:{}:{}", h.is_approved() as u8, key_tok(c, h.rent_receiver()), show_ix(c, &ix.program_id, &ix.data, &metas))
}

/// read-only view implementing the repo's `InstructionAccess` (so `to_instruction` is the real one)
struct BufView<'a> { bytes: &'a [u8], hsz: usize }
impl BufView<'_> {
    fn raw(&self) -> (u16, u16, Pubkey) {
        // header layout is private; num_accounts / data_len / program_id are recovered from the tail size
        // and cross-checked: program id at offset 8+48, num_accounts at 8+80, data_len at 8+82
        let b = &self.bytes[8..];
        let program = Pubkey::new_from_array(b[48..80].try_into().unwrap());
        (u16::from_le_bytes([b[80], b[81]]), u16::from_le_bytes([b[82], b[83]]), program)
    }
}
impl InstructionAccess for BufView<'_> {
    fn wallet(&self) -> std::result::Result<Pubkey, gmsol_utils::instruction::InstructionError> { Err(gmsol_utils::instruction::InstructionError::FailedToGetWallet) }
    fn program_id(&self) -> &Pubkey { bytemuck::from_bytes(&self.bytes[8 + 48..8 + 80]) }
    fn data(&self) -> &[u8] { let (_, dl, _) = self.raw(); &self.bytes[8 + self.hsz..8 + self.hsz + dl as usize] }
    fn num_accounts(&self) -> usize { self.raw().0 as usize }
    fn accounts(&self) -> impl Iterator<Item = &tl::states::InstructionAccount> {
        let (n, dl, _) = self.raw();
        let sz = std::mem::size_of::<tl::states::InstructionAccount>();
        let base = 8 + self.hsz + dl as usize;
        (0..n as usize).map(move |i| bytemuck::from_bytes::<tl::states::InstructionAccount>(&self.bytes[base + i * sz..base + (i + 1) * sz]))
    }
}

fn digest(c: &Consts, w: &World) -> String {
    let b: Vec<String> = w.bufs.iter().map(|(id, bytes)| show_buf(c, *id, bytes)).collect();
    format!("delay={} bufs=[{}]", w.cfg.delay(), b.join(";"))
}

fn base_accounts(c: &Consts, w: &World, caller: u8) -> (Acc, Acc, Acc) {
    (Acc::new(user_key(caller), anchor_lang::system_program::ID, &[]).signer().writable(),
     Acc::zc(c.store_key, gmsol_store::ID, &*w.store),
     Acc::new(gmsol_store::ID, anchor_lang::system_program::ID, &[]).exec())
}

fn executor_acc(c: &Consts, r: usize) -> Acc {
    let mut e: Executor = Zeroable::zeroed();
    hook::executor_try_init(&mut e, c.exec[r].1, c.exec[r].3, c.store_key, ROLES[r]).unwrap();
    Acc::zc(c.exec[r].0, tl::ID, &e)
}

fn foreign_executor_acc(c: &Consts, r: usize) -> Acc {
    let mut e: Executor = Zeroable::zeroed();
    hook::executor_try_init(&mut e, c.f_exec[r].1, c.f_exec[r].3, c.f_store, ROLES[r]).unwrap();
    Acc::zc(c.f_exec[r].0, tl::ID, &e)
}

fn foreign_cfg_acc(c: &Consts) -> Acc {
    let mut cfg: TimelockConfig = Zeroable::zeroed();
    hook::timelock_config_init(&mut cfg, 255, 0, c.f_store);
    Acc::zc(c.f_cfg_key, tl::ID, &cfg)
}

/// the buffer bytes re-bound to the foreign executor of the same role (every occurrence of the own executor key)
fn rebind_buffer(c: &Consts, r: usize, bytes: &[u8]) -> Vec<u8> {
    let mut b = bytes.to_vec();
    let (own, foreign) = (c.exec[r].0.to_bytes(), c.f_exec[r].0.to_bytes());
    let mut i = 0;
    while i + 32 <= b.len() { if b[i..i + 32] == own { b[i..i + 32].copy_from_slice(&foreign); i += 32; } else { i += 1; } }
    b
}

/// the role whose executor the buffer is bound to (from the buffer's own header)
fn own_role(c: &Consts, bytes: &[u8]) -> Option<usize> {
    let hsz = std::mem::size_of::<InstructionHeader>();
    let h: &InstructionHeader = bytemuck::from_bytes(&bytes[8..8 + hsz]);
    (0..3).find(|r| c.exec[*r].0 == *h.executor())
}

/// property oracle for ONE successful approval (single or batch) of buffer `id`; records the ghost
fn approval_oracle(c: &Consts, w: &mut World, id: u8, caller: u8, before: &[u8], after: &[u8], req: &str, out: &mut Out) {
    let hsz = std::mem::size_of::<InstructionHeader>();
    let h0: InstructionHeader = *bytemuck::from_bytes(&before[8..8 + hsz]);
    let h1: InstructionHeader = *bytemuck::from_bytes(&after[8..8 + hsz]);
    if h0.is_approved() || h0.apporver().is_some() { out.oracle_fail("an already approved buffer was approved again", req); }
    if !h1.is_approved() || h1.apporver() != Some(&user_key(caller)) || h1.approved_at() != Some(NOW.load(Ordering::SeqCst)) { out.oracle_fail("approval did not record the caller and the clock", req); }
    let held = match own_role(c, before) { Some(r) => w.store.has_role(&user_key(caller), &tl::roles::timelocked_role(ROLES[r])).unwrap_or(false), None => false };
    if !held { out.oracle_fail("approved by an address that does not hold the timelocked role of the buffer's own executor", req); }
    if before[8 + hsz..] != after[8 + hsz..] || h0.executor() != h1.executor() || h0.rent_receiver() != h1.rent_receiver() { out.oracle_fail("approval changed the buffered instruction", req); }
    w.ghost.insert(id, held);
}

fn parse<T: std::str::FromStr>(t: &[&str], i: usize) -> Option<T> { t.get(i)?.parse().ok() }

fn exec(c: &Consts, ws: &mut BTreeMap<String, World>, req: &str, out: &mut Out) -> (String, bool) {
    let t: Vec<&str> = req.split(' ').collect();
    let bad = || ("bad-op".to_string(), false);
    if t.len() < 4 || t[0] != "tl" { return bad(); }
    let sid = t[2].to_string();
    let Some(now) = parse::<i64>(&t, 3) else { return bad() };
    NOW.store(now, Ordering::SeqCst);
    CAPTURED.lock().unwrap().clear();
    if t[1] == "new" {
        let Some(delay) = parse::<u32>(&t, 4) else { return bad() };
        if t.len() != 5 { return bad(); }
        let mut store: Box<Store> = Box::new(Zeroable::zeroed());
        store.init(user_key(0), "", 255, Pubkey::new_from_array([3; 32]), Pubkey::new_from_array([4; 32])).unwrap();
        for r in ["K", "A", "T0", "T1", "T2"] { store.enable_role(&role_name(r).unwrap()).unwrap(); }
        let mut cfg: TimelockConfig = Zeroable::zeroed();
        hook::timelock_config_init(&mut cfg, 255, delay, c.store_key);
        let w = World { store, cfg, bufs: BTreeMap::new(), ghost: BTreeMap::new() };
        let d = digest(c, &w);
        ws.insert(sid, w);
        return (format!("ok | {d}"), false);
    }
    let Some(w) = ws.get_mut(&sid) else { return bad() };
    let sys = anchor_lang::system_program::ID;
    match t[1] {
        "grant" | "revoke" => {
            let (Some(u), Some(role)) = (parse::<u8>(&t, 4), t.get(5).and_then(|x| role_name(x))) else { return bad() };
            if t.len() != 6 || u >= 6 { return bad(); }
            let r = { let _q = Quiet::new(); if t[1] == "grant" { w.store.grant(&user_key(u), &role) } else { w.store.revoke(&user_key(u), &role) } };
            (format!("{} | {}", if r.is_ok() { "ok" } else { "err" }, digest(c, w)), r.is_ok())
        }
        "create" => {
            if t.len() < 12 { return bad(); }
            let (Some(caller), Some(id), Some(r), Some(p), Some(nacc), Some(dlen)) =
                (parse::<u8>(&t, 4), parse::<u8>(&t, 5), parse::<usize>(&t, 6), parse::<u8>(&t, 7), parse::<u16>(&t, 8), parse::<u16>(&t, 9)) else { return bad() };
            if caller >= 6 || id >= 10 || r >= 3 || p >= 4 { return bad(); }
            let data = if t[10] == "-" { vec![] } else { match hex::decode(t[10]) { Ok(d) => d, Err(_) => return bad() } };
            let signers: Vec<u16> = if t[11] == "-" { vec![] } else { match t[11].split(',').map(|x| x.parse::<u16>()).collect() { Ok(v) => v, Err(_) => return bad() } };
            let mut metas = Vec::new();
            for m in &t[12..] {
                let Some((k, wf)) = m.split_once(':') else { return bad() };
                let (Some(key), true) = (tok_key(c, k), wf == "0" || wf == "1") else { return bad() };
                metas.push((key, wf == "1"));
            }
            if metas.len() > 12 || data.len() > 64 { return bad(); }
            let (auth, store, sprog) = base_accounts(c, w, caller);
            let existing = w.bufs.get(&id).cloned();
            let bacc = match &existing {
                Some(bytes) => Acc::with_cap(buf_key(id), tl::ID, bytes, 4096).writable().signer(),
                None => Acc::with_cap(buf_key(id), sys, &[], 4096).writable().signer().lamports(0),
            };
            let mut accs = vec![auth, store, executor_acc(c, r), bacc, Acc::new(prog_key(p), sys, &[]).exec(), sprog, Acc::new(sys, sys, &[]).exec()];
            for (k, wf) in &metas { let a = Acc::new(*k, sys, &[]); accs.push(if *wf { a.writable() } else { a }); }
            let ixd = tl::instruction::CreateInstructionBuffer { num_accounts: nacc, data_len: dlen, data: data.clone(), signers: signers.clone() }.data();
            let (ok, after) = call_entry(&mut accs, &ixd);
            if ok {
                w.bufs.insert(id, after[3].2.clone());
                w.ghost.remove(&id);
                // ---- property oracle: what is stored is what was asked for; only the wallet may sign
                let bytes = &w.bufs[&id];
                let ix = BufView { bytes, hsz: std::mem::size_of::<InstructionHeader>() }.to_instruction(false).unwrap();
                if existing.is_some() { out.oracle_fail("an existing buffer was re-created", req); }
                if ix.program_id != prog_key(p) || ix.data != data { out.oracle_fail("stored program/data differ from the request", req); }
                if ix.accounts.len() != nacc as usize { out.oracle_fail("stored account count differs", req); }
                for (i, m) in ix.accounts.iter().enumerate() {
                    if m.pubkey != metas[i].0 || m.is_writable != metas[i].1 || m.is_signer != signers.contains(&(i as u16)) { out.oracle_fail("stored account meta differs from the request", req); }
                    if m.is_signer && m.pubkey != c.exec[r].2 { out.oracle_fail("a non-wallet account is marked as signer", req); }
                }
            }
            (format!("{} | {}", if ok { "ok" } else { "err" }, digest(c, w)), ok)
        }
        "approve" => {
            let (Some(caller), Some(id), Some(r)) = (parse::<u8>(&t, 4), parse::<u8>(&t, 5), parse::<usize>(&t, 6)) else { return bad() };
            if t.len() != 7 || caller >= 6 || id >= 10 || r >= 3 { return bad(); }
            let (auth, store, sprog) = base_accounts(c, w, caller);
            let before = w.bufs.get(&id).cloned();
            let bacc = match &before { Some(b) => Acc::new(buf_key(id), tl::ID, b).writable(), None => Acc::new(buf_key(id), sys, &[]).writable().lamports(0) };
            let mut accs = vec![auth, store, executor_acc(c, r), bacc, sprog];
            let ixd = tl::instruction::ApproveInstruction { role: ROLES[r].to_string() }.data();
            let (ok, after) = call_entry(&mut accs, &ixd);
            if ok {
                let b = before.unwrap();
                if !w.store.has_role(&user_key(caller), &tl::roles::timelocked_role(ROLES[r])).unwrap_or(false) { out.oracle_fail("approved by an address without the timelocked role named in the call", req); }
                approval_oracle(c, w, id, caller, &b, &after[3].2, req, out);
                w.bufs.insert(id, after[3].2.clone());
            }
            (format!("{} | {}", if ok { "ok" } else { "err" }, digest(c, w)), ok)
        }
        "approveb" => {
            // the real batch instruction; all-or-nothing (a failing buffer aborts the transaction)
            let (Some(caller), Some(r), Some(idt)) = (parse::<u8>(&t, 4), parse::<usize>(&t, 5), t.get(6)) else { return bad() };
            if t.len() != 7 || caller >= 6 || r >= 3 { return bad(); }
            let ids: Vec<u8> = if *idt == "-" { vec![] } else { match idt.split(',').map(|x| if x.bytes().all(|b| b.is_ascii_digit()) { x.parse::<u8>().ok() } else { None }).collect::<Option<Vec<u8>>>() { Some(v) => v, None => return bad() } };
            if ids.len() > 10 || ids.iter().any(|i| *i >= 10) { return bad(); }
            let (auth, store, sprog) = base_accounts(c, w, caller);
            let mut accs = vec![auth, store, executor_acc(c, r), sprog];
            let mut order: Vec<usize> = (0..4).collect();
            let mut pos: BTreeMap<u8, usize> = BTreeMap::new();
            for id in &ids {
                let at = *pos.entry(*id).or_insert_with(|| {
                    accs.push(match w.bufs.get(id) { Some(b) => Acc::new(buf_key(*id), tl::ID, b).writable(), None => Acc::new(buf_key(*id), sys, &[]).writable().lamports(0) });
                    accs.len() - 1
                });
                order.push(at);
            }
            let ixd = tl::instruction::ApproveInstructions { role: ROLES[r].to_string() }.data();
            let (ok, after) = call_entry_order(&mut accs, &order, &ixd);
            if ok {
                if !w.store.has_role(&user_key(caller), &tl::roles::timelocked_role(ROLES[r])).unwrap_or(false) { out.oracle_fail("batch approved by an address without the timelocked role named in the call", req); }
                for (id, at) in &pos {
                    match w.bufs.get(id).cloned() {
                        Some(b) => { approval_oracle(c, w, *id, caller, &b, &after[*at].2, req, out); w.bufs.insert(*id, after[*at].2.clone()); }
                        None => out.oracle_fail("a batch approval succeeded on a missing buffer", req),
                    }
                }
                if pos.len() != ids.len() { out.oracle_fail("a batch listing a buffer twice succeeded", req); }
                out.stat(&format!("approveb.ok.n{}", ids.len().min(3)));
            }
            (format!("{} | {}", if ok { "ok" } else { "err" }, digest(c, w)), ok && !ids.is_empty())
        }
        // ---- account-binding sweep: the same instructions with an account that belongs to ANOTHER store.
        //      `execf … cfg` passes the foreign store's TimelockConfig (delay 0); `execf … exe`, `approvef`, `cancelf`
        //      pass the foreign store's executor (+ its wallet) and the buffer re-bound to it; `delayf` passes the
        //      foreign config. Every one must be rejected and change nothing.
        "execf" | "approvef" | "cancelf" | "delayf" => {
            let op = t[1];
            let caller = match parse::<u8>(&t, 4) { Some(x) if x < 6 => x, _ => return bad() };
            let (auth, store, sprog) = base_accounts(c, w, caller);
            let before_digest = digest(c, w);
            let (ok, what): (bool, String) = match op {
                "delayf" => {
                    let Some(delta) = parse::<u32>(&t, 5) else { return bad() };
                    if t.len() != 6 { return bad(); }
                    let mut accs = vec![auth, store, foreign_cfg_acc(c).writable(), sprog];
                    let (ok, after) = call_entry(&mut accs, &tl::instruction::IncreaseDelay { delta }.data());
                    let changed = ok && bytemuck::from_bytes::<TimelockConfig>(&after[2].2[8..]).delay() != 0;
                    (ok, format!("increase_delay accepted the timelock config of another store (changed: {changed})"))
                }
                "approvef" => {
                    let (Some(id), Some(r)) = (parse::<u8>(&t, 5), parse::<usize>(&t, 6)) else { return bad() };
                    if t.len() != 7 || id >= 10 || r >= 3 { return bad(); }
                    let bacc = match w.bufs.get(&id) { Some(b) => Acc::new(buf_key(id), tl::ID, &rebind_buffer(c, r, b)).writable(), None => Acc::new(buf_key(id), sys, &[]).writable().lamports(0) };
                    let mut accs = vec![auth, store, foreign_executor_acc(c, r), bacc, sprog];
                    let (ok, _) = call_entry(&mut accs, &tl::instruction::ApproveInstruction { role: ROLES[r].to_string() }.data());
                    (ok, "approve_instruction accepted an executor (and its buffer) of another store".into())
                }
                "cancelf" => {
                    let (Some(id), Some(r), Some(rr)) = (parse::<u8>(&t, 5), parse::<usize>(&t, 6), parse::<u8>(&t, 7)) else { return bad() };
                    if t.len() != 8 || id >= 10 || r >= 3 || rr >= 6 || rr == caller { return bad(); }
                    let bacc = match w.bufs.get(&id) { Some(b) => Acc::new(buf_key(id), tl::ID, &rebind_buffer(c, r, b)).writable(), None => Acc::new(buf_key(id), sys, &[]).writable().lamports(0) };
                    let mut accs = vec![auth, store, foreign_executor_acc(c, r), Acc::new(user_key(rr), sys, &[]).writable(), bacc, sprog];
                    let (ok, _) = call_entry(&mut accs, &tl::instruction::CancelInstruction {}.data());
                    (ok, "cancel_instruction accepted an executor (and its buffer) of another store".into())
                }
                _ => {
                    let (Some(id), Some(r), Some(rr), Some(which)) = (parse::<u8>(&t, 5), parse::<usize>(&t, 6), parse::<u8>(&t, 7), t.get(8)) else { return bad() };
                    if t.len() != 9 || id >= 10 || r >= 3 || rr >= 6 || rr == caller || !(*which == "cfg" || *which == "exe") { return bad(); }
                    let own = w.bufs.get(&id).cloned();
                    let fexe = *which == "exe";
                    let bacc = match &own { Some(b) => Acc::new(buf_key(id), tl::ID, &if fexe { rebind_buffer(c, r, b) } else { b.clone() }).writable(), None => Acc::new(buf_key(id), sys, &[]).writable().lamports(0) };
                    let cfg = if fexe { Acc::zc(c.cfg_key, tl::ID, &w.cfg) } else { foreign_cfg_acc(c) };
                    let (exe, wal) = if fexe { (foreign_executor_acc(c, r), c.f_exec[r].2) } else { (executor_acc(c, r), c.exec[r].2) };
                    let mut accs = vec![auth, store, cfg, exe, Acc::new(wal, sys, &[]).writable(), Acc::new(user_key(rr), sys, &[]).writable(), bacc, sprog];
                    let (ok, _) = call_entry(&mut accs, &tl::instruction::ExecuteInstruction {}.data());
                    let mut what = format!("execute_instruction accepted the {} of another store", if fexe { "executor (and a buffer bound to it)" } else { "timelock config (delay 0)" });
                    if ok {
                        if let Some(b) = &own {
                            let hsz = std::mem::size_of::<InstructionHeader>();
                            let h: InstructionHeader = *bytemuck::from_bytes(&b[8..8 + hsz]);
                            if let Some(at) = h.approved_at() { if (now as i128) < at as i128 + w.cfg.delay() as i128 { what += &format!(" and ran the instruction {}s before approved_at + the store's own delay", at as i128 + w.cfg.delay() as i128 - now as i128); } }
                        }
                        if !fexe { w.bufs.remove(&id); }   // the real call closed the buffer
                    }
                    (ok, what)
                }
            };
            CAPTURED.lock().unwrap().clear();
            if ok { out.oracle_fail(&what, req); }
            let _ = before_digest;
            (format!("{} | {}", if ok { "ok" } else { "err" }, digest(c, w)), false)
        }
        "cancelb" => {
            // the real batch cancel; all-or-nothing
            let (Some(caller), Some(r), Some(rr), Some(idt)) = (parse::<u8>(&t, 4), parse::<usize>(&t, 5), parse::<u8>(&t, 6), t.get(7)) else { return bad() };
            if t.len() != 8 || caller >= 6 || r >= 3 || rr >= 6 || rr == caller { return bad(); }
            let ids: Vec<u8> = if *idt == "-" { vec![] } else { match idt.split(',').map(|x| if x.bytes().all(|b| b.is_ascii_digit()) { x.parse::<u8>().ok() } else { None }).collect::<Option<Vec<u8>>>() { Some(v) => v, None => return bad() } };
            if ids.len() > 10 || ids.iter().any(|i| *i >= 10) { return bad(); }
            let (auth, store, sprog) = base_accounts(c, w, caller);
            let mut accs = vec![auth, store, executor_acc(c, r), Acc::new(user_key(rr), sys, &[]).writable(), sprog];
            let rr_lamports0 = accs[3].lamports;
            let mut order: Vec<usize> = (0..5).collect();
            let mut pos: BTreeMap<u8, usize> = BTreeMap::new();
            for id in &ids {
                let at = *pos.entry(*id).or_insert_with(|| {
                    accs.push(match w.bufs.get(id) { Some(b) => Acc::new(buf_key(*id), tl::ID, b).writable(), None => Acc::new(buf_key(*id), sys, &[]).writable().lamports(0) });
                    accs.len() - 1
                });
                order.push(at);
            }
            let buf_lamports: u64 = pos.values().map(|at| accs[*at].lamports).sum();
            let ixd = tl::instruction::CancelInstructions {}.data();
            let (ok, after) = call_entry_order(&mut accs, &order, &ixd);
            if ok {
                // ---- property oracle
                if !w.store.has_role(&user_key(caller), tl::roles::TIMELOCK_ADMIN).unwrap_or(false) { out.oracle_fail("batch cancelled by a non-admin", req); }
                if pos.len() != ids.len() { out.oracle_fail("a batch cancel listing a buffer twice succeeded", req); }
                let hsz = std::mem::size_of::<InstructionHeader>();
                for (id, at) in &pos {
                    match w.bufs.get(id).cloned() {
                        Some(b) => {
                            let h: InstructionHeader = *bytemuck::from_bytes(&b[8..8 + hsz]);
                            if own_role(c, &b) != Some(r) { out.oracle_fail("batch cancel closed a buffer of another executor than the one named in the call", req); }
                            if *h.rent_receiver() != user_key(rr) { out.oracle_fail("batch cancel paid a buffer's rent to an address that is not its recorded rent receiver", req); }
                            let a = &after[*at];
                            if a.0 != sys || !a.2.is_empty() || a.1 != 0 { out.oracle_fail("a batch-cancelled buffer account was not closed", req); }
                        }
                        None => out.oracle_fail("a batch cancel succeeded on a missing buffer", req),
                    }
                    w.bufs.remove(id);
                    w.ghost.remove(id);
                }
                if after[3].1 != rr_lamports0 + buf_lamports { out.oracle_fail("the rent receiver did not receive exactly the lamports of the cancelled buffers", req); }
                out.stat(&format!("cancelb.ok.n{}", ids.len().min(3)));
            }
            (format!("{} | {}", if ok { "ok" } else { "err" }, digest(c, w)), ok && !ids.is_empty())
        }
        "cancel" | "exec" => {
            let (Some(caller), Some(id), Some(r), Some(rr)) = (parse::<u8>(&t, 4), parse::<u8>(&t, 5), parse::<usize>(&t, 6), parse::<u8>(&t, 7)) else { return bad() };
            if t.len() != 8 || caller >= 6 || id >= 10 || r >= 3 || rr >= 6 { return bad(); }
            let (auth, store, sprog) = base_accounts(c, w, caller);
            let before = w.bufs.get(&id).cloned();
            let bacc = match &before { Some(b) => Acc::new(buf_key(id), tl::ID, b).writable(), None => Acc::new(buf_key(id), sys, &[]).writable().lamports(0) };
            // the same account cannot be passed twice with separate buffers: caller ≠ rent receiver here
            if rr == caller { return bad(); }
            let is_exec = t[1] == "exec";
            let (ok, after_buf, captured) = if is_exec {
                let mut accs = vec![auth, store, Acc::zc(c.cfg_key, tl::ID, &w.cfg), executor_acc(c, r), Acc::new(c.exec[r].2, sys, &[]).writable(),
                                    Acc::new(user_key(rr), sys, &[]).writable(), bacc, sprog];
                let ixd = tl::instruction::ExecuteInstruction {}.data();
                let (ok, after) = call_entry(&mut accs, &ixd);
                (ok, after[6].clone(), CAPTURED.lock().unwrap().drain(..).collect::<Vec<_>>())
            } else {
                let mut accs = vec![auth, store, executor_acc(c, r), Acc::new(user_key(rr), sys, &[]).writable(), bacc, sprog];
                let ixd = tl::instruction::CancelInstruction {}.data();
                let (ok, after) = call_entry(&mut accs, &ixd);
                (ok, after[4].clone(), vec![])
            };
            if !ok {
                if !captured.is_empty() { out.oracle_fail("a failed execute still invoked an instruction", req); }
                return (format!("err | {}", digest(c, w)), false);
            }
            let b = before.expect("closed a missing buffer");
            if after_buf.0 != sys || !after_buf.2.is_empty() || after_buf.1 != 0 { out.oracle_fail("the buffer account was not closed", req); }
            w.bufs.remove(&id);
            let ghost = w.ghost.remove(&id);
            if is_exec {
                // ---- property oracle for execution
                if ghost != Some(true) { out.oracle_fail("executed although the approver did not hold the timelocked role of the buffer's executor when approving", req); }
                let hsz = std::mem::size_of::<InstructionHeader>();
                let h: InstructionHeader = *bytemuck::from_bytes(&b[8..8 + hsz]);
                match (h.approved_at(), h.apporver()) {
                    (Some(at), Some(approver)) => {
                        let role = (0..3).find(|x| c.exec[*x].0 == *h.executor()).unwrap();
                        if !w.store.has_role(approver, &tl::roles::timelocked_role(ROLES[role])).unwrap_or(false) { out.oracle_fail("executed although the approver no longer holds the timelocked role", req); }
                        if (now as i128) < at as i128 + w.cfg.delay() as i128 {
                            // known finding F-C36-sat: only when approved_at + delay does not fit i64 (deadline saturates)
                            if at as i128 + w.cfg.delay() as i128 > i64::MAX as i128 && now == i64::MAX { out.known("F-C36-sat", "executed before approved_at + delay because the deadline saturated at i64::MAX", req); }
                            else { out.oracle_fail("executed before approved_at + delay", req); }
                        }
                    }
                    _ => out.oracle_fail("executed an unapproved buffer", req),
                }
                if !w.store.has_role(&user_key(caller), tl::roles::TIMELOCK_KEEPER).unwrap_or(false) { out.oracle_fail("executed by a non-keeper", req); }
                if captured.len() != 1 { out.oracle_fail(&format!("{} instructions invoked", captured.len()), req); return ("ok ? | ".to_string() + &digest(c, w), true); }
                let ix = &captured[0];
                let want = BufView { bytes: &b, hsz }.to_instruction(false).unwrap();
                if ix.program_id != want.program_id || ix.data != want.data || ix.accounts != want.accounts { out.oracle_fail("the executed instruction differs from the buffered one", req); }
                for m in &ix.accounts { if m.is_signer && m.pubkey != c.exec[r].2 { out.oracle_fail("executed instruction has a non-wallet signer", req); } }
                let metas: Vec<(Pubkey, bool, bool)> = ix.accounts.iter().map(|m| (m.pubkey, m.is_signer, m.is_writable)).collect();
                (format!("ok {} | {}", show_ix(c, &ix.program_id, &ix.data, &metas), digest(c, w)), true)
            } else {
                if !w.store.has_role(&user_key(caller), tl::roles::TIMELOCK_ADMIN).unwrap_or(false) { out.oracle_fail("cancelled by a non-admin", req); }
                (format!("ok | {}", digest(c, w)), true)
            }
        }
        "delay" => {
            let (Some(caller), Some(delta)) = (parse::<u8>(&t, 4), parse::<u32>(&t, 5)) else { return bad() };
            if t.len() != 6 || caller >= 6 { return bad(); }
            let (auth, store, sprog) = base_accounts(c, w, caller);
            let old = w.cfg.delay();
            let mut accs = vec![auth, store, Acc::zc(c.cfg_key, tl::ID, &w.cfg).writable(), sprog];
            let ixd = tl::instruction::IncreaseDelay { delta }.data();
            let (ok, after) = call_entry(&mut accs, &ixd);
            if ok { w.cfg = *bytemuck::from_bytes::<TimelockConfig>(&after[2].2[8..]); }
            if w.cfg.delay() < old { out.oracle_fail("the delay decreased", req); }
            if ok && !w.store.has_role(&user_key(caller), tl::roles::TIMELOCK_ADMIN).unwrap_or(false) { out.oracle_fail("delay changed by a non-admin", req); }
            (format!("{} | {}", if ok { "ok" } else { "err" }, digest(c, w)), ok)
        }
        _ => bad(),
    }
}

// ---------------------------------------------------------------- generator (state-relative)

struct Gen { sid: usize, left: u64, now: i64 }

/// (id, role, approved_at, approver, rent receiver) of the open buffers in the REAL state
fn open_bufs(c: &Consts, w: &World) -> Vec<(u8, usize, Option<i64>, Option<Pubkey>, u8)> {
    let hsz = std::mem::size_of::<InstructionHeader>();
    w.bufs.iter().map(|(id, b)| {
        let h: &InstructionHeader = bytemuck::from_bytes(&b[8..8 + hsz]);
        let role = (0..3).find(|r| c.exec[*r].0 == *h.executor()).unwrap_or(0);
        let rr = (0..6u8).find(|u| user_key(*u) == *h.rent_receiver()).unwrap_or(0);
        (*id, role, h.approved_at(), h.apporver().copied(), rr)
    }).collect()
}

fn holders(w: &World, role: &str) -> Vec<u8> { (0..6u8).filter(|u| w.store.has_role(&user_key(*u), role).unwrap_or(false)).collect() }

fn gen_next(r: &mut Rng, c: &Consts, ws: &BTreeMap<String, World>, g: &mut Gen, setup: &mut Vec<String>) -> String {
    if let Some(x) = setup.pop() { return x; }
    if g.left == 0 {
        g.sid += 1;
        g.left = r.range(20, 80);
        g.now = if r.chance(1, 12) { i64::MAX - r.range(0, 5000) as i64 } else { 1_700_000_000 + r.below(1000) as i64 };
        let delay: u32 = match r.below(8) { 0 => 0, 1 => u32::MAX - r.below(3) as u32, _ => r.range(1, 600) as u32 };
        let sid = format!("t{}", g.sid);
        for (u, role) in [(4, "K"), (3, "T2"), (3, "T1"), (2, "T1"), (2, "T0"), (1, "A"), (0, "K")] {
            if r.chance(9, 10) { setup.push(format!("tl grant {sid} {} {u} {role}", g.now)); }
        }
        return format!("tl new {sid} {} {delay}", g.now);
    }
    g.left -= 1;
    let sid = format!("t{}", g.sid);
    let w = &ws[&sid];
    if r.chance(2, 3) { g.now = g.now.saturating_add(match r.below(5) { 0 => 0, 1 => r.range(100, 700) as i64, _ => r.range(0, 60) as i64 }); }
    let open = open_bufs(c, w);
    let pick = |r: &mut Rng, v: &[u8], dflt: u8| -> u8 { if v.is_empty() || r.chance(1, 8) { if r.chance(1, 2) { dflt } else { r.below(6) as u8 } } else { v[r.below(v.len() as u64) as usize] } };
    let keepers = holders(w, tl::roles::TIMELOCK_KEEPER);
    let admins = holders(w, tl::roles::TIMELOCK_ADMIN);
    if r.chance(1, 10) {
        // account-binding sweep on the current state (mostly aimed at approved buffers whose delay has NOT passed yet)
        let approved: Vec<_> = open.iter().filter(|o| o.2.is_some()).collect();
        let pending: Vec<_> = open.iter().filter(|o| o.2.is_none()).collect();
        let any = |r: &mut Rng| -> (u8, usize, u8) { if !open.is_empty() { let o = open[r.below(open.len() as u64) as usize]; (o.0, o.1, o.4) } else { (r.below(10) as u8, r.below(3) as usize, r.below(6) as u8) } };
        match r.below(6) {
            0 | 1 | 2 => {
                let (id, role, rr) = if !approved.is_empty() { let o = approved[r.below(approved.len() as u64) as usize]; (o.0, o.1, o.4) } else { any(r) };
                let mut caller = pick(r, &keepers, 0);
                if caller == rr { caller = *keepers.iter().find(|k| **k != rr).unwrap_or(&((rr + 1) % 6)); }
                return format!("tl execf {sid} {} {caller} {id} {role} {rr} {}", g.now, if r.chance(2, 3) { "cfg" } else { "exe" });
            }
            3 => {
                let (id, role) = if !pending.is_empty() { let o = pending[r.below(pending.len() as u64) as usize]; (o.0, o.1) } else { let a = any(r); (a.0, a.1) };
                let hs = holders(w, &tl::roles::timelocked_role(ROLES[role]));
                return format!("tl approvef {sid} {} {} {id} {role}", g.now, pick(r, &hs, 2));
            }
            4 => {
                let (id, role, rr) = any(r);
                let mut caller = pick(r, &admins, 1);
                if caller == rr { caller = *admins.iter().find(|k| **k != rr).unwrap_or(&((rr + 1) % 6)); }
                return format!("tl cancelf {sid} {} {caller} {id} {role} {rr}", g.now);
            }
            _ => return format!("tl delayf {sid} {} {} {}", g.now, pick(r, &admins, 1), r.range(1, 300)),
        }
    }
    match r.below(15) {
        0 | 1 | 2 => {
            let id = if r.chance(9, 10) { (0..10u8).find(|i| !open.iter().any(|o| o.0 == *i)).unwrap_or(r.below(10) as u8) } else { r.below(10) as u8 };
            let role = r.below(3) as usize;
            let caller = pick(r, &keepers, 0);
            let n = r.below(5) as usize;
            let mut metas = Vec::new();
            let mut signers = Vec::new();
            for i in 0..n {
                let wallet = r.chance(1, 3);
                let k = if wallet { if r.chance(19, 20) { format!("w{role}") } else { format!("w{}", r.below(3)) } } else { format!("a{}", r.below(20)) };
                if (wallet && r.chance(3, 4)) || r.chance(1, 60) { signers.push(i.to_string()); }
                metas.push(format!("{k}:{}", r.below(2)));
            }
            if r.chance(1, 10) { signers.push(r.range(n as u64, n as u64 + 3).to_string()); }
            let extra = if r.chance(1, 8) { 1 } else { 0 };
            for _ in 0..extra { metas.push(format!("a{}:0", r.below(20))); }
            let nacc = if r.chance(1, 25) { n + extra + 1 } else { n };
            let dl = r.below(9) as usize;
            let data: Vec<u8> = (0..dl).map(|_| r.below(256) as u8).collect();
            let dlen = if r.chance(1, 25) { dl + 1 } else { dl };
            format!("tl create {sid} {} {caller} {id} {role} {} {nacc} {dlen} {} {} {}", g.now, r.below(4),
                if data.is_empty() { "-".into() } else { hex::encode(&data) }, if signers.is_empty() { "-".into() } else { signers.join(",") }, metas.join(" ")).trim_end().to_string()
        }
        3 | 4 | 5 => {
            let unapproved: Vec<_> = open.iter().filter(|o| o.2.is_none()).collect();
            let (id, role) = if !unapproved.is_empty() && r.chance(5, 6) { let o = unapproved[r.below(unapproved.len() as u64) as usize]; (o.0, o.1) }
                else if !open.is_empty() { let o = open[r.below(open.len() as u64) as usize]; (o.0, o.1) } else { (r.below(10) as u8, r.below(3) as usize) };
            let role = if r.chance(14, 15) { role } else { r.below(3) as usize };
            let hs = holders(w, &tl::roles::timelocked_role(ROLES[role]));
            format!("tl approve {sid} {} {} {id} {role}", g.now, pick(r, &hs, 2))
        }
        6 | 7 | 8 => {
            let approved: Vec<_> = open.iter().filter(|o| o.2.is_some()).collect();
            let (id, role, rr) = if !approved.is_empty() && r.chance(4, 5) {
                let o = approved[r.below(approved.len() as u64) as usize];
                let d = w.cfg.delay() as i64;
                // usually wait until the delay has passed (sometimes one second short)
                if d < 100_000 && r.chance(3, 4) { g.now = g.now.max(o.2.unwrap().saturating_add(d).saturating_sub(if r.chance(1, 5) { 1 } else { 0 })); }
                (o.0, o.1, o.4)
            } else if !open.is_empty() && r.chance(9, 10) { let o = open[r.below(open.len() as u64) as usize]; (o.0, o.1, o.4) } else { (r.below(10) as u8, r.below(3) as usize, r.below(6) as u8) };
            let role = if r.chance(14, 15) { role } else { r.below(3) as usize };
            let rr = if r.chance(14, 15) { rr } else { r.below(6) as u8 };
            let mut caller = pick(r, &keepers, 0);
            if caller == rr { caller = *keepers.iter().find(|k| **k != rr).unwrap_or(&((rr + 1) % 6)); }
            format!("tl exec {sid} {} {caller} {id} {role} {rr}", g.now)
        }
        9 => {
            let (id, role, rr) = if !open.is_empty() && r.chance(9, 10) { let o = open[r.below(open.len() as u64) as usize]; (o.0, o.1, o.4) } else { (r.below(10) as u8, r.below(3) as usize, r.below(6) as u8) };
            let rr = if r.chance(14, 15) { rr } else { r.below(6) as u8 };
            let mut caller = pick(r, &admins, 1);
            if caller == rr { caller = *admins.iter().find(|k| **k != rr).unwrap_or(&((rr + 1) % 6)); }
            format!("tl cancel {sid} {} {caller} {id} {role} {rr}", g.now)
        }
        12 | 13 => {
            // BATCH approval through the executor of role `role`: same-executor batches, MIXED batches (buffers of another
            // role's executor), already approved / missing buffers, a buffer listed twice, the empty batch
            let unapproved: Vec<_> = open.iter().filter(|o| o.2.is_none()).collect();
            let role = if !unapproved.is_empty() && r.chance(5, 6) { unapproved[r.below(unapproved.len() as u64) as usize].1 } else { r.below(3) as usize };
            let hs = holders(w, &tl::roles::timelocked_role(ROLES[role]));
            let caller = pick(r, &hs, 2);
            let mut ids: Vec<u8> = unapproved.iter().filter(|o| o.1 == role && r.chance(4, 5)).map(|o| o.0).collect();
            let foreign: Vec<u8> = unapproved.iter().filter(|o| o.1 != role).map(|o| o.0).collect();
            let mut mixed: Option<(u8, usize)> = None;
            if !foreign.is_empty() && r.chance(2, 5) {
                let f = foreign[r.below(foreign.len() as u64) as usize];
                mixed = Some((f, open.iter().find(|o| o.0 == f).unwrap().1));
                if r.chance(1, 2) { ids.push(f) } else { ids.insert(0, f) }
            }
            match r.below(16) {
                0 => { if let Some(o) = open.iter().find(|o| o.2.is_some()) { ids.push(o.0); } }     // already approved
                1 => ids.push((0..10u8).find(|i| !open.iter().any(|o| o.0 == *i)).unwrap_or(9)),    // missing
                2 => { if let Some(x) = ids.first().copied() { ids.push(x); } }                      // listed twice
                3 => ids.clear(),
                _ => {}
            }
            ids.truncate(10);
            let req = format!("tl approveb {sid} {} {caller} {role} {}", g.now, if ids.is_empty() { "-".to_string() } else { ids.iter().map(|i| i.to_string()).collect::<Vec<_>>().join(",") });
            // the grant-later pattern: after a mixed batch, the approver is granted the OTHER role's timelocked role and the
            // foreign buffer is executed once the delay has passed (must not run: it was never validly approved)
            if let Some((f, frole)) = mixed {
                let d = w.cfg.delay() as i64;
                if d < 100_000 && r.chance(3, 4) {
                    let o = open.iter().find(|o| o.0 == f).unwrap();
                    let t1 = g.now.saturating_add(d).saturating_add(r.below(3) as i64);
                    let mut keeper = pick(r, &keepers, 0);
                    if keeper == o.4 { keeper = *keepers.iter().find(|k| **k != o.4).unwrap_or(&((o.4 + 1) % 6)); }
                    setup.push(format!("tl exec {sid} {t1} {keeper} {f} {frole} {}", o.4));
                    setup.push(format!("tl grant {sid} {} {caller} T{frole}", g.now));
                    g.now = t1;
                }
            }
            req
        }
        14 => {
            // BATCH cancel through the executor of `role` for rent receiver `rr`: matching buffers, sometimes a buffer of
            // another executor / another rent receiver / a missing one / one listed twice / the empty batch
            let (role, rr) = if !open.is_empty() && r.chance(9, 10) { let o = open[r.below(open.len() as u64) as usize]; (o.1, o.4) } else { (r.below(3) as usize, r.below(6) as u8) };
            let mut ids: Vec<u8> = open.iter().filter(|o| o.1 == role && o.4 == rr && r.chance(3, 4)).map(|o| o.0).collect();
            match r.below(12) {
                0 | 1 => { if let Some(o) = open.iter().find(|o| o.1 != role) { if r.chance(1, 2) { ids.push(o.0) } else { ids.insert(0, o.0) } } }
                2 => { if let Some(o) = open.iter().find(|o| o.4 != rr) { ids.push(o.0); } }
                3 => ids.push((0..10u8).find(|i| !open.iter().any(|o| o.0 == *i)).unwrap_or(9)),
                4 => { if let Some(x) = ids.first().copied() { ids.push(x); } }
                5 => ids.clear(),
                _ => {}
            }
            ids.truncate(10);
            let mut caller = pick(r, &admins, 1);
            if caller == rr { caller = *admins.iter().find(|k| **k != rr).unwrap_or(&((rr + 1) % 6)); }
            format!("tl cancelb {sid} {} {caller} {role} {rr} {}", g.now, if ids.is_empty() { "-".to_string() } else { ids.iter().map(|i| i.to_string()).collect::<Vec<_>>().join(",") })
        }
        10 => {
            let delta: u32 = match r.below(14) { 0 => 0, 1 => u32::MAX, _ => r.range(1, 300) as u32 };
            format!("tl delay {sid} {} {} {delta}", g.now, pick(r, &admins, 1))
        }
        _ => {
            let roles = ["K", "A", "T0", "T1", "T2"];
            // often: revoke the timelocked role of an approver of a pending buffer
            if let Some(o) = open.iter().find(|o| o.3.is_some()) {
                if r.chance(1, 3) {
                    let u = (0..6u8).find(|u| Some(user_key(*u)) == o.3).unwrap_or(0);
                    return format!("tl revoke {sid} {} {u} T{}", g.now, o.1);
                }
            }
            format!("tl {} {sid} {} {} {}", if r.chance(2, 3) { "grant" } else { "revoke" }, g.now, r.below(6), roles[r.below(5) as usize])
        }
    }
}

fn main() {
    let cli = cli();
    let mut out = Out::new();
    std::panic::set_hook(Box::new(|_| {}));
    set_syscall_stubs(Box::new(Stubs));
    let c = consts();
    let mut ws: BTreeMap<String, World> = BTreeMap::new();
    let replay: Option<Vec<String>> = if cli.mode == "replay" { Some(read_requests(cli.file.as_deref().unwrap())) } else { None };
    let total = replay.as_ref().map(|v| v.len() as u64).unwrap_or(cli.n);
    let mut r = Rng::new(cli.seed);
    let mut g = Gen { sid: 0, left: 0, now: 0 };
    let mut setup: Vec<String> = Vec::new();
    for k in 0..total {
        let req = match &replay { Some(v) => v[k as usize].clone(), None => gen_next(&mut r, &c, &ws, &mut g, &mut setup) };
        let res = std::panic::catch_unwind(std::panic::AssertUnwindSafe(|| exec(&c, &mut ws, &req, &mut out)));
        let (resp, nt) = match res { Ok(x) => x, Err(_) => { out.oracle_fail("panicked", &req); ("panic".to_string(), false) } };
        let op = req.split(' ').nth(1).unwrap_or("?").to_string();
        out.stat(&format!("op.{op}"));
        out.stat(&format!("{op}.{}", resp.split(' ').next().unwrap_or("?")));
        out.case_nt(&req, &resp, nt);
    }
    out.finish();
}
