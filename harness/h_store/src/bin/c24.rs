//! C24 correspondence + oracle: the real `PriceValidator` (`validate_one`, `merge_range`,
//! `finish`), `SmallPrices::from_price` / `PriceMap::set`, `Oracle::{update_oracle_ts_and_slot,
//! clear_all_prices}` and (for adjustable tokens) `try_adjust_price`, through verif-hooks c24/c29,
//! with the stubbed clock. The loop of `set_prices_from_remaining_accounts` and the clear-on-both-
//! paths of `with_prices_opts` are replayed in the order the translator
//! (`translator/gen_c24_shapes.py`) extracts from the source.
use anchor_lang::error::Error as AErr;
use anchor_lang::prelude::Pubkey;
use bytemuck::Zeroable;
use anchor_lang::prelude::{AccountInfo, AccountLoader};
use anchor_lang::Discriminator;
use gmsol_store::states::{Oracle, PriceFeed, PriceFeedPrice, PriceProviderKind, PriceValidator, Store, TokenConfig, TokenMapAccessMut, TokenMapHeader, TokenMapLoader};
use gmsol_store::verif::{c24, c29};
use gmsol_utils::price::Decimal;
use gmsol_utils::token_config::FeedConfig;
use gmsol_utils::Price;
use hcommon::*;
use num_bigint::{BigInt, BigUint};

const UNIT: u128 = 100_000_000_000_000_000_000;
const RATIO_MULT: u128 = 1_000_000_000_000;

fn err(e: &AErr) -> String {
    let name = match e {
        AErr::AnchorError(a) => a.error_name.clone(),
        AErr::ProgramError(p) => format!("{:?}", p.program_error),
    };
    match name.as_str() {
        "TokenAmountOverflow" => "err Overflow".into(),
        "MaxPriceAgeExceeded" => "err MaxAge".into(),
        "MaxPriceTimestampExceeded" => "err Future".into(),
        "InvalidArgument" => "err Arg".into(),
        "InvalidPriceFeedPrice" => "err Deviation".into(),
        "MaxOracleTimestampsRangeExceeded" => "err Range".into(),
        "InvalidOracleTimestampsRange" => "err InvalidRange".into(),
        "NotFound" => "err NotFound".into(),
        "PricesAreAlreadySet" => "err PricesSet".into(),
        "TokenConfigDisabled" => "err Disabled".into(),
        "RequireEqViolated" => "err Provider".into(),
        "InvalidPriceFeedAccount" => "err Feed".into(),
        "MismatchedFeedId" => "err Feed".into(),
        "AccountOwnedByWrongProgram" => "err Feed".into(),
        o => format!("err Other({o})"),
    }
}

fn boxed<T: bytemuck::Pod>() -> Box<T> {
    // zero-copy accounts can be large: allocate zeroed on the heap
    let layout = std::alloc::Layout::new::<T>();
    unsafe { Box::from_raw(std::alloc::alloc_zeroed(layout) as *mut T) }
}

fn validator(now: i64, max_age: u64, max_range: u64, max_future: u64) -> PriceValidator {
    h_store::set_now(now);
    let mut store: Box<Store> = boxed();
    *store.get_amount_mut("oracle_max_age").unwrap() = max_age;
    *store.get_amount_mut("oracle_max_timestamp_range").unwrap() = max_range;
    *store.get_amount_mut("oracle_max_future_timestamp_excess").unwrap() = max_future;
    PriceValidator::try_from(&*store).expect("validator")
}

struct FeedIn { token: u64, allow_adjust: bool, found: bool, adjustment: u32, ratio: u32, ots: i64, slot: u64, price: Price, r: Option<Decimal> }

fn dec(v: &str, m: &str) -> Option<Decimal> {
    let m: u8 = m.parse().ok()?; if m > 20 { return None; }
    Some(Decimal { value: v.parse().ok()?, decimal_multiplier: m })
}

fn parse_price(t: &[&str]) -> Option<(Price, Option<Decimal>)> {
    if t.len() != 7 { return None; }
    let p = Price { min: dec(t[0], t[1])?, max: dec(t[2], t[3])? };
    let r = match t[4] { "1" => Some(dec(t[5], t[6])?), "0" => { dec(t[5], t[6])?; None }, _ => return None };
    Some((p, r))
}

fn parse_feed(t: &[&str]) -> Option<FeedIn> {
    if t.len() != 14 { return None; }
    let b = |s: &str| match s { "1" => Some(true), "0" => Some(false), _ => None };
    let (price, r) = parse_price(&t[7..14])?;
    Some(FeedIn { token: t[0].parse().ok()?, allow_adjust: b(t[1])?, found: b(t[2])?, adjustment: t[3].parse().ok()?, ratio: t[4].parse().ok()?,
        ots: t[5].parse().ok()?, slot: t[6].parse().ok()?, price, r })
}

const PROVIDER: PriceProviderKind = PriceProviderKind::Pyth;

fn token_config(f: &FeedIn) -> TokenConfig {
    let mut tc = TokenConfig::zeroed();
    tc.set_enabled(true);
    tc.set_expected_provider(PROVIDER);
    tc.set_flag(gmsol_utils::token_config::TokenConfigFlag::AllowPriceAdjustment, f.allow_adjust);
    if f.found {
        let fc = FeedConfig::new(Pubkey::new_from_array([7u8; 32])).with_timestamp_adjustment(f.adjustment)
            .with_max_deviation_factor(if f.ratio == 0 { None } else { Some(f.ratio as u128 * RATIO_MULT) }).expect("ratio fits");
        tc.set_feed_config(&PROVIDER, fc).expect("feed index");
    }
    tc
}

fn token_key(t: u64) -> Pubkey { let mut k = [0u8; 32]; k[..8].copy_from_slice(&t.to_le_bytes()); k[31] = 1; Pubkey::new_from_array(k) }

fn show_oracle(o: &Oracle, tokens: &[u64]) -> String {
    let mut ts: Vec<u64> = tokens.to_vec(); ts.sort(); ts.dedup();
    let ps: Vec<String> = ts.iter().filter_map(|t| o.get_primary_price(&token_key(*t), true).ok().map(|p| format!("{t}:{}:{}", p.min, p.max))).collect();
    // `min_oracle_slot()` hides the stored slot while cleared; the raw field is u64::MAX then
    let slot = o.min_oracle_slot().unwrap_or(u64::MAX);
    format!("{} {slot} {} {} | {}", o.is_cleared() as u8, o.min_oracle_ts(), o.max_oracle_ts(), ps.join(" "))
}

// ------------------------------------------------------------------------------------------------
// native accounts for `nbatch` (real Store / TokenMap / PriceFeed accounts, real with_prices_opts)
#[repr(C)]
struct KeyBox { pad: u64, key: Pubkey }
struct Acc { key: KeyBox, lamports: u64, buf: Vec<u128>, len: usize, owner: Pubkey, writable: bool }
impl Acc {
    fn new(key: Pubkey, data: &[u8], writable: bool) -> Self { Self::owned(key, gmsol_store::ID, data, writable) }
    fn owned(key: Pubkey, owner: Pubkey, data: &[u8], writable: bool) -> Self {
        let mut buf = vec![0u128; (data.len() + 8) / 16 + 2];
        bytemuck::cast_slice_mut::<u128, u8>(&mut buf)[8..8 + data.len()].copy_from_slice(data);
        Acc { key: KeyBox { pad: 0, key }, lamports: 1_000_000, buf, len: data.len(), owner, writable }
    }
    fn zc<T: bytemuck::Pod + Discriminator>(key: Pubkey, t: &T, extra: usize, writable: bool) -> Self {
        let mut d = T::DISCRIMINATOR.to_vec();
        d.extend_from_slice(bytemuck::bytes_of(t));
        d.resize(d.len() + extra, 0);
        Acc::new(key, &d, writable)
    }
}

/// `acct`: 0 = custom feed storing ChainlinkDataStreams, 1 = custom feed storing Pyth, 2 = Pyth `PriceUpdateV2` account
/// (owner = Pyth receiver; price = refv, confidence = maxv − refv = refv − minv; no reference price). `expected`: 0 CDS | 1 Pyth.
struct NFeed { token: u64, allow_adjust: bool, found: bool, adjustment: u32, ratio: u32, ots: i64, slot: u64, minv: u32, maxv: u32, mult: u8, refv: u32, enabled: bool, acct: u8, expected: u8, feed_ok: bool }

const NF: usize = 15;
fn parse_nfeed(t: &[&str], now: i64) -> Option<NFeed> {
    if t.len() != NF { return None; }
    let b = |s: &str| match s { "1" => Some(true), "0" => Some(false), _ => None };
    let f = NFeed { token: t[0].parse().ok()?, allow_adjust: b(t[1])?, found: b(t[2])?, adjustment: t[3].parse().ok()?, ratio: t[4].parse().ok()?,
        ots: t[5].parse().ok()?, slot: t[6].parse().ok()?, minv: t[7].parse().ok()?, maxv: t[8].parse().ok()?, mult: t[9].parse().ok()?, refv: t[10].parse().ok()?,
        enabled: b(t[11])?, acct: t[12].parse().ok()?, expected: t[13].parse().ok()?, feed_ok: b(t[14])? };
    if f.acct > 2 || f.expected > 1 { return None; }
    if f.acct == 2 && f.refv.checked_sub(f.minv)? != f.maxv.checked_sub(f.refv)? { return None; }
    let d = now as i128 - f.ots as i128;
    if f.mult > 20 || f.mult % 2 != 0 || f.minv > f.refv || f.refv > f.maxv || f.ots < 0 || d.abs() > 4_000_000_000 { return None; }
    Some(f)
}

/// equivalent hook-level `batch` feed (used by the property oracle)
fn nfeed_as_feed(f: &NFeed) -> String {
    format!("{} {} {} {} {} {} {} {} {} {} {} {} {} {}", f.token, f.allow_adjust as u8, f.found as u8, f.adjustment, f.ratio, f.ots, f.slot, f.minv, f.mult, f.maxv, f.mult, (f.acct != 2) as u8, f.refv, f.mult)
}

const CDS: PriceProviderKind = PriceProviderKind::ChainlinkDataStreams;

fn run_nbatch(t: &[&str]) -> Option<String> {
    let now: i64 = t[2].parse().ok()?;
    let (max_age, max_range, max_future): (u64, u64, u64) = (t[3].parse().ok()?, t[4].parse().ok()?, t[5].parse().ok()?);
    let f_ok = match t[6] { "1" => true, "0" => false, _ => return None };
    let n: usize = t[7].parse().ok()?;
    if t.len() != 8 + NF * n { return None; }
    let feeds: Vec<NFeed> = (0..n).map(|i| parse_nfeed(&t[8 + NF * i..8 + NF * (i + 1)], now)).collect::<Option<Vec<_>>>()?;
    let mut ids: Vec<u64> = feeds.iter().map(|f| f.token).collect(); ids.sort(); ids.dedup();
    if ids.len() != n { return None; }
    let (store_k, map_k) = (h_store::pk(9001), h_store::pk(9002));
    // Store with the oracle amounts
    let mut store: Box<Store> = boxed();
    *store.get_amount_mut("oracle_max_age").unwrap() = max_age;
    *store.get_amount_mut("oracle_max_timestamp_range").unwrap() = max_range;
    *store.get_amount_mut("oracle_max_future_timestamp_excess").unwrap() = max_future;
    let mut header = TokenMapHeader::zeroed();
    header.store = store_k;
    let mut accs = vec![Acc::zc(store_k, &*store, 0, false), Acc::zc(map_k, &header, n * std::mem::size_of::<TokenConfig>(), true)];
    // custom price feeds, published through the real `PriceFeed::update`
    let mut configs = Vec::new();
    for (i, f) in feeds.iter().enumerate() {
        let td = (20 - f.mult) / 2; // token_decimals = precision = feed decimals ⇒ Decimal { value = raw price, multiplier = mult }
        let feed_id = h_store::pk(7000 + i as u64);
        let pyth_feed_id = h_store::pk(7500 + i as u64);
        let expected = if f.expected == 0 { CDS } else { PriceProviderKind::Pyth };
        let mut tc = TokenConfig::zeroed();
        tc.set_enabled(f.enabled);
        tc.set_expected_provider(expected);
        tc.set_flag(gmsol_utils::token_config::TokenConfigFlag::AllowPriceAdjustment, f.allow_adjust);
        tc.token_decimals = td; tc.precision = td; tc.heartbeat_duration = u32::MAX;
        if f.found {
            // the token has BOTH a ChainlinkDataStreams feed and a Pyth feed configured (same settings)
            for (kind, id) in [(CDS, feed_id), (PriceProviderKind::Pyth, pyth_feed_id)] {
                let fc = FeedConfig::new(id).with_timestamp_adjustment(f.adjustment)
                    .with_max_deviation_factor(if f.ratio == 0 { None } else { Some(f.ratio as u128 * RATIO_MULT) }).expect("ratio fits");
                tc.set_feed_config(&kind, fc).expect("feed index");
            }
        }
        configs.push(tc);
        h_store::set_now(now); h_store::set_slot(f.slot);
        if f.acct == 2 {
            // Pyth `PriceUpdateV2` account: Anchor discriminator ++ borsh { write_authority, verification_level = Full,
            // price_message { feed_id, price, conf, exponent, publish_time, prev_publish_time, ema_price, ema_conf }, posted_slot }
            let id = if f.feed_ok { pyth_feed_id } else { h_store::pk(6500 + i as u64) };
            let mut d = anchor_lang::solana_program::hash::hash(b"account:PriceUpdateV2").to_bytes()[..8].to_vec();
            d.extend_from_slice(h_store::pk(9005).as_ref());
            d.push(1); // VerificationLevel::Full
            d.extend_from_slice(id.as_ref());
            d.extend_from_slice(&(f.refv as i64).to_le_bytes());
            d.extend_from_slice(&((f.maxv - f.refv) as u64).to_le_bytes());
            d.extend_from_slice(&(-(td as i32)).to_le_bytes());
            d.extend_from_slice(&f.ots.to_le_bytes());
            d.extend_from_slice(&(f.ots - 1).to_le_bytes());
            d.extend_from_slice(&(f.refv as i64).to_le_bytes());
            d.extend_from_slice(&((f.maxv - f.refv) as u64).to_le_bytes());
            d.extend_from_slice(&f.slot.to_le_bytes());
            use anchor_lang::Id;
            accs.push(Acc::owned(h_store::pk(8000 + i as u64), gmsol_store::states::Pyth::id(), &d, false));
        } else {
            let mut pf: Box<PriceFeed> = boxed();
            let (provider, cfg_id) = if f.acct == 0 { (CDS, feed_id) } else { (PriceProviderKind::Pyth, pyth_feed_id) };
            let stored_id = if f.feed_ok { cfg_id } else { h_store::pk(6000 + i as u64) };
            c24::price_feed_init(&mut pf, provider, &store_k, &h_store::pk(9003), &token_key(f.token), &stored_id).ok()?;
            let mut p = PriceFeedPrice::new(td, f.ots, f.refv as u128, f.minv as u128, f.maxv as u128, 0);
            p.set_flag(gmsol_utils::price::PriceFlag::Open, true);
            match c24::price_feed_update(&mut pf, &p, u64::MAX, false) { Ok(true) => {}, _ => return Some("err Other(feed update rejected)".into()) }
            accs.push(Acc::zc(h_store::pk(8000 + i as u64), &*pf, 0, false));
        }
    }
    let infos: Vec<AccountInfo> = accs.iter_mut().map(|a| {
        let d = &mut bytemuck::cast_slice_mut::<u128, u8>(&mut a.buf)[8..8 + a.len];
        AccountInfo::new(&a.key.key, false, a.writable, &mut a.lamports, d, &a.owner, false, 0)
    }).collect();
    fn go<'a>(infos: &[AccountInfo<'a>], feeds: &[NFeed], configs: &[TokenConfig], now: i64, f_ok: bool) -> Option<String> {
        let infos: &'a [AccountInfo<'a>] = unsafe { std::mem::transmute(infos) };
        let store_l = AccountLoader::<Store>::try_from(&infos[0]).ok()?;
        let map_l = AccountLoader::<TokenMapHeader>::try_from(&infos[1]).ok()?;
        {
            let mut m = map_l.load_token_map_mut().ok()?;
            for (f, tc) in feeds.iter().zip(configs) { m.push_with(&token_key(f.token), |c| { *c = *tc; Ok(()) }, true).ok()?; }
        }
        h_store::set_now(now);
        let tokens: Vec<Pubkey> = feeds.iter().map(|f| token_key(f.token)).collect();
        let ids: Vec<u64> = feeds.iter().map(|f| f.token).collect();
        let mut oracle: Box<Oracle> = boxed();
        c24::oracle_init(&mut oracle, *infos[0].key, h_store::pk(9004));
        let mut seen = None;
        let r = c24::with_prices_opts(&mut oracle, &store_l, &map_l, &tokens, &infos[2..], false, f_ok, &mut seen);
        let after = show_oracle(&oracle, &ids);
        if c24::primary_len(&oracle) != 0 { return Some("err Other(prices left after clear)".into()); }
        Some(match (seen, r) {
            (Some(s), r) => {
                if r.is_ok() != f_ok { return Some("err Other(result of the wrapped operation not propagated)".into()); }
                let mut ps: Vec<(u64, u128, u128)> = ids.iter().zip(&s.prices).filter_map(|(t, p)| p.map(|(a, b)| (*t, a, b))).collect();
                ps.sort();
                let ps: Vec<String> = ps.iter().map(|(t, a, b)| format!("{t}:{a}:{b}")).collect();
                format!("ok {} {} {} {} | {} || {} {after}", s.cleared as u8, s.min_slot.unwrap_or(u64::MAX), s.min_ts, s.max_ts, ps.join(" "), if f_ok { "f-ok" } else { "f-err" })
            }
            (None, Err(e)) => format!("{} || {after}", err(&e)),
            (None, Ok(_)) => "err Other(operation skipped but reported ok)".into(),
        })
    }
    go(&infos, &feeds, &configs, now, f_ok)
}

fn run(t: &[&str]) -> Option<String> {
    if t.len() < 2 || t[0] != "orc" { return None; }
    Some(match t[1] {
        "fromprice" if t.len() == 6 => {
            let p = Price { min: dec(t[2], t[3])?, max: dec(t[4], t[5])? };
            match c24::small_prices_from_price(&p, false, true) { Ok(sp) => format!("ok {} {} {}", sp.min().value, sp.max().value, sp.min().decimal_multiplier), Err(e) => err(&e) }
        }
        "validate" if t.len() == 18 => {
            let now: i64 = t[2].parse().ok()?;
            let mut v = validator(now, t[3].parse().ok()?, t[4].parse().ok()?, t[5].parse().ok()?);
            let (price, r) = parse_price(&t[11..18])?;
            let f = FeedIn { token: 0, allow_adjust: false, found: match t[6] { "1" => true, "0" => false, _ => return None }, adjustment: t[7].parse().ok()?, ratio: t[8].parse().ok()?, ots: t[9].parse().ok()?, slot: t[10].parse().ok()?, price, r };
            let tc = token_config(&f);
            match c24::validate_one(&mut v, &tc, &PROVIDER, f.ots, f.slot, &f.price, f.r.as_ref()) {
                Err(e) => err(&e),
                Ok(()) => match c24::finish(v) { Err(e) => err(&e), Ok(Some((s, mn, mx))) => format!("ok {s} {mn} {mx}"), Ok(None) => "ok none".into() },
            }
        }
        "batch" if t.len() >= 8 => {
            let now: i64 = t[2].parse().ok()?;
            let mut v = validator(now, t[3].parse().ok()?, t[4].parse().ok()?, t[5].parse().ok()?);
            let f_ok = match t[6] { "1" => true, "0" => false, _ => return None };
            let n: usize = t[7].parse().ok()?;
            if t.len() != 8 + 14 * n { return None; }
            let feeds: Vec<FeedIn> = (0..n).map(|i| parse_feed(&t[8 + 14 * i..8 + 14 * (i + 1)])).collect::<Option<Vec<_>>>()?;
            let tokens: Vec<u64> = feeds.iter().map(|f| f.token).collect();
            let mut oracle: Box<Oracle> = boxed();
            c24::oracle_init(&mut oracle, Pubkey::new_unique(), Pubkey::new_unique());
            // loop of set_prices_from_remaining_accounts: config → enabled → parse(+adjust) → validate_one → primary.set
            let res: Result<(), String> = (|| {
                for f in &feeds {
                    let tc = token_config(f);
                    let feed_config = tc.get_feed_config(&PROVIDER).map_err(|_| "err NotFound".to_string())?;
                    let price = if tc.is_price_adjustment_allowed() {
                        c29::try_adjust_price(feed_config, f.price, f.r).map_err(|e| err(&e))?.0
                    } else { f.price };
                    c24::validate_one(&mut v, &tc, &PROVIDER, f.ots, f.slot, &price, f.r.as_ref()).map_err(|e| err(&e))?;
                    c24::primary_set(&mut oracle, &token_key(f.token), price, false, true).map_err(|e| err(&e))?;
                }
                c24::update_oracle_ts_and_slot(&mut oracle, v).map_err(|e| err(&e))
            })();
            // with_prices_opts: Ok ⇒ f(..); clear; Err ⇒ clear
            match res {
                Ok(()) => {
                    let seen = show_oracle(&oracle, &tokens);
                    c24::oracle_clear_all_prices(&mut oracle);
                    if c24::primary_len(&oracle) != 0 { return Some("err Other(prices left after clear)".into()); }
                    format!("ok {seen} || {} {}", if f_ok { "f-ok" } else { "f-err" }, show_oracle(&oracle, &tokens))
                }
                Err(e) => {
                    c24::oracle_clear_all_prices(&mut oracle);
                    if c24::primary_len(&oracle) != 0 { return Some("err Other(prices left after clear)".into()); }
                    format!("{e} || {}", show_oracle(&oracle, &tokens))
                }
            }
        }
        "nbatch" if t.len() >= 8 => return run_nbatch(t),
        _ => return None,
    })
}

fn exec(req: &str) -> String {
    let t: Vec<&str> = req.split(' ').collect();
    match std::panic::catch_unwind(|| run(&t)) { Ok(Some(s)) => s, Ok(None) => "bad-op".into(), Err(_) => "panic".into() }
}

fn unit(d: &Decimal) -> BigUint { BigUint::from(d.value) * BigUint::from(10u8).pow(d.decimal_multiplier as u32) }

enum Verdict { Ok(bool), Known(&'static str, String), Fail(String) }

/// literal deviation clause on one accepted price: |x − ref| ≤ ⌊ref·f/U⌋ for both bounds
fn deviation(min: &BigUint, max: &BigUint, mult: u8, ratio: u32, r: Option<&Decimal>, adjust_enabled: bool) -> Verdict {
    if ratio == 0 { return Verdict::Ok(false); }
    let refp = match r { Some(d) => unit(d), None => (min + max) / BigUint::from(2u8) };
    let dev = &refp * BigUint::from(ratio as u128 * RATIO_MULT) / BigUint::from(UNIT);
    let ad = |x: &BigUint| if x > &refp { x - &refp } else { &refp - x };
    let worst = ad(min).max(ad(max));
    if worst <= dev { return Verdict::Ok(true); }
    let zero = BigUint::from(0u8);
    if dev == zero && adjust_enabled {
        // F-C24a is the VALIDATOR skipping; with price adjustment enabled the adjuster clamps both bounds to
        // the reference first, so an accepted price that differs from its reference is not covered by it
        return Verdict::Fail(format!("adjustment enabled and floored deviation 0, but the accepted price is {worst} away from the reference {refp} (must be clamped to it)"));
    }
    if dev == zero {
        return Verdict::Known("F-C24a", format!("deviation check skipped: floor(ref*factor/UNIT) = 0, price is {worst} away from the reference {refp}"));
    }
    let step = BigUint::from(10u8).pow(mult as u32);
    let rounded = (&dev + &step - BigUint::from(1u8)) / &step * &step;
    if worst <= rounded {
        return Verdict::Known("F-C24b", format!("allowed deviation {dev} rounded up to the price precision {rounded}; price is {worst} away from the reference {refp}"));
    }
    Verdict::Fail(format!("accepted price {worst} away from the reference, allowed {dev} (rounded {rounded})"))
}

fn oracle(req: &str, resp: &str) -> Vec<Verdict> {
    let t: Vec<&str> = req.split(' ').collect();
    let mut out = Vec::new();
    if t[1] == "nbatch" {
        // same property as the hook-level batch, plus: a disabled token, a feed of another provider or
        // with another feed id must never yield prices
        let now: i64 = t[2].parse().unwrap();
        let n: usize = t[7].parse().unwrap();
        let feeds: Vec<NFeed> = (0..n).map(|i| parse_nfeed(&t[8 + NF * i..8 + NF * (i + 1)], now).unwrap()).collect();
        if resp.starts_with("ok") {
            for (i, f) in feeds.iter().enumerate() {
                if !f.enabled { out.push(Verdict::Fail(format!("feed {i}: price accepted for a disabled token"))); }
                let claimed = if f.acct == 0 { 0 } else { 1 };
                if claimed != f.expected { out.push(Verdict::Fail(format!("feed {i}: price accepted from provider {claimed} although the token expects provider {} ({} account)", f.expected, if f.acct == 2 { "Pyth-owned" } else { "custom" }))); }
                if f.acct == 1 { out.push(Verdict::Fail(format!("feed {i}: a custom feed was decoded for a provider other than ChainlinkDataStreams"))); }
                if !f.feed_ok { out.push(Verdict::Fail(format!("feed {i}: price accepted from a feed with another id"))); }
            }
        }
        let eq = format!("orc batch {} {} {} {} {} {} {}", t[2], t[3], t[4], t[5], t[6], t[7], feeds.iter().map(nfeed_as_feed).collect::<Vec<_>>().join(" "));
        out.extend(oracle(eq.trim_end(), resp));
        return out;
    }
    if resp == "panic" || resp.starts_with("err Other") { out.push(Verdict::Fail(format!("unexpected {resp}"))); return out; }
    match t[1] {
        "fromprice" => {
            let (a, am, b, bm): (u32, u8, u32, u8) = (t[2].parse().unwrap(), t[3].parse().unwrap(), t[4].parse().unwrap(), t[5].parse().unwrap());
            let good = a != 0 && a <= b && am == bm;
            out.push(if resp.starts_with("ok") == good { Verdict::Ok(good) } else { Verdict::Fail(format!("from_price answered {resp} for min {a}e{am} max {b}e{bm}")) });
        }
        "validate" if resp.starts_with("ok") => {
            let (now, max_age, max_future): (i128, i128, i128) = (t[2].parse().unwrap(), t[3].parse().unwrap(), t[5].parse().unwrap());
            let (adj, ots): (i128, i128) = (t[7].parse().unwrap(), t[9].parse().unwrap());
            if t[6] != "1" { out.push(Verdict::Fail("price accepted without a feed config for the provider".into())); }
            if ots - adj + max_age < now { out.push(Verdict::Fail("stale price accepted".into())); }
            if ots > now + max_future { out.push(Verdict::Fail("price too far in the future accepted".into())); }
            let (p, r) = parse_price(&t[11..18]).unwrap();
            // (well-formedness of min/max is the price map's job, checked by `fromprice` / `batch`)
            out.push(deviation(&unit(&p.min), &unit(&p.max), p.max.decimal_multiplier, t[8].parse().unwrap(), r.as_ref(), false));
        }
        "batch" => {
            let (head, after) = resp.split_once(" || ").unwrap_or((resp, ""));
            // cleared after use on both paths
            let a: Vec<&str> = after.split(' ').collect();
            let cleared = if head.starts_with("ok") { a.len() >= 5 && a[1] == "1" && a[2] == "18446744073709551615" && a[3] == i64::MAX.to_string() && a[4] == i64::MIN.to_string() && after.trim_end().ends_with('|') }
                          else { a.len() >= 4 && a[0] == "1" && a[1] == "18446744073709551615" && a[2] == i64::MAX.to_string() && a[3] == i64::MIN.to_string() && after.trim_end().ends_with('|') };
            if !cleared { out.push(Verdict::Fail(format!("oracle not cleared after use: `{after}`"))); }
            if !head.starts_with("ok") { out.push(Verdict::Ok(false)); return out; }
            let (now, max_age, max_range, max_future): (i128, i128, i128, i128) = (t[2].parse().unwrap(), t[3].parse().unwrap(), t[4].parse().unwrap(), t[5].parse().unwrap());
            let n: usize = t[7].parse().unwrap();
            let feeds: Vec<FeedIn> = (0..n).map(|i| parse_feed(&t[8 + 14 * i..8 + 14 * (i + 1)]).unwrap()).collect();
            let stored: std::collections::HashMap<u64, (BigUint, BigUint)> = head.split(" | ").nth(1).unwrap_or("").split(' ').filter(|s| !s.is_empty()).map(|s| {
                let p: Vec<&str> = s.split(':').collect(); (p[0].parse().unwrap(), (p[1].parse().unwrap(), p[2].parse().unwrap())) }).collect();
            let mut tss = Vec::new();
            for (i, f) in feeds.iter().enumerate() {
                let ts = f.ots as i128 - f.adjustment as i128;
                tss.push(ts);
                if !f.found { out.push(Verdict::Fail("price accepted without a feed config".into())); }
                if ts + max_age < now { out.push(Verdict::Fail(format!("feed {i}: stale price accepted"))); }
                if f.ots as i128 > now + max_future { out.push(Verdict::Fail(format!("feed {i}: future price accepted"))); }
                let last = feeds.iter().rposition(|g| g.token == f.token) == Some(i);
                match stored.get(&f.token) {
                    None => out.push(Verdict::Fail(format!("feed {i}: accepted but no price stored"))),
                    Some((mn, mx)) if last => {
                        if *mn == BigUint::from(0u8) || mn > mx { out.push(Verdict::Fail(format!("feed {i}: stored price not 0 < min <= max"))); }
                        out.push(deviation(mn, mx, f.price.max.decimal_multiplier, f.ratio, f.r.as_ref(), f.allow_adjust && f.found));
                    }
                    _ => {}
                }
            }
            if let (Some(mx), Some(mn)) = (tss.iter().max(), tss.iter().min()) {
                if mx - mn > max_range { out.push(Verdict::Fail(format!("timestamp spread {} exceeds the allowed range {max_range}", mx - mn))); }
            }
            let _ = BigInt::from(0);
        }
        _ => out.push(Verdict::Ok(false)),
    }
    out
}

fn gen_price(r: &mut Rng, ratio: u32) -> String {
    let m = r.below(13) as u8;
    let base: u32 = match r.below(8) { 0 => r.range(1, 60) as u32, 1 => u32::MAX - r.below(1000) as u32, 2 => r.num(32) as u32, _ => r.range(1000, 50_000_000) as u32 };
    let dev = ((base as u128).saturating_mul(ratio as u128 * RATIO_MULT) / UNIT).min(1_000_000_000_000) as i64;
    let off = |r: &mut Rng| -> i64 { match r.below(8) { 0 => 0, 1 => dev, 2 => dev + 1, 3 => -dev - 1, 4 => r.range(0, 3 * dev as u64 + 3) as i64, 5 => -(r.range(0, 3 * dev as u64 + 3) as i64), _ => { let s = (dev / 2).max(1) as u64; r.range(0, 2 * s) as i64 - s as i64 } } };
    let c = |x: i64| x.clamp(0, u32::MAX as i64) as u32;
    let maxv = c(base as i64 + off(r));
    let mut minv = c(base as i64 + off(r));
    if r.chance(14, 15) { minv = minv.min(maxv); }
    if r.chance(1, 25) { minv = 0; }
    let m2 = if r.chance(1, 25) { r.below(21) as u8 } else { m };
    let (rf, rv, rm) = if r.chance(1, 2) { (1, if r.chance(1, 20) { r.num(32) as u32 } else { base }, if r.chance(1, 12) { r.below(21) as u8 } else { m }) } else { (0, 0, 0) };
    format!("{minv} {m} {maxv} {m2} {rf} {rv} {rm}")
}

fn gen_req(r: &mut Rng) -> String {
    let now: i64 = 1_700_000_000 + r.below(100_000) as i64;
    let max_age: u64 = *r.pick(&[0u64, 5, 30, 60, 3600]);
    let max_range: u64 = *r.pick(&[0u64, 2, 10, 60, 300]);
    let max_future: u64 = *r.pick(&[0u64, 1, 5, 30]);
    let ratio = |r: &mut Rng| -> u32 { match r.below(8) { 0 => 0, 1 => 1, 2 => u32::MAX, 3 => r.range(2, 1000) as u32, 4 => 10_000, _ => *r.pick(&[100_000u32, 500_000, 1_000_000, 5_000_000, 20_000_000]) } };
    let ts = |r: &mut Rng, base: i64| -> i64 { match r.below(10) { 0 => base - max_age as i64 - r.range(0, 3) as i64, 1 => now + max_future as i64 + r.range(0, 2) as i64, 2 => now, 3 => r.inum(64) as i64, _ => (base + r.range(0, max_range.min(max_age / 2)) as i64).min(now + max_future as i64) } };
    let adj = |r: &mut Rng| -> u32 { match r.below(12) { 0 => 0, 1 => 2, 2 => 60, 3 => r.num(32) as u32, _ => 1 } };
    if r.chance(2, 5) {
        // native batch: real accounts; one multiplier, min <= ref <= max
        let n = r.below(4);
        let base = now - r.range(0, max_age / 2) as i64 + 1;
        let mut s = format!("orc nbatch {now} {max_age} {max_range} {max_future} {} {n}", r.below(2));
        for i in 0..n {
            let q = ratio(r);
            let m = 2 * r.below(7) as u8;
            let refv: u32 = match r.below(8) { 0 => r.range(1, 60) as u32, 1 => u32::MAX - r.below(1000) as u32, _ => r.range(1000, 50_000_000) as u32 };
            let dev = ((refv as u128).saturating_mul(q as u128 * RATIO_MULT) / UNIT).min(1_000_000_000) as u64;
            let d = |r: &mut Rng| -> u64 { match r.below(6) { 0 => 0, 1 => dev, 2 => dev + 1, 3 => r.range(0, 3 * dev + 3), _ => r.range(0, dev / 2 + 1) } };
            let acct: u8 = match r.below(10) { 0 => 1, 1..=4 => 2, _ => 0 };
            let expected: u8 = if r.chance(1, 6) { r.below(2) as u8 } else if acct == 0 { 0 } else { 1 };
            let mut minv = if r.chance(1, 25) { 0 } else { (refv as u64).saturating_sub(d(r)) as u32 };
            let mut maxv = (refv as u64 + d(r)).min(u32::MAX as u64) as u32;
            if acct == 2 { // symmetric confidence interval
                let c = (refv - minv).min(maxv - refv).min(u32::MAX - refv);
                minv = refv - c; maxv = refv + c;
            }
            let o = ts(r, base).clamp(0, now + 4_000_000_000).max(now - 4_000_000_000).max(0);
            s += &format!(" {} {} {} {} {q} {o} {} {minv} {maxv} {m} {refv} {} {} {} {}", i + 1, r.below(2), (!r.chance(1, 30)) as u8, adj(r), r.num(64) as u64,
                (!r.chance(1, 25)) as u8, acct, expected, (!r.chance(1, 25)) as u8);
        }
        return s;
    }
    match r.below(10) {
        0 => { let p = gen_price(r, 0); let f: Vec<&str> = p.split(' ').collect(); format!("orc fromprice {} {} {} {}", f[0], f[1], f[2], f[3]) }
        1..=3 => { let q = ratio(r); let base = now - r.range(0, max_age / 2) as i64 + 1; format!("orc validate {now} {max_age} {max_range} {max_future} {} {} {q} {} {} {}", (!r.chance(1, 20)) as u8, adj(r), ts(r, base), r.num(64) as u64, gen_price(r, q)) }
        _ => {
            let n = r.below(5);
            let base = now - r.range(0, max_age / 2) as i64 + 1;
            let mut s = format!("orc batch {now} {max_age} {max_range} {max_future} {} {n}", r.below(2));
            for i in 0..n {
                let q = ratio(r);
                let tok = if r.chance(1, 10) { 1 } else { i + 1 };
                s += &format!(" {tok} {} {} {} {q} {} {} {}", r.below(2), (!r.chance(1, 30)) as u8, adj(r), ts(r, base), r.num(64) as u64, gen_price(r, q));
            }
            s
        }
    }
}

fn main() {
    h_store::install_stubs();
    let cli = cli();
    let mut out = Out::new();
    if std::env::var("H_DEBUG").is_err() { std::panic::set_hook(Box::new(|_| {})); }
    let reqs: Vec<String> = if cli.mode == "replay" { read_requests(cli.file.as_deref().unwrap()) } else {
        let mut r = Rng::new(cli.seed);
        r = Rng(r.next()); // decorrelate: hcommon streams of consecutive seeds are one draw apart
        (0..cli.n).map(|_| gen_req(&mut r)).collect()
    };
    for req in reqs {
        let resp = exec(&req);
        out.stat(&format!("op.{}", req.split(' ').nth(1).unwrap_or("?")));
        out.stat(&format!("resp.{}", resp.split(' ').take(if resp.starts_with("err") { 2 } else { 1 }).collect::<Vec<_>>().join("_")));
        if resp == "bad-op" { out.case(&req, &resp); continue; }
        let mut nt = false;
        for v in oracle(&req, &resp) {
            match v {
                Verdict::Ok(b) => { nt |= b; out.stat("oracle.checked"); }
                Verdict::Known(id, what) => { nt = true; out.known(id, &what, &req); out.stat(&format!("known.{id}")); }
                Verdict::Fail(what) => out.oracle_fail(&what, &req),
            }
        }
        nt |= resp.starts_with("ok");
        out.case_nt(&req, &resp, nt);
    }
    out.finish();
}
