//! C39 correspondence + oracle: the competition program's `on_executed` callback driven through
//! the real native entrypoint (`gmsol_competition::entry`), plus the two private functions
//! `update_leaderboard` / `extend_competition_time` called directly through the hook wrappers
//! (`gmsol_competition::verif::c39::trade_callback`).
//!
//! Protocol (`lb <op> <sid> …`, state per `sid`):
//!   new    sid start end threshold ext cap onlyInc window
//!   create sid t now                         the REAL `create_participant_idempotent` through the entrypoint (system-program
//!                                            CreateAccount of Anchor's `init_if_needed` emulated by the CPI stub)
//!   close  sid t now                         the REAL `close_participant` through the entrypoint (signer = the trader)
//!   trade  sid t now kind ver extra success ev evUser before after
//!   upd    sid t v  a1 v1 a2 v2 …            (unit: update_leaderboard on an arbitrary board)
//!   ext    sid old ext cap now               (unit: extend_competition_time)
use anchor_lang::prelude::*;
use anchor_lang::{AccountDeserialize, AccountSerialize, Discriminator, InstructionData, Space};
use gmsol_competition::states::{Competition, LeaderEntry, Participant, CALLER_PROGRAM_ID, PARTICIPANT_SEED};
use gmsol_competition::verif::c39 as hook;
use hcommon::*;
use num_bigint::BigInt;
use std::collections::BTreeMap;

const NT: u8 = 12; // trader ids 0..NT

fn trader_key(t: u8) -> Pubkey { Pubkey::new_from_array([t + 1; 32]) }

/// sysvars as `h_store::install_stubs`, plus the system program's CreateAccount (Anchor `init_if_needed`) emulated
struct Stubs;
impl anchor_lang::solana_program::program_stubs::SyscallStubs for Stubs {
    fn sol_get_clock_sysvar(&self, var_addr: *mut u8) -> u64 {
        let clock = anchor_lang::solana_program::clock::Clock { slot: 1000, epoch_start_timestamp: 0, epoch: 0, leader_schedule_epoch: 0, unix_timestamp: h_store::NOW.load(std::sync::atomic::Ordering::SeqCst) };
        unsafe { std::ptr::write_unaligned(var_addr as *mut anchor_lang::solana_program::clock::Clock, clock) };
        0
    }
    fn sol_get_rent_sysvar(&self, var_addr: *mut u8) -> u64 {
        unsafe { std::ptr::write_unaligned(var_addr as *mut anchor_lang::solana_program::rent::Rent, anchor_lang::solana_program::rent::Rent::default()) };
        0
    }
    fn sol_get_last_restart_slot(&self, var_addr: *mut u8) -> u64 { unsafe { std::ptr::write_unaligned(var_addr as *mut u64, 0) }; 0 }
    fn sol_log(&self, _m: &str) {}
    fn sol_invoke_signed(&self, ix: &anchor_lang::solana_program::instruction::Instruction, infos: &[AccountInfo], _seeds: &[&[&[u8]]]) -> anchor_lang::solana_program::entrypoint::ProgramResult {
        if ix.program_id == anchor_lang::system_program::ID && ix.data.len() == 52 && ix.data[..4] == [0, 0, 0, 0] {
            let lamports = u64::from_le_bytes(ix.data[4..12].try_into().unwrap());
            let space = u64::from_le_bytes(ix.data[12..20].try_into().unwrap()) as usize;
            let owner = Pubkey::new_from_array(ix.data[20..52].try_into().unwrap());
            let from = infos.iter().find(|i| *i.key == ix.accounts[0].pubkey).ok_or(ProgramError::NotEnoughAccountKeys)?;
            let to = infos.iter().find(|i| *i.key == ix.accounts[1].pubkey).ok_or(ProgramError::NotEnoughAccountKeys)?;
            if to.lamports() != 0 || !to.data_is_empty() || *to.owner != anchor_lang::system_program::ID { return Err(ProgramError::AccountAlreadyInitialized); }
            if from.lamports() < lamports { return Err(ProgramError::InsufficientFunds); }
            **from.lamports.borrow_mut() -= lamports;
            **to.lamports.borrow_mut() += lamports;
            to.realloc(space, true)?;
            to.assign(&owner);
            return Ok(());
        }
        Err(ProgramError::InvalidInstructionData)
    }
}

#[repr(C)]
struct KeyBox { pad: u64, key: Pubkey }
/// account with room to grow (realloc): data starts 8 bytes into a 16-aligned buffer
struct Acc { key: KeyBox, lamports: u64, buf: Vec<u128>, len: usize, owner: Pubkey, signer: bool, writable: bool, exec: bool }
impl Acc {
    fn new(key: Pubkey, owner: Pubkey, data: &[u8], lamports: u64) -> Self {
        let mut buf = vec![0u128; (data.len().max(512) + 8) / 16 + 2];
        bytemuck::cast_slice_mut::<u128, u8>(&mut buf)[8..8 + data.len()].copy_from_slice(data);
        Acc { key: KeyBox { pad: 0, key }, lamports, buf, len: data.len(), owner, signer: false, writable: false, exec: false }
    }
    fn signer(mut self) -> Self { self.signer = true; self }
    fn writable(mut self) -> Self { self.writable = true; self }
    fn exec(mut self) -> Self { self.exec = true; self }
}
/// runs the competition entrypoint; returns (ok, per-account (owner, lamports, data) afterwards)
fn call_accs(accs: &mut [Acc], data: &[u8]) -> (bool, Vec<(Pubkey, u64, Vec<u8>)>) {
    let infos: Vec<AccountInfo> = accs.iter_mut().map(|a| {
        let d = &mut bytemuck::cast_slice_mut::<u128, u8>(&mut a.buf)[8..8 + a.len];
        AccountInfo::new(&a.key.key, a.signer, a.writable, &mut a.lamports, d, &a.owner, a.exec, 0)
    }).collect();
    let r = call_entry(&gmsol_competition::ID, &infos, data);
    let after = infos.iter().map(|i| (*i.owner, i.lamports(), i.data.borrow().to_vec())).collect();
    (r.is_ok(), after)
}

struct Sid {
    comp_key: Pubkey,
    comp: Vec<u8>,
    parts: BTreeMap<u8, (Pubkey, Vec<u8>)>, // trader id -> (pda, account bytes); empty bytes = absent
    /// a participant account was closed after the end: board entries may legitimately be stale from then on
    over: bool,
}

struct World {
    sids: BTreeMap<String, Sid>,
    authority: (Pubkey, u8),
    pdas: BTreeMap<(Pubkey, u8), Pubkey>,
    n_comp: u8,
}

fn ser<T: AccountSerialize>(t: &T, space: usize) -> Vec<u8> {
    let mut v = Vec::new();
    t.try_serialize(&mut v).unwrap();
    assert!(v.len() <= space);
    v.resize(space, 0);
    v
}

fn load_comp(b: &[u8]) -> Competition { Competition::try_deserialize(&mut &b[..]).unwrap() }
fn load_part(b: &[u8]) -> Option<Participant> {
    if b.is_empty() { None } else { Participant::try_deserialize(&mut &b[..]).ok() }
}

fn tid(k: &Pubkey) -> String {
    let b = k.to_bytes();
    if b.iter().all(|x| *x == b[0]) && b[0] >= 1 { format!("{}", b[0] - 1) } else { "?".into() }
}

fn digest(s: &Sid) -> String {
    let c = load_comp(&s.comp);
    let board: Vec<String> = c.leaderboard.iter().map(|e| format!("{}:{}", tid(&e.address), e.volume)).collect();
    let mut parts = Vec::new();
    for (t, (_, b)) in &s.parts {
        if let Some(p) = load_part(b) { parts.push(format!("{}:{}:{}:{}", t, p.volume, p.last_updated_at, p.merged_volume)); }
    }
    format!("end={} trig={} board=[{}] parts=[{}]", c.end_time,
        c.extension_triggerer.map(|k| tid(&k)).unwrap_or("_".into()), board.join(","), parts.join(","))
}

impl World {
    fn pda(&mut self, comp: Pubkey, t: u8) -> Pubkey {
        *self.pdas.entry((comp, t)).or_insert_with(|| {
            Pubkey::find_program_address(&[PARTICIPANT_SEED, comp.as_ref(), trader_key(t).as_ref()], &gmsol_competition::ID).0
        })
    }

    /// Runs `on_executed` through the real entrypoint. Ok(()) / Err(()).
    #[allow(clippy::too_many_arguments)]
    fn on_executed(&mut self, sid: &str, t: u8, now: i64, kind: u8, ver: u8, extra: u8, success: bool,
                   ev: bool, ev_user: u8, before: u128, after: u128) -> std::result::Result<(), ()> {
        h_store::set_now(now);
        let comp_key = self.sids[sid].comp_key;
        let part_key = self.pda(comp_key, t);
        let authority = self.authority;
        let s = self.sids.get_mut(sid).unwrap();
        s.parts.entry(t).or_insert((part_key, Vec::new()));
        let prog = gmsol_competition::ID;
        let sys = anchor_lang::system_program::ID;
        let trader = trader_key(t);
        let action = Pubkey::new_from_array([200; 32]);
        let position = Pubkey::new_from_array([201; 32]);
        let ev_key = Pubkey::new_from_array([202; 32]);
        // trade event (zero-copy; data must be 8 mod 16 aligned)
        let mut td: hook::TradeData = bytemuck::Zeroable::zeroed();
        td.user = trader_key(ev_user);
        td.before.size_in_usd = before;
        td.after.size_in_usd = after;
        let tdb = bytemuck::bytes_of(&td);
        let mut evbuf: Vec<u128> = vec![0u128; (tdb.len() + 8) / 16 + 2];
        let evbytes: &mut [u8] = &mut bytemuck::cast_slice_mut::<u128, u8>(&mut evbuf)[8..8 + 8 + tdb.len()];
        evbytes[..8].copy_from_slice(hook::TradeData::DISCRIMINATOR);
        evbytes[8..].copy_from_slice(tdb);

        let mut comp_data = s.comp.clone();
        let mut part_data = s.parts[&t].1.clone();
        let part_absent = part_data.is_empty();
        let (mut l0, mut l1, mut l2, mut l3, mut l4, mut l5, mut l6) = (1u64, 1u64, if part_absent { 0u64 } else { 1 }, 1u64, 1u64, 1u64, 1u64);
        let (mut e0, mut e3, mut e4, mut e5, mut e6): ([u8; 0], [u8; 0], [u8; 0], [u8; 0], [u8; 0]) = ([], [], [], [], []);
        let part_owner = if part_absent { sys } else { prog };
        let store = CALLER_PROGRAM_ID;
        let accounts = vec![
            AccountInfo::new(&authority.0, true, false, &mut l0, &mut e0, &sys, false, 0),
            AccountInfo::new(&comp_key, false, true, &mut l1, &mut comp_data, &prog, false, 0),
            AccountInfo::new(&part_key, false, true, &mut l2, &mut part_data, &part_owner, false, 0),
            AccountInfo::new(&trader, false, false, &mut l3, &mut e3, &sys, false, 0),
            AccountInfo::new(&action, false, false, &mut l4, &mut e4, &store, false, 0),
            AccountInfo::new(&position, false, false, &mut l5, &mut e5, &store, false, 0),
            if ev { AccountInfo::new(&ev_key, false, false, &mut l6, evbytes, &store, false, 0) }
            else { AccountInfo::new(&prog, false, false, &mut l6, &mut e6, &sys, true, 0) },
        ];
        let data = gmsol_competition::instruction::OnExecuted {
            authority_bump: authority.1, action_kind: kind, callback_version: ver, success, extra_account_count: extra,
        }.data();
        let r = call_entry(&prog, &accounts, &data);
        drop(accounts);
        // whatever the real code left in the account buffers is the new state (no rollback here:
        // the oracle checks that an error leaves the bytes untouched)
        s.comp = comp_data;
        s.parts.get_mut(&t).unwrap().1 = part_data;
        r.map_err(|_| ())
    }
}

/// `entry` wants `&'info [AccountInfo<'info>]`; the slice borrow is only used during the call.
fn call_entry<'a>(prog: &Pubkey, accs: &[AccountInfo<'a>], data: &[u8]) -> anchor_lang::solana_program::entrypoint::ProgramResult {
    let accs: &'a [AccountInfo<'a>] = unsafe { std::mem::transmute(accs) };
    let _q = Quiet::new();
    gmsol_competition::entry(prog, accs, data)
}

extern "C" { fn dup(fd: i32) -> i32; fn dup2(a: i32, b: i32) -> i32; fn close(fd: i32) -> i32; }

/// `msg!` prints to stdout natively; send fd 1 to /dev/null while the program code runs.
struct Quiet { saved: i32 }
impl Quiet {
    fn new() -> Self {
        use std::io::Write;
        use std::os::fd::AsRawFd;
        std::io::stdout().flush().unwrap();
        let null = std::fs::OpenOptions::new().write(true).open("/dev/null").unwrap();
        let saved = unsafe { dup(1) };
        unsafe { dup2(null.as_raw_fd(), 1) };
        Quiet { saved }
    }
}
impl Drop for Quiet {
    fn drop(&mut self) {
        use std::io::Write;
        let _ = std::io::stdout().flush();
        unsafe { dup2(self.saved, 1); close(self.saved); }
    }
}

fn parse<T: std::str::FromStr>(t: &[&str], i: usize) -> Option<T> { t.get(i)?.parse().ok() }

/// Executes one request against the real code.
fn exec(w: &mut World, req: &str, out: &mut Out) -> (String, bool) {
    let t: Vec<&str> = req.split(' ').collect();
    if t.len() < 3 || t[0] != "lb" { return ("bad-op".into(), false); }
    let sid = t[2].to_string();
    match t[1] {
        "new" => {
            let (Some(start), Some(end), Some(thr), Some(ext), Some(cap), Some(oi), Some(win)) =
                (parse::<i64>(&t, 3), parse::<i64>(&t, 4), parse::<u128>(&t, 5), parse::<i64>(&t, 6), parse::<i64>(&t, 7), parse::<u8>(&t, 8), parse::<i64>(&t, 9))
                else { return ("bad-op".into(), false) };
            if t.len() != 10 || oi > 1 { return ("bad-op".into(), false); }
            w.n_comp = w.n_comp.wrapping_add(1);
            let comp_key = Pubkey::new_from_array([w.n_comp.max(1); 32].map(|x| x ^ 0xA5));
            let c = Competition {
                bump: 255, authority: Pubkey::new_from_array([99; 32]), start_time: start, end_time: end,
                leaderboard: vec![], volume_threshold: thr, extension_duration: ext, extension_cap: cap,
                extension_triggerer: None, only_count_increase: oi == 1, volume_merge_window: win,
            };
            let s = Sid { comp_key, comp: ser(&c, 8 + Competition::INIT_SPACE), parts: BTreeMap::new(), over: false };
            let d = digest(&s);
            w.sids.insert(sid, s);
            (format!("ok | {d}"), false)
        }
        "create" | "close" => {
            let (Some(tr), Some(now)) = (parse::<u8>(&t, 3), parse::<i64>(&t, 4)) else { return ("bad-op".into(), false) };
            if t.len() != 5 || tr >= NT || !w.sids.contains_key(&sid) { return ("bad-op".into(), false); }
            let is_close = t[1] == "close";
            h_store::set_now(now);
            let comp_key = w.sids[&sid].comp_key;
            let pda = w.pda(comp_key, tr);
            let s = w.sids.get_mut(&sid).unwrap();
            let before_d = digest(s);
            let comp0 = load_comp(&s.comp);
            let e = s.parts.entry(tr).or_insert((pda, Vec::new()));
            let (prog, sys) = (gmsol_competition::ID, anchor_lang::system_program::ID);
            let existed = !e.1.is_empty();
            let part = if existed { Acc::new(pda, prog, &e.1, 2_000_000).writable() } else { Acc::new(pda, sys, &[], 0).writable() };
            let comp = Acc::new(comp_key, prog, &s.comp, 1_000_000);
            let (ok, nt) = if is_close {
                let mut accs = vec![Acc::new(trader_key(tr), sys, &[], 1_000_000).signer().writable(), comp, part];
                let (ok, after) = call_accs(&mut accs, &gmsol_competition::instruction::CloseParticipant {}.data());
                if ok {
                    // ---- property oracle: no participant account may be closed while trades are still counted
                    if now >= comp0.start_time && now <= comp0.end_time { out.oracle_fail(&format!("a participant account was closed while the competition is ongoing (now {now}, end {})", comp0.end_time), req); }
                    if !existed { out.oracle_fail("closed a participant account that does not exist", req); }
                    if after[2].0 != sys || !after[2].2.is_empty() || after[2].1 != 0 { out.oracle_fail("the closed participant account still exists", req); }
                    if after[0].1 != 1_000_000 + 2_000_000 { out.oracle_fail("the rent of the closed participant did not go to the trader", req); }
                    if after[1].2 != s.comp { out.oracle_fail("closing a participant changed the competition account", req); }
                    s.parts.get_mut(&tr).unwrap().1 = Vec::new();
                    if now > comp0.end_time { s.over = true; }
                }
                (ok, ok)
            } else {
                let mut accs = vec![Acc::new(Pubkey::new_from_array([250; 32]), sys, &[], 1_000_000_000).signer().writable(), comp, part,
                                    Acc::new(trader_key(tr), sys, &[], 1), Acc::new(sys, sys, &[], 1).exec()];
                let (ok, after) = call_accs(&mut accs, &gmsol_competition::instruction::CreateParticipantIdempotent {}.data());
                if ok {
                    if existed && after[2].2 != s.parts[&tr].1 { out.oracle_fail("create_participant_idempotent changed an existing participant", req); }
                    match load_part(&after[2].2) {
                        Some(p) => { if !existed && (p.volume != 0 || p.merged_volume != 0 || p.trader != trader_key(tr) || p.competition != comp_key || p.last_updated_at != now) { out.oracle_fail("a new participant is not initialised to volume 0 for this trader and competition", req); } }
                        None => out.oracle_fail("create_participant_idempotent left no participant account", req),
                    }
                    if after[1].2 != s.comp { out.oracle_fail("creating a participant changed the competition account", req); }
                    s.parts.get_mut(&tr).unwrap().1 = after[2].2.clone();
                }
                (ok, ok && !existed)
            };
            let d = digest(s);
            if !ok && d != before_d { out.oracle_fail("a failed create / close changed account bytes", req); }
            let s = &w.sids[&sid];
            oracle_state(s, &comp0, now, ok, &before_d, &d, req, out);
            (format!("{} | {d}", if ok { "ok" } else { "err" }), nt)
        }
        "trade" => {
            if t.len() != 13 || !w.sids.contains_key(&sid) { return ("bad-op".into(), false); }
            let (Some(tr), Some(now), Some(kind), Some(ver), Some(extra), Some(succ), Some(ev), Some(evu), Some(before), Some(after)) =
                (parse::<u8>(&t, 3), parse::<i64>(&t, 4), parse::<u8>(&t, 5), parse::<u8>(&t, 6), parse::<u8>(&t, 7), parse::<u8>(&t, 8),
                 parse::<u8>(&t, 9), parse::<u8>(&t, 10), parse::<u128>(&t, 11), parse::<u128>(&t, 12))
                else { return ("bad-op".into(), false) };
            if tr >= NT || evu >= NT || succ > 1 || ev > 1 { return ("bad-op".into(), false); }
            let before_d = digest(&w.sids[&sid]);
            let old = load_comp(&w.sids[&sid].comp);
            let r = w.on_executed(&sid, tr, now, kind, ver, extra, succ == 1, ev == 1, evu, before, after);
            let s = &w.sids[&sid];
            let d = digest(s);
            oracle_state(s, &old, now, r.is_ok(), &before_d, &d, req, out);
            (format!("{} | {d}", if r.is_ok() { "ok" } else { "err" }), d != before_d)
        }
        "upd" => {
            let (Some(tr), Some(v)) = (parse::<u8>(&t, 3), parse::<u128>(&t, 4)) else { return ("bad-op".into(), false) };
            if (t.len() - 5) % 2 != 0 { return ("bad-op".into(), false); }
            let mut board = Vec::new();
            let mut i = 5;
            while i < t.len() {
                let (Some(a), Some(bv)) = (parse::<u8>(&t, i), parse::<u128>(&t, i + 1)) else { return ("bad-op".into(), false) };
                board.push(LeaderEntry { address: trader_key(a), volume: bv });
                i += 2;
            }
            let mut c = Competition {
                bump: 0, authority: Pubkey::default(), start_time: 0, end_time: 0, leaderboard: board.clone(), volume_threshold: 1,
                extension_duration: 1, extension_cap: 1, extension_triggerer: None, only_count_increase: false, volume_merge_window: 1,
            };
            let p = Participant { bump: 0, competition: Pubkey::default(), trader: trader_key(tr), volume: v, last_updated_at: 0, merged_volume: 0 };
            hook::trade_callback::update_leaderboard(&mut c, &p);
            let b: Vec<String> = c.leaderboard.iter().map(|e| format!("{}:{}", tid(&e.address), e.volume)).collect();
            let nt = c.leaderboard != board;
            (format!("ok [{}]", b.join(",")), nt)
        }
        "ext" => {
            let (Some(old), Some(ext), Some(cap), Some(now)) = (parse::<i64>(&t, 3), parse::<i64>(&t, 4), parse::<i64>(&t, 5), parse::<i64>(&t, 6))
                else { return ("bad-op".into(), false) };
            if t.len() != 7 { return ("bad-op".into(), false); }
            h_store::set_now(now);
            let mut c = Competition {
                bump: 0, authority: Pubkey::default(), start_time: 0, end_time: old, leaderboard: vec![], volume_threshold: 1,
                extension_duration: ext, extension_cap: cap, extension_triggerer: None, only_count_increase: false, volume_merge_window: 1,
            };
            let p = Participant { bump: 0, competition: Pubkey::default(), trader: trader_key(3), volume: 0, last_updated_at: 0, merged_volume: 0 };
            let r = { let _q = Quiet::new(); hook::trade_callback::extend_competition_time(&mut c, &p, 1) };
            if r.is_err() { return ("err".into(), false); }
            let e = c.end_time;
            // property oracle (exact integers): never earlier, never past max(old, now + cap)
            let bound = std::cmp::max(BigInt::from(old), BigInt::from(now) + BigInt::from(cap));
            if e < old { out.oracle_fail(&format!("extension moved the end time earlier ({old} -> {e})"), req); }
            if BigInt::from(e) > bound { out.oracle_fail(&format!("extension moved the end time past max(old, now+cap) ({e})"), req); }
            if c.extension_triggerer != Some(trader_key(3)) { out.oracle_fail("triggerer not recorded", req); }
            (format!("ok {e}"), e != old)
        }
        _ => ("bad-op".into(), false),
    }
}

/// The property, stated on the real account bytes after a `trade` (independent of the Lean model).
#[allow(clippy::too_many_arguments)]
fn oracle_state(s: &Sid, old: &Competition, now: i64, ok: bool, before_d: &str, after_d: &str, req: &str, out: &mut Out) {
    let c = load_comp(&s.comp);
    if !ok && before_d != after_d { out.oracle_fail("a failed callback changed account bytes", req); }
    let b = &c.leaderboard;
    if b.len() > 5 { out.oracle_fail(&format!("leaderboard has {} entries", b.len()), req); }
    for i in 0..b.len() { for j in i + 1..b.len() {
        if b[i].address == b[j].address { out.oracle_fail("leaderboard lists a trader twice", req); }
    } }
    for i in 1..b.len() { if b[i - 1].volume < b[i].volume { out.oracle_fail("leaderboard is not in non-increasing order", req); } }
    // volumes of ALL participant accounts that exist (re-created ones included)
    let vols: BTreeMap<Pubkey, u128> = s.parts.values().filter_map(|(_, bytes)| load_part(bytes)).map(|p| (p.trader, p.volume)).collect();
    // once an account was closed AFTER the end the board is history: entries may be stale (the property speaks about the competition)
    let b: &Vec<LeaderEntry> = if s.over { &Vec::new() } else { b };
    for e in b {
        if vols.get(&e.address) != Some(&e.volume) { out.oracle_fail(&format!("entry of trader {} does not carry the latest volume", tid(&e.address)), req); }
    }
    if b.len() == 5 {
        let last = b[4].volume;
        for (k, v) in &vols {
            if !b.iter().any(|e| e.address == *k) && *v > last {
                out.oracle_fail(&format!("off-board trader {} has volume {} > last entry {}", tid(k), v, last), req);
            }
        }
    }
    if c.end_time < old.end_time { out.oracle_fail("end time moved earlier", req); }
    let bound = std::cmp::max(BigInt::from(old.end_time), BigInt::from(now) + BigInt::from(old.extension_cap));
    if BigInt::from(c.end_time) > bound { out.oracle_fail("end time moved past max(old end, now + cap)", req); }
}

// ---------------------------------------------------------------- generator

fn gen_history(r: &mut Rng, sid: usize, reqs: &mut Vec<String>, budget: usize) {
    let sid = format!("s{sid}");
    let big = r.chance(1, 6);
    let base: i64 = if r.chance(1, 8) { i64::MAX - r.range(0, 2000) as i64 } else { 1_700_000_000 + r.below(1000) as i64 };
    let start = base;
    let end = base.saturating_add(if r.chance(1, 5) { r.range(1, 100) } else { r.range(200, 1500) } as i64);
    // `noext`: a threshold no trade reaches, so the end time stays where the generator knows it (aimed clocks below)
    let noext = !big && r.chance(1, 2);
    let thr: u128 = if big { r.num(128).max(1) } else if noext { 1_000_000_000_000_000_000_000_000_000_000 } else { r.range(1, 40) as u128 };
    let ext: i64 = match r.below(8) { 0 => r.inum(64) as i64, 1 => i64::MAX - r.below(3) as i64, _ => r.range(1, 300) as i64 };
    let cap: i64 = match r.below(8) { 0 => r.inum(64) as i64, 1 => i64::MAX - r.below(3) as i64, _ => ext.max(1).saturating_add(r.below(200) as i64) };
    let oi = r.below(2);
    let win: i64 = match r.below(6) { 0 => r.inum(64) as i64, _ => r.range(1, 50) as i64 };
    reqs.push(format!("lb new {sid} {start} {end} {thr} {ext} {cap} {oi} {win}"));
    let mut now = start.saturating_sub(r.below(3) as i64);
    let ntr = if noext { r.range(6, NT as u64) as u8 } else { r.range(2, NT as u64) as u8 };
    let script_at = if noext && end < i64::MAX - 10 { budget * 2 / 3 } else { usize::MAX };
    let mut vol: BTreeMap<u8, u128> = BTreeMap::new(); // generator's own guess of volumes (only steers the choice)
    let trade_line = |sid: &str, t: u8, now: i64, v: u128| format!("lb trade {sid} {t} {now} 3 0 2 1 1 {t} 7 {}", 7 + v);
    for it in 0..budget {
        if it == script_at {
            // the last seconds: end - 1, end (still counted!), end + 1 — closes, re-creations and small trades of LISTED traders
            let mut by_vol: Vec<(u8, u128)> = vol.iter().map(|(a, b)| (*a, *b)).collect();
            by_vol.sort_by(|x, y| y.1.cmp(&x.1));
            let pick = |r: &mut Rng, k: usize| -> u8 { by_vol.get(k.min(by_vol.len().saturating_sub(1))).map(|x| x.0).unwrap_or(r.below(ntr as u64) as u8) };
            let (k1, k2) = (r.below(3) as usize, 3 + r.below(2) as usize);
            let (a, b2, c2) = (pick(r, k1), pick(r, k2), r.below(ntr as u64) as u8);
            now = now.max(end - 1);
            if now == end - 1 { reqs.push(format!("lb close {sid} {a} {now}")); reqs.push(trade_line(&sid, c2, now, r.range(1, 3) as u128)); *vol.entry(c2).or_insert(0) += 0; }
            now = now.max(end);
            if now == end {
                for x in [a, b2] {
                    reqs.push(format!("lb close {sid} {x} {now}"));
                    reqs.push(format!("lb create {sid} {x} {now}"));
                    reqs.push(trade_line(&sid, x, now, r.range(1, 3) as u128));
                }
            }
            now = now.max(end + 1);
            for x in [a, c2] {
                reqs.push(format!("lb close {sid} {x} {now}"));
                if r.chance(1, 2) { reqs.push(format!("lb create {sid} {x} {now}")); reqs.push(trade_line(&sid, x, now, 2)); }
            }
            continue;
        }
        if r.chance(1, 14) {
            let t = r.below(ntr as u64) as u8;
            reqs.push(format!("lb close {sid} {t} {now}"));
            if r.chance(1, 2) { reqs.push(format!("lb create {sid} {t} {now}")); }
            continue;
        }
        if r.chance(3, 4) { now = now.saturating_add(match r.below(6) { 0 => 0, 1 => r.range(30, 120) as i64, _ => r.range(0, 12) as i64 }); }
        let t = r.below(ntr as u64) as u8;
        if !vol.contains_key(&t) && r.chance(9, 10) {
            reqs.push(format!("lb create {sid} {t} {now}"));
            vol.insert(t, 0);
            continue;
        }
        if r.chance(1, 25) { reqs.push(format!("lb create {sid} {t} {now}")); vol.entry(t).or_insert(0); continue; }
        // volume: mostly small (many ties), sometimes aimed at another trader's volume, sometimes huge
        let mine = *vol.get(&t).unwrap_or(&0);
        let v: u128 = match r.below(10) {
            0 => 0,
            1 | 2 => { let other = *vol.values().nth(r.below(vol.len().max(1) as u64) as usize).unwrap_or(&1); other.saturating_sub(mine).saturating_add(r.below(2) as u128) }
            3 if big => r.num(128),
            _ => r.range(1, 6) as u128,
        };
        let (before, after) = match r.below(4) {
            0 => { let b = r.num(100); (b.saturating_add(v), b) }     // decrease
            _ => { let b = r.num(100); (b, b.saturating_add(v)) }     // increase
        };
        let kind = if r.chance(1, 40) { r.below(7) } else { 3 };
        let ver = if r.chance(1, 60) { 1 } else { 0 };
        let extra = if r.chance(1, 60) { r.below(2) } else { 2 + r.below(3) };
        let succ = if r.chance(1, 20) { 0 } else { 1 };
        let ev = if r.chance(1, 30) { 0 } else { 1 };
        let evu = if r.chance(1, 30) { r.below(ntr as u64) as u8 } else { t };
        reqs.push(format!("lb trade {sid} {t} {now} {kind} {ver} {extra} {succ} {ev} {evu} {before} {after}"));
        if vol.contains_key(&t) && succ == 1 && ev == 1 && evu == t && kind == 3 && ver == 0 && extra >= 2 {
            let counted = if after >= before { after - before } else if oi == 1 { 0 } else { before - after };
            vol.insert(t, mine.saturating_add(counted));
        }
    }
}

fn gen_unit(r: &mut Rng, reqs: &mut Vec<String>) {
    if r.chance(1, 2) {
        let (old, ext, cap, now) = (r.inum(64) as i64, r.inum(64) as i64, r.inum(64) as i64, r.inum(64) as i64);
        let (old, now) = if r.chance(1, 2) { (1_700_000_000 + r.below(500) as i64, 1_700_000_000 + r.below(500) as i64) } else { (old, now) };
        let (ext, cap) = if r.chance(1, 2) { (r.range(1, 300) as i64, r.range(1, 600) as i64) } else { (ext, cap) };
        reqs.push(format!("lb ext u {old} {ext} {cap} {now}"));
    } else {
        // arbitrary (not necessarily sorted / distinct / short) boards
        let n = r.below(8);
        let mut s = format!("lb upd u {} {}", r.below(NT as u64), r.below(6));
        let sorted = r.chance(1, 2);
        let mut vs: Vec<u64> = (0..n).map(|_| r.below(6)).collect();
        if sorted { vs.sort(); vs.reverse(); }
        for v in vs { s += &format!(" {} {}", r.below(NT as u64), v); }
        reqs.push(s);
    }
}

fn main() {
    let cli = cli();
    let mut out = Out::new();
    std::panic::set_hook(Box::new(|_| {}));
    anchor_lang::solana_program::program_stubs::set_syscall_stubs(Box::new(Stubs));
    let reqs: Vec<String> = if cli.mode == "replay" {
        read_requests(cli.file.as_deref().unwrap())
    } else {
        let mut r = Rng::new(cli.seed);
        let mut reqs = Vec::new();
        let mut sid = 0;
        while (reqs.len() as u64) < cli.n {
            if r.chance(1, 6) { for _ in 0..20 { gen_unit(&mut r, &mut reqs); } }
            else { sid += 1; let b = r.range(20, 90) as usize; gen_history(&mut r, sid, &mut reqs, b); }
        }
        reqs.truncate(cli.n as usize);
        reqs
    };
    let authority = Pubkey::find_program_address(&[hook::CALLBACK_AUTHORITY_SEED], &CALLER_PROGRAM_ID);
    let mut w = World { sids: BTreeMap::new(), authority, pdas: BTreeMap::new(), n_comp: 0 };
    for req in reqs {
        let r = std::panic::catch_unwind(std::panic::AssertUnwindSafe(|| exec(&mut w, &req, &mut out)));
        let (resp, nt) = match r { Ok(x) => x, Err(_) => { out.oracle_fail("panicked", &req); ("panic".to_string(), false) } };
        let op = req.split(' ').nth(1).unwrap_or("?").to_string();
        out.stat(&format!("op.{op}"));
        out.stat(if resp.starts_with("ok") { "resp.ok" } else if resp.starts_with("err") { "resp.err" } else { "resp.other" });
        if op == "trade" {
            if nt { out.stat("trade.counted"); }
            if let Some(s) = w.sids.get(req.split(' ').nth(2).unwrap_or("")) {
                let c = load_comp(&s.comp);
                out.stat(&format!("board.len{}", c.leaderboard.len()));
                if c.extension_triggerer.is_some() { out.stat("trade.after_extension"); }
            }
        }
        out.case_nt(&req, &resp, nt);
    }
    out.finish();
}
