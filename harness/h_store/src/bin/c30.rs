//! C30 correspondence + oracle: the real `GtState` / `UserHeader` / `GtExchangeVault` /
//! `GtExchange` (through the `verif-hooks` c30 wrappers) driven by random histories over several
//! users with a stubbed clock. Stateful engine `gt`, one world per `sid`.
use anchor_lang::error::Error as AErr;
use anchor_lang::prelude::Pubkey;
use bytemuck::Zeroable;
use gmsol_store::states::gt::{GtExchange, GtExchangeVault, GtState};
use gmsol_store::states::UserHeader;
use gmsol_store::verif::c30 as hk;
use hcommon::*;
use num_bigint::BigUint;
use std::collections::HashMap;

const UNIT: u128 = 100_000_000_000_000_000_000;

#[derive(Clone)]
struct World {
    gt: Box<GtState>,
    users: Vec<UserHeader>,
    exchanges: Vec<GtExchange>,
    vault: Box<GtExchangeVault>,
    // bookkeeping for the oracle (not part of the implementation state)
    ranks: Vec<u64>,
    cost0: u128,
    factor: u128,
    step: u64,
    touched: Vec<bool>,
    vault_ts: i64,
    vault_tw: i64,
    /// oracle cache: (steps, cost0 grown `steps` times) — advanced incrementally with exact integers
    grown: std::cell::RefCell<(u64, BigUint)>,
}

fn err(e: &AErr) -> String {
    let name = match e {
        AErr::AnchorError(a) => a.error_name.clone(),
        AErr::ProgramError(p) => format!("{:?}", p.program_error),
    };
    match name.as_str() {
        "TokenAmountOverflow" => "err Overflow".into(),
        "InvalidGTConfig" => "err Config".into(),
        "Internal" => "err Internal".into(),
        "ValueOverflow" => "err ValueOverflow".into(),
        "NotEnoughTokenAmount" => "err NotEnough".into(),
        "PreconditionsAreNotMet" => "err Precond".into(),
        "InvalidArgument" => "err Arg".into(),
        "GTStateHasBeenInitialized" => "err Initialized".into(),
        o => format!("err Other({o})"),
    }
}

fn rd_i64(b: &[u8], off: usize) -> i64 { i64::from_le_bytes(b[off..off + 8].try_into().unwrap()) }
fn rd_u128(b: &[u8], off: usize) -> u128 { u128::from_le_bytes(b[off..off + 16].try_into().unwrap()) }

fn digest(w: &World) -> String {
    let g = &*w.gt;
    // on-chain account layout of GtState (fixed ABI): last_minted_at @8, last_cum_ts @48, cum @64
    let raw = bytemuck::bytes_of(g);
    let (lm, cts, cum) = (rd_i64(raw, 8), rd_i64(raw, 48), rd_u128(raw, 64));
    let v = &*w.vault;
    let idx = if v.is_initialized() { v.time_window_index() } else { 0 };
    let us: Vec<String> = w.users.iter().zip(&w.exchanges).map(|(u, x)| {
        format!("{}/{}/{}/{}/{}", u.gt().amount(), u.gt().rank(), hk::user_gt_total_minted(u), hk::user_gt_last_minted_at(u), x.amount())
    }).collect();
    format!("T={} S={} V={} steps={} cost={} cum={cum} cts={cts} lm={lm} | vault {} {} {idx} {} {} | {}",
        g.total_minted(), g.supply(), g.gt_vault(), g.grow_steps(), g.minting_cost(),
        v.is_initialized() as u8, v.is_confirmed() as u8, v.time_window(), v.amount(), us.join(" "))
}

/// `next_minting_cost` loops once per grow step (an on-chain compute-limit hazard, see
/// design.d/C30.md). A mint is skipped on both sides only if the loop would really run for more
/// than MAX_STEP_LOOP iterations: more steps than that AND no u128 overflow of the growing cost
/// within the first MAX_STEP_LOOP iterations (an overflow ends the real loop early with `Internal`,
/// so those mints are executed and compared). The bounded pre-run uses exact big integers.
const MAX_STEP_LOOP: u64 = 100_000;
fn too_many_steps(g: &GtState, step: u64, factor: u128, amount: u64) -> bool {
    let Some(t) = g.total_minted().checked_add(amount) else { return false };
    if step == 0 || amount == 0 || (t / step).saturating_sub(g.grow_steps()) <= MAX_STEP_LOOP { return false; }
    let (lim, unit, f) = (BigUint::from(1u8) << 128, BigUint::from(UNIT), BigUint::from(factor));
    let mut c = BigUint::from(g.minting_cost());
    for _ in 0..MAX_STEP_LOOP {
        let next = &c * &f / &unit;
        if next >= lim { return false; }      // the real loop stops here with an error
        if next == c { return true; }         // fixed point: the real loop would spin to the end
        c = next;
    }
    true
}

struct Eng { worlds: HashMap<u64, World> }

impl Eng {
    fn run(&mut self, t: &[&str]) -> Option<String> {
        if t.len() < 3 || t[0] != "gt" { return None; }
        let sid: u64 = t[2].parse().ok()?;
        let u64_ = |i: usize| -> Option<u64> { t.get(i)?.parse::<u64>().ok() };
        let now: i64 = t.get(3)?.parse().ok()?;
        h_store::set_now(now);
        if t[1] == "uninit" {
            // zeroed GtState that was never initialised (grow_step_amount = 0)
            if t.len() != 5 { return None; }
            let n = u64_(4)? as usize;
            let store = Pubkey::new_unique();
            let mut users = vec![UserHeader::zeroed(); n];
            let mut exchanges = vec![GtExchange::zeroed(); n];
            let vault_key = Pubkey::new_unique();
            for (u, x) in users.iter_mut().zip(exchanges.iter_mut()) {
                let owner = Pubkey::new_unique();
                hk::user_init(u, &store, &owner, 255).expect("user init");
                hk::exchange_init(x, 255, &owner, &store, &vault_key).expect("exchange init");
            }
            let w = World { gt: Box::new(GtState::zeroed()), users, exchanges, vault: Box::new(GtExchangeVault::zeroed()),
                ranks: vec![], cost0: 0, factor: 0, step: 0, touched: vec![false; n], vault_ts: 0, vault_tw: 0, grown: std::cell::RefCell::new((0, BigUint::from(0u8))) };
            let d = digest(&w);
            self.worlds.insert(sid, w);
            return Some(format!("ok | {d}"));
        }
        if t[1] == "new" {
            if t.len() < 8 { return None; }
            let cost: u128 = t[4].parse().ok()?; let factor: u128 = t[5].parse().ok()?;
            let step = u64_(6)?; let n = u64_(7)? as usize;
            let ranks: Vec<u64> = t[8..].iter().map(|x| x.parse::<u64>().ok()).collect::<Option<Vec<_>>>()?;
            let mut gt: Box<GtState> = Box::new(GtState::zeroed());
            if let Err(e) = hk::gt_init(&mut gt, 6, cost, factor, step, &ranks) { return Some(err(&e)); }
            let store = Pubkey::new_unique();
            let mut users = vec![UserHeader::zeroed(); n];
            let mut exchanges = vec![GtExchange::zeroed(); n];
            let vault_key = Pubkey::new_unique();
            for (u, x) in users.iter_mut().zip(exchanges.iter_mut()) {
                let owner = Pubkey::new_unique();
                hk::user_init(u, &store, &owner, 255).expect("user init");
                hk::exchange_init(x, 255, &owner, &store, &vault_key).expect("exchange init");
            }
            let w = World { gt, users, exchanges, vault: Box::new(GtExchangeVault::zeroed()),
                ranks: ranks.iter().take(15).cloned().collect(), cost0: cost, factor, step, touched: vec![false; n], vault_ts: 0, vault_tw: 0, grown: std::cell::RefCell::new((0, BigUint::from(cost))) };
            let d = digest(&w);
            self.worlds.insert(sid, w);
            return Some(format!("ok | {d}"));
        }
        let w = match self.worlds.get_mut(&sid) { Some(w) => w, None => return Some("err NoState".into()) };
        let backup = w.clone();
        let res: Result<String, String> = match (t[1], t.len()) {
            ("mint", 6) => {
                let (uid, amount) = (u64_(4)? as usize, u64_(5)?);
                if uid >= w.users.len() { return Some("err Arg".into()); }
                if too_many_steps(&w.gt, w.step, w.factor, amount) { return Some("skip StepLoop".into()); }
                hk::gt_mint_to(&mut w.gt, &mut w.users[uid], amount).map(|_| { if amount != 0 { w.touched[uid] = true; } String::new() }).map_err(|e| err(&e))
            }
            ("burn", 6) => {
                let (uid, amount) = (u64_(4)? as usize, u64_(5)?);
                if uid >= w.users.len() { return Some("err Arg".into()); }
                hk::gt_unchecked_burn_from(&mut w.gt, &mut w.users[uid], amount).map(|_| { if amount != 0 { w.touched[uid] = true; } String::new() }).map_err(|e| err(&e))
            }
            ("mintvalue", 6) => {
                let uid = u64_(4)? as usize; let value: u128 = t[5].parse().ok()?;
                if uid >= w.users.len() { return Some("err Arg".into()); }
                match hk::gt_get_mint_amount(&w.gt, value) {
                    Err(e) => Err(err(&e)),
                    Ok((m, _, _)) if too_many_steps(&w.gt, w.step, w.factor, m) => return Some("skip StepLoop".into()),
                    Ok((m, mv, c)) => hk::gt_mint_to(&mut w.gt, &mut w.users[uid], m).map(|_| { if m != 0 { w.touched[uid] = true; } format!(" {m} {mv} {c}") }).map_err(|e| err(&e)),
                }
            }
            ("mintamount", 5) => {
                let value: u128 = t[4].parse().ok()?;
                return Some(match hk::gt_get_mint_amount(&w.gt, value) { Ok((m, mv, c)) => format!("ok {m} {mv} {c}"), Err(e) => err(&e) });
            }
            ("vaultinit", 5) => {
                let tw = u64_(4)?; if tw > u32::MAX as u64 { return None; }
                let store = Pubkey::new_unique();
                hk::vault_init(&mut w.vault, 255, &store, tw as u32).map(|_| { w.vault_ts = now; w.vault_tw = tw as i64; String::new() }).map_err(|e| err(&e))
            }
            ("request", 6) => {
                let (uid, amount) = (u64_(4)? as usize, u64_(5)?);
                if uid >= w.users.len() { return Some("err Arg".into()); }
                let World { gt, users, exchanges, vault, touched, .. } = w;
                hk::gt_unchecked_request_exchange(gt, &mut users[uid], vault, &mut exchanges[uid], amount).map(|_| { if amount != 0 { touched[uid] = true; } String::new() }).map_err(|e| err(&e))
            }
            ("confirm", 4) => hk::gt_unchecked_confirm_exchange_vault(&mut w.gt, &mut w.vault).map(|a| format!(" {a}")).map_err(|e| err(&e)),
            ("depositable", 4) => return Some(match w.vault.validate_depositable() { Ok(()) => "ok".into(), Err(e) => err(&e) }),
            ("confirmable", 4) => return Some(match w.vault.validate_confirmable() { Ok(()) => "ok".into(), Err(e) => err(&e) }),
            _ => return None,
        };
        Some(match res {
            Ok(pre) => format!("ok{pre} | {}", digest(w)),
            // the instruction would revert: restore the pre-state (request_exchange is not atomic)
            Err(e) => { *w = backup; e }
        })
    }
}

/// Property oracle on the implementation state after each request (exact integers, no model).
/// Returns violations; `known` collects literal violations matching finding F-C30.
fn oracle(w: &World, before: Option<&World>, req: &[&str], resp: &str, now: i64, viol: &mut Vec<String>, known: &mut Vec<String>) {
    let g = &*w.gt;
    let sum: u128 = w.users.iter().map(|u| u.gt().amount() as u128).sum();
    if g.supply() as u128 != sum { viol.push(format!("supply {} ≠ Σ balances {sum}", g.supply())); }
    if let Some(b) = before { if g.total_minted() < b.gt.total_minted() { viol.push("total minted decreased".into()); } }
    // cost depends only on total minted: initial cost grown (total / step) times
    if w.step == 0 {
        // never initialised: nothing can be minted, the cost bookkeeping stays zero
        if g.total_minted() != 0 || g.minting_cost() != 0 || g.grow_steps() != 0 || g.supply() != 0 { viol.push("an uninitialised GT state changed".into()); }
        if (req[1] == "mint" || req[1] == "mintvalue") && resp.starts_with("ok") && g.total_minted() != 0 { viol.push("minted on an uninitialised GT state".into()); }
    }
    let steps = if w.step == 0 { 0 } else { g.total_minted() / w.step };
    if w.step != 0 {
        let mut cache = w.grown.borrow_mut();
        if steps >= cache.0 && steps - cache.0 <= 200_000 {
            let (unit, f, lim) = (BigUint::from(UNIT), BigUint::from(w.factor), BigUint::from(1u8) << 128);
            let mut ok = true;
            while cache.0 < steps { cache.1 = &cache.1 * &f / &unit; cache.0 += 1; if cache.1 >= lim { ok = false; break; } }
            if ok && (BigUint::from(g.minting_cost()) != cache.1 || g.grow_steps() != steps) {
                viol.push(format!("minting cost {} ≠ cost0 grown {steps} times = {}", g.minting_cost(), cache.1));
            }
            if !ok { viol.push("total minted advanced although the grown cost does not fit u128".into()); }
        }
    }
    for (i, u) in w.users.iter().enumerate() {
        let cnt = w.ranks.iter().filter(|t| **t <= u.gt().amount()).count() as u8;
        if u.gt().rank() != cnt {
            if !w.touched[i] && u.gt().amount() == 0 && u.gt().rank() == 0 && w.ranks.first() == Some(&0) && cnt == 1 {
                known.push("fresh user (never minted/burned) has rank 0 although a threshold of 0 is at or below its balance".into());
            } else { viol.push(format!("user {i}: rank {} ≠ #thresholds ≤ balance = {cnt}", u.gt().rank())); }
        }
    }
    let xs: u128 = w.exchanges.iter().map(|x| x.amount() as u128).sum();
    if w.vault.amount() as u128 != xs { viol.push("vault amount ≠ Σ exchange amounts".into()); }
    match req[1] {
        "mintvalue" | "mintamount" if resp.starts_with("ok ") => {
            let f: Vec<&str> = resp[3..].split(' ').collect();
            let (m, mv, c): (u128, u128, u128) = (f[0].parse().unwrap(), f[1].parse().unwrap(), f[2].parse().unwrap());
            let value: u128 = req.last().unwrap().parse().unwrap();
            let cost_before = before.map(|b| b.gt.minting_cost()).unwrap_or(g.minting_cost());
            if c != cost_before || c == 0 || m != value / c || BigUint::from(mv) != BigUint::from(m) * BigUint::from(c) || value - mv >= c {
                viol.push(format!("mint amount is not the whole units affordable: value {value} cost {c} → {m} units worth {mv}"));
            }
            if req[1] == "mintvalue" { if let Some(b) = before { if g.total_minted() != b.gt.total_minted() + m as u64 { viol.push("minted units differ from get_mint_amount".into()); } } }
        }
        "depositable" | "confirmable" => {
            let v = &*w.vault;
            let expect = if req[1] == "depositable" {
                v.is_initialized() && !v.is_confirmed() && now / w.vault_tw.max(1) == w.vault_ts / w.vault_tw.max(1)
            } else {
                v.is_initialized() && !v.is_confirmed() && now / w.vault_tw.max(1) > w.vault_ts / w.vault_tw.max(1)
            };
            // an uninitialised vault has time_window 0 (division by zero panics → reported as panic)
            if v.is_initialized() && (resp == "ok") != expect { viol.push(format!("{} answered {resp} but window predicate says {expect}", req[1])); }
        }
        _ => {}
    }
}

fn gen_history(r: &mut Rng, sid: u64, len: u64, out: &mut Vec<String>) {
    let mut now: i64 = 1_700_000_000 + r.below(1000) as i64;
    let n = r.range(1, 4);
    let nr = r.below(6);
    let mut ranks: Vec<u64> = Vec::new();
    let mut t = if r.chance(1, 25) { 0 } else { r.range(1, 50) };
    for _ in 0..nr { ranks.push(t); t += r.range(1, 200); }
    if r.chance(1, 30) && ranks.len() >= 2 { ranks.swap(0, 1); } // unsorted ⇒ rejected
    if r.chance(1, 25) {
        // never-initialised GT state: every non-zero mint must fail with Config, the window ops still work
        let n = r.range(1, 3);
        out.push(format!("gt uninit {sid} {now} {n}"));
        for _ in 0..len.min(12) {
            now += r.range(0, 500) as i64;
            let uid = r.below(n);
            match r.below(8) {
                0 | 1 => out.push(format!("gt mint {sid} {now} {uid} {}", if r.chance(1, 4) { 0 } else { r.range(1, 1000) })),
                2 => out.push(format!("gt mintvalue {sid} {now} {uid} {}", r.num(128))),
                3 => out.push(format!("gt burn {sid} {now} {uid} {}", r.below(2))),
                4 => out.push(format!("gt vaultinit {sid} {now} {}", r.below(300))),
                5 => out.push(format!("gt request {sid} {now} {uid} {}", r.below(2))),
                6 => out.push(format!("gt confirm {sid} {now}")),
                _ => out.push(format!("gt {} {sid} {now}", if r.chance(1, 2) { "depositable" } else { "confirmable" })),
            }
        }
        return;
    }
    let step = match r.below(24) { 0 => 0, 1 | 2 => 1, _ => r.range(2, 500) };
    let cost: u128 = match r.below(6) { 0 => 0, 1 => r.range(1, 9) as u128, _ => UNIT / 100 * r.range(1, 50) as u128 };
    let factor: u128 = match r.below(8) { 0 => UNIT, 1 => 2 * UNIT, 2 => UNIT / 2, 3 => r.num(128), 4 | 5 => UNIT + UNIT / 10u128.pow(r.range(5, 8) as u32) * r.range(1, 9) as u128, _ => UNIT + UNIT / 1000 * r.range(1, 100) as u128 };
    out.push(format!("gt new {sid} {now} {cost} {factor} {step} {n} {}", ranks.iter().map(|x| x.to_string()).collect::<Vec<_>>().join(" ")).trim_end().to_string());
    let mut bal = vec![0u64; n as usize];
    let mut tw: u64 = 0;
    for _ in 0..len {
        now += match r.below(4) { 0 => 0, 1 => r.range(1, 5) as i64, 2 => r.range(1, 100) as i64, _ => r.range(100, 5000) as i64 };
        let uid = if r.chance(1, 40) { n } else { r.below(n) };
        let b = bal.get(uid as usize).cloned().unwrap_or(0);
        let small = |r: &mut Rng| match r.below(16) { 0 | 1 => 0u64, 2 | 3 => r.num(64) as u64, 4 => step.saturating_mul(r.range(1_000, 90_000)), _ => r.range(1, 300) };
        match r.below(12) {
            0..=3 => { let a = small(r); out.push(format!("gt mint {sid} {now} {uid} {a}")); if (uid as usize) < bal.len() { bal[uid as usize] = b.saturating_add(a); } }
            4 | 5 => { let a = match r.below(5) { 0 => b, 1 => b.saturating_add(1), 2 => 0, _ => r.below(b.saturating_add(1)) }; out.push(format!("gt burn {sid} {now} {uid} {a}")); if a <= b && (uid as usize) < bal.len() { bal[uid as usize] = b - a; } }
            6 | 7 => { let units = r.range(0, 40) as u128; let v = if r.chance(1, 10) { r.num(128) } else { cost.saturating_mul(units).saturating_add(r.u128() % cost.max(1)) }; out.push(format!("gt mintvalue {sid} {now} {uid} {v}")); let k = (uid as usize).min(bal.len() - 1); bal[k] = bal[k].saturating_add(units as u64); }
            8 => { tw = match r.below(5) { 0 => 0, _ => r.range(1, 3000) }; out.push(format!("gt vaultinit {sid} {now} {tw}")); }
            9 => { let a = match r.below(4) { 0 => b, 1 => 0, _ => r.below(b.saturating_add(1)) }; out.push(format!("gt request {sid} {now} {uid} {a}")); }
            10 => { if r.chance(1, 2) { now += tw as i64; } out.push(format!("gt confirm {sid} {now}")); }
            _ => { out.push(format!("gt {} {sid} {now}", if r.chance(1, 2) { "depositable" } else { "confirmable" })); }
        }
        if r.chance(1, 15) { out.push(format!("gt mintamount {sid} {now} {}", r.num(128))); }
    }
}

fn main() {
    h_store::install_stubs();
    let cli = cli();
    let mut out = Out::new();
    if std::env::var("C30_DEBUG").is_err() { std::panic::set_hook(Box::new(|_| {})); }
    let reqs: Vec<String> = if cli.mode == "replay" { read_requests(cli.file.as_deref().unwrap()) } else {
        let mut r = Rng::new(cli.seed);
        r = Rng(r.next()); // decorrelate: hcommon streams of consecutive seeds are one draw apart
        let mut v = Vec::new();
        let mut sid = cli.seed * 1_000_000;
        while (v.len() as u64) < cli.n { sid += 1; let len = r.range(5, 60); gen_history(&mut r, sid, len, &mut v); }
        v
    };
    let mut eng = Eng { worlds: HashMap::new() };
    for req in reqs {
        let t: Vec<&str> = req.split(' ').collect();
        let sid: Option<u64> = t.get(2).and_then(|s| s.parse().ok());
        let before = sid.and_then(|s| eng.worlds.get(&s).cloned());
        let resp = match std::panic::catch_unwind(std::panic::AssertUnwindSafe(|| eng.run(&t))) {
            Ok(Some(s)) => s, Ok(None) => "bad-op".into(),
            Err(_) => { if let (Some(s), Some(b)) = (sid, before.clone()) { eng.worlds.insert(s, b); } "panic".into() }
        };
        out.stat(&format!("op.{}", t.get(1).unwrap_or(&"?")));
        out.stat(&format!("resp.{}", resp.split(' ').take(if resp.starts_with("err") { 2 } else { 1 }).collect::<Vec<_>>().join("_")));
        if resp.starts_with("err Other") { out.oracle_fail(&format!("unexpected error {resp}"), &req); }
        if let Some(w) = sid.and_then(|s| eng.worlds.get(&s)) {
            let now: i64 = t.get(3).and_then(|s| s.parse().ok()).unwrap_or(0);
            let (mut viol, mut known) = (Vec::new(), Vec::new());
            oracle(w, before.as_ref(), &t, &resp, now, &mut viol, &mut known);
            for v in viol { out.oracle_fail(&v, &req); }
            for k in known { if t[1] == "new" { out.known("F-C30", &k, &req); } else { out.stat("known.F-C30.persisting"); } }
            out.stat("oracle.checked");
        }
        let nt = resp.starts_with("ok") && before.as_ref().map(|b| sid.and_then(|s| eng.worlds.get(&s)).map(|w| digest(w) != digest(b)).unwrap_or(false)).unwrap_or(true);
        out.case_nt(&req, &resp, nt);
    }
    out.finish();
}
