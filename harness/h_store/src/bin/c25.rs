//! C25 correspondence + oracle: the real `PriceFeed::update` (hook
//! `gmsol_store::verif::c25::price_feed_update`, a public forwarder) with a stubbed `Clock`.
//!
//! Requests: `feed new <sid>` ·
//! `feed upd <sid> <slot> <now> <ts> <price> <min> <max> <maxFutureExcess> <idempotent 0|1>`.
//! Responses: `ok 1|ok 0|err <Kind> | <slot> <lastTs> <ts> <price> <min> <max>`.
use gmsol_store::states::{PriceFeed, PriceFeedPrice};
use hcommon::*;
use std::collections::HashMap;

#[derive(Clone, PartialEq, Debug)]
struct Snap { slot: u64, last_ts: i64, ts: i64, price: u128, min: u128, max: u128 }

fn snap(f: &PriceFeed) -> Snap {
    // `last_published_at` has no getter: read it from the Pod bytes (offset 152, after
    // bump/provider/index/padding (16), four pubkeys (128) and the slot (8)); cross-check the slot.
    let b = bytemuck::bytes_of(f);
    let slot = u64::from_le_bytes(b[144..152].try_into().unwrap());
    assert_eq!(slot, f.last_published_at_slot(), "layout drifted");
    let last_ts = i64::from_le_bytes(b[152..160].try_into().unwrap());
    let p = f.price();
    Snap { slot, last_ts, ts: p.ts(), price: *p.price(), min: *p.min_price(), max: *p.max_price() }
}

fn show(s: &Snap) -> String { format!("{} {} {} {} {} {}", s.slot, s.last_ts, s.ts, s.price, s.min, s.max) }

struct Harness { feeds: HashMap<String, Box<PriceFeed>> }

impl Harness {
    fn exec(&mut self, req: &str) -> (String, Option<String>, bool) {
        let bad = || ("bad-op".to_string(), None, false);
        let t: Vec<&str> = req.split(' ').collect();
        if t.len() < 3 || t[0] != "feed" { return bad(); }
        if t[1] == "new" && t.len() == 3 {
            let f = Box::new(PriceFeed::default());
            let d = show(&snap(&f));
            self.feeds.insert(t[2].to_string(), f);
            return (format!("ok | {d}"), None, false);
        }
        if t[1] != "upd" || t.len() != 11 { return bad(); }
        let Some(f) = self.feeds.get_mut(t[2]) else { return bad() };
        let p = |i: usize| t[i];
        let (Ok(slot), Ok(now), Ok(ts), Ok(price), Ok(min), Ok(max), Ok(mfe)) = (
            p(3).parse::<u64>(), p(4).parse::<i64>(), p(5).parse::<i64>(), p(6).parse::<u128>(),
            p(7).parse::<u128>(), p(8).parse::<u128>(), p(9).parse::<u64>()) else { return bad() };
        let idem = match p(10) { "1" => true, "0" => false, _ => return bad() };
        h_store::set_slot(slot);
        h_store::set_now(now);
        let before = snap(f);
        let before_bytes = bytemuck::bytes_of(&**f).to_vec();
        let newp = PriceFeedPrice::new(8, ts, price, min, max, 0);
        let r = gmsol_store::verif::c25::price_feed_update(f, &newp, mfe, idem);
        let after = snap(f);
        let head = match &r {
            Ok(b) => format!("ok {}", *b as u8),
            Err(anchor_lang::error::Error::AnchorError(a)) => format!("err {}", a.error_name),
            Err(_) => "err Other".into(),
        };
        // ---- the property, stated on the implementation
        let mut fail = None;
        if after.ts < before.ts { fail = Some(format!("price timestamp went backwards: {} -> {}", before.ts, after.ts)); }
        if !(after.min <= after.price && after.price <= after.max) { fail = Some(format!("stored price not ordered: min {} price {} max {}", after.min, after.price, after.max)); }
        if after.slot < before.slot || after.last_ts < before.last_ts { fail = Some("published slot/clock went backwards".into()); }
        let unchanged = bytemuck::bytes_of(&**f) == &before_bytes[..];
        match &r {
            Err(_) if !unchanged => fail = Some("a rejected update changed the feed".into()),
            Ok(false) if !unchanged => fail = Some("a skipped update changed the feed".into()),
            _ => {}
        }
        let older = ts < before.ts;
        let time_ok = slot >= before.slot && now >= before.last_ts;
        if older && time_ok {
            if idem && head != "ok 0" { fail = Some(format!("idempotent mode must skip an older update without error, got `{head}`")); }
            if !idem && r.is_ok() { fail = Some("strict mode accepted an older update".into()); }
        }
        if let Ok(true) = r {
            let limit = (now as i128 + mfe as i128).min(i64::MAX as i128);
            if ts as i128 > limit { fail = Some(format!("accepted a price {} s beyond the allowed future excess", ts as i128 - limit)); }
            if after != (Snap { slot, last_ts: now, ts, price, min, max }) { fail = Some("accepted update not stored verbatim".into()); }
        }
        let nt = matches!(r, Ok(true));
        (format!("{head} | {}", show(&after)), fail, nt)
    }
}

fn gen(seed: u64, n: u64) -> Vec<String> {
    let mut r = Rng::new(seed);
    let mut out = vec![];
    let mut sid = 0u64;
    while (out.len() as u64) < n {
        sid += 1;
        let s = format!("f{seed}_{sid}");
        out.push(format!("feed new {s}"));
        // shadow of the last accepted values, to draw arguments relative to the state
        let extreme = r.chance(1, 10);
        let mut slot: u64 = if extreme { u64::MAX - 50 } else { r.below(1000) };
        let mut now: i64 = if extreme { i64::MAX - 100 } else { 1_700_000_000 + r.below(1000) as i64 };
        let mut last_ts: i64 = 0;
        let idem_mode = r.chance(1, 2);
        for _ in 0..r.range(5, 40) {
            // clock and slot mostly advance, sometimes stall or go backwards
            // (a backwards step is transient: the next call continues from the advancing clock)
            let (slot_adv, now_adv) = (slot.saturating_add(r.below(4)), now.saturating_add(r.below(20) as i64));
            let slot_req = match r.below(12) { 0 => slot.saturating_sub(r.range(1, 3)), 1 => slot, _ => { slot = slot_adv; slot } };
            let now_req = match r.below(12) { 0 => now.saturating_sub(r.range(1, 30) as i64), 1 => now, _ => { now = now_adv; now } };
            let mfe: u64 = match r.below(6) { 0 => 0, 1 => u64::MAX, 2 => r.below(5), _ => r.below(120) };
            let ts: i64 = match r.below(12) {
                0 => last_ts.saturating_sub(r.range(1, 50) as i64),                       // older
                1 => last_ts,                                                // same
                2 => now.saturating_add(mfe.min(i64::MAX as u64) as i64),   // exactly at the limit
                3 => now.saturating_add(mfe.min(i64::MAX as u64) as i64).saturating_add(1), // one past it
                4 => i64::MAX - r.below(3) as i64,
                5 => -(r.below(100) as i64),
                _ => now.saturating_sub(r.below(60) as i64).saturating_add(r.below(10) as i64),
            };
            let price = r.num(128);
            let (min, max) = match r.below(8) {
                0 => (price.saturating_add(1), price.saturating_add(2)),      // price below min
                1 => (price.saturating_sub(2), price.saturating_sub(1)),      // price above max
                2 => (price.saturating_add(1), price.saturating_sub(1)),      // min > max
                3 => (price, price),
                _ => (price.saturating_sub(r.below(1000) as u128), price.saturating_add(r.below(1000) as u128)),
            };
            let idem = if r.chance(1, 8) { !idem_mode } else { idem_mode };
            out.push(format!("feed upd {s} {slot_req} {now_req} {ts} {price} {min} {max} {mfe} {}", idem as u8));
            // approximate shadow (exact acceptance is decided by the code, this only steers the draw)
            if ts >= last_ts && min <= price && price <= max { last_ts = ts.min(now.saturating_add(mfe.min(i64::MAX as u64) as i64)); }
        }
    }
    out
}

fn main() {
    let cli = cli();
    h_store::install_stubs();
    std::panic::set_hook(Box::new(|_| {}));
    let mut out = Out::new();
    let reqs: Vec<String> = if cli.mode == "replay" { read_requests(cli.file.as_deref().unwrap()) } else { gen(cli.seed, cli.n) };
    let mut h = Harness { feeds: HashMap::new() };
    for req in reqs {
        let res = std::panic::catch_unwind(std::panic::AssertUnwindSafe(|| h.exec(&req)));
        let (resp, fail, nt) = match res { Ok(x) => x, Err(_) => ("panic".to_string(), Some("panicked".to_string()), false) };
        out.stat(&format!("op.{}", req.split(' ').nth(1).unwrap_or("?")));
        out.stat(&format!("resp.{}", resp.split(" | ").next().unwrap_or("").replace(' ', "_")));
        if req.ends_with(" 1") { out.stat("mode.idempotent"); } else if req.ends_with(" 0") { out.stat("mode.strict"); }
        if let Some(what) = fail { out.oracle_fail(&what, &req); } else { out.stat("oracle.checked"); }
        out.case_nt(&req, &resp, nt);
    }
    out.finish();
}
