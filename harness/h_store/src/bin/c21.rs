//! C21 correspondence + oracle: the real revertible wrappers over in-memory accounts:
//! `RevertibleMarket`, `RevertibleLiquidityMarket` (deferred mint/burn), `RevertiblePosition`
//! and `RevertibleVirtualInventory`. Hooks: `gmsol_store::verif::c21::*` (public wrappers of the
//! crate-private constructors/accessors). Reads/writes go through the public `gmsol_model`
//! traits, commit through `Revertible::commit` (the real `commit_to_storage`), abandon = drop.
//! CPIs (`invoke_signed`) are intercepted by a syscall stub that logs them, counts the events and
//! plays the token program's `MintTo`/`Burn` on the mint account's supply.
//!
//! Requests (`rbuf <op> <sid> …`): `new <now>` · `begin|lbegin|pbegin` · `commit|abandon` ·
//! `setrev <rev>` · `rpool <k>` · `rclock <i> <now>` · `rother` · `wpool <k> <L|S> <d>` ·
//! `wclock <i> <now>` · `wffps <v>` · `wbal <L|S> <in|out> <amt>` · liquidity: `mint <a>` ·
//! `burn <a>` · `supply` · position: `pread` · `pwrite <i> <v>` · `ptouch <inc|dec> <slot> <now>` ·
//! virtual inventory: `vbegin|vcommit|vabandon` · `vread` · `vwrite <L|S> <d>` · `vsetrev <rev>`.
use anchor_lang::prelude::*;
use anchor_lang::solana_program::program_stubs::{set_syscall_stubs, SyscallStubs};
use anchor_lang::Discriminator;
use anchor_spl::token::Mint;
use gmsol_model::{
    Balance, Bank, BaseMarket, BaseMarketMut, BorrowingFeeMarket, BorrowingFeeMarketMut, ClockKind, LiquidityMarket,
    LiquidityMarketMut, PerpMarket, PerpMarketMut, Pool as _, PoolKind, Position as _, PositionImpactMarket,
    PositionImpactMarketMut, PositionMut, PositionState as _, PositionStateMut, SwapMarketMut,
};
use gmsol_store::states::market::pool::Pool;
use gmsol_store::states::market::revertible::revertible_virtual_inventory::RevertibleVirtualInventory;
use gmsol_store::states::market::revertible::{Revertible, RevertibleLiquidityMarket, RevertibleMarket, RevertiblePosition, Revision};
use gmsol_store::states::market::virtual_inventory::VirtualInventory;
use gmsol_store::states::{Market, Position, Store};
use gmsol_utils::order::PositionKind;
use gmsol_store::verif::c21 as hook;
use hcommon::*;
use std::collections::HashMap;
use std::sync::atomic::Ordering;
use std::sync::Mutex;

type RM = RevertibleMarket<'static, 'static>;
type RLM = RevertibleLiquidityMarket<'static, 'static>;
type RP = RevertiblePosition<'static, 'static>;
type RVI = RevertibleVirtualInventory<'static>;

// ---------------------------------------------------------------- syscall stubs

static TOKEN_CPIS: Mutex<Vec<(u8, u64)>> = Mutex::new(Vec::new()); // (7 = MintTo | 8 = Burn, amount)
static EVENT_CPIS: Mutex<u64> = Mutex::new(0);
const MINT_KEY: u8 = 21;

struct Stubs;
impl SyscallStubs for Stubs {
    fn sol_get_clock_sysvar(&self, var_addr: *mut u8) -> u64 {
        let clock = anchor_lang::solana_program::clock::Clock {
            slot: h_store::SLOT.load(Ordering::SeqCst), epoch_start_timestamp: 0, epoch: 0, leader_schedule_epoch: 0,
            unix_timestamp: h_store::NOW.load(Ordering::SeqCst),
        };
        unsafe { std::ptr::write_unaligned(var_addr as *mut anchor_lang::solana_program::clock::Clock, clock) };
        0
    }
    fn sol_get_last_restart_slot(&self, var_addr: *mut u8) -> u64 {
        unsafe { std::ptr::write_unaligned(var_addr as *mut u64, 0) };
        0
    }
    fn sol_log(&self, _message: &str) {}
    fn sol_invoke_signed(
        &self,
        ix: &anchor_lang::solana_program::instruction::Instruction,
        infos: &[AccountInfo],
        _seeds: &[&[&[u8]]],
    ) -> anchor_lang::solana_program::entrypoint::ProgramResult {
        if ix.program_id == anchor_spl::token::ID {
            let tag = ix.data[0];
            let amount = u64::from_le_bytes(ix.data[1..9].try_into().unwrap());
            TOKEN_CPIS.lock().unwrap().push((tag, amount));
            // play the token program on the mint's supply (offset 36 of the packed Mint)
            for ai in infos {
                if *ai.key == key(MINT_KEY) {
                    let mut d = ai.try_borrow_mut_data()?;
                    let s = u64::from_le_bytes(d[36..44].try_into().unwrap());
                    let n = match tag { 7 => s.checked_add(amount), 8 => s.checked_sub(amount), _ => Some(s) };
                    let Some(n) = n else { return Err(anchor_lang::solana_program::program_error::ProgramError::ArithmeticOverflow) };
                    d[36..44].copy_from_slice(&n.to_le_bytes());
                }
            }
        } else {
            *EVENT_CPIS.lock().unwrap() += 1;
        }
        Ok(())
    }
}

// ---------------------------------------------------------------- accounts

fn leak<T>(x: T) -> &'static mut T { Box::leak(Box::new(x)) }
fn key(tag: u8) -> Pubkey { Pubkey::new_from_array([tag; 32]) }
const LONG: u8 = 11;
const SHORT: u8 = 12;
const MARKET_TOKEN: u8 = 3;
const STORE: u8 = 2;

/// a leaked account whose data starts at an address ≡ 8 (mod 16) (zero-copy alignment);
/// returns the AccountInfo and a raw pointer to its data for read-only peeking while borrowed
fn new_account(k: Pubkey, owner: Pubkey, size: usize, disc: &[u8]) -> (&'static AccountInfo<'static>, *const u8, usize) {
    let words = (size + 8 + 15) / 16 + 1;
    let buf: &'static mut [u128] = Box::leak(vec![0u128; words].into_boxed_slice());
    let ptr = unsafe { (buf.as_mut_ptr() as *mut u8).add(8) };
    let bytes: &'static mut [u8] = unsafe { std::slice::from_raw_parts_mut(ptr, size + 8) };
    bytes[..disc.len()].copy_from_slice(disc);
    let ai = leak(AccountInfo::new(leak(k), false, true, leak(1_000_000u64), bytes, leak(owner), false, 0));
    (ai, ptr as *const u8, size + 8)
}

fn pool_ref<'a>(rm: &'a RM, k: PoolKind) -> gmsol_model::Result<&'a Pool> {
    use PoolKind::*;
    match k {
        Primary => rm.liquidity_pool(),
        SwapImpact => rm.swap_impact_pool(),
        ClaimableFee => rm.claimable_fee_pool(),
        OpenInterestForLong => rm.open_interest_pool(true),
        OpenInterestForShort => rm.open_interest_pool(false),
        OpenInterestInTokensForLong => rm.open_interest_in_tokens_pool(true),
        OpenInterestInTokensForShort => rm.open_interest_in_tokens_pool(false),
        PositionImpact => rm.position_impact_pool(),
        BorrowingFactor => rm.borrowing_factor_pool(),
        FundingAmountPerSizeForLong => rm.funding_amount_per_size_pool(true),
        FundingAmountPerSizeForShort => rm.funding_amount_per_size_pool(false),
        ClaimableFundingAmountPerSizeForLong => rm.claimable_funding_amount_per_size_pool(true),
        ClaimableFundingAmountPerSizeForShort => rm.claimable_funding_amount_per_size_pool(false),
        CollateralSumForLong => rm.collateral_sum_pool(true),
        CollateralSumForShort => rm.collateral_sum_pool(false),
        TotalBorrowing => rm.total_borrowing_pool(),
        _ => Err(gmsol_model::Error::MissingPoolKind(k)),
    }
}

fn pool_mut<'a>(rm: &'a mut RM, k: PoolKind) -> gmsol_model::Result<&'a mut Pool> {
    use PoolKind::*;
    match k {
        Primary => rm.liquidity_pool_mut(),
        SwapImpact => rm.swap_impact_pool_mut(),
        ClaimableFee => rm.claimable_fee_pool_mut(),
        OpenInterestForLong => rm.open_interest_pool_mut(true),
        OpenInterestForShort => rm.open_interest_pool_mut(false),
        OpenInterestInTokensForLong => rm.open_interest_in_tokens_pool_mut(true),
        OpenInterestInTokensForShort => rm.open_interest_in_tokens_pool_mut(false),
        PositionImpact => rm.position_impact_pool_mut(),
        BorrowingFactor => rm.borrowing_factor_pool_mut(),
        FundingAmountPerSizeForLong => rm.funding_amount_per_size_pool_mut(true),
        FundingAmountPerSizeForShort => rm.funding_amount_per_size_pool_mut(false),
        ClaimableFundingAmountPerSizeForLong => rm.claimable_funding_amount_per_size_pool_mut(true),
        ClaimableFundingAmountPerSizeForShort => rm.claimable_funding_amount_per_size_pool_mut(false),
        CollateralSumForLong => rm.collateral_sum_pool_mut(true),
        CollateralSumForShort => rm.collateral_sum_pool_mut(false),
        TotalBorrowing => rm.total_borrowing_pool_mut(),
        _ => Err(gmsol_model::Error::MissingPoolKind(k)),
    }
}

/// stored payloads as the account shows them (NOT through the buffer)
fn storage(m: &Market) -> Vec<Vec<i128>> {
    let mut v = vec![];
    for k in 0..16u8 {
        let p = m.pool(PoolKind::try_from(k).unwrap()).expect("pool");
        v.push(vec![p.long_amount().unwrap() as i128, p.short_amount().unwrap() as i128]);
    }
    v.push(vec![
        m.clock(ClockKind::PriceImpactDistribution).unwrap() as i128,
        m.clock(ClockKind::Borrowing).unwrap() as i128,
        m.clock(ClockKind::Funding).unwrap() as i128,
    ]);
    let o = m.state();
    v.push(vec![o.long_token_balance_raw() as i128, o.short_token_balance_raw() as i128, o.funding_factor_per_second(), o.trade_count() as i128]);
    v
}

fn pos_payload(p: &Position) -> Vec<i128> {
    let s = &p.state;
    vec![s.trade_id as i128, s.increased_at as i128, s.updated_at_slot as i128, s.decreased_at as i128,
         s.size_in_tokens as i128, s.collateral_amount as i128, s.size_in_usd as i128, s.borrowing_factor as i128,
         s.funding_fee_amount_per_size as i128, s.long_token_claimable_funding_amount_per_size as i128,
         s.short_token_claimable_funding_amount_per_size as i128]
}

fn csv(v: &[i128]) -> String { v.iter().map(|x| x.to_string()).collect::<Vec<_>>().join(",") }
fn show_cells(c: &[Vec<i128>]) -> String { c.iter().map(|v| csv(v)).collect::<Vec<_>>().join(";") }

enum Open { Market(RM), Liq(RLM), Pos(RP) }

impl Open {
    fn rm(&self) -> &RM { match self { Open::Market(m) => m, Open::Liq(l) => hook::liquidity_market_base(l), Open::Pos(p) => p.market() } }
    fn rm_mut(&mut self) -> &mut RM { match self { Open::Market(m) => m, Open::Liq(l) => hook::liquidity_market_base_mut(l), Open::Pos(p) => p.market_mut() } }
}

struct World {
    ai: &'static AccountInfo<'static>,
    loader: &'static AccountLoader<'static, Market>,
    ea: &'static AccountInfo<'static>,
    open: Option<Open>,
    rev_off: usize,
    // liquidity market surroundings
    mint_ai: &'static AccountInfo<'static>,
    token_program: &'static AccountInfo<'static>,
    store_loader: &'static AccountLoader<'static, Store>,
    receiver: &'static AccountInfo<'static>,
    vault: &'static AccountInfo<'static>,
    // position
    pos_loader: &'static AccountLoader<'static, Position>,
    pos_ptr: (*const u8, usize),
    // virtual inventory
    vi_ai: &'static AccountInfo<'static>,
    vi_loader: &'static AccountLoader<'static, VirtualInventory>,
    vi_open: Option<RVI>,
    vi_rev_off: usize,
    // ---- the property's own bookkeeping: transactional maps
    committed: Vec<Vec<i128>>,
    overlay: HashMap<usize, Vec<i128>>,
    supply: u64,
    pend_mint: u64,
    pend_burn: u64,
    pos_committed: Vec<i128>,
    pos_local: Vec<i128>,
    vi_committed: Vec<i128>,
    vi_overlay: Option<Vec<i128>>,
}

fn diff_offset(before: &[u8], after: &[u8], what: &str) -> usize {
    let diff: Vec<usize> = (0..before.len()).filter(|i| before[*i] != after[*i]).collect();
    assert_eq!(diff.len(), 1, "{what}: begin+abandon must change the counter only");
    diff[0]
}

impl World {
    fn new(now: i64) -> World {
        h_store::set_now(now);
        let (ai, _, _) = new_account(key(1), gmsol_store::ID, std::mem::size_of::<Market>(), Market::DISCRIMINATOR);
        let loader: &'static AccountLoader<'static, Market> = leak(AccountLoader::try_from(ai).expect("loader"));
        loader.load_mut().expect("load_mut").init(255, key(STORE), "m", key(MARKET_TOKEN), key(4), key(LONG), key(SHORT), true).expect("init");
        let (ea, _, _) = new_account(key(5), gmsol_store::ID, 0, &[0u8; 8]);
        // locate the buffer's revision counter: begin + abandon changes nothing else in the account
        let before: Vec<u8> = ai.data.borrow().to_vec();
        let rm = hook::revertible_market(loader, ea, 255).expect("rm");
        assert_eq!(rm.rev(), 2);
        drop(rm);
        let after: Vec<u8> = ai.data.borrow().to_vec();
        let rev_off = diff_offset(&before, &after, "market");
        assert_eq!(u64::from_le_bytes(after[rev_off..rev_off + 8].try_into().unwrap()), 2);
        ai.data.borrow_mut()[rev_off..rev_off + 8].copy_from_slice(&1u64.to_le_bytes());
        let committed = storage(&loader.load().unwrap());

        // mint (packed spl Mint: authority COption(36) | supply u64 | decimals | initialized | freeze COption(36))
        let supply: u64 = 1_000_000;
        let (mint_ai, _, _) = new_account(key(MINT_KEY), anchor_spl::token::ID, 82 - 8, &[]);
        {
            let mut d = mint_ai.data.borrow_mut();
            d[0..4].copy_from_slice(&1u32.to_le_bytes());
            d[4..36].copy_from_slice(&key(STORE).to_bytes());
            d[36..44].copy_from_slice(&supply.to_le_bytes());
            d[44] = 6; d[45] = 1;
        }
        let (token_program, _, _) = new_account(anchor_spl::token::ID, key(0), 0, &[0u8; 8]);
        let (store_ai, _, _) = new_account(key(STORE), gmsol_store::ID, std::mem::size_of::<Store>(), Store::DISCRIMINATOR);
        let store_loader: &'static AccountLoader<'static, Store> = leak(AccountLoader::try_from(store_ai).expect("store loader"));
        let (receiver, _, _) = new_account(key(22), anchor_spl::token::ID, 165 - 8, &[]);
        let (vault, _, _) = new_account(key(23), anchor_spl::token::ID, 165 - 8, &[]);

        // position
        let (pos_ai, pos_ptr, pos_len) = new_account(key(31), gmsol_store::ID, std::mem::size_of::<Position>(), Position::DISCRIMINATOR);
        let pos_loader: &'static AccountLoader<'static, Position> = leak(AccountLoader::try_from(pos_ai).expect("pos loader"));
        pos_loader.load_mut().unwrap().try_init(PositionKind::Long, 255, key(STORE), &key(32), &key(MARKET_TOKEN), &key(LONG)).expect("position init");
        let pos_committed = pos_payload(&pos_loader.load().unwrap());

        // virtual inventory (a zeroed account is a valid one; `init` only sets metadata)
        let (vi_ai, _, _) = new_account(key(41), gmsol_store::ID, std::mem::size_of::<VirtualInventory>(), VirtualInventory::DISCRIMINATOR);
        let vi_loader: &'static AccountLoader<'static, VirtualInventory> = leak(AccountLoader::try_from(vi_ai).expect("vi loader"));
        let before: Vec<u8> = vi_ai.data.borrow().to_vec();
        drop(hook::revertible_virtual_inventory(vi_loader).expect("rvi"));
        let after: Vec<u8> = vi_ai.data.borrow().to_vec();
        let vi_rev_off = diff_offset(&before, &after, "virtual inventory");
        assert_eq!(u64::from_le_bytes(after[vi_rev_off..vi_rev_off + 8].try_into().unwrap()), 1);
        vi_ai.data.borrow_mut()[vi_rev_off..vi_rev_off + 8].copy_from_slice(&0u64.to_le_bytes());

        TOKEN_CPIS.lock().unwrap().clear();
        *EVENT_CPIS.lock().unwrap() = 0;
        World {
            ai, loader, ea, open: None, rev_off, mint_ai, token_program, store_loader, receiver, vault,
            pos_loader, pos_ptr: (pos_ptr, pos_len), vi_ai, vi_loader, vi_open: None, vi_rev_off,
            committed, overlay: HashMap::new(), supply, pend_mint: 0, pend_burn: 0,
            pos_local: pos_committed.clone(), pos_committed, vi_committed: vec![0, 0], vi_overlay: None,
        }
    }
    fn rev(&self) -> u64 {
        match &self.open {
            Some(o) => o.rm().rev(),
            None => u64::from_le_bytes(self.ai.data.borrow()[self.rev_off..self.rev_off + 8].try_into().unwrap()),
        }
    }
    fn stored(&self) -> Vec<Vec<i128>> {
        match &self.open { Some(o) => storage(o.rm().as_ref()), None => storage(&self.loader.load().unwrap()) }
    }
    fn mint_supply(&self) -> u64 { u64::from_le_bytes(self.mint_ai.data.borrow()[36..44].try_into().unwrap()) }
    fn pos_stored(&self) -> Vec<i128> {
        // peek at the account bytes even while the RevertiblePosition holds its RefMut
        let bytes = unsafe { std::slice::from_raw_parts(self.pos_ptr.0, self.pos_ptr.1) };
        pos_payload(bytemuck::from_bytes::<Position>(&bytes[8..]))
    }
    fn vi_rev(&self) -> u64 { u64::from_le_bytes(self.vi_ai.data.borrow()[self.vi_rev_off..self.vi_rev_off + 8].try_into().unwrap()) }
    fn vi_stored(&self) -> Vec<i128> {
        let p = hook::virtual_inventory_stored_pool(&self.vi_loader.load().unwrap());
        vec![p.long_amount().unwrap() as i128, p.short_amount().unwrap() as i128]
    }
    fn mode(&self) -> u8 { match &self.open { None => 0, Some(Open::Market(_)) => 1, Some(Open::Liq(_)) => 2, Some(Open::Pos(_)) => 3 } }
    fn digest(&self) -> String {
        format!("rev={} open={} [{}] supply={} pos={} vi={}:{}:{}", self.rev(), self.mode(), show_cells(&self.stored()),
            self.mint_supply(), csv(&self.pos_stored()), self.vi_rev(), self.vi_open.is_some() as u8, csv(&self.vi_stored()))
    }
    /// what the transactional map says a read of cell k returns
    fn expect_read(&self, k: usize) -> Vec<i128> { self.overlay.get(&k).cloned().unwrap_or_else(|| self.committed[k].clone()) }
}

struct Harness { worlds: HashMap<String, World> }

fn u128_ok(x: i128, d: i128) -> Option<i128> {
    // pool amounts are u128; the generator keeps them far below 2^127 so that i128 holds them
    let n = num_bigint::BigInt::from(x) + num_bigint::BigInt::from(d);
    if n >= num_bigint::BigInt::from(0) && n < (num_bigint::BigInt::from(1) << 128) { Some(x + d) } else { None }
}

fn show_cpis(c: &[(u8, u64)]) -> String {
    if c.is_empty() { "-".into() } else { c.iter().map(|(t, a)| format!("{}{a}", match t { 7 => "M", 8 => "B", _ => "?" })).collect::<Vec<_>>().join(",") }
}

impl Harness {
    fn exec(&mut self, req: &str) -> (String, Option<String>, bool) {
        let bad = || ("bad-op".to_string(), None, false);
        let t: Vec<&str> = req.split(' ').collect();
        if t.len() < 3 || t[0] != "rbuf" { return bad(); }
        let sid = t[2].to_string();
        if t[1] == "new" {
            let Some(now) = t.get(3).and_then(|s| s.parse::<i64>().ok()) else { return bad() };
            let w = World::new(now);
            let d = w.digest();
            self.worlds.insert(sid, w);
            return (format!("ok | {d}"), None, false);
        }
        let Some(w) = self.worlds.get_mut(&sid) else { return bad() };
        TOKEN_CPIS.lock().unwrap().clear();
        *EVENT_CPIS.lock().unwrap() = 0;
        let mut fail: Option<String> = None;
        let mut nt = false;
        let mut expect_cpis: Vec<(u8, u64)> = vec![];
        let mut expect_events = 0u64;
        let head: String = match (t[1], t.len() - 3) {
            ("begin", 0) | ("lbegin", 0) | ("pbegin", 0) => {
                if w.open.is_some() { return bad(); }
                let (loader, ea) = (w.loader, w.ea);
                match std::panic::catch_unwind(std::panic::AssertUnwindSafe(|| hook::revertible_market(loader, ea, 255))) {
                    Ok(Ok(rm)) => {
                        let r = rm.rev();
                        let o = match t[1] {
                            "begin" => Open::Market(rm),
                            "lbegin" => {
                                // a fresh `Account<Mint>` snapshot of the mint, as an instruction would get
                                let mint: &'static Account<'static, Mint> = leak(Account::try_from(w.mint_ai).expect("mint account"));
                                w.pend_mint = 0; w.pend_burn = 0;
                                Open::Liq(hook::revertible_liquidity_market(rm, mint, w.token_program, w.store_loader, w.receiver, w.vault).expect("rlm"))
                            }
                            _ => {
                                w.pos_local = w.pos_committed.clone();
                                Open::Pos(hook::revertible_position(rm, w.pos_loader, false).expect("rp"))
                            }
                        };
                        w.open = Some(o); w.overlay.clear(); nt = true;
                        format!("ok {r}")
                    }
                    Ok(Err(_)) => "err".into(),
                    Err(_) => "panic".into(),
                }
            }
            ("commit", 0) => {
                let Some(o) = w.open.take() else { return bad() };
                match o {
                    Open::Market(rm) => rm.commit(),
                    Open::Liq(l) => {
                        if w.pend_mint != 0 { expect_cpis.push((7, w.pend_mint)); }
                        if w.pend_burn != 0 { expect_cpis.push((8, w.pend_burn)); }
                        w.supply = w.supply + w.pend_mint - w.pend_burn;
                        l.commit();
                    }
                    Open::Pos(p) => { p.commit(); w.pos_committed = w.pos_local.clone(); }
                }
                expect_events = 1;
                // the property: storage now reflects exactly this operation's writes
                for (k, v) in w.overlay.drain() { w.committed[k] = v; }
                nt = true;
                format!("ok cpis={}", show_cpis(&TOKEN_CPIS.lock().unwrap()))
            }
            ("abandon", 0) => {
                let Some(o) = w.open.take() else { return bad() };
                drop(o);
                w.overlay.clear();
                format!("ok cpis={}", show_cpis(&TOKEN_CPIS.lock().unwrap()))
            }
            ("setrev", 1) => {
                let Some(v) = t[3].parse::<u64>().ok() else { return bad() };
                if w.open.is_some() || v < w.rev() { return bad(); }
                w.ai.data.borrow_mut()[w.rev_off..w.rev_off + 8].copy_from_slice(&v.to_le_bytes());
                "ok".into()
            }
            ("rpool", 1) => {
                let Some(k) = t[3].parse::<u8>().ok().filter(|k| *k < 16) else { return bad() };
                let Some(o) = w.open.as_ref() else { return bad() };
                let p = pool_ref(o.rm(), PoolKind::try_from(k).unwrap()).expect("pool");
                let got = vec![p.long_amount().unwrap() as i128, p.short_amount().unwrap() as i128];
                if got != w.expect_read(k as usize) { fail = Some(format!("read of pool {k} returned {:?}, the transactional map has {:?}", got, w.expect_read(k as usize))); }
                format!("ok {} {}", got[0], got[1])
            }
            ("rclock", 2) => {
                // only two clocks have a read-only accessor on RevertibleMarket
                let (Some(i), Some(now)) = (t[3].parse::<usize>().ok().filter(|i| *i < 2), t[4].parse::<i64>().ok()) else { return bad() };
                let Some(o) = w.open.as_ref() else { return bad() };
                h_store::set_now(now);
                let rm = o.rm();
                let got = if i == 0 { rm.passed_in_seconds_for_position_impact_distribution() } else { rm.passed_in_seconds_for_borrowing() };
                let want = (now as i128 - w.expect_read(16)[i]).max(0);
                match got {
                    Ok(p) => { if p as i128 != want { fail = Some(format!("clock {i} read gives {p} s, the transactional map gives {want}")); } format!("ok {p}") }
                    Err(_) => "err".into(),
                }
            }
            ("rother", 0) => {
                let Some(o) = w.open.as_ref() else { return bad() };
                let rm = o.rm();
                let got = vec![rm.balance(&key(LONG)).unwrap() as i128, rm.balance(&key(SHORT)).unwrap() as i128, *rm.funding_factor_per_second()];
                if got[..] != w.expect_read(17)[..3] { fail = Some(format!("read of other state returned {:?}, the transactional map has {:?}", got, w.expect_read(17))); }
                format!("ok {} {} {}", got[0], got[1], got[2])
            }
            ("wpool", 3) => {
                let (Some(k), Some(d)) = (t[3].parse::<u8>().ok().filter(|k| *k < 16), t[5].parse::<i128>().ok()) else { return bad() };
                let side = match t[4] { "L" => 0usize, "S" => 1, _ => return bad() };
                let mut cur = w.expect_read(k as usize);
                let Some(o) = w.open.as_mut() else { return bad() };
                let p = pool_mut(o.rm_mut(), PoolKind::try_from(k).unwrap()).expect("pool_mut");
                let r = if side == 0 { p.apply_delta_to_long_amount(&d) } else { p.apply_delta_to_short_amount(&d) };
                let exp = u128_ok(cur[side], d);
                if exp.is_some() != r.is_ok() { fail = Some(format!("pool write outcome {:?} but exact arithmetic says {:?}", r.is_ok(), exp)); }
                if let Some(n) = exp { cur[side] = n; nt = d != 0; }
                w.overlay.insert(k as usize, cur); // touched (copy-on-write) even when the delta is rejected
                if r.is_ok() { "ok".into() } else { "err".into() }
            }
            ("wclock", 2) => {
                let (Some(i), Some(now)) = (t[3].parse::<usize>().ok().filter(|i| *i < 3), t[4].parse::<i64>().ok()) else { return bad() };
                let mut cur = w.expect_read(16);
                let Some(o) = w.open.as_mut() else { return bad() };
                h_store::set_now(now);
                let rm = o.rm_mut();
                let r = match i { 0 => rm.just_passed_in_seconds_for_position_impact_distribution(), 1 => rm.just_passed_in_seconds_for_borrowing(), _ => rm.just_passed_in_seconds_for_funding() };
                let want = (now as i128 - cur[i]).max(0);
                if want > 0 { cur[i] = now as i128; nt = true; }
                w.overlay.insert(16, cur);
                match r { Ok(p) => { if p as i128 != want { fail = Some(format!("clock {i} tick gives {p} s, expected {want}")); } format!("ok {p}") } Err(_) => "err".into() }
            }
            ("wffps", 1) => {
                let Some(v) = t[3].parse::<i128>().ok() else { return bad() };
                let mut cur = w.expect_read(17);
                let Some(o) = w.open.as_mut() else { return bad() };
                *o.rm_mut().funding_factor_per_second_mut() = v;
                cur[2] = v; nt = true;
                w.overlay.insert(17, cur);
                "ok".into()
            }
            ("wbal", 3) => {
                let Some(amt) = t[5].parse::<u64>().ok() else { return bad() };
                let side = match t[3] { "L" => 0usize, "S" => 1, _ => return bad() };
                let token = key(if side == 0 { LONG } else { SHORT });
                let mut cur = w.expect_read(17);
                let Some(o) = w.open.as_mut() else { return bad() };
                let rm = o.rm_mut();
                let (r, exp) = match t[4] {
                    "in" => (rm.record_transferred_in_by_token(&token, &amt), Some(cur[side] + amt as i128).filter(|n| *n <= u64::MAX as i128)),
                    "out" => (rm.record_transferred_out_by_token(&token, &amt), Some(cur[side] - amt as i128).filter(|n| *n >= 0)),
                    _ => return bad(),
                };
                if exp.is_some() != r.is_ok() { fail = Some(format!("balance write outcome {:?} but exact arithmetic says {:?}", r.is_ok(), exp)); }
                if let Some(n) = exp { cur[side] = n; nt = amt != 0; }
                w.overlay.insert(17, cur);
                if r.is_ok() { "ok".into() } else { "err".into() }
            }
            // ---- liquidity market: deferred mint / burn
            ("mint", 1) | ("burn", 1) => {
                let Some(a) = t[3].parse::<u128>().ok() else { return bad() };
                let Some(Open::Liq(l)) = w.open.as_mut() else { return bad() };
                let is_mint = t[1] == "mint";
                let r = if is_mint { l.mint(&a) } else { l.burn(&a) };
                // exact arithmetic: what the deferred request may do
                let exp: Option<u64> = u64::try_from(a).ok().and_then(|a| {
                    if is_mint { w.pend_mint.checked_add(a).filter(|t| w.supply.checked_add(*t).is_some()) }
                    else { w.pend_burn.checked_add(a).filter(|t| *t <= w.supply) }
                });
                if exp.is_some() != r.is_ok() { fail = Some(format!("{} outcome {:?} but exact arithmetic says {:?}", t[1], r.is_ok(), exp)); }
                if let Some(n) = exp { if is_mint { w.pend_mint = n } else { w.pend_burn = n }; nt = a != 0; }
                if r.is_ok() { "ok".into() } else { "err".into() }
            }
            ("supply", 0) => {
                let Some(Open::Liq(l)) = w.open.as_ref() else { return bad() };
                let got = l.total_supply();
                let want = w.supply as u128 + w.pend_mint as u128 - w.pend_burn as u128;
                if got != want { fail = Some(format!("total_supply inside the operation is {got}, expected {want}")); }
                format!("ok {got}")
            }
            // ---- position
            ("pread", 0) => {
                let Some(Open::Pos(p)) = w.open.as_ref() else { return bad() };
                let got: Vec<i128> = vec![*p.size_in_tokens() as i128, *p.collateral_amount() as i128, *p.size_in_usd() as i128,
                    *p.borrowing_factor() as i128, *p.funding_fee_amount_per_size() as i128,
                    *p.claimable_funding_fee_amount_per_size(true) as i128, *p.claimable_funding_fee_amount_per_size(false) as i128];
                if got[..] != w.pos_local[4..] { fail = Some(format!("position read {:?}, the private copy should be {:?}", got, &w.pos_local[4..])); }
                format!("ok {}", got.iter().map(|x| x.to_string()).collect::<Vec<_>>().join(" "))
            }
            ("pwrite", 2) => {
                let (Some(i), Some(v)) = (t[3].parse::<usize>().ok().filter(|i| (4..=10).contains(i)), t[4].parse::<u128>().ok().filter(|v| *v < (1u128 << 126))) else { return bad() };
                let Some(Open::Pos(p)) = w.open.as_mut() else { return bad() };
                match i {
                    4 => *p.size_in_tokens_mut() = v, 5 => *p.collateral_amount_mut() = v, 6 => *p.size_in_usd_mut() = v,
                    7 => *p.borrowing_factor_mut() = v, 8 => *p.funding_fee_amount_per_size_mut() = v,
                    9 => *p.claimable_funding_fee_amount_per_size_mut(true) = v, _ => *p.claimable_funding_fee_amount_per_size_mut(false) = v,
                }
                w.pos_local[i] = v as i128; nt = true;
                "ok".into()
            }
            ("ptouch", 3) => {
                let (Some(slot), Some(now)) = (t[4].parse::<u64>().ok(), t[5].parse::<i64>().ok()) else { return bad() };
                let inc = match t[3] { "inc" => true, "dec" => false, _ => return bad() };
                let mut other = w.expect_read(17);
                let stored_tc = w.committed[17][3];
                let Some(Open::Pos(p)) = w.open.as_mut() else { return bad() };
                h_store::set_slot(slot); h_store::set_now(now);
                let r = if inc { p.on_increased() } else { p.on_decreased() };
                if r.is_err() { fail = Some("on_increased/on_decreased failed".into()); }
                // next_trade_id is STORED trade count + 1, written to the buffered other state
                other[3] = stored_tc + 1;
                w.overlay.insert(17, other);
                w.pos_local[0] = stored_tc + 1; w.pos_local[2] = slot as i128;
                if inc { w.pos_local[1] = now as i128 } else { w.pos_local[3] = now as i128 }
                nt = true;
                "ok".into()
            }
            // ---- virtual inventory (its own single-cell buffer and counter)
            ("vbegin", 0) => {
                if w.vi_open.is_some() { return bad(); }
                let l = w.vi_loader;
                match std::panic::catch_unwind(std::panic::AssertUnwindSafe(|| hook::revertible_virtual_inventory(l))) {
                    Ok(Ok(v)) => { w.vi_open = Some(v); w.vi_overlay = None; nt = true; "ok".into() }
                    Ok(Err(_)) => "err".into(),
                    Err(_) => "panic".into(),
                }
            }
            ("vcommit", 0) => {
                let Some(v) = w.vi_open.take() else { return bad() };
                v.commit();
                if let Some(o) = w.vi_overlay.take() { w.vi_committed = o; }
                nt = true;
                "ok".into()
            }
            ("vabandon", 0) => {
                let Some(v) = w.vi_open.take() else { return bad() };
                drop(v);
                w.vi_overlay = None;
                "ok".into()
            }
            ("vsetrev", 1) => {
                let Some(v) = t[3].parse::<u64>().ok() else { return bad() };
                if w.vi_open.is_some() || v < w.vi_rev() { return bad(); }
                w.vi_ai.data.borrow_mut()[w.vi_rev_off..w.vi_rev_off + 8].copy_from_slice(&v.to_le_bytes());
                "ok".into()
            }
            ("vread", 0) => {
                let Some(v) = w.vi_open.as_ref() else { return bad() };
                let p = hook::virtual_inventory_pool(v).expect("vi pool");
                let got = vec![p.long_amount().unwrap() as i128, p.short_amount().unwrap() as i128];
                let want = w.vi_overlay.clone().unwrap_or_else(|| w.vi_committed.clone());
                if got != want { fail = Some(format!("virtual inventory read {:?}, the transactional map has {:?}", got, want)); }
                format!("ok {} {}", got[0], got[1])
            }
            ("vwrite", 2) => {
                let Some(d) = t[4].parse::<i128>().ok() else { return bad() };
                let side = match t[3] { "L" => 0usize, "S" => 1, _ => return bad() };
                let mut cur = w.vi_overlay.clone().unwrap_or_else(|| w.vi_committed.clone());
                let Some(v) = w.vi_open.as_ref() else { return bad() };
                let ok = hook::virtual_inventory_apply_delta(v, side == 0, d).expect("vi apply");
                let exp = u128_ok(cur[side], d);
                if exp.is_some() != ok { fail = Some(format!("virtual inventory write outcome {ok} but exact arithmetic says {:?}", exp)); }
                if let Some(n) = exp { cur[side] = n; nt = d != 0; }
                w.vi_overlay = Some(cur);
                if ok { "ok".into() } else { "err".into() }
            }
            _ => return bad(),
        };
        // ---- THE PROPERTY, after every step: stored state = committed state of the transactional maps
        // (so it changes only on commit, and then by exactly the operation's writes)
        let st = w.stored();
        if st != w.committed && fail.is_none() {
            let k = (0..18).find(|k| st[*k] != w.committed[*k]).unwrap();
            fail = Some(format!("stored cell {k} is {:?} but the committed value is {:?} (after {})", st[k], w.committed[k], t[1]));
        }
        if fail.is_none() && w.pos_stored() != w.pos_committed {
            fail = Some(format!("stored position is {:?} but the committed one is {:?} (after {})", w.pos_stored(), w.pos_committed, t[1]));
        }
        if fail.is_none() && w.vi_stored() != w.vi_committed {
            fail = Some(format!("stored virtual inventory is {:?} but the committed one is {:?} (after {})", w.vi_stored(), w.vi_committed, t[1]));
        }
        if fail.is_none() && w.mint_supply() != w.supply {
            fail = Some(format!("mint supply is {} but the committed supply is {} (after {})", w.mint_supply(), w.supply, t[1]));
        }
        // mint/burn CPIs happen at commit only, with exactly the accumulated amounts; one state event per commit
        let cpis = TOKEN_CPIS.lock().unwrap().clone();
        if fail.is_none() && cpis != expect_cpis {
            fail = Some(format!("token CPIs {} but expected {} (after {})", show_cpis(&cpis), show_cpis(&expect_cpis), t[1]));
        }
        let ev = *EVENT_CPIS.lock().unwrap();
        if fail.is_none() && ev != expect_events && !t[1].starts_with('v') {
            fail = Some(format!("{ev} event CPIs but expected {expect_events} (after {})", t[1]));
        }
        (format!("{head} | {}", w.digest()), fail, nt)
    }
}

// ---------------------------------------------------------------- generator

fn gen(seed: u64, n: u64) -> Vec<String> {
    let mut r = Rng::new(seed);
    let mut out: Vec<String> = vec![];
    let mut sid = 0u64;
    while (out.len() as u64) < n {
        sid += 1;
        let s = format!("b{seed}_{sid}");
        let t0: i64 = 1_700_000_000 + r.below(1000) as i64;
        let mut now = t0;
        let mut slot: u64 = 1000;
        out.push(format!("rbuf new {s} {t0}"));
        let nops = r.range(2, 10);
        if r.chance(1, 12) { out.push(format!("rbuf setrev {s} {}", u64::MAX - r.range(1, 4))); }
        if r.chance(1, 20) { out.push(format!("rbuf vsetrev {s} {}", u64::MAX - r.range(1, 3))); }
        let mut hot: Vec<u64> = vec![r.below(16), r.below(16), 16, 17];
        let mut abandon_streak = 0;
        let mut vi_open = false;
        // some histories write ONLY clocks (a commit must not skip them when nothing else is dirty)
        let clocks_only = r.chance(1, 8);
        for _ in 0..nops {
            // the virtual inventory has its own operation, interleaved freely with the market's
            let vi_step = |r: &mut Rng, out: &mut Vec<String>, vi_open: &mut bool| {
                if !*vi_open { if r.chance(1, 3) { out.push(format!("rbuf vbegin {s}")); *vi_open = true; } return; }
                match r.below(6) {
                    0 => { out.push(format!("rbuf vcommit {s}")); *vi_open = false; }
                    1 => { out.push(format!("rbuf vabandon {s}")); *vi_open = false; }
                    2 => out.push(format!("rbuf vread {s}")),
                    _ => {
                        let d: i128 = match r.below(4) { 0 => -(r.below(1000) as i128), 1 => 0, _ => r.below(1_000_000) as i128 };
                        out.push(format!("rbuf vwrite {s} {} {d}", if r.chance(1, 2) { "L" } else { "S" }));
                        if r.chance(1, 2) { out.push(format!("rbuf vread {s}")); }
                    }
                }
            };
            vi_step(&mut r, &mut out, &mut vi_open);
            let mode = if clocks_only { 0 } else { r.below(4) }; // 0,1 market · 2 liquidity · 3 position
            out.push(format!("rbuf {} {s}", match mode { 2 => "lbegin", 3 => "pbegin", _ => "begin" }));
            // (after a counter overflow `begin` panics; the following ops are `bad-op` on both sides)
            let nacts = if r.chance(1, 6) { 0 } else { r.range(1, 8) };
            for _ in 0..nacts {
                if r.chance(1, 5) { vi_step(&mut r, &mut out, &mut vi_open); }
                now += r.below(50) as i64 - 10;
                slot += r.below(3);
                if clocks_only {
                    out.push(if r.chance(2, 3) { format!("rbuf wclock {s} {} {now}", r.below(3)) } else { format!("rbuf rclock {s} {} {now}", r.below(2)) });
                    continue;
                }
                // mode-specific actions
                if mode == 2 && r.chance(1, 2) {
                    out.push(match r.below(5) {
                        0 => format!("rbuf supply {s}"),
                        1 | 2 => format!("rbuf mint {s} {}", match r.below(6) { 0 => 0u128, 1 => u64::MAX as u128 - r.below(2_000_000) as u128, 2 => 1u128 << 64, _ => r.below(1_000_000) as u128 }),
                        _ => format!("rbuf burn {s} {}", match r.below(6) { 0 => 0u128, 1 => 1_000_000 + r.below(2_000_000) as u128, 2 => 1u128 << 64, _ => r.below(600_000) as u128 }),
                    });
                    if r.chance(1, 3) { out.push(format!("rbuf supply {s}")); }
                    continue;
                }
                if mode == 3 && r.chance(1, 2) {
                    out.push(match r.below(5) {
                        0 => format!("rbuf pread {s}"),
                        1 => format!("rbuf ptouch {s} {} {slot} {now}", if r.chance(1, 2) { "inc" } else { "dec" }),
                        _ => format!("rbuf pwrite {s} {} {}", r.range(4, 10), r.num(100)),
                    });
                    if r.chance(1, 3) { out.push(format!("rbuf pread {s}")); }
                    continue;
                }
                let k = if r.chance(2, 3) { *r.pick(&hot) } else { let k = r.below(18); hot.push(k); k };
                let write = r.chance(3, 5);
                let line = match (k, write) {
                    (0..=15, false) => format!("rbuf rpool {s} {k}"),
                    (0..=15, true) => {
                        let d: i128 = match r.below(6) { 0 => -(r.below(1000) as i128), 1 => 0, 2 => (r.num(100) as i128).min(1i128 << 100), 3 => -((r.num(100) as i128).min(1i128 << 100)), _ => r.below(1_000_000) as i128 };
                        format!("rbuf wpool {s} {k} {} {d}", if r.chance(1, 2) { "L" } else { "S" })
                    }
                    (16, false) => format!("rbuf rclock {s} {} {now}", r.below(2)),
                    (16, true) => format!("rbuf wclock {s} {} {now}", r.below(3)),
                    (_, false) => format!("rbuf rother {s}"),
                    (_, true) => if r.chance(1, 3) { format!("rbuf wffps {s} {}", r.inum(100)) } else {
                        format!("rbuf wbal {s} {} {} {}", if r.chance(1, 2) { "L" } else { "S" }, if r.chance(3, 5) { "in" } else { "out" },
                            match r.below(4) { 0 => 0, 1 => u64::MAX - r.below(3), _ => r.below(1_000_000) })
                    },
                };
                out.push(line);
                // read back what was just written, in the same operation
                if write && r.chance(1, 2) {
                    out.push(match k { 0..=15 => format!("rbuf rpool {s} {k}"), 16 => format!("rbuf rclock {s} {} {now}", r.below(2)), _ => format!("rbuf rother {s}") });
                }
            }
            let abandon = if abandon_streak > 0 { abandon_streak -= 1; true } else if r.chance(1, 8) { abandon_streak = r.range(1, 3); true } else { r.chance(2, 5) };
            out.push(format!("rbuf {} {s}", if abandon { "abandon" } else { "commit" }));
        }
        if vi_open { out.push(format!("rbuf {} {s}", if r.chance(1, 2) { "vcommit" } else { "vabandon" })); }
        // a final operation that only reads: nothing abandoned may be visible
        out.push(format!("rbuf vbegin {s}"));
        out.push(format!("rbuf vread {s}"));
        out.push(format!("rbuf vcommit {s}"));
        out.push(format!("rbuf pbegin {s}"));
        for k in 0..16 { if r.chance(1, 3) { out.push(format!("rbuf rpool {s} {k}")); } }
        out.push(format!("rbuf rother {s}"));
        out.push(format!("rbuf pread {s}"));
        out.push(format!("rbuf commit {s}"));
    }
    out
}

fn main() {
    let cli = cli();
    set_syscall_stubs(Box::new(Stubs));
    std::panic::set_hook(Box::new(|_| {}));
    let mut out = Out::new();
    let reqs: Vec<String> = if cli.mode == "replay" { read_requests(cli.file.as_deref().unwrap()) } else { gen(cli.seed, cli.n) };
    let mut h = Harness { worlds: HashMap::new() };
    for req in reqs {
        let res = std::panic::catch_unwind(std::panic::AssertUnwindSafe(|| h.exec(&req)));
        let (resp, fail, nt) = match res { Ok(x) => x, Err(_) => ("panic-harness".to_string(), Some("panicked".to_string()), false) };
        let op = req.split(' ').nth(1).unwrap_or("?").to_string();
        out.stat(&format!("op.{op}"));
        let kind = resp.split(" | ").next().unwrap_or("").split(' ').next().unwrap_or("").to_string();
        out.stat(&format!("resp.{kind}"));
        if resp.starts_with("ok cpis=M") || resp.starts_with("ok cpis=B") { out.stat("commit.with_token_cpi"); }
        if let Some(what) = fail { out.oracle_fail(&what, &req); } else if resp != "bad-op" { out.stat("oracle.checked"); }
        out.case_nt(&req, &resp, nt);
    }
    out.finish();
}
