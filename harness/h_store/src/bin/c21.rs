//! C21 correspondence + oracle: the real `RevertibleMarket` over an in-memory `Market` account.
//! Hook: `gmsol_store::verif::c21::revertible_market` (public wrapper of the crate-private
//! constructor). All reads/writes go through the public `gmsol_model` traits, commit through
//! `Revertible::commit` (the CPI event emission hits the default no-op syscall stub), abandon = drop.
//!
//! Requests: `rbuf new <sid> <now>` · `begin|commit|abandon <sid>` · `setrev <sid> <rev>` ·
//! `rpool <sid> <k>` · `rclock <sid> <i> <now>` · `rother <sid>` · `wpool <sid> <k> <L|S> <d>` ·
//! `wclock <sid> <i> <now>` · `wffps <sid> <v>` · `wbal <sid> <L|S> <in|out> <amt>`.
use anchor_lang::prelude::*;
use anchor_lang::Discriminator;
use gmsol_model::{
    Balance, Bank, BaseMarket, BaseMarketMut, BorrowingFeeMarket, BorrowingFeeMarketMut, ClockKind, PerpMarket,
    PerpMarketMut, Pool as _, PoolKind, PositionImpactMarket, PositionImpactMarketMut, SwapMarketMut,
};
use gmsol_store::states::market::revertible::{Revertible, RevertibleMarket, Revision};
use gmsol_store::states::market::pool::Pool;
use gmsol_store::states::Market;
use hcommon::*;
use std::collections::HashMap;

type RM = RevertibleMarket<'static, 'static>;

fn leak<T>(x: T) -> &'static mut T { Box::leak(Box::new(x)) }

fn key(tag: u8) -> Pubkey { Pubkey::new_from_array([tag; 32]) }
const LONG: u8 = 11;
const SHORT: u8 = 12;

struct World {
    ai: &'static AccountInfo<'static>,
    loader: &'static AccountLoader<'static, Market>,
    ea: &'static AccountInfo<'static>,
    open: Option<RM>,
    rev_off: usize,
    // the property's own bookkeeping: a transactional map
    committed: Vec<Vec<i128>>,
    overlay: HashMap<usize, Vec<i128>>,
}

fn new_account(owner: Pubkey, size: usize, disc: &[u8]) -> &'static AccountInfo<'static> {
    // account data must start at an address ≡ 8 (mod 16) so that the zero-copy struct is aligned
    let words = (size + 8 + 15) / 16 + 1;
    let buf: &'static mut [u128] = Box::leak(vec![0u128; words].into_boxed_slice());
    let bytes: &'static mut [u8] = unsafe { std::slice::from_raw_parts_mut((buf.as_mut_ptr() as *mut u8).add(8), size + 8) };
    bytes[..8].copy_from_slice(disc);
    let k = leak(key(1));
    let o = leak(owner);
    let lamports = leak(1_000_000u64);
    leak(AccountInfo::new(k, false, true, lamports, bytes, o, false, 0))
}

fn pool_ref<'a>(rm: &'a RM, k: PoolKind) -> gmsol_model::Result<&'a Pool> {
    use PoolKind::*;
    match k {
        Primary => rm.liquidity_pool(),
        SwapImpact => rm.swap_impact_pool(),
        ClaimableFee => rm.claimable_fee_pool(),
        OpenInterestForLong => rm.open_interest_pool(true),
        OpenInterestForShort => rm.open_interest_pool(false),
        OpenInterestInTokensForLong => rm.open_interest_in_tokens_pool(true),
        OpenInterestInTokensForShort => rm.open_interest_in_tokens_pool(false),
        PositionImpact => rm.position_impact_pool(),
        BorrowingFactor => rm.borrowing_factor_pool(),
        FundingAmountPerSizeForLong => rm.funding_amount_per_size_pool(true),
        FundingAmountPerSizeForShort => rm.funding_amount_per_size_pool(false),
        ClaimableFundingAmountPerSizeForLong => rm.claimable_funding_amount_per_size_pool(true),
        ClaimableFundingAmountPerSizeForShort => rm.claimable_funding_amount_per_size_pool(false),
        CollateralSumForLong => rm.collateral_sum_pool(true),
        CollateralSumForShort => rm.collateral_sum_pool(false),
        TotalBorrowing => rm.total_borrowing_pool(),
        _ => Err(gmsol_model::Error::MissingPoolKind(k)),
    }
}

fn pool_mut<'a>(rm: &'a mut RM, k: PoolKind) -> gmsol_model::Result<&'a mut Pool> {
    use PoolKind::*;
    match k {
        Primary => rm.liquidity_pool_mut(),
        SwapImpact => rm.swap_impact_pool_mut(),
        ClaimableFee => rm.claimable_fee_pool_mut(),
        OpenInterestForLong => rm.open_interest_pool_mut(true),
        OpenInterestForShort => rm.open_interest_pool_mut(false),
        OpenInterestInTokensForLong => rm.open_interest_in_tokens_pool_mut(true),
        OpenInterestInTokensForShort => rm.open_interest_in_tokens_pool_mut(false),
        PositionImpact => rm.position_impact_pool_mut(),
        BorrowingFactor => rm.borrowing_factor_pool_mut(),
        FundingAmountPerSizeForLong => rm.funding_amount_per_size_pool_mut(true),
        FundingAmountPerSizeForShort => rm.funding_amount_per_size_pool_mut(false),
        ClaimableFundingAmountPerSizeForLong => rm.claimable_funding_amount_per_size_pool_mut(true),
        ClaimableFundingAmountPerSizeForShort => rm.claimable_funding_amount_per_size_pool_mut(false),
        CollateralSumForLong => rm.collateral_sum_pool_mut(true),
        CollateralSumForShort => rm.collateral_sum_pool_mut(false),
        TotalBorrowing => rm.total_borrowing_pool_mut(),
        _ => Err(gmsol_model::Error::MissingPoolKind(k)),
    }
}

/// stored payloads as the account shows them (NOT through the buffer)
fn storage(m: &Market) -> Vec<Vec<i128>> {
    let mut v = vec![];
    for k in 0..16u8 {
        let p = m.pool(PoolKind::try_from(k).unwrap()).expect("pool");
        v.push(vec![p.long_amount().unwrap() as i128, p.short_amount().unwrap() as i128]);
    }
    v.push(vec![
        m.clock(ClockKind::PriceImpactDistribution).unwrap() as i128,
        m.clock(ClockKind::Borrowing).unwrap() as i128,
        m.clock(ClockKind::Funding).unwrap() as i128,
    ]);
    let o = m.state();
    v.push(vec![o.long_token_balance_raw() as i128, o.short_token_balance_raw() as i128, o.funding_factor_per_second()]);
    v
}

fn show_cells(c: &[Vec<i128>]) -> String {
    c.iter().map(|v| v.iter().map(|x| x.to_string()).collect::<Vec<_>>().join(",")).collect::<Vec<_>>().join(";")
}

impl World {
    fn new(now: i64) -> World {
        h_store::set_now(now);
        let ai = new_account(gmsol_store::ID, std::mem::size_of::<Market>(), Market::DISCRIMINATOR);
        let loader: &'static AccountLoader<'static, Market> = leak(AccountLoader::try_from(ai).expect("loader"));
        loader.load_mut().expect("load_mut").init(255, key(2), "m", key(3), key(4), key(LONG), key(SHORT), true).expect("init");
        let ea = new_account(gmsol_store::ID, 0, &[0u8; 8]);
        // locate the buffer's revision counter: begin + abandon changes nothing else in the account
        let before: Vec<u8> = ai.data.borrow().to_vec();
        let rm = gmsol_store::verif::c21::revertible_market(loader, ea, 255).expect("rm");
        assert_eq!(rm.rev(), 2);
        drop(rm);
        let after: Vec<u8> = ai.data.borrow().to_vec();
        let diff: Vec<usize> = (0..before.len()).filter(|i| before[*i] != after[*i]).collect();
        assert_eq!(diff.len(), 1, "begin+abandon must change the counter only");
        let rev_off = diff[0];
        assert_eq!(u64::from_le_bytes(after[rev_off..rev_off + 8].try_into().unwrap()), 2);
        // put the counter back to its value after `init`
        ai.data.borrow_mut()[rev_off..rev_off + 8].copy_from_slice(&1u64.to_le_bytes());
        let committed = storage(&loader.load().unwrap());
        World { ai, loader, ea, open: None, rev_off, committed, overlay: HashMap::new() }
    }
    fn rev(&self) -> u64 {
        match &self.open {
            Some(rm) => rm.rev(),
            None => u64::from_le_bytes(self.ai.data.borrow()[self.rev_off..self.rev_off + 8].try_into().unwrap()),
        }
    }
    fn stored(&self) -> Vec<Vec<i128>> {
        match &self.open { Some(rm) => storage(rm.as_ref()), None => storage(&self.loader.load().unwrap()) }
    }
    fn digest(&self) -> String {
        format!("rev={} open={} [{}]", self.rev(), self.open.is_some() as u8, show_cells(&self.stored()))
    }
    /// what the transactional map says a read of cell k returns
    fn expect_read(&self, k: usize) -> Vec<i128> { self.overlay.get(&k).cloned().unwrap_or_else(|| self.committed[k].clone()) }
}

struct Harness { worlds: HashMap<String, World> }

fn u128_ok(x: i128, d: i128) -> Option<i128> {
    // pool amounts are u128; the generator keeps them far below 2^127 so that i128 holds them
    let n = num_bigint::BigInt::from(x) + num_bigint::BigInt::from(d);
    if n >= num_bigint::BigInt::from(0) && n < (num_bigint::BigInt::from(1) << 128) { Some(x + d) } else { None }
}

impl Harness {
    fn exec(&mut self, req: &str) -> (String, Option<String>, bool) {
        let bad = || ("bad-op".to_string(), None, false);
        let t: Vec<&str> = req.split(' ').collect();
        if t.len() < 3 || t[0] != "rbuf" { return bad(); }
        let sid = t[2].to_string();
        if t[1] == "new" {
            let Some(now) = t.get(3).and_then(|s| s.parse::<i64>().ok()) else { return bad() };
            let w = World::new(now);
            let d = w.digest();
            self.worlds.insert(sid, w);
            return (format!("ok | {d}"), None, false);
        }
        let Some(w) = self.worlds.get_mut(&sid) else { return bad() };
        let mut fail: Option<String> = None;
        let mut nt = false;
        let head: String = match (t[1], t.len() - 3) {
            ("begin", 0) => {
                if w.open.is_some() { return bad(); }
                let (loader, ea) = (w.loader, w.ea);
                match std::panic::catch_unwind(std::panic::AssertUnwindSafe(|| gmsol_store::verif::c21::revertible_market(loader, ea, 255))) {
                    Ok(Ok(rm)) => { let r = rm.rev(); w.open = Some(rm); w.overlay.clear(); nt = true; format!("ok {r}") }
                    Ok(Err(_)) => "err".into(),
                    Err(_) => "panic".into(),
                }
            }
            ("commit", 0) => {
                let Some(rm) = w.open.take() else { return bad() };
                rm.commit();
                // the property: storage now reflects exactly this operation's writes
                for (k, v) in w.overlay.drain() { w.committed[k] = v; }
                nt = true;
                "ok".into()
            }
            ("abandon", 0) => {
                let Some(rm) = w.open.take() else { return bad() };
                drop(rm);
                w.overlay.clear();
                "ok".into()
            }
            ("setrev", 1) => {
                let Some(v) = t[3].parse::<u64>().ok() else { return bad() };
                if w.open.is_some() || v < w.rev() { return bad(); }
                w.ai.data.borrow_mut()[w.rev_off..w.rev_off + 8].copy_from_slice(&v.to_le_bytes());
                "ok".into()
            }
            ("rpool", 1) => {
                let Some(k) = t[3].parse::<u8>().ok().filter(|k| *k < 16) else { return bad() };
                let Some(rm) = w.open.as_ref() else { return bad() };
                let p = pool_ref(rm, PoolKind::try_from(k).unwrap()).expect("pool");
                let got = vec![p.long_amount().unwrap() as i128, p.short_amount().unwrap() as i128];
                if got != w.expect_read(k as usize) { fail = Some(format!("read of pool {k} returned {:?}, the transactional map has {:?}", got, w.expect_read(k as usize))); }
                format!("ok {} {}", got[0], got[1])
            }
            ("rclock", 2) => {
                // only two clocks have a read-only accessor on RevertibleMarket
                let (Some(i), Some(now)) = (t[3].parse::<usize>().ok().filter(|i| *i < 2), t[4].parse::<i64>().ok()) else { return bad() };
                let Some(rm) = w.open.as_ref() else { return bad() };
                h_store::set_now(now);
                let got = if i == 0 { rm.passed_in_seconds_for_position_impact_distribution() } else { rm.passed_in_seconds_for_borrowing() };
                let want = (now as i128 - w.expect_read(16)[i]).max(0);
                match got {
                    Ok(p) => { if p as i128 != want { fail = Some(format!("clock {i} read gives {p} s, the transactional map gives {want}")); } format!("ok {p}") }
                    Err(_) => "err".into(),
                }
            }
            ("rother", 0) => {
                let Some(rm) = w.open.as_ref() else { return bad() };
                let got = vec![rm.balance(&key(LONG)).unwrap() as i128, rm.balance(&key(SHORT)).unwrap() as i128, *rm.funding_factor_per_second()];
                if got != w.expect_read(17) { fail = Some(format!("read of other state returned {:?}, the transactional map has {:?}", got, w.expect_read(17))); }
                format!("ok {} {} {}", got[0], got[1], got[2])
            }
            ("wpool", 3) => {
                let (Some(k), Some(d)) = (t[3].parse::<u8>().ok().filter(|k| *k < 16), t[5].parse::<i128>().ok()) else { return bad() };
                let side = match t[4] { "L" => 0usize, "S" => 1, _ => return bad() };
                let mut cur = w.expect_read(k as usize);
                let Some(rm) = w.open.as_mut() else { return bad() };
                let p = pool_mut(rm, PoolKind::try_from(k).unwrap()).expect("pool_mut");
                let r = if side == 0 { p.apply_delta_to_long_amount(&d) } else { p.apply_delta_to_short_amount(&d) };
                let exp = u128_ok(cur[side], d);
                if exp.is_some() != r.is_ok() { fail = Some(format!("pool write outcome {:?} but exact arithmetic says {:?}", r.is_ok(), exp)); }
                if let Some(n) = exp { cur[side] = n; nt = d != 0; }
                w.overlay.insert(k as usize, cur); // touched (copy-on-write) even when the delta is rejected
                if r.is_ok() { "ok".into() } else { "err".into() }
            }
            ("wclock", 2) => {
                let (Some(i), Some(now)) = (t[3].parse::<usize>().ok().filter(|i| *i < 3), t[4].parse::<i64>().ok()) else { return bad() };
                let mut cur = w.expect_read(16);
                let Some(rm) = w.open.as_mut() else { return bad() };
                h_store::set_now(now);
                let r = match i { 0 => rm.just_passed_in_seconds_for_position_impact_distribution(), 1 => rm.just_passed_in_seconds_for_borrowing(), _ => rm.just_passed_in_seconds_for_funding() };
                let want = (now as i128 - cur[i]).max(0);
                if want > 0 { cur[i] = now as i128; nt = true; }
                w.overlay.insert(16, cur);
                match r { Ok(p) => { if p as i128 != want { fail = Some(format!("clock {i} tick gives {p} s, expected {want}")); } format!("ok {p}") } Err(_) => "err".into() }
            }
            ("wffps", 1) => {
                let Some(v) = t[3].parse::<i128>().ok() else { return bad() };
                let mut cur = w.expect_read(17);
                let Some(rm) = w.open.as_mut() else { return bad() };
                *rm.funding_factor_per_second_mut() = v;
                cur[2] = v; nt = true;
                w.overlay.insert(17, cur);
                "ok".into()
            }
            ("wbal", 3) => {
                let Some(amt) = t[5].parse::<u64>().ok() else { return bad() };
                let side = match t[3] { "L" => 0usize, "S" => 1, _ => return bad() };
                let token = key(if side == 0 { LONG } else { SHORT });
                let mut cur = w.expect_read(17);
                let Some(rm) = w.open.as_mut() else { return bad() };
                let (r, exp) = match t[4] {
                    "in" => (rm.record_transferred_in_by_token(&token, &amt), Some(cur[side] + amt as i128).filter(|n| *n <= u64::MAX as i128)),
                    "out" => (rm.record_transferred_out_by_token(&token, &amt), Some(cur[side] - amt as i128).filter(|n| *n >= 0)),
                    _ => return bad(),
                };
                if exp.is_some() != r.is_ok() { fail = Some(format!("balance write outcome {:?} but exact arithmetic says {:?}", r.is_ok(), exp)); }
                if let Some(n) = exp { cur[side] = n; nt = amt != 0; }
                w.overlay.insert(17, cur);
                if r.is_ok() { "ok".into() } else { "err".into() }
            }
            _ => return bad(),
        };
        // THE PROPERTY, after every step: stored state = committed state of the transactional map
        // (so it changes only on commit, and then by exactly the operation's writes)
        let st = w.stored();
        if st != w.committed && fail.is_none() {
            let k = (0..18).find(|k| st[*k] != w.committed[*k]).unwrap();
            fail = Some(format!("stored cell {k} is {:?} but the committed value is {:?} (after {})", st[k], w.committed[k], t[1]));
        }
        (format!("{head} | {}", w.digest()), fail, nt)
    }
}

// ---------------------------------------------------------------- generator

fn gen(seed: u64, n: u64) -> Vec<String> {
    let mut r = Rng::new(seed);
    let mut out: Vec<String> = vec![];
    let mut sid = 0u64;
    while (out.len() as u64) < n {
        sid += 1;
        let s = format!("b{seed}_{sid}");
        let t0: i64 = 1_700_000_000 + r.below(1000) as i64;
        let mut now = t0;
        out.push(format!("rbuf new {s} {t0}"));
        let nops = r.range(2, 10);
        let near_overflow = r.chance(1, 12);
        if near_overflow { out.push(format!("rbuf setrev {s} {}", u64::MAX - r.range(1, 4))); }
        let mut hot: Vec<u64> = vec![r.below(16), r.below(16), 16, 17];
        let mut abandon_streak = 0;
        for _ in 0..nops {
            out.push(format!("rbuf begin {s}"));
            // (after a counter overflow `begin` panics; the following ops are `bad-op` on both sides)
            let nacts = if r.chance(1, 6) { 0 } else { r.range(1, 8) };
            for _ in 0..nacts {
                let k = if r.chance(2, 3) { *r.pick(&hot) } else { let k = r.below(18); hot.push(k); k };
                let write = r.chance(3, 5);
                now += r.below(50) as i64 - 10;
                let line = match (k, write) {
                    (0..=15, false) => format!("rbuf rpool {s} {k}"),
                    (0..=15, true) => {
                        let d: i128 = match r.below(6) { 0 => -(r.below(1000) as i128), 1 => 0, 2 => (r.num(100) as i128).min(1i128 << 100), 3 => -((r.num(100) as i128).min(1i128 << 100)), _ => r.below(1_000_000) as i128 };
                        format!("rbuf wpool {s} {k} {} {d}", if r.chance(1, 2) { "L" } else { "S" })
                    }
                    (16, false) => format!("rbuf rclock {s} {} {now}", r.below(2)),
                    (16, true) => format!("rbuf wclock {s} {} {now}", r.below(3)),
                    (_, false) => format!("rbuf rother {s}"),
                    (_, true) => if r.chance(1, 3) { format!("rbuf wffps {s} {}", r.inum(100)) } else {
                        format!("rbuf wbal {s} {} {} {}", if r.chance(1, 2) { "L" } else { "S" }, if r.chance(3, 5) { "in" } else { "out" },
                            match r.below(4) { 0 => 0, 1 => u64::MAX - r.below(3), _ => r.below(1_000_000) })
                    },
                };
                out.push(line);
                // read back what was just written, in the same operation
                if write && r.chance(1, 2) {
                    out.push(match k { 0..=15 => format!("rbuf rpool {s} {k}"), 16 => format!("rbuf rclock {s} {} {now}", r.below(2)), _ => format!("rbuf rother {s}") });
                }
            }
            let abandon = if abandon_streak > 0 { abandon_streak -= 1; true } else if r.chance(1, 8) { abandon_streak = r.range(1, 3); true } else { r.chance(2, 5) };
            out.push(format!("rbuf {} {s}", if abandon { "abandon" } else { "commit" }));
        }
        // a final operation that only reads every cell: nothing abandoned may be visible
        out.push(format!("rbuf begin {s}"));
        for k in 0..16 { if r.chance(1, 3) { out.push(format!("rbuf rpool {s} {k}")); } }
        out.push(format!("rbuf rother {s}"));
        out.push(format!("rbuf commit {s}"));
    }
    out
}

fn main() {
    let cli = cli();
    h_store::install_stubs();
    std::panic::set_hook(Box::new(|_| {}));
    let mut out = Out::new();
    let reqs: Vec<String> = if cli.mode == "replay" { read_requests(cli.file.as_deref().unwrap()) } else { gen(cli.seed, cli.n) };
    let mut h = Harness { worlds: HashMap::new() };
    for req in reqs {
        let res = std::panic::catch_unwind(std::panic::AssertUnwindSafe(|| h.exec(&req)));
        let (resp, fail, nt) = match res { Ok(x) => x, Err(_) => ("panic-harness".to_string(), Some("panicked".to_string()), false) };
        let op = req.split(' ').nth(1).unwrap_or("?").to_string();
        out.stat(&format!("op.{op}"));
        let kind = resp.split(" | ").next().unwrap_or("").split(' ').next().unwrap_or("").to_string();
        out.stat(&format!("resp.{kind}"));
        if let Some(what) = fail { out.oracle_fail(&what, &req); } else if resp != "bad-op" { out.stat("oracle.checked"); }
        out.case_nt(&req, &resp, nt);
    }
    out.finish();
}
