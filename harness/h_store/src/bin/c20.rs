//! C20 correspondence + oracle: the three market-config update instructions are executed END TO END
//! through the program's real entrypoint (`gmsol_store::entry`, native build, Clock / last-restart-slot
//! sysvars stubbed): account validation, `#[access_control]` guard, handler.
//!
//! Every request is self-contained: a fresh Store (roles enabled; the caller is granted MARKET_KEEPER
//! and/or MARKET_CONFIG_KEEPER as requested), a fresh Market whose keys hold `1000000 + index`, the
//! updatable table set through the real `set_market_config_updatable` instruction, an optional
//! `MarketConfigBuffer` account. The response is the instruction's result plus whether the market
//! account bytes changed. The Lean driver answers from the interpreter of the generated step lists.
//!
//! Oracle (the PROPERTY): MARKET_KEEPER may update anything; MARKET_CONFIG_KEEPER only updatable
//! keys/flags (one non-updatable buffer entry rejects the whole buffer); anyone else is rejected;
//! an expired buffer is never applied; every rejection leaves the market bytes unchanged.
use anchor_lang::prelude::*;
use anchor_lang::{Discriminator, InstructionData};
use gmsol_store::states::{Market, Store};
use gmsol_store::CoreError;
use gmsol_utils::market::{MarketConfigFlag, MarketConfigKey};
use gmsol_utils::role::RoleKey;
use hcommon::*;
use strum::IntoEnumIterator;

const BASE: u128 = 1_000_000;
const NOW: i64 = 1_700_000_000;

fn pk(tag: u8) -> Pubkey { let mut b = [7u8; 32]; b[0] = tag; Pubkey::new_from_array(b) }

/// leak an account so that every reference is `'static` (the entrypoint wants one lifetime for all)
fn account(key: Pubkey, signer: bool, writable: bool, owner: Pubkey, data: &[u8]) -> AccountInfo<'static> {
    // data must start at an address ≡ 8 (mod 16): the zero-copy body after the discriminator is u128-aligned
    let words: &'static mut [u128] = Box::leak(vec![0u128; data.len() / 16 + 2].into_boxed_slice());
    let raw: &'static mut [u8] = bytemuck::cast_slice_mut(words);
    raw[8..8 + data.len()].copy_from_slice(data);
    let slice: &'static mut [u8] = &mut raw[8..8 + data.len()];
    AccountInfo::new(Box::leak(Box::new(key)), signer, writable, Box::leak(Box::new(1_000_000_000u64)), slice, Box::leak(Box::new(owner)), false, 0)
}

fn zero_copy_bytes<T: bytemuck::Pod + Discriminator>(t: &T) -> Vec<u8> {
    let mut v = T::DISCRIMINATOR.to_vec();
    v.extend_from_slice(bytemuck::bytes_of(t));
    v
}

struct World { caller: Pubkey, keeper: Pubkey, store_key: Pubkey, market_key: Pubkey, store: Vec<u8>, market: Vec<u8> }

fn world(mk: bool, mck: bool) -> std::result::Result<World, String> {
    let (caller, keeper, store_key, market_key) = (pk(1), pk(2), pk(3), pk(4));
    let mut store: Box<Store> = Box::new(bytemuck::Zeroable::zeroed());
    store.init(keeper, "", 255, pk(5), pk(6)).map_err(|e| format!("store-init {e}"))?;
    for r in [RoleKey::MARKET_KEEPER, RoleKey::MARKET_CONFIG_KEEPER] { store.enable_role(r).map_err(|e| format!("enable {e}"))?; }
    store.grant(&keeper, RoleKey::MARKET_KEEPER).map_err(|e| format!("grant {e}"))?;
    if mk { store.grant(&caller, RoleKey::MARKET_KEEPER).map_err(|e| format!("grant {e}"))?; }
    if mck { store.grant(&caller, RoleKey::MARKET_CONFIG_KEEPER).map_err(|e| format!("grant {e}"))?; }
    let mut market = Box::<Market>::default();
    market.init(254, store_key, "SOL/USD", pk(7), pk(8), pk(9), pk(10), true).map_err(|e| format!("market-init {e}"))?;
    for k in MarketConfigKey::iter() { if let Ok(p) = market.get_config_mut(&k.to_string()) { *p = BASE + u16::from(k) as u128; } }
    for f in MarketConfigFlag::iter() { let _ = market.set_config_flag(&f.to_string(), false); }
    Ok(World { caller, keeper, store_key, market_key, store: zero_copy_bytes(&*store), market: zero_copy_bytes(&*market) })
}

/// run `f` with fd 1 pointing at /dev/null: natively `msg!` prints the program log to stdout, which
/// would interleave with the protocol lines
fn quiet<T>(f: impl FnOnce() -> T) -> T {
    use std::io::Write;
    // fd 1 is restored even if `f` panics (the panic is caught further up)
    struct Restore(i32);
    impl Drop for Restore {
        fn drop(&mut self) { let _ = std::io::stdout().flush(); unsafe { libc::dup2(self.0, 1); libc::close(self.0); } }
    }
    let _ = std::io::stdout().flush();
    let _r = unsafe {
        let saved = libc::dup(1);
        let null = libc::open(b"/dev/null\0".as_ptr() as *const libc::c_char, libc::O_WRONLY);
        libc::dup2(null, 1);
        libc::close(null);
        Restore(saved)
    };
    f()
}

/// A store whose role table is configured: each of the two roles `e`nabled / `n`ever enabled / enabled-then-`d`isabled;
/// the caller holds `none` (not a member), `other` (member through ORDER_KEEPER only), `mk`, `mck` or `both`
/// (a role that is disabled keeps the caller's bit: it was granted while enabled).
fn world_rt(mks: &str, mcks: &str, holds: &str) -> std::result::Result<World, String> {
    let (caller, keeper, store_key, market_key) = (pk(1), pk(2), pk(3), pk(4));
    let (hmk, hmck) = (holds == "mk" || holds == "both", holds == "mck" || holds == "both");
    if !["none", "other", "mk", "mck", "both"].contains(&holds) || (hmk && mks == "n") || (hmck && mcks == "n") { return Err("bad-config".into()); }
    let mut store: Box<Store> = Box::new(bytemuck::Zeroable::zeroed());
    store.init(keeper, "", 255, pk(5), pk(6)).map_err(|e| format!("store-init {e}"))?;
    store.enable_role(RoleKey::ORDER_KEEPER).map_err(|e| format!("enable {e}"))?;
    // an auxiliary role lets the set-up keeper mark keys updatable even when MARKET_KEEPER is not available: the
    // updatable table is written through the real instruction BEFORE the role states are finalised
    for (st, r) in [(mks, RoleKey::MARKET_KEEPER), (mcks, RoleKey::MARKET_CONFIG_KEEPER)] {
        if st != "n" { store.enable_role(r).map_err(|e| format!("enable {e}"))?; }
    }
    if hmk { store.grant(&caller, RoleKey::MARKET_KEEPER).map_err(|e| format!("grant {e}"))?; }
    if hmck { store.grant(&caller, RoleKey::MARKET_CONFIG_KEEPER).map_err(|e| format!("grant {e}"))?; }
    if holds == "other" { store.grant(&caller, RoleKey::ORDER_KEEPER).map_err(|e| format!("grant {e}"))?; }
    let mut market = Box::<Market>::default();
    market.init(254, store_key, "SOL/USD", pk(7), pk(8), pk(9), pk(10), true).map_err(|e| format!("market-init {e}"))?;
    for k in MarketConfigKey::iter() { if let Ok(p) = market.get_config_mut(&k.to_string()) { *p = BASE + u16::from(k) as u128; } }
    for f in MarketConfigFlag::iter() { let _ = market.set_config_flag(&f.to_string(), false); }
    Ok(World { caller, keeper, store_key, market_key, store: zero_copy_bytes(&*store), market: zero_copy_bytes(&*market) })
}

/// finalise the role states after the updatable table has been set: disable what must end up disabled
fn finish_roles(w: &mut World, mks: &str, mcks: &str) -> std::result::Result<(), String> {
    let mut store: Box<Store> = Box::new(bytemuck::pod_read_unaligned(&w.store[8..]));
    for (st, r) in [(mks, RoleKey::MARKET_KEEPER), (mcks, RoleKey::MARKET_CONFIG_KEEPER)] {
        if st == "d" { store.disable_role(r).map_err(|e| format!("disable {e}"))?; }
    }
    w.store = zero_copy_bytes(&*store);
    Ok(())
}

/// mark a key / flag updatable in a role-table world: through the real instruction when a MARKET_KEEPER can exist,
/// otherwise (role never enabled) by running the instruction in a twin store and copying the permission table over
fn set_updatable_rt(w: &mut World, mks: &str, is_flag: bool, key: &str) -> std::result::Result<(), String> {
    let mut store: Box<Store> = Box::new(bytemuck::pod_read_unaligned(&w.store[8..]));
    let had = mks != "n";
    if !had { store.enable_role(RoleKey::MARKET_KEEPER).map_err(|e| format!("enable {e}"))?; }
    store.grant(&w.keeper, RoleKey::MARKET_KEEPER).map_err(|e| format!("grant {e}"))?;
    let saved = w.store.clone();
    w.store = zero_copy_bytes(&*store);
    set_updatable(w, is_flag, key)?;
    if had {
        let mut st: Box<Store> = Box::new(bytemuck::pod_read_unaligned(&w.store[8..]));
        st.revoke(&w.keeper, RoleKey::MARKET_KEEPER).map_err(|e| format!("revoke {e}"))?;
        w.store = zero_copy_bytes(&*st);
    } else {
        // copy only the bytes the instruction changed (the permission table) into the store that never had the role
        let after = w.store.clone();
        let before = zero_copy_bytes(&*store);
        let mut out = saved;
        for i in 0..out.len() { if before[i] != after[i] { out[i] = after[i]; } }
        w.store = out;
    }
    Ok(())
}

fn call(accounts: &'static [AccountInfo<'static>], data: Vec<u8>) -> std::result::Result<(), ProgramError> {
    quiet(|| gmsol_store::entry(&gmsol_store::ID, accounts, &data))
}

fn err_name(e: &ProgramError) -> String {
    let core = |c: CoreError| -> u32 { c.into() };
    match e {
        ProgramError::Custom(c) if *c == core(CoreError::PermissionDenied) => "PermissionDenied".into(),
        ProgramError::Custom(c) if *c == core(CoreError::InvalidMarketConfigKey) => "InvalidMarketConfigKey".into(),
        ProgramError::Custom(c) if *c == core(CoreError::InvalidArgument) => "InvalidArgument".into(),
        ProgramError::Custom(c) if *c == core(CoreError::Unimplemented) => "Unimplemented".into(),
        ProgramError::Custom(c) if *c == core(CoreError::NotFound) => "NotFound".into(),
        ProgramError::Custom(c) if *c == core(CoreError::PreconditionsAreNotMet) => "PreconditionsAreNotMet".into(),
        ProgramError::Custom(c) => format!("Custom{c}"),
        other => format!("{other:?}").replace(' ', ""),
    }
}

/// mark keys / flags updatable through the real instruction, signed by the keeper; returns new store bytes
fn set_updatable(w: &mut World, is_flag: bool, key: &str) -> std::result::Result<(), String> {
    let accs: &'static [AccountInfo<'static>] = Box::leak(vec![
        account(w.keeper, true, false, anchor_lang::system_program::ID, &[]),
        account(w.store_key, false, true, gmsol_store::ID, &w.store),
    ].into_boxed_slice());
    let data = gmsol_store::instruction::SetMarketConfigUpdatable { is_flag, key: key.to_string(), updatable: true }.data();
    call(accs, data).map_err(|e| format!("setup-error set_market_config_updatable {}", err_name(&e)))?;
    w.store = accs[1].try_borrow_data().unwrap().to_vec();
    Ok(())
}

fn buffer_bytes(store: Pubkey, authority: Pubkey, expiry: i64, entries: &[(u16, u128)]) -> Vec<u8> {
    let mut v = gmsol_store::states::market::config::MarketConfigBuffer::DISCRIMINATOR.to_vec();
    v.extend_from_slice(store.as_ref());
    v.extend_from_slice(authority.as_ref());
    v.extend_from_slice(&expiry.to_le_bytes());
    v.extend_from_slice(&(entries.len() as u32).to_le_bytes());
    for (k, x) in entries { v.extend_from_slice(&k.to_le_bytes()); v.extend_from_slice(&x.to_le_bytes()); }
    v
}

fn read_market(bytes: &[u8]) -> Market { bytemuck::pod_read_unaligned(&bytes[8..]) }

fn finish(res: std::result::Result<(), ProgramError>, before: &[u8], after: &[u8], ok: impl FnOnce(&Market) -> String) -> String {
    match res {
        Ok(()) => ok(&read_market(after)),
        Err(e) => format!("err {} {}", err_name(&e), if before == after { "same" } else { "changed" }),
    }
}

fn parse_entries(s: &str) -> Option<Vec<(u16, u128)>> {
    if s == "-" { return Some(vec![]); }
    s.split(',').map(|kv| {
        let (k, v) = kv.split_once('=')?;
        let v: u128 = v.parse().ok()?;
        let k: u16 = if let Some(n) = k.strip_prefix('#') { n.parse().ok()? } else { u16::from(k.parse::<MarketConfigKey>().ok()?) };
        Some((k, v))
    }).collect()
}

fn exec_inner(t: &[&str]) -> Option<String> {
    h_store::set_now(NOW);
    Some(match t {
        ["c20", "factor", mk, mck, upd, key, v] => {
            let mut w = match world(*mk == "1", *mck == "1") { Ok(w) => w, Err(e) => return Some(e) };
            if *upd == "1" && key.parse::<MarketConfigKey>().is_ok() { if let Err(e) = set_updatable(&mut w, false, key) { return Some(e); } }
            let accs: &'static [AccountInfo<'static>] = Box::leak(vec![
                account(w.caller, true, false, anchor_lang::system_program::ID, &[]),
                account(w.store_key, false, false, gmsol_store::ID, &w.store),
                account(w.market_key, false, true, gmsol_store::ID, &w.market),
            ].into_boxed_slice());
            let data = gmsol_store::instruction::UpdateMarketConfig { key: key.to_string(), value: v.parse().ok()? }.data();
            let res = call(accs, data);
            let after = accs[2].try_borrow_data().unwrap().to_vec();
            let key = key.to_string();
            finish(res, &w.market, &after, move |m| match m.get_config(&key) { Ok(x) => format!("ok {x}"), Err(_) => "ok ?".into() })
        }
        ["c20", "flag", mk, mck, upd, key, b] => {
            let mut w = match world(*mk == "1", *mck == "1") { Ok(w) => w, Err(e) => return Some(e) };
            if *upd == "1" && key.parse::<MarketConfigFlag>().is_ok() { if let Err(e) = set_updatable(&mut w, true, key) { return Some(e); } }
            let accs: &'static [AccountInfo<'static>] = Box::leak(vec![
                account(w.caller, true, false, anchor_lang::system_program::ID, &[]),
                account(w.store_key, false, false, gmsol_store::ID, &w.store),
                account(w.market_key, false, true, gmsol_store::ID, &w.market),
            ].into_boxed_slice());
            let data = gmsol_store::instruction::UpdateMarketConfigFlag { key: key.to_string(), value: *b == "1" }.data();
            let res = call(accs, data);
            let after = accs[2].try_borrow_data().unwrap().to_vec();
            let key = key.to_string();
            finish(res, &w.market, &after, move |m| match m.get_config_flag(&key) { Ok(x) => format!("ok {}", x as u8), Err(_) => "ok ?".into() })
        }
        ["c20", "buffer", mk, mck, owned, delta, upd, entries] => {
            let mut w = match world(*mk == "1", *mck == "1") { Ok(w) => w, Err(e) => return Some(e) };
            if *upd != "-" { for k in upd.split(',') { if let Err(e) = set_updatable(&mut w, false, k) { return Some(e); } } }
            let es = parse_entries(entries)?;
            let delta: i64 = delta.parse().ok()?;
            let authority = if *owned == "1" { w.caller } else { pk(99) };
            let buf = buffer_bytes(w.store_key, authority, NOW + delta, &es);
            let accs: &'static [AccountInfo<'static>] = Box::leak(vec![
                account(w.caller, true, false, anchor_lang::system_program::ID, &[]),
                account(w.store_key, false, false, gmsol_store::ID, &w.store),
                account(w.market_key, false, true, gmsol_store::ID, &w.market),
                account(pk(11), false, true, gmsol_store::ID, &buf),
            ].into_boxed_slice());
            let data = gmsol_store::instruction::UpdateMarketConfigWithBuffer {}.data();
            let res = call(accs, data);
            let after = accs[2].try_borrow_data().unwrap().to_vec();
            finish(res, &w.market, &after, move |m| {
                let mut ks: Vec<MarketConfigKey> = MarketConfigKey::iter().filter(|k| es.iter().any(|(n, _)| *n == u16::from(*k))).collect();
                ks.sort_by_key(|k| u16::from(*k));
                format!("ok {}", ks.iter().map(|k| format!("{k}={}", m.get_config(&k.to_string()).copied().unwrap_or(0))).collect::<Vec<_>>().join(";"))
            })
        }
        ["c20", "rt", op, mks, mcks, holds, rest @ ..] => {
            let mut w = match world_rt(mks, mcks, holds) { Ok(w) => w, Err(e) => return Some(e) };
            match (*op, rest) {
                ("factor", [upd, key, v]) | ("flag", [upd, key, v]) => {
                    let is_flag = *op == "flag";
                    let valid = if is_flag { key.parse::<MarketConfigFlag>().is_ok() } else { key.parse::<MarketConfigKey>().is_ok() };
                    if *upd == "1" && valid { if let Err(e) = set_updatable_rt(&mut w, mks, is_flag, key) { return Some(e); } }
                    if let Err(e) = finish_roles(&mut w, mks, mcks) { return Some(e); }
                    let accs: &'static [AccountInfo<'static>] = Box::leak(vec![
                        account(w.caller, true, false, anchor_lang::system_program::ID, &[]),
                        account(w.store_key, false, false, gmsol_store::ID, &w.store),
                        account(w.market_key, false, true, gmsol_store::ID, &w.market),
                    ].into_boxed_slice());
                    let data = if is_flag { gmsol_store::instruction::UpdateMarketConfigFlag { key: key.to_string(), value: *v == "1" }.data() }
                               else { gmsol_store::instruction::UpdateMarketConfig { key: key.to_string(), value: v.parse().ok()? }.data() };
                    let res = call(accs, data);
                    let after = accs[2].try_borrow_data().unwrap().to_vec();
                    let key = key.to_string();
                    finish(res, &w.market, &after, move |m| if is_flag {
                        match m.get_config_flag(&key) { Ok(x) => format!("ok {}", x as u8), Err(_) => "ok ?".into() }
                    } else { match m.get_config(&key) { Ok(x) => format!("ok {x}"), Err(_) => "ok ?".into() } })
                }
                ("buffer", [owned, delta, upd, entries]) => {
                    if *upd != "-" { for k in upd.split(',') { if let Err(e) = set_updatable_rt(&mut w, mks, false, k) { return Some(e); } } }
                    if let Err(e) = finish_roles(&mut w, mks, mcks) { return Some(e); }
                    let es = parse_entries(entries)?;
                    let delta: i64 = delta.parse().ok()?;
                    let authority = if *owned == "1" { w.caller } else { pk(99) };
                    let buf = buffer_bytes(w.store_key, authority, NOW + delta, &es);
                    let accs: &'static [AccountInfo<'static>] = Box::leak(vec![
                        account(w.caller, true, false, anchor_lang::system_program::ID, &[]),
                        account(w.store_key, false, false, gmsol_store::ID, &w.store),
                        account(w.market_key, false, true, gmsol_store::ID, &w.market),
                        account(pk(11), false, true, gmsol_store::ID, &buf),
                    ].into_boxed_slice());
                    let res = call(accs, gmsol_store::instruction::UpdateMarketConfigWithBuffer {}.data());
                    let after = accs[2].try_borrow_data().unwrap().to_vec();
                    finish(res, &w.market, &after, move |m| {
                        let mut ks: Vec<MarketConfigKey> = MarketConfigKey::iter().filter(|k| es.iter().any(|(n, _)| *n == u16::from(*k))).collect();
                        ks.sort_by_key(|k| u16::from(*k));
                        format!("ok {}", ks.iter().map(|k| format!("{k}={}", m.get_config(&k.to_string()).copied().unwrap_or(0))).collect::<Vec<_>>().join(";"))
                    })
                }
                _ => return None,
            }
        }
        _ => return None,
    })
}

fn exec(req: &str) -> String {
    let t: Vec<&str> = req.split(' ').collect();
    match std::panic::catch_unwind(|| exec_inner(&t)) { Ok(Some(s)) => s, Ok(None) => "bad-op".into(), Err(_) => "panic".into() }
}

/// the property, stated directly
fn oracle(req: &str, resp: &str) -> Option<std::result::Result<(), String>> {
    let t: Vec<&str> = req.split(' ').collect();
    let rejected_clean = resp.starts_with("err ") && resp.ends_with(" same");
    let bad = |why: &str| Some(Err(format!("{why}: got `{resp}`")));
    if let ["c20", "rt", op, mks, mcks, holds, rest @ ..] = t.as_slice() {
        if resp == "bad-config" { return None; }
        // what the caller effectively is: a role counts only while it is ENABLED in the store
        let live_mk = (*holds == "mk" || *holds == "both") && *mks == "e";
        let live_mck = (*holds == "mck" || *holds == "both") && *mcks == "e";
        let cfg = format!("[MARKET_KEEPER role {mks}, MARKET_CONFIG_KEEPER role {mcks}, caller holds {holds}]");
        // translate to the plain policy request and reuse its oracle, with two relaxations documented below
        let plain = match (*op, rest) {
            ("factor", [upd, key, v]) | ("flag", [upd, key, v]) => format!("c20 {op} {} {} {upd} {key} {v}", live_mk as u8, live_mck as u8),
            ("buffer", [owned, delta, upd, entries]) => format!("c20 buffer {} {} {owned} {delta} {upd} {entries}", live_mk as u8, live_mck as u8),
            _ => return None,
        };
        return match oracle(&plain, resp) {
            Some(Ok(())) => Some(Ok(())),
            // a config keeper (no live MARKET_KEEPER) may additionally be turned away when the MARKET_KEEPER role itself is not
            // enabled in the store: the property only bounds a config keeper by the allow list, it does not promise acceptance
            Some(Err(_)) if !live_mk && live_mck && *mks != "e" && rejected_clean => Some(Ok(())),
            // somebody with no live role: any clean rejection will do (the error kind depends on the role table)
            Some(Err(_)) if !live_mk && !live_mck && rejected_clean => Some(Ok(())),
            Some(Err(why)) => Some(Err(format!("{cfg}: {why}"))),
            None => None,
        };
    }
    match t.as_slice() {
        ["c20", kind @ ("factor" | "flag"), mk, mck, upd, key, v] => {
            let (mk, mck, upd) = (*mk == "1", *mck == "1", *upd == "1");
            let valid = if *kind == "factor" { key.parse::<MarketConfigKey>().is_ok() } else { key.parse::<MarketConfigFlag>().is_ok() };
            if !mk && !mck { return if rejected_clean && resp.contains("PermissionDenied") { Some(Ok(())) } else { bad("a caller without MARKET_KEEPER / MARKET_CONFIG_KEEPER must be rejected, market unchanged") }; }
            if !valid { return if rejected_clean { Some(Ok(())) } else { bad("an unknown key must be rejected, market unchanged") }; }
            if mk || upd {
                let want = if *kind == "factor" { format!("ok {v}") } else { format!("ok {v}") };
                if resp == want { Some(Ok(())) } else { bad(&format!("{} must be allowed to update {kind} `{key}`", if mk { "a MARKET_KEEPER" } else { "a MARKET_CONFIG_KEEPER (updatable key)" })) }
            } else if rejected_clean && resp.contains("PermissionDenied") { Some(Ok(())) } else { bad(&format!("a MARKET_CONFIG_KEEPER must NOT update the non-updatable {kind} `{key}` (market unchanged)")) }
        }
        ["c20", "buffer", mk, mck, owned, delta, upd, entries] => {
            let (mk, mck, owned) = (*mk == "1", *mck == "1", *owned == "1");
            let delta: i64 = delta.parse().ok()?;
            let es = parse_entries(entries)?;
            let updatable: Vec<u16> = if *upd == "-" { vec![] } else { upd.split(',').filter_map(|k| k.parse::<MarketConfigKey>().ok()).map(u16::from).collect() };
            let valid = |n: u16| MarketConfigKey::iter().any(|k| u16::from(k) == n);
            if !mk && !mck { return if rejected_clean { Some(Ok(())) } else { bad("stranger's buffer must be rejected, market unchanged") }; }
            if !owned { return if rejected_clean { Some(Ok(())) } else { bad("a buffer owned by somebody else must be rejected") }; }
            if delta <= 0 { return if rejected_clean { Some(Ok(())) } else { bad("an expired buffer must never be applied") }; }
            if !mk && es.iter().any(|(n, _)| !valid(*n) || !updatable.contains(n)) {
                return if rejected_clean { Some(Ok(())) } else { bad("one non-updatable entry must reject the whole buffer and leave the market unchanged") };
            }
            if es.iter().any(|(n, _)| !valid(*n)) { return if resp.starts_with("err ") { Some(Ok(())) } else { bad("an undecodable entry must fail the instruction") }; }
            // accepted: last entry per key wins
            let mut ks: Vec<u16> = es.iter().map(|(n, _)| *n).collect(); ks.sort(); ks.dedup();
            let want = format!("ok {}", ks.iter().map(|n| {
                let k = MarketConfigKey::iter().find(|k| u16::from(*k) == *n).unwrap();
                format!("{k}={}", es.iter().rev().find(|(m, _)| m == n).unwrap().1)
            }).collect::<Vec<_>>().join(";"));
            if resp == want { Some(Ok(())) } else { bad(&format!("an accepted buffer must be applied in order (expected `{want}`)")) }
        }
        _ => None,
    }
}

fn main() {
    h_store::install_stubs();
    let cli = cli();
    let mut out = Out::new();
    std::panic::set_hook(Box::new(|_| {}));
    let reqs: Vec<String> = if cli.mode == "replay" {
        read_requests(cli.file.as_deref().unwrap())
    } else {
        let mut r = Rng::new(cli.seed);
        let keys: Vec<String> = MarketConfigKey::iter().map(|k| k.to_string()).collect();
        let flags: Vec<String> = MarketConfigFlag::iter().map(|k| k.to_string()).collect();
        let mut v = Vec::new();
        // every role combination x updatable x a sample of keys; all flags
        for mk in 0..2 { for mck in 0..2 { for upd in 0..2 {
            for _ in 0..3 { v.push(format!("c20 factor {mk} {mck} {upd} {} {}", r.pick(&keys), 1 + r.num(100))); }
            for f in &flags { v.push(format!("c20 flag {mk} {mck} {upd} {f} {}", r.below(2))); }
            v.push(format!("c20 factor {mk} {mck} {upd} not_a_key 5"));
        } } }
        // role-table configurations: every state of the two roles x what the caller holds, all three instructions
        for mks in ["e", "n", "d"] { for mcks in ["e", "n", "d"] { for holds in ["none", "other", "mk", "mck", "both"] {
            if ((holds == "mk" || holds == "both") && mks == "n") || ((holds == "mck" || holds == "both") && mcks == "n") { continue; }
            for upd in 0..2 {
                let k = r.pick(&keys).clone();
                v.push(format!("c20 rt factor {mks} {mcks} {holds} {upd} {k} {}", 1 + r.num(100)));
                v.push(format!("c20 rt flag {mks} {mcks} {holds} {upd} {} {}", r.pick(&flags), r.below(2)));
                let (k1, k2) = (r.pick(&keys).clone(), r.pick(&keys).clone());
                let u = if upd == 1 { let mut u = vec![k1.clone(), k2.clone()]; u.sort(); u.dedup(); u.join(",") } else { k1.clone() };
                v.push(format!("c20 rt buffer {mks} {mcks} {holds} 1 {} {u} {k1}={},{k2}={}", r.range(1, 1000), 1 + r.num(90), 1 + r.num(90)));
            }
        } } }
        let n = cli.n.max(60);
        for _ in 0..n {
            let len = r.range(0, 5) as usize;
            let mut es: Vec<(String, u128)> = (0..len).map(|_| (r.pick(&keys).clone(), r.num(100))).collect();
            if len > 1 && r.chance(1, 3) { es[len - 1].0 = es[0].0.clone(); }          // duplicate key: order matters
            if r.chance(1, 10) { es.push((format!("#{}", 200 + r.below(60000)), 1)); } // undecodable key
            // updatable set: usually all entry keys, sometimes one missing
            let mut upd: Vec<String> = es.iter().filter(|(k, _)| !k.starts_with('#')).map(|(k, _)| k.clone()).collect();
            upd.sort(); upd.dedup();
            if !upd.is_empty() && r.chance(1, 3) { let i = r.below(upd.len() as u64) as usize; upd.remove(i); }
            let (mk, mck) = match r.below(6) { 0 => (0, 0), 1 | 2 => (1, r.below(2)), _ => (0, 1) };
            let owned = if r.chance(1, 8) { 0 } else { 1 };
            let delta: i64 = match r.below(6) { 0 => 0, 1 => -(r.range(1, 1000) as i64), _ => r.range(1, 100000) as i64 };
            let e = if es.is_empty() { "-".to_string() } else { es.iter().map(|(k, x)| format!("{k}={x}")).collect::<Vec<_>>().join(",") };
            let u = if upd.is_empty() { "-".to_string() } else { upd.join(",") };
            v.push(format!("c20 buffer {mk} {mck} {owned} {delta} {u} {e}"));
        }
        v
    };
    for req in reqs {
        let resp = exec(&req);
        let op = req.split(' ').nth(1).unwrap_or("?").to_string();
        out.stat(&format!("op.{op}"));
        out.stat(&format!("resp.{}", resp.split(' ').take(2).collect::<Vec<_>>().join("_").chars().take(28).collect::<String>().split('=').next().unwrap_or("?").trim_end_matches(|c: char| c.is_ascii_digit())));
        if resp == "panic" { out.oracle_fail("panicked", &req); }
        match oracle(&req, &resp) {
            Some(Err(why)) => out.oracle_fail(&why, &req),
            Some(Ok(())) => out.stat("oracle.checked"),
            None => out.stat("oracle.none"),
        }
        out.case_nt(&req, &resp, resp.starts_with("ok "));
    }
    out.finish();
}
