//! C18 correspondence + oracle: the real `Store` / `RoleStore` (no hook; the last-restart-slot
//! sysvar is stubbed by `h_store::install_stubs`).
//!
//! Requests: `role new <sid> <authority>` · `enable|disable <sid> <namehex>` ·
//! `grant|revoke <sid> <addr> <namehex>` · `has|shas <sid> <addr> <namehex>` · `admin <sid> <addr>` ·
//! `restart|refresh <sid>`.  Addresses are small ids mapped to deterministic pubkeys.
//! Responses: `ok [0|1] | <digest>` or `err <Kind> | <digest>`.
use anchor_lang::prelude::Pubkey;
use bytemuck::Zeroable;
use gmsol_store::states::{RoleKey, Store};
use hcommon::*;
use std::collections::{BTreeMap, BTreeSet, HashMap};

fn pk(id: u64) -> Pubkey {
    // spread ids over the key space so that the sorted member table is exercised in all orders
    let mut r = Rng::new(id ^ 0xA5A5_5A5A_1234_5678);
    let mut b = [0u8; 32];
    for c in b.chunks_mut(8) { c.copy_from_slice(&r.next().to_le_bytes()); }
    b[24..32].copy_from_slice(&id.to_le_bytes());
    Pubkey::new_from_array(b)
}
fn pk_id(k: &Pubkey) -> u64 { u64::from_le_bytes(k.to_bytes()[24..32].try_into().unwrap()) }

fn err_tag(e: &anchor_lang::error::Error) -> String {
    match e {
        anchor_lang::error::Error::AnchorError(a) => format!("err {}", a.error_name),
        anchor_lang::error::Error::ProgramError(p) => format!("err Program({})", p.program_error),
    }
}

struct World {
    store: Box<Store>,
    authority: u64,
    restart_slot: u64,
    /// the property's own bookkeeping (independent of the Lean model)
    spec: Spec,
}

#[derive(Default, Clone)]
struct Spec {
    created: Vec<String>,               // role names in creation order
    enabled: BTreeMap<String, bool>,
    grants: BTreeSet<(u64, String)>,
    restarted: bool,
}

impl Spec {
    fn member(&self, a: u64) -> bool { self.grants.iter().any(|(x, _)| *x == a) }
    fn members(&self) -> usize { self.grants.iter().map(|(x, _)| *x).collect::<BTreeSet<_>>().len() }
    /// expected outcome of RoleStore::has_role
    fn has(&self, a: u64, r: &str) -> String {
        if !self.member(a) { return "err PermissionDenied".into(); }
        match self.enabled.get(r) {
            None => "err NotFound".into(),
            Some(false) => "err PreconditionsAreNotMet".into(),
            Some(true) => format!("ok {}", self.grants.contains(&(a, r.to_string())) as u8),
        }
    }
}

fn digest(w: &World) -> String {
    let rs = w.store.role();
    let mut roles: Vec<(u8, String)> = vec![];
    for name in rs.roles() {
        let name = name.expect("role name").to_string();
        let idx = rs.role_index(&name).expect("role_index").expect("exists");
        let enabled = rs.enabled_role_index(&name).is_ok();
        roles.push((idx, format!("{}:{}:{}", hex::encode(name.as_bytes()), enabled as u8, idx)));
    }
    roles.sort();
    let mut ms: Vec<(u64, u32)> = rs.members().map(|k| (pk_id(&k), rs.role_value(&k).unwrap())).collect();
    ms.sort();
    assert_eq!(roles.len(), rs.num_roles());
    assert_eq!(ms.len(), rs.num_members());
    format!(
        "roles={} [{}] members={} [{}] restarted={}",
        roles.len(),
        roles.iter().map(|x| x.1.clone()).collect::<Vec<_>>().join(" "),
        ms.len(),
        ms.iter().map(|(a, v)| format!("{a}:{v}")).collect::<Vec<_>>().join(" "),
        w.store.has_restarted().unwrap() as u8
    )
}

struct Harness { worlds: HashMap<String, World>, next_slot: u64 }

fn name_of(hexs: &str) -> Option<String> {
    let b = hex::decode(hexs).ok()?;
    if b.len() > 31 || b.contains(&0) { return None; }
    String::from_utf8(b).ok()
}

impl Harness {
    /// returns (response, oracle failure, non-trivial)
    fn exec(&mut self, req: &str) -> (String, Option<String>, bool) {
        let t: Vec<&str> = req.split(' ').collect();
        if t.len() < 3 || t[0] != "role" { return ("bad-op".into(), None, false); }
        let sid = t[2].to_string();
        if t[1] == "new" {
            let Some(auth) = t.get(3).and_then(|s| s.parse::<u64>().ok()) else { return ("bad-op".into(), None, false) };
            self.next_slot += 1;
            h_store::set_last_restart_slot(self.next_slot);
            let mut store: Box<Store> = Box::new(Store::zeroed());
            store.init(pk(auth), "k", 255, pk(1_000_001), pk(1_000_002)).expect("init");
            let w = World { store, authority: auth, restart_slot: self.next_slot, spec: Spec::default() };
            let d = digest(&w);
            self.worlds.insert(sid, w);
            return (format!("ok | {d}"), None, false);
        }
        let Some(w) = self.worlds.get_mut(&sid) else { return ("bad-op".into(), None, false) };
        // the sysvar as this world sees it
        h_store::set_last_restart_slot(w.restart_slot);
        let before: Vec<u8> = bytemuck::bytes_of(&*w.store).to_vec();
        let mut fail: Option<String> = None;
        let mut nt = false;
        let a = |i: usize| -> Option<u64> { t.get(i)?.parse().ok() };
        let head: String = match (t[1], t.len()) {
            ("enable", 4) | ("disable", 4) | ("grant", 5) | ("revoke", 5) => {
                let (addr, name) = if t.len() == 5 { (a(3), name_of(t[4])) } else { (Some(0), name_of(t[3])) };
                let (Some(addr), Some(name)) = (addr, name) else { return ("bad-op".into(), None, false) };
                let sp = &w.spec;
                // what the property says must happen
                let expect: Result<(), &str> = match t[1] {
                    "enable" => match sp.enabled.get(&name) {
                        Some(true) => Err("PreconditionsAreNotMet"),
                        Some(false) => Ok(()),
                        None => if sp.created.len() >= 32 { Err("ExceedMaxLengthLimit") } else { Ok(()) },
                    },
                    "disable" => match sp.enabled.get(&name) { Some(false) => Err("PreconditionsAreNotMet"), _ => Ok(()) },
                    "grant" => match sp.enabled.get(&name) {
                        None => Err("NotFound"),
                        Some(false) => Err("PreconditionsAreNotMet"),
                        Some(true) => if sp.grants.contains(&(addr, name.clone())) { Err("PreconditionsAreNotMet") }
                            else if !sp.member(addr) && sp.members() >= 64 { Err("ExceedMaxLengthLimit") } else { Ok(()) },
                    },
                    _ => match sp.enabled.get(&name) {
                        None => Err("NotFound"),
                        Some(_) => if !sp.member(addr) { Err("PermissionDenied") }
                            else if !sp.grants.contains(&(addr, name.clone())) { Err("PreconditionsAreNotMet") } else { Ok(()) },
                    },
                };
                let r = match t[1] {
                    "enable" => w.store.enable_role(&name),
                    "disable" => w.store.disable_role(&name),
                    "grant" => w.store.grant(&pk(addr), &name),
                    _ => w.store.revoke(&pk(addr), &name),
                };
                match &r {
                    Ok(()) => {
                        match t[1] {
                            "enable" => { if !w.spec.enabled.contains_key(&name) { w.spec.created.push(name.clone()); } w.spec.enabled.insert(name.clone(), true); }
                            "disable" => { if let Some(e) = w.spec.enabled.get_mut(&name) { *e = false; } }
                            "grant" => { w.spec.grants.insert((addr, name.clone())); }
                            _ => { w.spec.grants.remove(&(addr, name.clone())); }
                        }
                        nt = bytemuck::bytes_of(&*w.store) != &before[..];
                        if let Err(k) = expect { fail = Some(format!("{} succeeded but the property requires failure ({k})", t[1])); }
                    }
                    Err(e) => {
                        if bytemuck::bytes_of(&*w.store) != &before[..] { fail = Some(format!("failing {} changed the store", t[1])); }
                        match expect {
                            Ok(()) => fail = Some(format!("{} failed ({}) but the property requires success", t[1], err_tag(e))),
                            Err(k) => if err_tag(e) != format!("err {k}") { fail = Some(format!("{} failed with {} instead of {k}", t[1], err_tag(e))); }
                        }
                    }
                }
                match r { Ok(()) => "ok".into(), Err(e) => err_tag(&e) }
            }
            ("has", 5) | ("shas", 5) => {
                let (Some(addr), Some(name)) = (a(3), name_of(t[4])) else { return ("bad-op".into(), None, false) };
                let (r, expect) = if t[1] == "has" {
                    (w.store.role().has_role(&pk(addr), &name), w.spec.has(addr, &name))
                } else {
                    let e = if w.spec.restarted {
                        // only restart admins are authorised, and for every role
                        match w.spec.has(addr, RoleKey::RESTART_ADMIN).as_str() { "ok 1" => "ok 1".to_string(), "ok 0" => "err StoreOutdated".to_string(), e => e.to_string() }
                    } else { w.spec.has(addr, &name) };
                    (w.store.has_role(&pk(addr), &name), e)
                };
                let s = match r { Ok(b) => format!("ok {}", b as u8), Err(e) => err_tag(&e) };
                if s != expect { fail = Some(format!("{} answered `{s}`, the property says `{expect}`", t[1])); }
                nt = s == "ok 1";
                s
            }
            ("admin", 4) => {
                let Some(addr) = a(3) else { return ("bad-op".into(), None, false) };
                let r = w.store.has_admin_role(&pk(addr));
                let s = match r { Ok(b) => format!("ok {}", b as u8), Err(e) => err_tag(&e) };
                let expect = if addr == w.authority { "ok 1".to_string() }
                    else if w.spec.restarted { w.spec.has(addr, RoleKey::RESTART_ADMIN) } else { "ok 0".to_string() };
                if s != expect { fail = Some(format!("admin answered `{s}`, the property says `{expect}`")); }
                nt = s == "ok 1";
                s
            }
            ("restart", 3) => {
                // the cluster restarts: the sysvar moves on, the store's cached slot does not
                self.next_slot += 1;
                w.restart_slot = self.next_slot;
                h_store::set_last_restart_slot(w.restart_slot);
                w.spec.restarted = true;
                "ok".into()
            }
            ("refresh", 3) => {
                // `update_last_restarted_slot` is crate-private; `init` re-caches the slot and
                // does not touch the role tables.
                w.store.init(pk(w.authority), "k", 255, pk(1_000_001), pk(1_000_002)).expect("init");
                w.spec.restarted = false;
                "ok".into()
            }
            _ => return ("bad-op".into(), None, false),
        };
        if matches!(t[1], "has" | "shas" | "admin") && bytemuck::bytes_of(&*w.store) != &before[..] {
            fail = Some("a query changed the store".into());
        }
        // global consistency between the tables and the set of grants
        let rs = w.store.role();
        if rs.num_roles() != w.spec.created.len() || rs.num_members() != w.spec.members() {
            fail = Some(format!("table sizes {} roles / {} members differ from the grant set ({} / {})",
                rs.num_roles(), rs.num_members(), w.spec.created.len(), w.spec.members()));
        }
        (format!("{head} | {}", digest(w)), fail, nt)
    }
}

// ---------------------------------------------------------------- generator

fn gen(seed: u64, n: u64) -> Vec<String> {
    let mut r = Rng::new(seed);
    let mut out: Vec<String> = vec![];
    let known = [RoleKey::RESTART_ADMIN, RoleKey::MARKET_KEEPER, RoleKey::ORDER_KEEPER, RoleKey::GT_CONTROLLER,
        RoleKey::CONFIG_KEEPER, RoleKey::PRICE_KEEPER, RoleKey::FEATURE_KEEPER, RoleKey::ORACLE_CONTROLLER];
    let mut sid = 0u64;
    while (out.len() as u64) < n {
        sid += 1;
        let s = format!("s{seed}_{sid}");
        let auth = r.range(1, 5);
        out.push(format!("role new {s} {auth}"));
        // shadow of what exists, only to draw arguments relative to the state
        let mut roles: Vec<String> = vec![];
        let mut members: Vec<u64> = vec![];
        let stress = r.chance(1, 6);           // aim at the 32-role / 64-member capacities
        let len = if stress { r.range(40, 120) } else { r.range(10, 80) };
        let n_addr = if stress { 70 } else { r.range(2, 12) };
        let fresh_name = |r: &mut Rng, k: usize| -> String {
            if k < known.len() && r.chance(2, 3) { known[k].to_string() } else {
                let l = r.range(1, 31) as usize;
                let base = format!("R{k}_");
                let mut sname = base.clone();
                while sname.len() < l { sname.push((b'a' + r.below(26) as u8) as char); }
                sname.truncate(l.max(base.len()).min(31));
                sname
            }
        };
        let mut script: Vec<String> = vec![];
        if stress {
            // fill the role table (32) and the member table (64) and step over both limits
            let nr = r.range(30, 34) as usize;
            for k in 0..nr { let nm = fresh_name(&mut r, k); if !roles.contains(&nm) { roles.push(nm.clone()); } script.push(format!("role enable {s} {}", hex::encode(nm.as_bytes()))); }
            let na = r.range(62, 67);
            for a in 1..=na { let h = hex::encode(r.pick(&roles).as_bytes()); members.push(a); script.push(format!("role grant {s} {a} {h}")); }
        }
        out.append(&mut script);
        for _ in 0..len {
            let fresh = roles.is_empty() || r.chance(if stress { 1 } else { 2 }, 10);
            let role = if !fresh { r.pick(&roles).clone() } else { fresh_name(&mut r, roles.len()) };
            let addr = if !members.is_empty() && r.chance(6, 10) { *r.pick(&members) } else { r.range(1, n_addr) };
            let h = hex::encode(role.as_bytes());
            let op = if fresh && r.chance(3, 4) { 0 } else { r.below(20) };
            let line = match op {
                0 | 1 => { if !roles.contains(&role) { roles.push(role.clone()); } format!("role enable {s} {h}") }
                2 => format!("role disable {s} {h}"),
                3..=7 => { if !members.contains(&addr) { members.push(addr); } format!("role grant {s} {addr} {h}") }
                8 | 9 => format!("role revoke {s} {addr} {h}"),
                10 | 11 => format!("role has {s} {addr} {h}"),
                12 => format!("role shas {s} {addr} {h}"),
                13 => format!("role admin {s} {}", if r.chance(1, 3) { auth } else { addr }),
                14 => format!("role restart {s}"),
                15 => format!("role refresh {s}"),
                16 => { let unk = hex::encode(format!("nope{}", r.below(5)).as_bytes()); format!("role {} {s} {addr} {unk}", r.pick(&["grant", "revoke", "has", "shas"])) }
                17 => format!("role disable {s} {}", hex::encode(format!("nope{}", r.below(5)).as_bytes())),
                18 => format!("role shas {s} {addr} {h}"),
                _ => format!("role has {s} {addr} {h}"),
            };
            out.push(line);
        }
    }
    out
}

fn main() {
    let cli = cli();
    h_store::install_stubs();
    std::panic::set_hook(Box::new(|_| {}));
    let mut out = Out::new();
    let reqs: Vec<String> = if cli.mode == "replay" { read_requests(cli.file.as_deref().unwrap()) } else { gen(cli.seed, cli.n) };
    let mut h = Harness { worlds: HashMap::new(), next_slot: 100 };
    for req in reqs {
        let res = std::panic::catch_unwind(std::panic::AssertUnwindSafe(|| h.exec(&req)));
        let (resp, fail, nt) = match res { Ok(x) => x, Err(_) => ("panic".to_string(), Some("panicked".to_string()), false) };
        let op = req.split(' ').nth(1).unwrap_or("?").to_string();
        out.stat(&format!("op.{op}"));
        let kind = resp.split(" | ").next().unwrap_or("").to_string();
        out.stat(&format!("resp.{}", kind.replace(' ', "_")));
        if let Some(d) = resp.split(" | ").nth(1) {
            if d.starts_with("roles=32 ") { out.stat("cap.roles_full"); }
            if d.contains(" members=64 ") { out.stat("cap.members_full"); }
            if d.ends_with("restarted=1") { out.stat("state.restarted"); }
        }
        if let Some(what) = fail { out.oracle_fail(&what, &req); } else { out.stat("oracle.checked"); }
        out.case_nt(&req, &resp, nt);
    }
    out.finish();
}
