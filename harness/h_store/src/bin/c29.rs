//! C29 correspondence + oracle: the real `try_adjust_price_with_max_deviation_factor`
//! (verif-hooks c29) and, for acceptance, `SmallPrices::from_price` (verif-hooks c24).
//! `orc adjust|accept <factor> <minV> <minM> <maxV> <maxM> <refFlag> <refV> <refM>`
//! `orc e2e <ratio> <minV> <minM> <maxV> <maxM> <refFlag> <refV> <refM>` — END TO END, one token of
//! `set_prices_from_remaining_accounts` with adjustment enabled and `max_deviation_factor = ratio·10^12`:
//! real `try_adjust_price` (token config with AllowPriceAdjustment) → real `validate_one` (validator
//! built from a real Store, fresh timestamps: only the deviation clause decides) → `SmallPrices::from_price`.
use anchor_lang::error::Error as AErr;
use anchor_lang::prelude::Pubkey;
use bytemuck::Zeroable;
use gmsol_store::states::{PriceProviderKind, PriceValidator, Store, TokenConfig};
use gmsol_store::verif::{c24, c29};
use gmsol_utils::token_config::{FeedConfig, TokenConfigFlag};
use gmsol_utils::price::Decimal;
use gmsol_utils::Price;
use hcommon::*;
use num_bigint::BigUint;

const UNIT: u128 = 100_000_000_000_000_000_000;

struct In { factor: u128, price: Price, r: Option<Decimal> }

fn parse(t: &[&str]) -> Option<In> {
    if t.len() != 10 { return None; }
    let factor: u128 = t[2].parse().ok()?;
    let v = |i: usize| -> Option<u32> { t[i].parse::<u32>().ok() };
    let m = |i: usize| -> Option<u8> { let x = t[i].parse::<u8>().ok()?; if x <= 20 { Some(x) } else { None } };
    let price = Price { min: Decimal { value: v(3)?, decimal_multiplier: m(4)? }, max: Decimal { value: v(5)?, decimal_multiplier: m(6)? } };
    let r = match t[7] { "1" => Some(Decimal { value: v(8)?, decimal_multiplier: m(9)? }), "0" => { v(8)?; m(9)?; None }, _ => return None };
    Some(In { factor, price, r })
}

const RATIO_MULT: u128 = 1_000_000_000_000;
const NOW: i64 = 1_700_000_000;
const PROVIDER: PriceProviderKind = PriceProviderKind::Pyth;

fn verr(e: &AErr) -> String {
    let name = match e { AErr::AnchorError(a) => a.error_name.clone(), AErr::ProgramError(p) => format!("{:?}", p.program_error) };
    match name.as_str() {
        "TokenAmountOverflow" => "err Overflow".into(),
        "MaxPriceAgeExceeded" => "err MaxAge".into(),
        "MaxPriceTimestampExceeded" => "err Future".into(),
        "InvalidArgument" => "err Arg".into(),
        "InvalidPriceFeedPrice" => "err Deviation".into(),
        "NotFound" => "err NotFound".into(),
        o => format!("err Other({o})"),
    }
}

fn run_e2e(t: &[&str]) -> Option<String> {
    if t.len() != 10 { return None; }
    let ratio: u32 = t[2].parse().ok()?; if ratio == 0 { return None; }
    let mut tt = t.to_vec(); tt[2] = "0";
    let i = parse(&tt)?;
    // validator from a real Store, stubbed clock
    h_store::set_now(NOW);
    let mut store: Box<Store> = unsafe { Box::from_raw(std::alloc::alloc_zeroed(std::alloc::Layout::new::<Store>()) as *mut Store) };
    *store.get_amount_mut("oracle_max_age").unwrap() = 60;
    *store.get_amount_mut("oracle_max_timestamp_range").unwrap() = 60;
    *store.get_amount_mut("oracle_max_future_timestamp_excess").unwrap() = 10;
    let mut v = PriceValidator::try_from(&*store).expect("validator");
    // token config: adjustment allowed, deviation factor configured
    let mut tc = TokenConfig::zeroed();
    tc.set_enabled(true);
    tc.set_expected_provider(PROVIDER);
    tc.set_flag(TokenConfigFlag::AllowPriceAdjustment, true);
    let fc = FeedConfig::new(Pubkey::new_from_array([7u8; 32])).with_timestamp_adjustment(0)
        .with_max_deviation_factor(Some(ratio as u128 * RATIO_MULT)).ok()?;
    tc.set_feed_config(&PROVIDER, fc).ok()?;
    let feed_config = tc.get_feed_config(&PROVIDER).ok()?;
    // parse_from_feed_account tail: `if token_config.is_price_adjustment_allowed() { try_adjust_price(..) }`
    let (price, adjusted) = if tc.is_price_adjustment_allowed() {
        match c29::try_adjust_price(feed_config, i.price, i.r) { Ok(x) => x, Err(e) => return Some(verr(&e)) }
    } else { (i.price, false) };
    if let Err(e) = c24::validate_one(&mut v, &tc, &PROVIDER, NOW, 1, &price, i.r.as_ref()) { return Some(verr(&e)); }
    Some(match c24::small_prices_from_price(&price, false, true) {
        Ok(sp) => format!("ok {} {} {} {}", adjusted as u8, sp.min().value, sp.max().value, sp.min().decimal_multiplier),
        Err(_) => "err Arg".into(),
    })
}

fn run(t: &[&str]) -> Option<String> {
    if t.len() >= 2 && t[0] == "orc" && t[1] == "e2e" { return run_e2e(t); }
    if t.len() < 2 || t[0] != "orc" { return None; }
    let i = parse(t)?;
    let adj = c29::try_adjust_price_with_max_deviation_factor(&i.factor, &i.price, i.r.as_ref());
    Some(match t[1] {
        "adjust" => match adj {
            None => "none".into(),
            Some(q) => format!("ok {} {} {} {}", q.min.value, q.min.decimal_multiplier, q.max.value, q.max.decimal_multiplier),
        },
        "accept" => {
            let q = adj.unwrap_or(i.price);
            match c24::small_prices_from_price(&q, false, true) {
                Ok(sp) => format!("ok {} {} {} {}", adj.is_some() as u8, sp.min().value, sp.max().value, sp.min().decimal_multiplier),
                Err(_) => "err Arg".into(),
            }
        }
        _ => return None,
    })
}

fn exec(req: &str) -> String {
    let t: Vec<&str> = req.split(' ').collect();
    match std::panic::catch_unwind(|| run(&t)) { Ok(Some(s)) => s, Ok(None) => "bad-op".into(), Err(_) => "panic".into() }
}

fn unit(v: u32, m: u8) -> BigUint { BigUint::from(v) * BigUint::from(10u8).pow(m as u32) }

/// Property oracle (exact integers): Ok(nt) / Err(violation)
fn oracle(req: &str, resp: &str) -> Result<bool, String> {
    let t: Vec<&str> = req.split(' ').collect();
    let i = parse(&t).unwrap();
    if resp == "panic" { return Err("panicked".into()); }
    let (pmin, pmax) = (unit(i.price.min.value, i.price.min.decimal_multiplier), unit(i.price.max.value, i.price.max.decimal_multiplier));
    let r = match i.r { Some(d) => unit(d.value, d.decimal_multiplier), None => (&pmin + &pmax) / BigUint::from(2u8) };
    let dev = &r * BigUint::from(i.factor) / BigUint::from(UNIT);
    let hi = &r + &dev;
    let lo = if r >= dev { Some(&r - &dev) } else { None };
    let within = |x: &BigUint| -> bool { *x <= hi && lo.as_ref().map(|l| x >= l).unwrap_or(true) && (if x > &r { x - &r } else { &r - x }) <= dev };
    let f: Vec<&str> = resp.split(' ').collect();
    match (t[1], f[0]) {
        ("adjust", "none") => Ok(false),
        ("adjust", "ok") => {
            let (qminv, qminm, qmaxv, qmaxm): (u32, u8, u32, u8) = (f[1].parse().unwrap(), f[2].parse().unwrap(), f[3].parse().unwrap(), f[4].parse().unwrap());
            if qminm != i.price.min.decimal_multiplier || qmaxm != i.price.max.decimal_multiplier { return Err("adjustment changed a decimal multiplier".into()); }
            let (qmin, qmax) = (unit(qminv, qminm), unit(qmaxv, qmaxm));
            let step_max = BigUint::from(10u8).pow(qmaxm as u32);
            let step_min = BigUint::from(10u8).pow(qminm as u32);
            // one-sided band on each bound (an adjusted bound may coincide with the old value)
            if qmax > hi { return Err(format!("max {qmax} above ref+dev {hi} after adjustment")); }
            if let Some(l) = &lo { if qmin < *l { return Err(format!("min {qmin} below ref-dev {l} after adjustment")); } }
            if qmaxv != i.price.max.value && &qmax + &step_max <= hi { return Err("adjusted max is not the floor at the decimal precision".into()); }
            if qminv != i.price.min.value {
                let lo = lo.clone().ok_or("min adjusted although ref < dev")?;
                if qmin >= &lo + &step_min { return Err("adjusted min is not the ceiling at the decimal precision".into()); }
            }
            let _ = &within;
            Ok(true)
        }
        ("accept", "err") => Ok(false),
        ("accept", "ok") => {
            let adjusted = f[1] == "1";
            let (minv, maxv, m): (u32, u32, u8) = (f[2].parse().unwrap(), f[3].parse().unwrap(), f[4].parse().unwrap());
            if minv == 0 || minv > maxv { return Err("accepted a zero or inverted price".into()); }
            if adjusted {
                let (qmin, qmax) = (unit(minv, m), unit(maxv, m));
                if qmax > hi || lo.map(|l| qmin < l).unwrap_or(false) { return Err(format!("accepted adjusted price [{qmin},{qmax}] outside ref±dev")); }
            }
            Ok(adjusted)
        }
        _ => Err(format!("unexpected response {resp}")),
    }
}

/// END-TO-END oracle, from the property text: adjustment enabled ⇒ an ACCEPTED price has
/// 0 < min ≤ max and lies within reference ± max deviation, whether or not the adjuster changed it.
/// Reference and deviation are those of the feed price as delivered (explicit reference, or the mid
/// of the delivered bounds). Allowance: exactly the validator's rounding of the deviation up to the
/// price's precision step (F-C24b of C24), and only for a price the adjuster left alone; with a zero
/// floored deviation an accepted price must equal the reference.
fn oracle_e2e(req: &str, resp: &str) -> Result<bool, String> {
    let t: Vec<&str> = req.split(' ').collect();
    let ratio: u128 = t[2].parse().unwrap();
    let mut tt = t.clone(); tt[2] = "0";
    let i = parse(&tt).unwrap();
    if resp == "panic" || resp.starts_with("err Other") { return Err(format!("unexpected {resp}")); }
    let f: Vec<&str> = resp.split(' ').collect();
    if f[0] != "ok" { return Ok(false); }
    let adjusted = f[1] == "1";
    let (minv, maxv, m): (u32, u32, u8) = (f[2].parse().unwrap(), f[3].parse().unwrap(), f[4].parse().unwrap());
    if minv == 0 || minv > maxv { return Err("accepted a zero or inverted price".into()); }
    let (pmin, pmax) = (unit(i.price.min.value, i.price.min.decimal_multiplier), unit(i.price.max.value, i.price.max.decimal_multiplier));
    let r = match i.r { Some(d) => unit(d.value, d.decimal_multiplier), None => (&pmin + &pmax) / BigUint::from(2u8) };
    let dev = &r * BigUint::from(ratio * RATIO_MULT) / BigUint::from(UNIT);
    let step = BigUint::from(10u8).pow(m as u32);
    let allowed = if adjusted { dev.clone() } else { (&dev + &step - BigUint::from(1u8)) / &step * &step };
    let (qmin, qmax) = (unit(minv, m), unit(maxv, m));
    let ad = |x: &BigUint| if x > &r { x - &r } else { &r - x };
    let worst = ad(&qmin).max(ad(&qmax));
    if worst > allowed {
        return Err(format!("adjustment enabled, but accepted price [{qmin},{qmax}] is {worst} away from the reference {r}: allowed deviation {dev} ({}; adjusted={})",
            if dev == BigUint::from(0u8) { "floored deviation 0: must equal the reference".to_string() } else { format!("rounded to precision {allowed}") }, adjusted as u8));
    }
    Ok(true)
}

fn gen_e2e(r: &mut Rng) -> String {
    // regions: (a) low unit price / tiny factor so that floor(ref·factor/10^20) = 0 with feed ≠ ref
    // (18-decimal synthetic tokens: multiplier 0..2, values of a few digits; minimum factor 1e-8);
    // (b) ordinary prices with the deviation around the precision step; (c) extremes
    let region = r.below(10);
    let (m, base, ratio): (u8, u32, u32) = match region {
        0..=3 => { let m = r.below(3) as u8; let base = match r.below(3) { 0 => r.range(1, 99) as u32, 1 => r.range(100, 9_999) as u32, _ => r.range(10_000, 999_999) as u32 };
                   (m, base, *r.pick(&[1u32, 1, 2, 10, 100, 1000])) }
        4..=7 => (r.below(13) as u8, r.range(1000, 50_000_000) as u32, *r.pick(&[1u32, 1000, 100_000, 1_000_000, 5_000_000, 20_000_000])),
        _ => (r.below(21) as u8, if r.chance(1, 2) { u32::MAX - r.below(1000) as u32 } else { r.num(32) as u32 }, if r.chance(1, 2) { u32::MAX } else { r.num(32) as u32 }.max(1)),
    };
    let dev = ((base as u128).saturating_mul(ratio as u128 * RATIO_MULT) / UNIT).min(1_000_000_000) as i64;
    let off = |r: &mut Rng| -> i64 { match r.below(8) { 0 => 0, 1 => dev, 2 => dev + 1, 3 => -dev - 1, 4 => r.range(1, 3 * dev as u64 + 20) as i64, 5 => -(r.range(1, 3 * dev as u64 + 20) as i64), 6 => 1, _ => -1 } };
    let c = |x: i64| x.clamp(0, u32::MAX as i64) as u32;
    let a = c(base as i64 + off(r)); let b = c(base as i64 + off(r));
    let (mut minv, maxv) = (a.min(b), a.max(b));
    if r.chance(1, 30) { minv = 0; }
    let m2 = if r.chance(1, 25) { r.below(21) as u8 } else { m };
    let (rf, rv, rm) = if r.chance(1, 2) { (1, if r.chance(1, 20) { r.num(32) as u32 } else { base }, if r.chance(1, 15) { r.below(21) as u8 } else { m }) } else { (0, 0, 0) };
    format!("orc e2e {ratio} {minv} {m} {maxv} {m2} {rf} {rv} {rm}")
}

fn gen_req(r: &mut Rng) -> String {
    if r.chance(2, 5) { return gen_e2e(r); }
    let m = r.below(13) as u8;
    let m2 = if r.chance(1, 12) { r.below(21) as u8 } else { m };
    let base: u32 = match r.below(6) { 0 => r.range(1, 50) as u32, 1 => u32::MAX - r.below(1000) as u32, 2 => r.num(32) as u32, _ => r.range(1000, 5_000_000) as u32 };
    let factor: u128 = match r.below(8) { 0 => 0, 1 => 1_000_000_000_000, 2 => UNIT, 3 => r.num(128), 4 => UNIT / 10_000 * r.range(1, 30) as u128, _ => UNIT / 1000 * r.range(1, 50) as u128 };
    let dev = ((base as u128).saturating_mul(factor) / UNIT).min(1_000_000_000_000) as u64;
    let off = |r: &mut Rng| -> i64 { match r.below(6) { 0 => 0, 1 => dev as i64, 2 => dev as i64 + 1, 3 => -(dev as i64) - 1, 4 => r.range(0, 3 * dev + 5) as i64, _ => -(r.range(0, 3 * dev + 5) as i64) } };
    let clampu = |x: i64| -> u32 { x.clamp(0, u32::MAX as i64) as u32 };
    let maxv = clampu(base as i64 + off(r));
    let minv = if r.chance(1, 15) { 0 } else { clampu(base as i64 + off(r)).min(if r.chance(9, 10) { maxv } else { u32::MAX }) };
    let (rf, rv, rm) = if r.chance(1, 2) { (1, if r.chance(1, 20) { r.num(32) as u32 } else { base }, if r.chance(1, 10) { r.below(21) as u8 } else { m }) } else { (0, 0, 0) };
    format!("orc {} {factor} {minv} {m} {maxv} {m2} {rf} {rv} {rm}", if r.chance(1, 2) { "adjust" } else { "accept" })
}

fn main() {
    h_store::install_stubs();
    let cli = cli();
    let mut out = Out::new();
    if std::env::var("H_DEBUG").is_err() { std::panic::set_hook(Box::new(|_| {})); }
    let reqs: Vec<String> = if cli.mode == "replay" { read_requests(cli.file.as_deref().unwrap()) } else {
        let mut r = Rng::new(cli.seed);
        r = Rng(r.next()); // decorrelate: hcommon streams of consecutive seeds are one draw apart
        (0..cli.n).map(|_| gen_req(&mut r)).collect()
    };
    for req in reqs {
        let resp = exec(&req);
        out.stat(&format!("op.{}", req.split(' ').nth(1).unwrap_or("?")));
        out.stat(&format!("resp.{}", resp.split(' ').take(if resp.starts_with("err") { 2 } else { 1 }).collect::<Vec<_>>().join("_")));
        if resp == "bad-op" { out.case(&req, &resp); continue; }
        let is_e2e = req.starts_with("orc e2e ");
        let nt = match if is_e2e { oracle_e2e(&req, &resp) } else { oracle(&req, &resp) } {
            Ok(nt) => { out.stat("oracle.checked"); nt }
            Err(what) => { out.oracle_fail(&what, &req); false }
        };
        out.case_nt(&req, &resp, nt);
    }
    out.finish();
}
