//! C29 correspondence + oracle: the real `try_adjust_price_with_max_deviation_factor`
//! (verif-hooks c29) and, for acceptance, `SmallPrices::from_price` (verif-hooks c24).
//! `orc adjust|accept <factor> <minV> <minM> <maxV> <maxM> <refFlag> <refV> <refM>`
use gmsol_store::verif::{c24, c29};
use gmsol_utils::price::Decimal;
use gmsol_utils::Price;
use hcommon::*;
use num_bigint::BigUint;

const UNIT: u128 = 100_000_000_000_000_000_000;

struct In { factor: u128, price: Price, r: Option<Decimal> }

fn parse(t: &[&str]) -> Option<In> {
    if t.len() != 10 { return None; }
    let factor: u128 = t[2].parse().ok()?;
    let v = |i: usize| -> Option<u32> { t[i].parse::<u32>().ok() };
    let m = |i: usize| -> Option<u8> { let x = t[i].parse::<u8>().ok()?; if x <= 20 { Some(x) } else { None } };
    let price = Price { min: Decimal { value: v(3)?, decimal_multiplier: m(4)? }, max: Decimal { value: v(5)?, decimal_multiplier: m(6)? } };
    let r = match t[7] { "1" => Some(Decimal { value: v(8)?, decimal_multiplier: m(9)? }), "0" => { v(8)?; m(9)?; None }, _ => return None };
    Some(In { factor, price, r })
}

fn run(t: &[&str]) -> Option<String> {
    if t.len() < 2 || t[0] != "orc" { return None; }
    let i = parse(t)?;
    let adj = c29::try_adjust_price_with_max_deviation_factor(&i.factor, &i.price, i.r.as_ref());
    Some(match t[1] {
        "adjust" => match adj {
            None => "none".into(),
            Some(q) => format!("ok {} {} {} {}", q.min.value, q.min.decimal_multiplier, q.max.value, q.max.decimal_multiplier),
        },
        "accept" => {
            let q = adj.unwrap_or(i.price);
            match c24::small_prices_from_price(&q, false, true) {
                Ok(sp) => format!("ok {} {} {} {}", adj.is_some() as u8, sp.min().value, sp.max().value, sp.min().decimal_multiplier),
                Err(_) => "err Arg".into(),
            }
        }
        _ => return None,
    })
}

fn exec(req: &str) -> String {
    let t: Vec<&str> = req.split(' ').collect();
    match std::panic::catch_unwind(|| run(&t)) { Ok(Some(s)) => s, Ok(None) => "bad-op".into(), Err(_) => "panic".into() }
}

fn unit(v: u32, m: u8) -> BigUint { BigUint::from(v) * BigUint::from(10u8).pow(m as u32) }

/// Property oracle (exact integers): Ok(nt) / Err(violation)
fn oracle(req: &str, resp: &str) -> Result<bool, String> {
    let t: Vec<&str> = req.split(' ').collect();
    let i = parse(&t).unwrap();
    if resp == "panic" { return Err("panicked".into()); }
    let (pmin, pmax) = (unit(i.price.min.value, i.price.min.decimal_multiplier), unit(i.price.max.value, i.price.max.decimal_multiplier));
    let r = match i.r { Some(d) => unit(d.value, d.decimal_multiplier), None => (&pmin + &pmax) / BigUint::from(2u8) };
    let dev = &r * BigUint::from(i.factor) / BigUint::from(UNIT);
    let hi = &r + &dev;
    let lo = if r >= dev { Some(&r - &dev) } else { None };
    let within = |x: &BigUint| -> bool { *x <= hi && lo.as_ref().map(|l| x >= l).unwrap_or(true) && (if x > &r { x - &r } else { &r - x }) <= dev };
    let f: Vec<&str> = resp.split(' ').collect();
    match (t[1], f[0]) {
        ("adjust", "none") => Ok(false),
        ("adjust", "ok") => {
            let (qminv, qminm, qmaxv, qmaxm): (u32, u8, u32, u8) = (f[1].parse().unwrap(), f[2].parse().unwrap(), f[3].parse().unwrap(), f[4].parse().unwrap());
            if qminm != i.price.min.decimal_multiplier || qmaxm != i.price.max.decimal_multiplier { return Err("adjustment changed a decimal multiplier".into()); }
            let (qmin, qmax) = (unit(qminv, qminm), unit(qmaxv, qmaxm));
            let step_max = BigUint::from(10u8).pow(qmaxm as u32);
            let step_min = BigUint::from(10u8).pow(qminm as u32);
            // one-sided band on each bound (an adjusted bound may coincide with the old value)
            if qmax > hi { return Err(format!("max {qmax} above ref+dev {hi} after adjustment")); }
            if let Some(l) = &lo { if qmin < *l { return Err(format!("min {qmin} below ref-dev {l} after adjustment")); } }
            if qmaxv != i.price.max.value && &qmax + &step_max <= hi { return Err("adjusted max is not the floor at the decimal precision".into()); }
            if qminv != i.price.min.value {
                let lo = lo.clone().ok_or("min adjusted although ref < dev")?;
                if qmin >= &lo + &step_min { return Err("adjusted min is not the ceiling at the decimal precision".into()); }
            }
            let _ = &within;
            Ok(true)
        }
        ("accept", "err") => Ok(false),
        ("accept", "ok") => {
            let adjusted = f[1] == "1";
            let (minv, maxv, m): (u32, u32, u8) = (f[2].parse().unwrap(), f[3].parse().unwrap(), f[4].parse().unwrap());
            if minv == 0 || minv > maxv { return Err("accepted a zero or inverted price".into()); }
            if adjusted {
                let (qmin, qmax) = (unit(minv, m), unit(maxv, m));
                if qmax > hi || lo.map(|l| qmin < l).unwrap_or(false) { return Err(format!("accepted adjusted price [{qmin},{qmax}] outside ref±dev")); }
            }
            Ok(adjusted)
        }
        _ => Err(format!("unexpected response {resp}")),
    }
}

fn gen_req(r: &mut Rng) -> String {
    let m = r.below(13) as u8;
    let m2 = if r.chance(1, 12) { r.below(21) as u8 } else { m };
    let base: u32 = match r.below(6) { 0 => r.range(1, 50) as u32, 1 => u32::MAX - r.below(1000) as u32, 2 => r.num(32) as u32, _ => r.range(1000, 5_000_000) as u32 };
    let factor: u128 = match r.below(8) { 0 => 0, 1 => 1_000_000_000_000, 2 => UNIT, 3 => r.num(128), 4 => UNIT / 10_000 * r.range(1, 30) as u128, _ => UNIT / 1000 * r.range(1, 50) as u128 };
    let dev = ((base as u128).saturating_mul(factor) / UNIT).min(1_000_000_000_000) as u64;
    let off = |r: &mut Rng| -> i64 { match r.below(6) { 0 => 0, 1 => dev as i64, 2 => dev as i64 + 1, 3 => -(dev as i64) - 1, 4 => r.range(0, 3 * dev + 5) as i64, _ => -(r.range(0, 3 * dev + 5) as i64) } };
    let clampu = |x: i64| -> u32 { x.clamp(0, u32::MAX as i64) as u32 };
    let maxv = clampu(base as i64 + off(r));
    let minv = if r.chance(1, 15) { 0 } else { clampu(base as i64 + off(r)).min(if r.chance(9, 10) { maxv } else { u32::MAX }) };
    let (rf, rv, rm) = if r.chance(1, 2) { (1, if r.chance(1, 20) { r.num(32) as u32 } else { base }, if r.chance(1, 10) { r.below(21) as u8 } else { m }) } else { (0, 0, 0) };
    format!("orc {} {factor} {minv} {m} {maxv} {m2} {rf} {rv} {rm}", if r.chance(1, 2) { "adjust" } else { "accept" })
}

fn main() {
    h_store::install_stubs();
    let cli = cli();
    let mut out = Out::new();
    if std::env::var("H_DEBUG").is_err() { std::panic::set_hook(Box::new(|_| {})); }
    let reqs: Vec<String> = if cli.mode == "replay" { read_requests(cli.file.as_deref().unwrap()) } else {
        let mut r = Rng::new(cli.seed);
        (0..cli.n).map(|_| gen_req(&mut r)).collect()
    };
    for req in reqs {
        let resp = exec(&req);
        out.stat(&format!("op.{}", req.split(' ').nth(1).unwrap_or("?")));
        out.stat(&format!("resp.{}", resp.split(' ').take(if resp.starts_with("err") { 2 } else { 1 }).collect::<Vec<_>>().join("_")));
        if resp == "bad-op" { out.case(&req, &resp); continue; }
        let nt = match oracle(&req, &resp) {
            Ok(nt) => { out.stat("oracle.checked"); nt }
            Err(what) => { out.oracle_fail(&what, &req); false }
        };
        out.case_nt(&req, &resp, nt);
    }
    out.finish();
}
