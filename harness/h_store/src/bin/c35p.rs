//! C35 (program side): the store/timelock wrappers around the fixed-str helpers, natively —
//! `Store::init`/`key` (32), `Market::init`/`name` (64), `RoleMetadata::new`/`name` (32), timelock
//! `Executor::try_init`/`role_name` (32, through the existing C36 hook wrapper), token-config name
//! read side (32) — and the role scenario on a real `Store`: enable → grant → has → disable → …
use bytemuck::Zeroable;
use gmsol_store::states::roles::RoleMetadata;
use gmsol_store::states::{Market, Store};
use gmsol_timelock::states::Executor;
use hcommon::*;

fn unhex(s: &str) -> Option<Vec<u8>> {
    if s == "_" { return Some(vec![]); }
    if s.is_empty() || s.chars().any(|c| !matches!(c, '0'..='9' | 'a'..='f')) { return None; }
    hex::decode(s).ok()
}
fn tohex(b: &[u8]) -> String { if b.is_empty() { "_".into() } else { hex::encode(b) } }

fn etag(e: &anchor_lang::error::Error) -> String {
    match e {
        anchor_lang::error::Error::AnchorError(a) => a.error_name.clone(),
        anchor_lang::error::Error::ProgramError(p) => format!("Program({})", p.program_error),
    }
}
fn show(r: anchor_lang::Result<Vec<u8>>) -> String { match r { Ok(b) => format!("ok {}", tohex(&b)), Err(e) => format!("err {}", etag(&e)) } }
fn rtag<T>(r: &anchor_lang::Result<T>) -> String { match r { Ok(_) => "ok".into(), Err(e) => etag(e) } }
fn btag(r: &anchor_lang::Result<bool>) -> String { match r { Ok(true) => "1".into(), Ok(false) => "0".into(), Err(e) => etag(e) } }

fn wrapped(kind: &str, l: usize, name: &str) -> Option<String> {
    Some(match (kind, l) {
        ("w.store", 32) => {
            let mut s: Box<Store> = Box::new(Store::zeroed());
            show(s.init(h_store::pk(1), name, 255, h_store::pk(2), h_store::pk(3)).and_then(|_| s.key().map(|k| k.as_bytes().to_vec())))
        }
        ("w.market", 64) => {
            let mut m: Box<Market> = Box::new(Market::default());
            show(m.init(255, h_store::pk(1), name, h_store::pk(4), h_store::pk(5), h_store::pk(6), h_store::pk(7), true).and_then(|_| m.name().map(|k| k.as_bytes().to_vec())))
        }
        ("w.role", 32) => show(RoleMetadata::new(name, 3).and_then(|m| m.name().map(|k| k.as_bytes().to_vec()))),
        ("w.executor", 32) => {
            let mut e: Box<Executor> = Box::new(Executor::zeroed());
            show(gmsol_timelock::verif::c36::executor_try_init(&mut e, 255, 254, h_store::pk(1), name).and_then(|_| e.role_name().map(|k| k.as_bytes().to_vec())))
        }
        ("w.token", 32) => {
            // write side of the token config is `TokenConfigExt::update` (pub(crate)); it calls the same store
            // wrapper, which is driven here directly, then the stored name is read with `TokenConfig::name()`
            match gmsol_store::utils::fixed_str::fixed_str_to_bytes::<32>(name) {
                Ok(b) => { let mut c: gmsol_utils::token_config::TokenConfig = Zeroable::zeroed(); c.name = b;
                    match c.name() { Ok(s) => format!("ok {}", tohex(s.as_bytes())), Err(_) => "err InvalidArgument".into() } }
                Err(e) => format!("err {}", etag(&e)),
            }
        }
        _ => return None,
    })
}

/// enable → has(stranger) → grant → has → disable → has → enable → has → revoke → has on a fresh real Store
fn role_scenario(name: &str) -> String {
    let mut s: Box<Store> = Box::new(Store::zeroed());
    let a = h_store::pk(77);
    let mut out = Vec::new();
    out.push(rtag(&s.enable_role(name)));
    out.push(btag(&s.role().has_role(&a, name)));
    out.push(rtag(&s.grant(&a, name)));
    out.push(btag(&s.role().has_role(&a, name)));
    out.push(rtag(&s.disable_role(name)));
    out.push(btag(&s.role().has_role(&a, name)));
    out.push(rtag(&s.enable_role(name)));
    out.push(btag(&s.role().has_role(&a, name)));
    out.push(rtag(&s.revoke(&a, name)));
    out.push(btag(&s.role().has_role(&a, name)));
    out.join(" ")
}

/// successive name UPDATES on ONE token config through the real `TokenConfigExt::update` (hook `verif::c35`): first call `init = true`,
/// later ones `init = false`. A failing call is rolled back (the transaction aborts), so it is applied to a copy first.
fn tc_updates(names: &[String]) -> String {
    use gmsol_utils::token_config::{TokenConfig, UpdateTokenConfigParams};
    let mut cfg: TokenConfig = Zeroable::zeroed();
    let mut inited = false;
    let mut out = Vec::new();
    for n in names {
        let mut copy = cfg;
        let r = gmsol_store::verif::c35::token_config_update(&mut copy, n, false, 6, UpdateTokenConfigParams::default(), true, !inited);
        let tag = match &r { Ok(()) => { cfg = copy; inited = true; "ok".to_string() } Err(e) => etag(e) };
        let back = match cfg.name() { Ok(s) => tohex(s.as_bytes()), Err(_) => "unreadable".into() };
        out.push(format!("{tag}:{back}"));
    }
    out.join(" ")
}

fn exec_inner(t: &[&str]) -> Option<String> {
    if t.len() < 3 || t[0] != "fstr" { return None; }
    if t[1] == "tcupd" && t.len() == 3 {
        let names: Option<Vec<String>> = t[2].split(',').map(|h| unhex(h).and_then(|b| String::from_utf8(b).ok())).collect();
        return Some(tc_updates(&names?));
    }
    if t[1] == "rolescn" && t.len() == 3 {
        let b = unhex(t[2])?; let name = std::str::from_utf8(&b).ok()?;
        return Some(role_scenario(name));
    }
    if t.len() == 4 && t[1].starts_with("w.") {
        let l: usize = t[2].parse().ok()?; let b = unhex(t[3])?; let name = std::str::from_utf8(&b).ok()?;
        return wrapped(t[1], l, name);
    }
    None
}
/// run `f` with fd 1 pointing at /dev/null: natively `msg!` prints to stdout, which must not mix with the protocol lines
fn quiet<T>(f: impl FnOnce() -> T) -> T {
    use std::io::Write;
    std::io::stdout().flush().ok();
    unsafe {
        let saved = libc::dup(1);
        let null = libc::open(b"/dev/null\0".as_ptr() as *const libc::c_char, libc::O_WRONLY);
        libc::dup2(null, 1);
        libc::close(null);
        let r = f();
        std::io::stdout().flush().ok();
        libc::dup2(saved, 1);
        libc::close(saved);
        r
    }
}

fn exec(req: &str) -> String {
    let t: Vec<&str> = req.split(' ').collect();
    match quiet(|| std::panic::catch_unwind(|| exec_inner(&t))) { Ok(Some(s)) => s, Ok(None) => "bad-op".into(), Err(_) => "panic".into() }
}

/// property, independent of the model: accepted ⇒ read back unchanged; an accepted role is usable
fn oracle(req: &str, resp: &str) -> Result<Option<&'static str>, String> {
    if resp == "panic" { return Err("panicked".into()); }
    let t: Vec<&str> = req.split(' ').collect();
    if t[1] == "tcupd" {
        // after EVERY step: the name read back is exactly the last accepted name of the history (independent of the model)
        let names: Vec<Vec<u8>> = t[2].split(',').map(|h| unhex(h).unwrap()).collect();
        let steps: Vec<&str> = resp.split(' ').collect();
        if steps.len() != names.len() { return Err("scenario truncated".into()); }
        let mut last: Vec<u8> = vec![];
        for (i, (st, n)) in steps.iter().zip(&names).enumerate() {
            let (tag, back) = st.split_once(':').ok_or("malformed step")?;
            let acceptable = n.len() <= 32 && !n.contains(&0);
            if tag == "ok" { if !acceptable { return Err(format!("step {i}: unreadable name accepted")); } last = n.clone(); }
            else if acceptable { return Err(format!("step {i}: readable name rejected ({tag})")); }
            if back != tohex(&last) { return Err(format!("step {i}: after updating to {} the name reads back as {back} (last accepted name is {})", tohex(n), tohex(&last))); }
        }
        return Ok(Some("tcupd"));
    }
    if t[1] == "rolescn" {
        let f: Vec<&str> = resp.split(' ').collect();
        if f.len() != 10 { return Err("scenario truncated".into()); }
        if f[0] != "ok" { return if f[2] == "ok" { Err("rejected role could be granted".into()) } else { Ok(Some("role.rejected")) }; }
        // accepted at creation ⇒ can be granted, is seen, can be disabled, re-enabled and revoked
        if f[2] != "ok" { return Err(format!("accepted role cannot be granted ({})", f[2])); }
        if f[3] != "1" { return Err(format!("granted role not seen by has_role ({})", f[3])); }
        if f[4] != "ok" { return Err(format!("accepted role cannot be disabled ({})", f[4])); }
        if f[6] != "ok" || f[7] != "1" { return Err("accepted role cannot be re-enabled".into()); }
        if f[8] != "ok" { return Err(format!("accepted role cannot be revoked ({})", f[8])); }
        return Ok(Some(if unhex(t[2]).unwrap().len() == 32 { "role.usable.full-length" } else { "role.usable" }));
    }
    let name = unhex(t[3]).unwrap();
    match resp.strip_prefix("ok ") {
        Some(h) => if unhex(h).unwrap() == name { Ok(Some(if name.len() == t[2].parse::<usize>().unwrap() { "wrapped.ok.full" } else { "wrapped.ok" })) } else { Err(format!("accepted name read back as {h}")) },
        None => { let l: usize = t[2].parse().unwrap(); if name.len() <= l && !name.contains(&0) { Err(format!("readable name rejected or unreadable after acceptance ({resp})")) } else { Ok(Some("wrapped.rejected")) } }
    }
}

const CHARS: [&str; 10] = ["A", "z", "_", "7", "é", "€", "中", "😀", "\u{7ff}", "\u{10ffff}"];
fn name_of_len(r: &mut Rng, len: usize) -> Vec<u8> {
    let mut s: Vec<u8> = Vec::new();
    while s.len() < len {
        let c = if r.chance(3, 4) { CHARS[r.below(4) as usize] } else { *r.pick(&CHARS) };
        if s.len() + c.len() <= len { s.extend_from_slice(c.as_bytes()); } else { s.push(b'x'); }
    }
    s
}

fn gen_req(r: &mut Rng) -> String {
    if r.chance(1, 4) {
        // a history of name updates on one token config: decreasing, increasing and mixed lengths, some rejected names
        let k = r.range(2, 6) as usize;
        let mode = r.below(3);
        let mut len = match mode { 0 => 32usize, 1 => r.below(4) as usize, _ => r.below(33) as usize };
        let mut names = Vec::new();
        for _ in 0..k {
            let mut n = name_of_len(r, len);
            if r.chance(1, 10) && !n.is_empty() { let i = r.below(n.len() as u64) as usize; if n[i] < 0x80 { n[i] = 0; } }
            if r.chance(1, 12) { let l2 = 33 + r.below(8) as usize; n = name_of_len(r, l2); }
            names.push(tohex(&n));
            len = match mode { 0 => len.saturating_sub(r.range(1, 12) as usize), 1 => (len + r.range(1, 12) as usize).min(32), _ => r.below(33) as usize };
        }
        return format!("fstr tcupd {}", names.join(","));
    }
    let (kind, l) = *r.pick(&[("rolescn", 32usize), ("rolescn", 32), ("w.store", 32), ("w.market", 64), ("w.role", 32), ("w.executor", 32), ("w.token", 32)]);
    let len = match r.below(8) { 0 => 0, 1 | 2 => l, 3 => l - 1, 4 => l + 1, 5 => l + r.range(1, 40) as usize, _ => r.below(l as u64 + 1) as usize };
    let mut n = name_of_len(r, len);
    if r.chance(1, 6) && !n.is_empty() { let i = r.below(n.len() as u64) as usize; if n[i] < 0x80 { n[i] = 0; } }
    if kind == "rolescn" { format!("fstr rolescn {}", tohex(&n)) } else { format!("fstr {kind} {l} {}", tohex(&n)) }
}

fn main() {
    let cli = cli();
    let mut out = Out::new();
    std::panic::set_hook(Box::new(|_| {}));
    h_store::install_stubs();
    let reqs: Vec<String> = if cli.mode == "replay" { read_requests(cli.file.as_deref().unwrap()) } else {
        let mut r = Rng::new(cli.seed);
        (0..cli.n).map(|_| gen_req(&mut r)).collect()
    };
    for req in reqs {
        let resp = exec(&req);
        out.stat(&format!("op.{}", req.split(' ').nth(1).unwrap_or("?")));
        if resp != "bad-op" {
            match std::panic::catch_unwind(|| oracle(&req, &resp)) {
                Ok(Ok(Some(tag))) => { out.stat("oracle.checked"); out.stat(&format!("class.{tag}")); }
                Ok(Ok(None)) => out.stat("oracle.none"),
                Ok(Err(what)) => out.oracle_fail(&what, &req),
                Err(_) => out.oracle_fail("oracle panicked", &req),
            }
        } else { out.stat("resp.bad-op"); }
        let nt = resp.starts_with("ok ") && resp != "ok _";
        out.case_nt(&req, &resp, nt);
    }
    out.finish();
}
