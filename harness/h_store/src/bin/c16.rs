//! C16 correspondence + oracle. Natively drives the REAL accessors:
//!   * `Market::get_config_mut(&str)` / `get_config(&str)` for every key pair,
//!   * every gmsol-model parameter accessor implemented for `Market` (parameter structs are read
//!     through their `Debug` image, so private builder fields are observed too),
//!   * `set_config_flag` / `get_config_flag`, `Market::set_flag(Closed)`,
//!   * `Store::get_{amount,factor,address}(_mut)`.
//! Every key k holds the sentinel `BASE + discriminant(k)`, so a value identifies the key it came from.
//! The Lean driver answers the same requests from the tables generated out of the Rust source.
//!
//! Oracle (the PROPERTY, with its own reviewed expectation table, independent of Lean): a write through a
//! key is read back through that key, through no other key, and through the model parameter the key
//! names — long settings on the long side, short on the short side, closed-market settings iff the
//! market is closed and the switch is enabled.
use anchor_lang::prelude::Pubkey;
use gmsol_model::{BaseMarket, BorrowingFeeMarket, PerpMarket, PnlFactorKind, PositionImpactMarket, SwapMarket};
use gmsol_store::states::{Market, Store};
use gmsol_utils::config::{AddressKey, AmountKey, FactorKey};
use gmsol_utils::market::{MarketConfigFlag, MarketConfigKey, MarketFlag};
use hcommon::*;
use std::collections::BTreeMap;
use strum::IntoEnumIterator;

const BASE: u128 = 1_000_000;

fn kidx(k: MarketConfigKey) -> u128 { u16::from(k) as u128 }

fn build_market(closed: bool, mask: u64) -> Result<Box<Market>, String> { build_market_p(false, closed, mask) }

/// `pure`: a single-token market (`MarketFlag::Pure`): the long and the short settings are STILL separate keys
fn build_market_p(pure: bool, closed: bool, mask: u64) -> Result<Box<Market>, String> {
    let mut m = Box::<Market>::default();
    m.set_flag(MarketFlag::Pure, pure);
    for k in MarketConfigKey::iter() {
        match m.get_config_mut(&k.to_string()) { Ok(p) => *p = BASE + kidx(k), Err(_) => {} }
    }
    for f in MarketConfigFlag::iter() {
        let bit = u8::from(f) as u64;
        m.set_config_flag(&f.to_string(), (mask >> bit) & 1 == 1).map_err(|_| "noflag".to_string())?;
    }
    m.set_flag(MarketFlag::Closed, closed);
    Ok(m)
}

/// flatten a `Debug` image `T { a: 1, b: U { c: Some(2) } }` into path → value
fn debug_fields(s: &str) -> BTreeMap<String, String> {
    fn skip_ws(b: &[u8], i: &mut usize) { while *i < b.len() && (b[*i] == b' ' || b[*i] == b'\n' || b[*i] == b',') { *i += 1; } }
    fn ident(b: &[u8], i: &mut usize) -> String { let st = *i; while *i < b.len() && (b[*i].is_ascii_alphanumeric() || b[*i] == b'_') { *i += 1; } String::from_utf8_lossy(&b[st..*i]).into() }
    fn value(b: &[u8], i: &mut usize, prefix: &str, out: &mut BTreeMap<String, String>) {
        skip_ws(b, i);
        let st = *i;
        let name = ident(b, i);
        let end = *i;
        skip_ws(b, i);
        if *i < b.len() && b[*i] == b'{' {
            *i += 1;
            loop {
                skip_ws(b, i);
                if *i >= b.len() || b[*i] == b'}' { *i += 1; break; }
                let f = ident(b, i);
                skip_ws(b, i);
                if *i < b.len() && b[*i] == b':' { *i += 1; }
                let p = if prefix.is_empty() { f } else { format!("{prefix}.{f}") };
                value(b, i, &p, out);
            }
        } else if *i < b.len() && b[*i] == b'(' {
            let mut depth = 0;
            while *i < b.len() { if b[*i] == b'(' { depth += 1; } if b[*i] == b')' { depth -= 1; if depth == 0 { *i += 1; break; } } *i += 1; }
            out.insert(prefix.to_string(), String::from_utf8_lossy(&b[st..*i]).into());
        } else {
            let _ = name;
            *i = end;
            out.insert(prefix.to_string(), String::from_utf8_lossy(&b[st..end]).into());
        }
    }
    let mut out = BTreeMap::new();
    let b = s.as_bytes();
    let mut i = 0;
    value(b, &mut i, "", &mut out);
    out
}

fn canon(v: &str) -> String {
    if v == "None" { return "none".into(); }
    if v == "true" { return "ok b1".into(); }
    if v == "false" { return "ok b0".into(); }
    if let Some(x) = v.strip_prefix("Some(").and_then(|x| x.strip_suffix(')')) { return format!("ok {x}"); }
    format!("ok {v}")
}

const PNL: &[(&str, PnlFactorKind)] = &[
    ("MaxAfterDeposit", PnlFactorKind::MaxAfterDeposit), ("MaxAfterWithdrawal", PnlFactorKind::MaxAfterWithdrawal),
    ("MaxForTrader", PnlFactorKind::MaxForTrader), ("ForAdl", PnlFactorKind::ForAdl), ("MinAfterAdl", PnlFactorKind::MinAfterAdl),
];
const STRUCT_METHODS: &[&str] = &["swap_impact_params", "swap_fee_params", "position_impact_params",
    "position_impact_distribution_params", "borrowing_fee_params", "borrowing_fee_kink_model_params", "funding_fee_params",
    "position_params", "order_fee_params", "liquidation_fee_params"];
const SIDE_METHODS: &[&str] = &["max_pool_amount", "max_open_interest", "min_collateral_factor_for_open_interest_multiplier", "max_pool_value_for_deposit"];
const PLAIN_METHODS: &[&str] = &["reserve_factor", "open_interest_reserve_factor", "ignore_open_interest_for_usage_factor"];

fn struct_debug(m: &Market, method: &str) -> Option<String> {
    Some(match method {
        "swap_impact_params" => format!("{:?}", m.swap_impact_params().ok()?),
        "swap_fee_params" => format!("{:?}", m.swap_fee_params().ok()?),
        "position_impact_params" => format!("{:?}", m.position_impact_params().ok()?),
        "position_impact_distribution_params" => format!("{:?}", m.position_impact_distribution_params().ok()?),
        "borrowing_fee_params" => format!("{:?}", m.borrowing_fee_params().ok()?),
        "borrowing_fee_kink_model_params" => format!("{:?}", m.borrowing_fee_kink_model_params().ok()?),
        "funding_fee_params" => format!("{:?}", m.funding_fee_params().ok()?),
        "position_params" => format!("{:?}", m.position_params().ok()?),
        "order_fee_params" => format!("{:?}", m.order_fee_params().ok()?),
        "liquidation_fee_params" => format!("{:?}", m.liquidation_fee_params().ok()?),
        _ => return None,
    })
}

/// read one model parameter of the real `Market`
fn read_param(m: &Market, method: &str, variant: &str, side: Option<bool>, param: &str) -> String {
    if STRUCT_METHODS.contains(&method) {
        if variant != "-" || side.is_some() { return "norow".into(); }
        let Some(d) = struct_debug(m, method) else { return "err".into() };
        return match debug_fields(&d).get(param) { Some(v) => canon(v), None => "norow".into() };
    }
    if param != "-" { return "norow".into(); }
    let r: Option<String> = match (method, variant, side) {
        ("max_pool_amount", "-", Some(s)) => m.max_pool_amount(s).ok().map(|v| v.to_string()),
        ("max_open_interest", "-", Some(s)) => m.max_open_interest(s).ok().map(|v| v.to_string()),
        ("min_collateral_factor_for_open_interest_multiplier", "-", Some(s)) => m.min_collateral_factor_for_open_interest_multiplier(s).ok().map(|v| v.to_string()),
        ("max_pool_value_for_deposit", "-", Some(s)) => m.max_pool_value_for_deposit(s).ok().map(|v| v.to_string()),
        ("reserve_factor", "-", None) => m.reserve_factor().ok().map(|v| v.to_string()),
        ("open_interest_reserve_factor", "-", None) => m.open_interest_reserve_factor().ok().map(|v| v.to_string()),
        ("ignore_open_interest_for_usage_factor", "-", None) => m.ignore_open_interest_for_usage_factor().ok().map(|v| v.to_string()),
        ("pnl_factor_config", v, Some(s)) => match PNL.iter().find(|(n, _)| *n == v) {
            Some((_, k)) => m.pnl_factor_config(*k, s).ok().map(|v| v.to_string()),
            None => return "norow".into(),
        },
        _ => return "norow".into(),
    };
    match r { Some(v) => canon(&v), None => "err".into() }
}

/// all (method, variant, side, param) rows the real code exposes (discovered from the Debug images)
fn all_rows() -> Vec<(String, String, Option<bool>, String)> {
    let m = build_market(false, 0).unwrap();
    let mut v = Vec::new();
    for me in STRUCT_METHODS {
        let d = struct_debug(&m, me).unwrap();
        for (p, _) in debug_fields(&d) {
            if p == "discount_factor" { continue; } // builder default (None); only the SDK's order fee sets it
            v.push((me.to_string(), "-".to_string(), None, p));
        }
    }
    for me in SIDE_METHODS { for s in [true, false] { v.push((me.to_string(), "-".into(), Some(s), "-".into())); } }
    for me in PLAIN_METHODS { v.push((me.to_string(), "-".into(), None, "-".into())); }
    for (n, _) in PNL { for s in [true, false] { v.push(("pnl_factor_config".into(), n.to_string(), Some(s), "-".into())); } }
    v
}

fn pk(v: u128) -> Pubkey { let mut b = [0u8; 32]; b[..16].copy_from_slice(&v.to_le_bytes()); Pubkey::new_from_array(b) }
fn unpk(p: &Pubkey) -> u128 { u128::from_le_bytes(p.to_bytes()[..16].try_into().unwrap()) }

fn build_store() -> Box<Store> {
    let mut s: Box<Store> = Box::new(bytemuck::Zeroable::zeroed());
    for (i, k) in AmountKey::iter().enumerate() { if let Ok(p) = s.get_amount_mut(&k.to_string()) { *p = (BASE as u64) + i as u64; } }
    for (i, k) in FactorKey::iter().enumerate() { if let Ok(p) = s.get_factor_mut(&k.to_string()) { *p = BASE + i as u128; } }
    for (i, k) in AddressKey::iter().enumerate() { if let Ok(p) = s.get_address_mut(&k.to_string()) { *p = pk(BASE + i as u128); } }
    s
}

fn exec_inner(t: &[&str]) -> Option<String> {
    Some(match t {
        ["c16", "rw", wk, v, rk] => {
            let v: u128 = v.parse().ok()?;
            if wk.parse::<MarketConfigKey>().is_err() || rk.parse::<MarketConfigKey>().is_err() { return Some("nokey".into()); }
            let mut m = build_market(false, 0).ok()?;
            match m.get_config_mut(wk) { Ok(p) => *p = v, Err(_) => return Some("unimplemented".into()) }
            match m.get_config(rk) { Ok(x) => format!("ok {x}"), Err(_) => "unimplemented".into() }
        }
        ["c16", "param", closed, mask, wk, v, method, variant, side, param] => {
            let closed = *closed == "1";
            let mask: u64 = mask.parse().ok()?;
            let v: u128 = v.parse().ok()?;
            let side = match *side { "-" => None, "1" => Some(true), "0" => Some(false), _ => return None };
            let mut m = build_market(closed, mask).ok()?;
            if *wk != "-" {
                match m.get_config_mut(wk) { Ok(p) => *p = v, Err(_) => return Some("nokey".into()) }
            }
            read_param(&m, method, variant, side, param)
        }
        ["c16", "pparam", pure, closed, mask, wk, v, method, variant, side, param] => {
            let v: u128 = v.parse().ok()?;
            let side = match *side { "-" => None, "1" => Some(true), "0" => Some(false), _ => return None };
            let mut m = build_market_p(*pure == "1", *closed == "1", mask.parse().ok()?).ok()?;
            if *wk != "-" { match m.get_config_mut(wk) { Ok(p) => *p = v, Err(_) => return Some("nokey".into()) } }
            read_param(&m, method, variant, side, param)
        }
        ["c16", "flagrw", mask, wf, b, rf] => {
            let mask: u64 = mask.parse().ok()?;
            let mut m = build_market(false, mask).ok()?;
            if m.set_config_flag(wf, *b == "1").is_err() { return Some("noflag".into()); }
            match m.get_config_flag(rf) { Ok(x) => format!("ok {}", x as u8), Err(_) => "noflag".into() }
        }
        ["c16", "store", "amount", wk, v, rk] => {
            let v: u64 = v.parse().ok()?;
            if wk.parse::<AmountKey>().is_err() || rk.parse::<AmountKey>().is_err() { return Some("nokey".into()); }
            let mut s = build_store();
            match s.get_amount_mut(wk) { Ok(p) => *p = v, Err(_) => return Some("refused".into()) }
            match s.get_amount(rk) { Ok(x) => format!("ok {x}"), Err(_) => "unimplemented".into() }
        }
        ["c16", "store", "factor", wk, v, rk] => {
            let v: u128 = v.parse().ok()?;
            if wk.parse::<FactorKey>().is_err() || rk.parse::<FactorKey>().is_err() { return Some("nokey".into()); }
            let mut s = build_store();
            match s.get_factor_mut(wk) { Ok(p) => *p = v, Err(_) => return Some("refused".into()) }
            match s.get_factor(rk) { Ok(x) => format!("ok {x}"), Err(_) => "unimplemented".into() }
        }
        ["c16", "store", "address", wk, v, rk] => {
            let v: u128 = v.parse().ok()?;
            if wk.parse::<AddressKey>().is_err() || rk.parse::<AddressKey>().is_err() { return Some("nokey".into()); }
            let mut s = build_store();
            match s.get_address_mut(wk) { Ok(p) => *p = pk(v), Err(_) => return Some("refused".into()) }
            match s.get_address(rk) { Ok(x) => format!("ok {}", unpk(x)), Err(_) => "unimplemented".into() }
        }
        ["c16", "nrows"] => format!("ok {} {} {} {} {} {}", all_rows().len(), MarketConfigKey::iter().count(),
            MarketConfigFlag::iter().count(), AmountKey::iter().count(), FactorKey::iter().count(), AddressKey::iter().count()),
        _ => return None,
    })
}

fn exec(req: &str) -> String {
    let t: Vec<&str> = req.split(' ').collect();
    match std::panic::catch_unwind(|| exec_inner(&t)) { Ok(Some(s)) => s, Ok(None) => "bad-op".into(), Err(_) => "panic".into() }
}

// ---------------------------------------------------------------------------------------------
// The property's own expectation: which setting each model parameter names.
// K(key)            — always that key
// C(closed, open)   — `closed` key iff market closed AND enable_market_closed_params, else `open`
// F(flag) / CF(closed_flag, open_flag) — same for flags;   O(..) — value 0 reads as `None`
enum E { K(&'static str), C(&'static str, &'static str), F(&'static str), CF(&'static str, &'static str), OC(&'static str, &'static str) }
use E::*;

fn expectation(method: &str, variant: &str, side: Option<bool>, param: &str) -> Option<E> {
    let ls = |l: &'static str, s: &'static str| -> Option<E> { side.map(|b| K(if b { l } else { s })) };
    Some(match (method, variant, param) {
        ("max_pool_amount", "-", "-") => ls("max_pool_amount_for_long_token", "max_pool_amount_for_short_token")?,
        ("max_open_interest", "-", "-") => ls("max_open_interest_for_long", "max_open_interest_for_short")?,
        ("min_collateral_factor_for_open_interest_multiplier", "-", "-") => ls("min_collateral_factor_for_open_interest_multiplier_for_long", "min_collateral_factor_for_open_interest_multiplier_for_short")?,
        ("max_pool_value_for_deposit", "-", "-") => ls("max_pool_value_for_deposit_for_long_token", "max_pool_value_for_deposit_for_short_token")?,
        ("pnl_factor_config", "MaxAfterDeposit", "-") => ls("max_pnl_factor_for_long_deposit", "max_pnl_factor_for_short_deposit")?,
        ("pnl_factor_config", "MaxAfterWithdrawal", "-") => ls("max_pnl_factor_for_long_withdrawal", "max_pnl_factor_for_short_withdrawal")?,
        ("pnl_factor_config", "MaxForTrader", "-") => ls("max_pnl_factor_for_long_trader", "max_pnl_factor_for_short_trader")?,
        ("pnl_factor_config", "ForAdl", "-") => ls("max_pnl_factor_for_long_adl", "max_pnl_factor_for_short_adl")?,
        ("pnl_factor_config", "MinAfterAdl", "-") => ls("min_pnl_factor_after_long_adl", "min_pnl_factor_after_short_adl")?,
        ("reserve_factor", "-", "-") => K("reserve_factor"),
        ("open_interest_reserve_factor", "-", "-") => K("open_interest_reserve_factor"),
        ("ignore_open_interest_for_usage_factor", "-", "-") => F("ignore_open_interest_for_usage_factor"),
        ("swap_impact_params", "-", "exponent") => K("swap_impact_exponent"),
        ("swap_impact_params", "-", "positive_factor") => K("swap_impact_positive_factor"),
        ("swap_impact_params", "-", "negative_factor") => K("swap_impact_negative_factor"),
        ("swap_fee_params", "-", "fee_receiver_factor") => K("swap_fee_receiver_factor"),
        ("swap_fee_params", "-", "positive_impact_fee_factor") => K("swap_fee_factor_for_positive_impact"),
        ("swap_fee_params", "-", "negative_impact_fee_factor") => K("swap_fee_factor_for_negative_impact"),
        ("position_impact_params", "-", "exponent") => K("position_impact_exponent"),
        ("position_impact_params", "-", "positive_factor") => K("position_impact_positive_factor"),
        ("position_impact_params", "-", "negative_factor") => K("position_impact_negative_factor"),
        ("position_impact_distribution_params", "-", "distribute_factor") => K("position_impact_distribute_factor"),
        ("position_impact_distribution_params", "-", "min_position_impact_pool_amount") => K("min_position_impact_pool_amount"),
        ("borrowing_fee_params", "-", "receiver_factor") => K("borrowing_fee_receiver_factor"),
        ("borrowing_fee_params", "-", "factor_for_long") => K("borrowing_fee_factor_for_long"),
        ("borrowing_fee_params", "-", "factor_for_short") => K("borrowing_fee_factor_for_short"),
        ("borrowing_fee_params", "-", "exponent_for_long") => K("borrowing_fee_exponent_for_long"),
        ("borrowing_fee_params", "-", "exponent_for_short") => K("borrowing_fee_exponent_for_short"),
        ("borrowing_fee_params", "-", "skip_borrowing_fee_for_smaller_side") => CF("market_closed_skip_borrowing_fee_for_smaller_side", "skip_borrowing_fee_for_smaller_side"),
        ("borrowing_fee_kink_model_params", "-", "long.optimal_usage_factor") => K("borrowing_fee_optimal_usage_factor_for_long"),
        ("borrowing_fee_kink_model_params", "-", "short.optimal_usage_factor") => K("borrowing_fee_optimal_usage_factor_for_short"),
        ("borrowing_fee_kink_model_params", "-", "long.base_borrowing_factor") => C("market_closed_borrowing_fee_base_factor", "borrowing_fee_base_factor_for_long"),
        ("borrowing_fee_kink_model_params", "-", "short.base_borrowing_factor") => C("market_closed_borrowing_fee_base_factor", "borrowing_fee_base_factor_for_short"),
        ("borrowing_fee_kink_model_params", "-", "long.above_optimal_usage_borrowing_factor") => C("market_closed_borrowing_fee_above_optimal_usage_factor", "borrowing_fee_above_optimal_usage_factor_for_long"),
        ("borrowing_fee_kink_model_params", "-", "short.above_optimal_usage_borrowing_factor") => C("market_closed_borrowing_fee_above_optimal_usage_factor", "borrowing_fee_above_optimal_usage_factor_for_short"),
        ("funding_fee_params", "-", "exponent") => K("funding_fee_exponent"),
        ("funding_fee_params", "-", "funding_factor") => K("funding_fee_factor"),
        ("funding_fee_params", "-", "max_factor_per_second") => K("funding_fee_max_factor_per_second"),
        ("funding_fee_params", "-", "min_factor_per_second") => K("funding_fee_min_factor_per_second"),
        ("funding_fee_params", "-", "increase_factor_per_second") => K("funding_fee_increase_factor_per_second"),
        ("funding_fee_params", "-", "decrease_factor_per_second") => K("funding_fee_decrease_factor_per_second"),
        ("funding_fee_params", "-", "threshold_for_stable_funding") => K("funding_fee_threshold_for_stable_funding"),
        ("funding_fee_params", "-", "threshold_for_decrease_funding") => K("funding_fee_threshold_for_decrease_funding"),
        ("position_params", "-", "min_position_size_usd") => K("min_position_size_usd"),
        ("position_params", "-", "min_collateral_value") => K("min_collateral_value"),
        ("position_params", "-", "min_collateral_factor") => K("min_collateral_factor"),
        ("position_params", "-", "max_positive_position_impact_factor") => K("max_positive_position_impact_factor"),
        ("position_params", "-", "max_negative_position_impact_factor") => K("max_negative_position_impact_factor"),
        ("position_params", "-", "max_position_impact_factor_for_liquidations") => K("max_position_impact_factor_for_liquidations"),
        ("position_params", "-", "min_collateral_factor_for_liquidation") => OC("market_closed_min_collateral_factor_for_liquidation", "min_collateral_factor_for_liquidation"),
        ("order_fee_params", "-", "fee_receiver_factor") => K("order_fee_receiver_factor"),
        ("order_fee_params", "-", "positive_impact_fee_factor") => K("order_fee_factor_for_positive_impact"),
        ("order_fee_params", "-", "negative_impact_fee_factor") => K("order_fee_factor_for_negative_impact"),
        ("liquidation_fee_params", "-", "factor") => K("liquidation_fee_factor"),
        ("liquidation_fee_params", "-", "receiver_factor") => K("liquidation_fee_receiver_factor"),
        _ => return None,
    })
}

fn key_value(key: &str, wk: &str, v: u128) -> Option<u128> {
    if key == wk { return Some(v); }
    key.parse::<MarketConfigKey>().ok().map(|k| BASE + kidx(k))
}
fn flag_value(flag: &str, mask: u64) -> Option<bool> {
    flag.parse::<MarketConfigFlag>().ok().map(|f| (mask >> (u8::from(f) as u64)) & 1 == 1)
}

fn oracle(req: &str, resp: &str) -> Option<Result<(), String>> {
    let t: Vec<&str> = req.split(' ').collect();
    if let ["c16", "pparam", pure, rest @ ..] = t.as_slice() {
        // a pure (single-token) market keeps separate long / short settings: the expectation is the same
        return oracle(&format!("c16 param {}", rest.join(" ")), resp).map(|r| r.map_err(|e| format!("[pure market = {pure}] {e}")));
    }
    match t.as_slice() {
        ["c16", "rw", wk, v, rk] => {
            let (Ok(_), Ok(r)) = (wk.parse::<MarketConfigKey>(), rk.parse::<MarketConfigKey>()) else { return None };
            let want = if wk == rk { v.to_string() } else { (BASE + kidx(r)).to_string() };
            Some(if resp == format!("ok {want}") { Ok(()) } else if wk == rk {
                Err(format!("wrote {v} through key {wk} but reading {rk} gives `{resp}`"))
            } else { Err(format!("writing key {wk} changed key {rk}: `{resp}`, expected ok {want}")) })
        }
        ["c16", "param", closed, mask, wk, v, method, variant, side, param] => {
            let side = match *side { "-" => None, "1" => Some(true), _ => Some(false) };
            let closed = *closed == "1";
            let mask: u64 = mask.parse().ok()?;
            let v: u128 = v.parse().ok()?;
            let use_closed = closed && flag_value("enable_market_closed_params", mask)?;
            let e = match expectation(method, variant, side, param) {
                Some(e) => e,
                None => return Some(Err(format!("model parameter {method}/{variant}/{side:?}/{param} has no documented setting"))),
            };
            let want = match e {
                K(k) => format!("ok {}", key_value(k, wk, v)?),
                C(c, o) => format!("ok {}", key_value(if use_closed { c } else { o }, wk, v)?),
                OC(c, o) => { let x = key_value(if use_closed { c } else { o }, wk, v)?; if x == 0 { "none".into() } else { format!("ok {x}") } }
                F(f) => format!("ok b{}", flag_value(f, mask)? as u8),
                CF(c, o) => format!("ok b{}", flag_value(if use_closed { c } else { o }, mask)? as u8),
            };
            Some(if resp == want { Ok(()) } else {
                Err(format!("model parameter {method}/{variant}/side={side:?}/{param} (closed={closed}, flags={mask:#b}, wrote {wk}={v}) reads `{resp}`, its own setting gives `{want}`"))
            })
        }
        ["c16", "flagrw", mask, wf, b, rf] => {
            let mask: u64 = mask.parse().ok()?;
            let want = if wf == rf { *b == "1" } else { flag_value(rf, mask)? };
            Some(if resp == format!("ok {}", want as u8) { Ok(()) } else { Err(format!("flag {rf} after setting {wf}={b} on {mask:#b}: `{resp}`")) })
        }
        ["c16", "store", group, wk, v, rk] => {
            let names: Vec<String> = match *group {
                "amount" => AmountKey::iter().map(|k| k.to_string()).collect(),
                "factor" => FactorKey::iter().map(|k| k.to_string()).collect(),
                _ => AddressKey::iter().map(|k| k.to_string()).collect(),
            };
            let (Some(_), Some(ri)) = (names.iter().position(|n| n == wk), names.iter().position(|n| n == rk)) else { return None };
            // documented exception: claimable_time_window cannot be written through the key interface
            if *group == "amount" && *wk == "claimable_time_window" {
                return Some(if resp == "refused" { Ok(()) } else { Err(format!("claimable_time_window is documented read-only but the write gave `{resp}`")) });
            }
            // the sentinel of claimable_time_window is never written (refused), it stays 0
            let sentinel = if *group == "amount" && *rk == "claimable_time_window" { 0 } else { BASE + ri as u128 };
            let want = if wk == rk { v.to_string() } else { sentinel.to_string() };
            Some(if resp == format!("ok {want}") { Ok(()) } else { Err(format!("store {group}: wrote {wk}={v}, read {rk} = `{resp}`, expected ok {want}")) })
        }
        _ => None,
    }
}

fn main() {
    h_store::install_stubs();
    let cli = cli();
    let mut out = Out::new();
    std::panic::set_hook(Box::new(|_| {}));
    let reqs: Vec<String> = if cli.mode == "replay" {
        read_requests(cli.file.as_deref().unwrap())
    } else {
        let mut r = Rng::new(cli.seed);
        let mut v = vec!["c16 nrows".to_string()];
        let keys: Vec<String> = MarketConfigKey::iter().map(|k| k.to_string()).collect();
        let flags: Vec<String> = MarketConfigFlag::iter().map(|k| k.to_string()).collect();
        // every (written key, read key) pair
        for wk in &keys { let val = 1 + r.num(127); for rk in &keys { v.push(format!("c16 rw {wk} {val} {rk}")); } }
        v.push("c16 rw not_a_key 1 reserve_factor".into());
        // every model parameter under every closed/flag state, without and with a write
        let rows = all_rows();
        for (me, var, side, p) in &rows {
            let s = match side { None => "-", Some(true) => "1", Some(false) => "0" };
            for closed in 0..2 { for mask in 0..16 { v.push(format!("c16 param {closed} {mask} - 0 {me} {var} {s} {p}")); } }
        }
        // boundary values written through each parameter's OWN setting(s): 0 (the documented None/0 semantics),
        // 1 and the maximum — for the closed-market switches under every closed/flag state
        for (me, var, side, p) in &rows {
            let s = match side { None => "-", Some(true) => "1", Some(false) => "0" };
            let (own, states): (Vec<&str>, Vec<(u8, u8)>) = match expectation(me, var, *side, p) {
                Some(K(k)) => (vec![k], vec![(0, 0), (1, 0), (0, 4), (1, 4)]),
                Some(C(c, o)) | Some(OC(c, o)) => (vec![c, o], (0..2u8).flat_map(|c| (0..16u8).map(move |m| (c, m))).collect()),
                _ => (vec![], vec![]),
            };
            for wk in own { for (closed, mask) in &states { for val in ["0", "1", "340282366920938463463374607431768211455"] {
                v.push(format!("c16 param {closed} {mask} {wk} {val} {me} {var} {s} {p}"));
            } } }
        }
        // PURE markets: every parameter (in particular every long/short selector) read with the asymmetric sentinels,
        // and with boundary values written through its own keys
        for (me, var, side, p) in &rows {
            let s = match side { None => "-", Some(true) => "1", Some(false) => "0" };
            for closed in 0..2 { for mask in [0u8, 4, 15] { v.push(format!("c16 pparam 1 {closed} {mask} - 0 {me} {var} {s} {p}")); } }
            let own: Vec<&str> = match expectation(me, var, *side, p) { Some(K(k)) => vec![k], Some(C(c, o)) | Some(OC(c, o)) => vec![c, o], _ => vec![] };
            for wk in own { for val in ["0", "7", "340282366920938463463374607431768211455"] { for (closed, mask) in [(0, 0), (1, 4)] {
                v.push(format!("c16 pparam 1 {closed} {mask} {wk} {val} {me} {var} {s} {p}"));
            } } }
        }
        let extra = cli.n.max(200);
        for _ in 0..extra {
            let (me, var, side, p) = r.pick(&rows).clone();
            let s = match side { None => "-", Some(true) => "1", Some(false) => "0" };
            // half of the writes target the setting this parameter names, so the write is observed
            let wk = if r.chance(1, 2) {
                match expectation(&me, &var, side, &p) {
                    Some(K(k)) | Some(C(k, _)) | Some(OC(k, _)) if r.chance(1, 2) => k.to_string(),
                    Some(C(_, k)) | Some(OC(_, k)) => k.to_string(),
                    _ => r.pick(&keys).clone(),
                }
            } else { r.pick(&keys).clone() };
            let val = if r.chance(1, 4) { 0 } else { r.num(127) };
            v.push(format!("c16 param {} {} {wk} {val} {me} {var} {s} {p}", r.below(2), r.below(16)));
        }
        for mask in 0..16 { for wf in &flags { for b in 0..2 { for rf in &flags { v.push(format!("c16 flagrw {mask} {wf} {b} {rf}")); } } } }
        for (g, names) in [("amount", AmountKey::iter().map(|k| k.to_string()).collect::<Vec<_>>()),
                           ("factor", FactorKey::iter().map(|k| k.to_string()).collect()),
                           ("address", AddressKey::iter().map(|k| k.to_string()).collect())] {
            for wk in &names { let val = 1 + r.num(if g == "amount" { 63 } else { 120 }); for rk in &names { v.push(format!("c16 store {g} {wk} {val} {rk}")); } }
        }
        v
    };
    for req in reqs {
        let resp = exec(&req);
        let op = req.split(' ').nth(1).unwrap_or("?").to_string();
        out.stat(&format!("op.{op}"));
        out.stat(&format!("resp.{}", resp.split(' ').next().unwrap_or("?")));
        if resp == "panic" { out.oracle_fail("panicked", &req); }
        match oracle(&req, &resp) {
            Some(Err(why)) => out.oracle_fail(&why, &req),
            Some(Ok(())) => out.stat("oracle.checked"),
            None => out.stat("oracle.none"),
        }
        let nt = resp.starts_with("ok ") && resp != "ok 0" && resp != "ok b0";
        out.case_nt(&req, &resp, nt);
    }
    out.finish();
}
