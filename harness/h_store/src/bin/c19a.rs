//! C19 (handover histories): `transfer_store_authority` / `accept_store_authority` /
//! `transfer_receiver` / `accept_receiver` executed END TO END through the real native entrypoint on one
//! store account, as a random history signed by four actors. Request:
//! `c19a seq <authority0> <receiver0> <op>…` with `ta:<signer>:<next>` `aa:<signer>` `tr:<signer>:<next>`
//! `ar:<signer>`; response: `ok`/`err` per op, then `auth=<cur>,<next> recv=<cur>,<next>`.
//! Oracle (independent of the Lean model): a nomination succeeds only when signed by the current holder,
//! an acceptance only when signed by the key the holder nominated since the last acceptance; a rejected
//! call leaves the store bytes unchanged; the holder read back is the one the history implies.
use anchor_lang::prelude::*;
use anchor_lang::solana_program::program_stubs::{set_syscall_stubs, SyscallStubs};
use anchor_lang::{Discriminator, InstructionData};
use gmsol_store::states::Store;
use hcommon::*;

fn pk(tag: u8) -> Pubkey { let mut b = [7u8; 32]; b[0] = tag; Pubkey::new_from_array(b) }
fn actor(k: &Pubkey) -> u64 { let b = k.to_bytes(); if b[1..] == [7u8; 31] { b[0] as u64 } else { 999 } }

fn account(key: Pubkey, signer: bool, writable: bool, owner: Pubkey, data: &[u8]) -> AccountInfo<'static> {
    let words: &'static mut [u128] = Box::leak(vec![0u128; data.len() / 16 + 2].into_boxed_slice());
    let raw: &'static mut [u8] = bytemuck::cast_slice_mut(words);
    raw[8..8 + data.len()].copy_from_slice(data);
    let slice: &'static mut [u8] = &mut raw[8..8 + data.len()];
    AccountInfo::new(Box::leak(Box::new(key)), signer, writable, Box::leak(Box::new(1_000_000_000u64)), slice, Box::leak(Box::new(owner)), false, 0)
}

struct Stubs;
impl SyscallStubs for Stubs {
    fn sol_get_clock_sysvar(&self, var_addr: *mut u8) -> u64 {
        let clock = anchor_lang::solana_program::clock::Clock { slot: 1000, epoch_start_timestamp: 0, epoch: 0, leader_schedule_epoch: 0, unix_timestamp: 1_700_000_000 };
        unsafe { std::ptr::write_unaligned(var_addr as *mut anchor_lang::solana_program::clock::Clock, clock) };
        0
    }
    fn sol_get_last_restart_slot(&self, var_addr: *mut u8) -> u64 { unsafe { std::ptr::write_unaligned(var_addr as *mut u64, 0) }; 0 }
    fn sol_log(&self, _m: &str) {}
}

const NEXT_AUTH_OFF: usize = 8 + std::mem::offset_of!(Store, authority) + 32;

#[derive(Clone, Copy, PartialEq, Debug)]
enum Kind { Auth, Recv }

fn read(data: &[u8]) -> ((u64, u64), (u64, u64)) {
    let store: Box<Store> = Box::new(bytemuck::pod_read_unaligned(&data[8..8 + std::mem::size_of::<Store>()]));
    let next_auth = Pubkey::new_from_array(data[NEXT_AUTH_OFF..NEXT_AUTH_OFF + 32].try_into().unwrap());
    ((actor(&store.authority), actor(&next_auth)), (actor(&store.receiver()), actor(&store.next_receiver())))
}

/// runs the history; returns the response and the first oracle failure
fn run(a0: u8, r0: u8, ops: &[&str]) -> Option<(String, Option<String>)> {
    use gmsol_store::instruction as i;
    let store_key = pk(200);
    let mut store: Box<Store> = Box::new(bytemuck::Zeroable::zeroed());
    store.init(pk(a0), "", 255, pk(r0), pk(201)).ok()?;
    let mut bytes = Store::DISCRIMINATOR.to_vec();
    bytes.extend_from_slice(bytemuck::bytes_of(&*store));
    if read(&bytes).0 != (a0 as u64, a0 as u64) { return Some(("layout-changed".into(), None)); }
    let store_acc = account(store_key, false, true, gmsol_store::ID, &bytes);
    let mut outs: Vec<String> = Vec::new();
    let mut fail: Option<String> = None;
    // the oracle's own bookkeeping: holder and the nominee named by the holder since the last acceptance
    let mut holder = [a0 as u64, r0 as u64];
    let mut nominee: [Option<u64>; 2] = [None, None];
    for (n, op) in ops.iter().enumerate() {
        let p: Vec<&str> = op.split(':').collect();
        let (kind, signer, next) = match p.as_slice() {
            ["ta", s, x] => (Kind::Auth, s.parse::<u8>().ok()?, Some(x.parse::<u8>().ok()?)),
            ["aa", s] => (Kind::Auth, s.parse::<u8>().ok()?, None),
            ["tr", s, x] => (Kind::Recv, s.parse::<u8>().ok()?, Some(x.parse::<u8>().ok()?)),
            ["ar", s] => (Kind::Recv, s.parse::<u8>().ok()?, None),
            _ => return None,
        };
        let data = match (kind, next) {
            (Kind::Auth, Some(_)) => i::TransferStoreAuthority {}.data(),
            (Kind::Auth, None) => i::AcceptStoreAuthority {}.data(),
            (Kind::Recv, Some(_)) => i::TransferReceiver {}.data(),
            (Kind::Recv, None) => i::AcceptReceiver {}.data(),
        };
        let mut accs = vec![account(pk(signer), true, true, anchor_lang::system_program::ID, &[]), store_acc.clone()];
        if let Some(x) = next { accs.push(account(pk(x), false, false, anchor_lang::system_program::ID, &[])); }
        let accs: &'static [AccountInfo<'static>] = Box::leak(accs.into_boxed_slice());
        let before = store_acc.try_borrow_data().unwrap().to_vec();
        let res = gmsol_store::entry(&gmsol_store::ID, accs, &data);
        let after = store_acc.try_borrow_data().unwrap().to_vec();
        let k = if kind == Kind::Auth { 0 } else { 1 };
        let what = match (kind, next) { (Kind::Auth, Some(_)) => "transfer_store_authority", (Kind::Auth, None) => "accept_store_authority", (Kind::Recv, Some(_)) => "transfer_receiver", (Kind::Recv, None) => "accept_receiver" };
        match &res {
            Ok(()) => {
                outs.push("ok".into());
                if let Some(x) = next {
                    if signer as u64 != holder[k] && fail.is_none() {
                        fail = Some(format!("op #{n} {what}: accepted from actor {signer}, who is not the current holder (actor {})", holder[k]));
                    }
                    nominee[k] = Some(x as u64);
                } else {
                    if nominee[k] != Some(signer as u64) && fail.is_none() {
                        fail = Some(format!("op #{n} {what}: accepted from actor {signer}, whom the current holder (actor {}) has not nominated since the last handover (pending nomination: {:?})", holder[k], nominee[k]));
                    }
                    holder[k] = signer as u64;
                    nominee[k] = None;
                }
            }
            Err(_) => {
                outs.push("err".into());
                if before != after && fail.is_none() { fail = Some(format!("op #{n} {what}: rejected but the store account changed")); }
            }
        }
        let st = read(&after);
        let cur = if k == 0 { st.0 .0 } else { st.1 .0 };
        if cur != holder[k] && fail.is_none() {
            fail = Some(format!("after op #{n} {what}: the store records actor {cur} as holder, the history implies actor {}", holder[k]));
        }
    }
    let st = read(&store_acc.try_borrow_data().unwrap());
    outs.push(format!("auth={},{}", st.0 .0, st.0 .1));
    outs.push(format!("recv={},{}", st.1 .0, st.1 .1));
    Some((outs.join(" "), fail))
}

fn exec(req: &str) -> (String, Option<String>) {
    let t: Vec<String> = req.split(' ').map(|s| s.to_string()).collect();
    let r = std::panic::catch_unwind(|| {
        let t: Vec<&str> = t.iter().map(|s| s.as_str()).collect();
        match t.as_slice() {
            ["c19a", "seq", a0, r0, ops @ ..] => { let (a0, r0) = (a0.parse::<u8>().ok()?, r0.parse::<u8>().ok()?); run(a0, r0, ops) }
            _ => None,
        }
    });
    match r { Ok(Some(x)) => x, Ok(None) => ("bad-op".into(), None), Err(_) => ("panic".into(), None) }
}

fn gen(rng: &mut Rng) -> String {
    let a0 = rng.range(1, 4);
    let r0 = rng.range(1, 4);
    // generator-side shadow of (holder, nominee) so that most ops are valid and handovers complete
    let mut st = [(a0, a0), (r0, r0)];
    let mut ops: Vec<String> = Vec::new();
    let len = rng.range(2, 10);
    let mut displaced: [Option<u64>; 2] = [None, None];
    for _ in 0..len {
        let k = rng.below(2) as usize;
        let (t, a) = if k == 0 { ("ta", "aa") } else { ("tr", "ar") };
        let (cur, next) = st[k];
        match rng.below(10) {
            0..=3 => { // valid nomination by the holder
                let mut x = rng.range(1, 4); if x == next { x = x % 4 + 1; }
                ops.push(format!("{t}:{cur}:{x}")); st[k].1 = x;
            }
            4..=6 => { // acceptance by the nominee (valid when a nomination is pending)
                ops.push(format!("{a}:{next}"));
                if cur != next { displaced[k] = Some(cur); st[k] = (next, next); }
            }
            7 => { // the displaced holder tries again
                let d = displaced[k].unwrap_or(rng.range(1, 4));
                if rng.chance(1, 2) { ops.push(format!("{a}:{d}")); } else { ops.push(format!("{t}:{d}:{}", rng.range(1, 4))); }
                if d == cur { if let Some(l) = ops.pop() { let _ = l; } }
            }
            8 => { let s = rng.range(1, 4); if s != next { ops.push(format!("{a}:{s}")); } }
            _ => { let s = rng.range(1, 4); let x = rng.range(1, 4); if s != cur { ops.push(format!("{t}:{s}:{x}")); } }
        }
    }
    format!("c19a seq {a0} {r0} {}", ops.join(" ")).trim_end().to_string()
}

fn main() {
    set_syscall_stubs(Box::new(Stubs));
    let cli = cli();
    let mut out = Out::new();
    std::panic::set_hook(Box::new(|_| {}));
    let reqs: Vec<String> = if cli.mode == "replay" {
        read_requests(cli.file.as_deref().unwrap())
    } else {
        let mut rng = Rng::new(cli.seed);
        let mut v = vec![
            "c19a seq 1 1 ta:1:2 aa:2 aa:1".to_string(),
            "c19a seq 1 1 ta:1:2 aa:2 ta:1:3 aa:3".to_string(),
            "c19a seq 1 2 tr:2:3 ar:3 ar:2 tr:2:1".to_string(),
            "c19a seq 1 1 ta:1:2 ta:1:3 aa:2 aa:3 ta:3:1 aa:1".to_string(),
        ];
        for _ in 0..cli.n { v.push(gen(&mut rng)); }
        v
    };
    for req in reqs {
        let (resp, fail) = exec(&req);
        let oks = resp.split(' ').filter(|x| *x == "ok").count();
        let errs = resp.split(' ').filter(|x| *x == "err").count();
        out.stat_n("ops.ok", oks as u64);
        out.stat_n("ops.err", errs as u64);
        out.stat(&format!("len.{}", req.split(' ').count().saturating_sub(4)));
        if resp == "panic" { out.oracle_fail("panicked", &req); }
        match fail {
            Some(why) => out.oracle_fail(&why, &req),
            None => out.stat("oracle.checked"),
        }
        // non-trivial: at least one completed handover and one rejection in the same history
        out.case_nt(&req, &resp, oks >= 2 && errs >= 1);
    }
    out.finish();
}
