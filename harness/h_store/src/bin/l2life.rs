//! Stage 3 (C23 / C22): deposit AND withdrawal (AND swap-order) life cycles of several users interleaved on one
//! market, run natively — extension of `life.rs` (same ledger and CPI stub).
//!
//! Everything — the world set-up (`initialize`, roles, token map, market vaults, `initialize_market`,
//! `initialize_oracle`, `prepare_associated_token_account`) and the life cycle itself
//! (`create_deposit` → `execute_deposit` → `close_deposit`) — runs the REAL instruction handlers
//! through `gmsol_store::entry`. The `sol_invoke_signed` stub serves CPIs:
//!   * SPL Token instructions            → the real `spl_token::processor::Processor::process`,
//!   * Associated Token Account program  → the real `spl_associated_token_account` processor,
//!   * System program create / transfer / allocate / assign → emulated on the in-memory accounts,
//!   * store self-CPIs (`#[event_cpi]`)   → recorded,
//! with signer privileges derived like the runtime does (caller-signed accounts, or PDAs of the
//! calling program re-derived from `signers_seeds` with `create_program_address`).
//! Prices come from custom `PriceFeed` accounts (provider ChainlinkDataStreams) built with the
//! c24 hook initialisers; `with_prices` then runs natively.
//!
//! Protocol `life <op> <sid> …` — see `exec`.
use anchor_lang::prelude::*;
use anchor_lang::solana_program::instruction::Instruction;
use anchor_lang::solana_program::program_pack::Pack;
use anchor_lang::solana_program::program_stubs::{set_syscall_stubs, SyscallStubs};
use anchor_lang::{Discriminator, InstructionData};
use anchor_spl::associated_token::spl_associated_token_account as ata_prog;
use anchor_spl::token::spl_token;
use gmsol_store::states::Seed;
use hcommon::*;
use std::cell::RefCell;
use std::collections::BTreeMap;
use std::sync::atomic::{AtomicI64, AtomicU64, Ordering};
use std::sync::Mutex;

const SYS: Pubkey = anchor_lang::system_program::ID;

static NOW: AtomicI64 = AtomicI64::new(1_700_000_000);
static SLOT: AtomicU64 = AtomicU64::new(1_000);
static RETURN: Mutex<Option<(Pubkey, Vec<u8>)>> = Mutex::new(None);
static EVENTS: Mutex<Vec<Vec<u8>>> = Mutex::new(Vec::new());
static CPI_LOG: Mutex<Vec<String>> = Mutex::new(Vec::new());
thread_local! { static CALLER: RefCell<Vec<Pubkey>> = const { RefCell::new(Vec::new()) }; }

fn current_program() -> Pubkey { CALLER.with(|c| *c.borrow().last().expect("no running program")) }
struct Frame;
impl Frame { fn push(p: Pubkey) -> Frame { CALLER.with(|c| c.borrow_mut().push(p)); Frame } }
impl Drop for Frame { fn drop(&mut self) { CALLER.with(|c| { c.borrow_mut().pop(); }); } }

fn lifetime_hack<'a>(infos: &[AccountInfo<'a>]) -> &'a [AccountInfo<'a>] { unsafe { std::mem::transmute(infos) } }

struct Stubs;
impl SyscallStubs for Stubs {
    fn sol_get_clock_sysvar(&self, var_addr: *mut u8) -> u64 {
        let clock = anchor_lang::solana_program::clock::Clock { slot: SLOT.load(Ordering::SeqCst), epoch_start_timestamp: 0, epoch: 0, leader_schedule_epoch: 0, unix_timestamp: NOW.load(Ordering::SeqCst) };
        unsafe { std::ptr::write_unaligned(var_addr as *mut anchor_lang::solana_program::clock::Clock, clock) };
        0
    }
    fn sol_get_rent_sysvar(&self, var_addr: *mut u8) -> u64 {
        unsafe { std::ptr::write_unaligned(var_addr as *mut Rent, Rent::default()) };
        0
    }
    fn sol_get_last_restart_slot(&self, var_addr: *mut u8) -> u64 { unsafe { std::ptr::write_unaligned(var_addr as *mut u64, 0) }; 0 }
    fn sol_log(&self, _m: &str) {}
    fn sol_set_return_data(&self, d: &[u8]) { *RETURN.lock().unwrap() = Some((current_program(), d.to_vec())); }
    fn sol_get_return_data(&self) -> Option<(Pubkey, Vec<u8>)> { RETURN.lock().unwrap().clone() }
    fn sol_invoke_signed(&self, ix: &Instruction, infos: &[AccountInfo], seeds: &[&[&[u8]]]) -> anchor_lang::solana_program::entrypoint::ProgramResult {
        let caller = current_program();
        // PDAs the caller may sign for
        let pdas: Vec<Pubkey> = seeds.iter().filter_map(|s| Pubkey::create_program_address(s, &caller).ok()).collect();
        // build the callee's account list with the runtime's privilege rules
        let mut sub: Vec<AccountInfo> = Vec::new();
        for m in &ix.accounts {
            let Some(i) = infos.iter().find(|i| *i.key == m.pubkey) else { return Err(ProgramError::NotEnoughAccountKeys) };
            if m.is_signer && !(i.is_signer || pdas.contains(i.key)) { return Err(ProgramError::MissingRequiredSignature); } // privilege escalation
            if m.is_writable && !i.is_writable { return Err(ProgramError::Custom(0xBAD0)); }
            let mut c = i.clone();
            c.is_signer = m.is_signer;
            c.is_writable = m.is_writable;
            sub.push(c);
        }
        let _f = Frame::push(ix.program_id);
        if ix.program_id == spl_token::ID {
            CPI_LOG.lock().unwrap().push(format!("token:{}", ix.data.first().copied().unwrap_or(255)));
            return spl_token::processor::Processor::process(&spl_token::ID, lifetime_hack(&sub), &ix.data);
        }
        if ix.program_id == ata_prog::ID {
            CPI_LOG.lock().unwrap().push("ata".into());
            return ata_prog::processor::process_instruction(&ata_prog::ID, lifetime_hack(&sub), &ix.data);
        }
        if ix.program_id == gmsol_store::ID {
            // `#[event_cpi]` self-invocation: sha256("anchor:event")[..8] little-endian tag
            if ix.data.len() >= 8 && ix.data[..8] == *anchor_lang::event::EVENT_IX_TAG_LE {
                EVENTS.lock().unwrap().push(ix.data[8..].to_vec());
                return Ok(());
            }
            return Err(ProgramError::Custom(0xBAD1));
        }
        if ix.program_id == SYS { return system(ix, &sub); }
        Err(ProgramError::IncorrectProgramId)
    }
}

/// System program emulation (bincode `SystemInstruction`, u32 LE tag).
fn system(ix: &Instruction, a: &[AccountInfo]) -> anchor_lang::solana_program::entrypoint::ProgramResult {
    let tag = u32::from_le_bytes(ix.data[..4].try_into().unwrap());
    let u64at = |o: usize| u64::from_le_bytes(ix.data[o..o + 8].try_into().unwrap());
    CPI_LOG.lock().unwrap().push(format!("system:{tag}"));
    match tag {
        0 => { // CreateAccount { lamports, space, owner }
            let (lamports, space, owner) = (u64at(4), u64at(12) as usize, Pubkey::new_from_array(ix.data[20..52].try_into().unwrap()));
            let (from, to) = (&a[0], &a[1]);
            if !from.is_signer || !to.is_signer { return Err(ProgramError::MissingRequiredSignature); }
            if to.lamports() != 0 || !to.data_is_empty() || *to.owner != SYS { return Err(ProgramError::AccountAlreadyInitialized); }
            if *from.owner != SYS || !from.data_is_empty() { return Err(ProgramError::InvalidArgument); }
            if from.lamports() < lamports { return Err(ProgramError::InsufficientFunds); }
            **from.lamports.borrow_mut() -= lamports;
            **to.lamports.borrow_mut() += lamports;
            to.realloc(space, true)?;
            to.assign(&owner);
            Ok(())
        }
        1 => { // Assign { owner }
            let owner = Pubkey::new_from_array(ix.data[4..36].try_into().unwrap());
            if !a[0].is_signer { return Err(ProgramError::MissingRequiredSignature); }
            if *a[0].owner != SYS { return Err(ProgramError::InvalidArgument); }
            a[0].assign(&owner);
            Ok(())
        }
        2 => { // Transfer { lamports }
            let lamports = u64at(4);
            let (from, to) = (&a[0], &a[1]);
            if !from.is_signer { return Err(ProgramError::MissingRequiredSignature); }
            if *from.owner != SYS || !from.data_is_empty() { return Err(ProgramError::InvalidArgument); }
            if from.lamports() < lamports { return Err(ProgramError::InsufficientFunds); }
            **from.lamports.borrow_mut() -= lamports;
            **to.lamports.borrow_mut() += lamports;
            Ok(())
        }
        8 => { // Allocate { space }
            let space = u64at(4) as usize;
            if !a[0].is_signer { return Err(ProgramError::MissingRequiredSignature); }
            if *a[0].owner != SYS || !a[0].data_is_empty() { return Err(ProgramError::AccountAlreadyInitialized); }
            a[0].realloc(space, true)?;
            Ok(())
        }
        _ => Err(ProgramError::InvalidInstructionData),
    }
}

extern "C" { fn dup(fd: i32) -> i32; fn dup2(a: i32, b: i32) -> i32; fn close(fd: i32) -> i32; }
struct Quiet { saved: i32 }
impl Quiet {
    fn new() -> Self {
        use std::io::Write; use std::os::fd::AsRawFd;
        std::io::stdout().flush().unwrap();
        let null = std::fs::OpenOptions::new().write(true).open("/dev/null").unwrap();
        let saved = unsafe { dup(1) };
        unsafe { dup2(null.as_raw_fd(), 1) };
        Quiet { saved }
    }
}
impl Drop for Quiet {
    fn drop(&mut self) { use std::io::Write; let _ = std::io::stdout().flush(); unsafe { dup2(self.saved, 1); close(self.saved); } }
}

// ---------------------------------------------------------------- in-memory ledger

#[derive(Clone, PartialEq, Debug)]
struct AccState { lamports: u64, data: Vec<u8>, owner: Pubkey, exec: bool }
#[derive(Clone, Default)]
struct Bank { m: BTreeMap<Pubkey, AccState> }

/// `pad`'s upper half is what `AccountInfo::realloc` reads as the original data length.
#[repr(C)]
struct KeyBox { pad: u64, key: Pubkey }
struct Buf { key: KeyBox, lamports: u64, buf: Vec<u128>, len: usize, owner: Pubkey, exec: bool }

#[derive(Clone, Copy)]
struct M { key: Pubkey, signer: bool, writable: bool }
fn ro(key: Pubkey) -> M { M { key, signer: false, writable: false } }
fn rw(key: Pubkey) -> M { M { key, signer: false, writable: true } }
fn sg(key: Pubkey) -> M { M { key, signer: true, writable: true } }

impl Bank {
    fn get(&self, k: &Pubkey) -> AccState { self.m.get(k).cloned().unwrap_or(AccState { lamports: 0, data: vec![], owner: SYS, exec: false }) }
    fn set(&mut self, k: Pubkey, s: AccState) { self.m.insert(k, s); }
    fn fund(&mut self, k: Pubkey, lamports: u64) { let mut a = self.get(&k); a.lamports += lamports; self.set(k, a); }
    fn program(&mut self, k: Pubkey) { self.set(k, AccState { lamports: 1, data: vec![], owner: SYS, exec: true }); }

    /// One transaction with one instruction of `program`. On success the ledger is updated; on failure it
    /// is left untouched (runtime atomicity) and the error is returned. Also returns whether the failed
    /// run had dirtied any account buffer.
    fn run(&mut self, program: Pubkey, metas: &[M], data: &[u8]) -> std::result::Result<(), (ProgramError, bool)> {
        let mut keys: Vec<Pubkey> = Vec::new();
        for m in metas { if !keys.contains(&m.key) { keys.push(m.key); } }
        let before: Vec<AccState> = keys.iter().map(|k| self.get(k)).collect();
        let mut bufs: Vec<Buf> = keys.iter().zip(&before).map(|(k, s)| {
            let cap = s.data.len() + 10_240 + 16;
            let mut buf = vec![0u128; (cap + 8) / 16 + 2];
            bytemuck::cast_slice_mut::<u128, u8>(&mut buf)[8..8 + s.data.len()].copy_from_slice(&s.data);
            Buf { key: KeyBox { pad: (s.data.len() as u64) << 32, key: *k }, lamports: s.lamports, buf, len: s.data.len(), owner: s.owner, exec: s.exec }
        }).collect();
        let flags: Vec<(bool, bool)> = keys.iter().map(|k| (metas.iter().any(|m| m.key == *k && m.signer), metas.iter().any(|m| m.key == *k && m.writable))).collect();
        let base: Vec<AccountInfo> = bufs.iter_mut().zip(&flags).map(|(b, (s, w))| {
            let d = &mut bytemuck::cast_slice_mut::<u128, u8>(&mut b.buf)[8..8 + b.len];
            AccountInfo::new(&b.key.key, *s, *w, &mut b.lamports, d, &b.owner, b.exec, 0)
        }).collect();
        let infos: Vec<AccountInfo> = metas.iter().map(|m| base[keys.iter().position(|k| *k == m.key).unwrap()].clone()).collect();
        EVENTS.lock().unwrap().clear();
        CPI_LOG.lock().unwrap().clear();
        *RETURN.lock().unwrap() = None;
        let r = {
            let _f = Frame::push(program);
            let _q = Quiet::new();
            if program == gmsol_store::ID { gmsol_store::entry(&program, lifetime_hack(&infos), data) } else { Err(ProgramError::IncorrectProgramId) }
        };
        let after: Vec<AccState> = base.iter().map(|i| AccState { lamports: i.lamports(), data: i.data.borrow().to_vec(), owner: *i.owner, exec: i.executable }).collect();
        match r {
            Ok(()) => {
                // the runtime's own post-conditions: lamports conserved, read-only accounts untouched
                let (l0, l1): (u128, u128) = (before.iter().map(|a| a.lamports as u128).sum(), after.iter().map(|a| a.lamports as u128).sum());
                assert_eq!(l0, l1, "lamports not conserved by the instruction");
                for ((k, a), (b, (_, w))) in keys.iter().zip(&after).zip(before.iter().zip(&flags)) {
                    if !w { assert!(a == b, "read-only account {k} modified"); }
                    if a.lamports == 0 { self.m.remove(k); /* the runtime purges zero-lamport accounts */ } else { self.m.insert(*k, a.clone()); }
                }
                Ok(())
            }
            Err(e) => Err((e, after != before)),
        }
    }
}

fn disc<T: Discriminator + bytemuck::Pod>(t: &T) -> Vec<u8> { let mut d = T::DISCRIMINATOR.to_vec(); d.extend_from_slice(bytemuck::bytes_of(t)); d }
fn pod<T: bytemuck::Pod>(bytes: &[u8]) -> T { bytemuck::pod_read_unaligned(&bytes[8..8 + std::mem::size_of::<T>()]) }
fn token_amount(b: &Bank, k: &Pubkey) -> Option<u64> { let a = b.get(k); if a.owner != spl_token::ID || a.data.len() != spl_token::state::Account::LEN { return None; } spl_token::state::Account::unpack(&a.data).ok().map(|t| t.amount) }
fn mint_supply(b: &Bank, k: &Pubkey) -> u64 { spl_token::state::Mint::unpack(&b.get(k).data).map(|m| m.supply).unwrap_or(0) }
fn ata(owner: &Pubkey, mint: &Pubkey) -> Pubkey { anchor_spl::associated_token::get_associated_token_address(owner, mint) }


// ---------------------------------------------------------------- the world

const UNIT_PRICE_DECIMALS: u8 = 8;

#[derive(Clone)]
struct World {
    b: Bank,
    admin: Pubkey,      // store authority, MARKET_KEEPER
    keeper: Pubkey,     // ORDER_KEEPER
    store: Pubkey,
    store_wallet: Pubkey,
    token_map: Pubkey,
    oracle: Pubkey,
    long: Pubkey,       // long token mint (also the index token), 9 decimals
    short: Pubkey,      // short token mint, 6 decimals
    market_token: Pubkey,
    market: Pubkey,
    long_vault: Pubkey,
    short_vault: Pubkey,
    mt_vault: Pubkey,
    feeds: [Pubkey; 2],
    event_authority: Pubkey,
}

fn must(r: std::result::Result<(), (ProgramError, bool)>, what: &str) { if let Err((e, _)) = r { panic!("set-up step `{what}` failed: {e:?} cpis={:?}", CPI_LOG.lock().unwrap()); } }

fn put_mint(b: &mut Bank, key: Pubkey, decimals: u8, authority: Pubkey) {
    let m = spl_token::state::Mint { mint_authority: Some(authority).into(), supply: 0, decimals, is_initialized: true, freeze_authority: None.into() };
    let mut d = vec![0u8; spl_token::state::Mint::LEN];
    m.pack_into_slice(&mut d);
    b.set(key, AccState { lamports: Rent::default().minimum_balance(d.len()), data: d, owner: spl_token::ID, exec: false });
}

/// a funded token account (stands for tokens the user obtained earlier); bumps the mint supply accordingly
fn put_token_account(b: &mut Bank, key: Pubkey, mint: Pubkey, owner: Pubkey, amount: u64) {
    let a = spl_token::state::Account { mint, owner, amount, state: spl_token::state::AccountState::Initialized, ..Default::default() };
    let mut d = vec![0u8; spl_token::state::Account::LEN];
    a.pack_into_slice(&mut d);
    b.set(key, AccState { lamports: Rent::default().minimum_balance(d.len()), data: d, owner: spl_token::ID, exec: false });
    let mut ms = b.get(&mint);
    let mut m = spl_token::state::Mint::unpack(&ms.data).unwrap();
    m.supply += amount;
    m.pack_into_slice(&mut ms.data);
    b.set(mint, ms);
}

impl World {
    fn new() -> World {
        use gmsol_store::instruction as ix;
        use gmsol_store::states::{Market, Oracle, PriceFeed, PriceProviderKind, RoleKey, Store};
        let pid = gmsol_store::ID;
        let mut b = Bank::default();
        for p in [pid, SYS, spl_token::ID, ata_prog::ID] { b.program(p); }
        let admin = Pubkey::new_from_array([1; 32]);
        let keeper = Pubkey::new_from_array([2; 32]);
        b.fund(admin, 1_000_000_000_000);
        b.fund(keeper, 10_000_000_000);
        let store = Pubkey::find_program_address(&[Store::SEED, &gmsol_utils::to_seed("")], &pid).0;
        let store_wallet = Pubkey::find_program_address(&[Store::WALLET_SEED, store.as_ref()], &pid).0;
        must(b.run(pid, &[sg(admin), ro(pid), ro(pid), ro(pid), rw(store), ro(SYS)], &ix::Initialize { key: String::new() }.data()), "initialize");
        for role in [RoleKey::MARKET_KEEPER, RoleKey::ORDER_KEEPER] {
            must(b.run(pid, &[sg(admin), rw(store)], &ix::EnableRole { role: role.to_string() }.data()), "enable_role");
        }
        must(b.run(pid, &[sg(admin), rw(store)], &ix::GrantRole { user: admin, role: RoleKey::MARKET_KEEPER.to_string() }.data()), "grant market keeper");
        must(b.run(pid, &[sg(admin), rw(store)], &ix::GrantRole { user: keeper, role: RoleKey::ORDER_KEEPER.to_string() }.data()), "grant order keeper");
        // token map
        let token_map = Pubkey::new_from_array([3; 32]);
        must(b.run(pid, &[sg(admin), ro(store), sg(token_map), ro(SYS)], &ix::InitializeTokenMap {}.data()), "initialize_token_map");
        let long = Pubkey::new_from_array([4; 32]);
        let short = Pubkey::new_from_array([5; 32]);
        put_mint(&mut b, long, 9, admin);
        put_mint(&mut b, short, 6, admin);
        let feeds = [Pubkey::new_from_array([6; 32]), Pubkey::new_from_array([7; 32])];
        let feed_ids = [Pubkey::new_from_array([16; 32]), Pubkey::new_from_array([17; 32])];
        for (i, (mint, name)) in [(long, "LONG"), (short, "SHORT")].into_iter().enumerate() {
            let builder = gmsol_utils::token_config::UpdateTokenConfigParams::default()
                .update_price_feed(&PriceProviderKind::ChainlinkDataStreams, feed_ids[i], None).unwrap()
                .with_expected_provider(PriceProviderKind::ChainlinkDataStreams)
                .with_heartbeat_duration(120).with_precision(4);
            must(b.run(pid, &[sg(admin), ro(store), rw(token_map), ro(mint), ro(SYS)],
                &ix::PushToTokenMap { name: name.to_string(), builder, enable: true, new: true }.data()), "push_to_token_map");
        }
        must(b.run(pid, &[sg(admin), rw(store), ro(token_map)], &ix::SetTokenMap {}.data()), "set_token_map");
        // vaults + market
        let vault = |m: &Pubkey| Pubkey::find_program_address(&[gmsol_store::constants::MARKET_VAULT_SEED, store.as_ref(), m.as_ref()], &pid).0;
        let (long_vault, short_vault) = (vault(&long), vault(&short));
        for (m, v) in [(long, long_vault), (short, short_vault)] {
            must(b.run(pid, &[sg(admin), ro(store), ro(m), rw(v), ro(SYS), ro(spl_token::ID)], &ix::InitializeMarketVault {}.data()), "initialize_market_vault");
        }
        let market_token = Pubkey::find_program_address(&[gmsol_store::constants::MARKET_TOKEN_MINT_SEED, store.as_ref(), long.as_ref(), long.as_ref(), short.as_ref()], &pid).0;
        let market = Pubkey::find_program_address(&[Market::SEED, store.as_ref(), market_token.as_ref()], &pid).0;
        must(b.run(pid, &[sg(admin), ro(store), rw(market_token), ro(long), ro(short), rw(market), ro(token_map), ro(long_vault), ro(short_vault), ro(SYS), ro(spl_token::ID)],
            &ix::InitializeMarket { index_token_mint: long, name: "M".to_string(), enable: true }.data()), "initialize_market");
        let mt_vault = vault(&market_token);
        must(b.run(pid, &[sg(admin), ro(store), ro(market_token), rw(mt_vault), ro(SYS), ro(spl_token::ID)], &ix::InitializeMarketVault {}.data()), "initialize_market_vault (market token)");
        // oracle (a zeroed, program-owned account, as created by the client before `initialize_oracle`)
        let oracle = Pubkey::new_from_array([8; 32]);
        let osz = 8 + std::mem::size_of::<Oracle>();
        b.set(oracle, AccState { lamports: Rent::default().minimum_balance(osz), data: vec![0; osz], owner: pid, exec: false });
        must(b.run(pid, &[sg(admin), ro(keeper), ro(store), rw(oracle), ro(SYS)], &ix::InitializeOracle {}.data()), "initialize_oracle");
        // custom price feeds
        for i in 0..2 {
            let mut f = PriceFeed::default();
            gmsol_store::verif::c24::price_feed_init(&mut f, PriceProviderKind::ChainlinkDataStreams, &store, &keeper, &[long, short][i], &feed_ids[i]).expect("feed init");
            let d = disc(&f);
            b.set(feeds[i], AccState { lamports: Rent::default().minimum_balance(d.len()), data: d, owner: pid, exec: false });
        }
        let event_authority = Pubkey::find_program_address(&[b"__event_authority"], &pid).0;
        World { b, admin, keeper, store, store_wallet, token_map, oracle, long, short, market_token, market, long_vault, short_vault, mt_vault, feeds, event_authority }
    }

    /// publish prices (8 decimals) at the current clock
    fn set_prices(&mut self, long_price: u128, short_price: u128, ts: i64) {
        use gmsol_store::states::{PriceFeed, PriceFeedPrice};
        for (i, p) in [long_price, short_price].into_iter().enumerate() {
            let st = self.b.get(&self.feeds[i]);
            let mut f: PriceFeed = pod(&st.data);
            let mut price = PriceFeedPrice::new(UNIT_PRICE_DECIMALS, ts, p, p, p, 0);
            price.set_flag(gmsol_utils::price::PriceFlag::Open, true);
            gmsol_store::verif::c24::price_feed_update(&mut f, &price, 3600, true).expect("feed update");
            self.b.set(self.feeds[i], AccState { data: disc(&f), ..st });
        }
    }
}


// ---------------------------------------------------------------- the life cycle

#[derive(Clone)]
struct Dep { owner: Pubkey, receiver: Pubkey, nonce: [u8; 32], key: Pubkey, long_amount: u64, short_amount: u64, exec_lamports: u64 }

fn opt(k: Option<Pubkey>, writable: bool) -> M { match k { Some(k) => if writable { rw(k) } else { ro(k) }, None => ro(gmsol_store::ID) } }

impl World {
    fn user(&mut self, u: u8, long: u64, short: u64) -> Pubkey {
        let k = Pubkey::new_from_array([100 + u; 32]);
        if self.b.get(&k).lamports == 0 {
            self.b.fund(k, 5_000_000_000);
            let (l, s) = (self.long, self.short);
            put_token_account(&mut self.b, ata(&k, &l), l, k, long);
            put_token_account(&mut self.b, ata(&k, &s), s, k, short);
        }
        k
    }

    fn deposit_key(&self, owner: &Pubkey, nonce: &[u8; 32]) -> Pubkey {
        Pubkey::find_program_address(&[gmsol_store::states::Deposit::SEED, self.store.as_ref(), owner.as_ref(), nonce], &gmsol_store::ID).0
    }

    fn prepare_escrow(&mut self, payer: Pubkey, owner: Pubkey, mint: Pubkey) -> std::result::Result<(), (ProgramError, bool)> {
        let acc = ata(&owner, &mint);
        self.b.run(gmsol_store::ID, &[sg(payer), ro(owner), ro(mint), rw(acc), ro(SYS), ro(spl_token::ID), ro(ata_prog::ID)],
            &gmsol_store::instruction::PrepareAssociatedTokenAccount {}.data())
    }

    #[allow(clippy::too_many_arguments)]
    fn create_deposit(&mut self, owner: Pubkey, receiver: Pubkey, nonce: [u8; 32], long_amount: u64, short_amount: u64, min_out: u64, exec_lamports: u64,
                      with_long: bool, with_short: bool) -> std::result::Result<Dep, (ProgramError, bool)> {
        let key = self.deposit_key(&owner, &nonce);
        let params = gmsol_store::ops::deposit::CreateDepositParams { execution_lamports: exec_lamports, long_token_swap_length: 0, short_token_swap_length: 0,
            initial_long_token_amount: long_amount, initial_short_token_amount: short_amount, min_market_token_amount: min_out, should_unwrap_native_token: false };
        let (l, s, mt) = (self.long, self.short, self.market_token);
        let metas = [sg(owner), ro(receiver), ro(self.store), rw(self.market), rw(key), ro(mt),
            opt(with_long.then_some(l), false), opt(with_short.then_some(s), false),
            rw(ata(&key, &mt)), opt(with_long.then_some(ata(&key, &l)), true), opt(with_short.then_some(ata(&key, &s)), true),
            rw(ata(&receiver, &mt)), opt(with_long.then_some(ata(&owner, &l)), true), opt(with_short.then_some(ata(&owner, &s)), true),
            ro(SYS), ro(spl_token::ID), ro(ata_prog::ID)];
        self.b.run(gmsol_store::ID, &metas, &gmsol_store::instruction::CreateDeposit { nonce, params }.data())?;
        Ok(Dep { owner, receiver, nonce, key, long_amount, short_amount, exec_lamports })
    }

    fn execute_deposit(&mut self, authority: Pubkey, d: &Dep, execution_fee: u64, throw: bool, with_long: bool, with_short: bool, feeds: &[Pubkey]) -> std::result::Result<(), (ProgramError, bool)> {
        let (l, s, mt) = (self.long, self.short, self.market_token);
        let mut metas = vec![sg(authority), ro(self.store), ro(self.token_map), rw(self.oracle), rw(self.market), rw(d.key), rw(mt),
            opt(with_long.then_some(l), false), opt(with_short.then_some(s), false),
            rw(ata(&d.key, &mt)), opt(with_long.then_some(ata(&d.key, &l)), true), opt(with_short.then_some(ata(&d.key, &s)), true),
            opt(with_long.then_some(self.long_vault), true), opt(with_short.then_some(self.short_vault), true),
            ro(spl_token::ID), ro(SYS), ro(gmsol_store::ID), ro(self.event_authority), ro(gmsol_store::ID)];
        for f in feeds { metas.push(ro(*f)); }
        self.b.run(gmsol_store::ID, &metas, &gmsol_store::instruction::ExecuteDeposit { execution_fee, throw_on_execution_error: throw }.data())
    }

    fn close_deposit(&mut self, executor: Pubkey, d: &Dep, with_long: bool, with_short: bool) -> std::result::Result<(), (ProgramError, bool)> {
        let (l, s, mt) = (self.long, self.short, self.market_token);
        let metas = [sg(executor), ro(self.store), rw(self.store_wallet), rw(d.owner), rw(d.receiver), ro(mt),
            opt(with_long.then_some(l), false), opt(with_short.then_some(s), false), rw(d.key),
            rw(ata(&d.key, &mt)), opt(with_long.then_some(ata(&d.key, &l)), true), opt(with_short.then_some(ata(&d.key, &s)), true),
            rw(ata(&d.receiver, &mt)), opt(with_long.then_some(ata(&d.owner, &l)), true), opt(with_short.then_some(ata(&d.owner, &s)), true),
            ro(SYS), ro(spl_token::ID), ro(ata_prog::ID), ro(self.event_authority), ro(gmsol_store::ID)];
        self.b.run(gmsol_store::ID, &metas, &gmsol_store::instruction::CloseDeposit { reason: "test".to_string() }.data())
    }
}


#[derive(Clone)]
struct Wd { owner: Pubkey, receiver: Pubkey, key: Pubkey, exec_lamports: u64 }

impl World {
    fn withdrawal_key(&self, owner: &Pubkey, nonce: &[u8; 32]) -> Pubkey {
        Pubkey::find_program_address(&[gmsol_store::states::withdrawal::Withdrawal::SEED, self.store.as_ref(), owner.as_ref(), nonce], &gmsol_store::ID).0
    }

    fn create_withdrawal(&mut self, owner: Pubkey, receiver: Pubkey, nonce: [u8; 32], mt_amount: u64, min_long: u64, min_short: u64, exec_lamports: u64) -> std::result::Result<Wd, (ProgramError, bool)> {
        let key = self.withdrawal_key(&owner, &nonce);
        let params = gmsol_store::ops::withdrawal::CreateWithdrawalParams { execution_lamports: exec_lamports, long_token_swap_path_length: 0, short_token_swap_path_length: 0,
            market_token_amount: mt_amount, min_long_token_amount: min_long, min_short_token_amount: min_short, should_unwrap_native_token: false };
        let (l, s, mt) = (self.long, self.short, self.market_token);
        let metas = [sg(owner), ro(receiver), ro(self.store), rw(self.market), rw(key), ro(mt), ro(l), ro(s),
            rw(ata(&key, &mt)), rw(ata(&key, &l)), rw(ata(&key, &s)), rw(ata(&owner, &mt)), ro(SYS), ro(spl_token::ID), ro(ata_prog::ID)];
        self.b.run(gmsol_store::ID, &metas, &gmsol_store::instruction::CreateWithdrawal { nonce, params }.data())?;
        Ok(Wd { owner, receiver, key, exec_lamports })
    }

    fn execute_withdrawal(&mut self, authority: Pubkey, w: &Wd, execution_fee: u64, throw: bool) -> std::result::Result<(), (ProgramError, bool)> {
        let (l, s, mt) = (self.long, self.short, self.market_token);
        let metas = [sg(authority), ro(self.store), ro(self.token_map), rw(self.oracle), rw(self.market), rw(w.key), rw(mt), ro(l), ro(s),
            rw(ata(&w.key, &mt)), rw(ata(&w.key, &l)), rw(ata(&w.key, &s)), rw(self.mt_vault), rw(self.long_vault), rw(self.short_vault),
            ro(spl_token::ID), ro(SYS), ro(gmsol_store::ID), ro(self.event_authority), ro(gmsol_store::ID), ro(self.feeds[0]), ro(self.feeds[1])];
        self.b.run(gmsol_store::ID, &metas, &gmsol_store::instruction::ExecuteWithdrawal { execution_fee, throw_on_execution_error: throw }.data())
    }

    fn close_withdrawal(&mut self, executor: Pubkey, w: &Wd) -> std::result::Result<(), (ProgramError, bool)> {
        let (l, s, mt) = (self.long, self.short, self.market_token);
        let metas = [sg(executor), ro(self.store), rw(self.store_wallet), rw(w.owner), rw(w.receiver), ro(mt), ro(l), ro(s), rw(w.key),
            rw(ata(&w.key, &mt)), rw(ata(&w.key, &l)), rw(ata(&w.key, &s)), rw(ata(&w.owner, &mt)), rw(ata(&w.receiver, &l)), rw(ata(&w.receiver, &s)),
            ro(SYS), ro(spl_token::ID), ro(ata_prog::ID), ro(self.event_authority), ro(gmsol_store::ID)];
        self.b.run(gmsol_store::ID, &metas, &gmsol_store::instruction::CloseWithdrawal { reason: "test".to_string() }.data())
    }
}

#[derive(Clone)]
struct Ord { owner: Pubkey, receiver: Pubkey, key: Pubkey, exec_lamports: u64, long_to_short: bool }

impl World {
    fn user_header_key(&self, owner: &Pubkey) -> Pubkey {
        Pubkey::find_program_address(&[gmsol_store::states::user::UserHeader::SEED, self.store.as_ref(), owner.as_ref()], &gmsol_store::ID).0
    }
    fn prepare_user(&mut self, owner: Pubkey) -> std::result::Result<(), (ProgramError, bool)> {
        let uh = self.user_header_key(&owner);
        self.b.run(gmsol_store::ID, &[sg(owner), ro(self.store), rw(uh), ro(SYS)], &gmsol_store::instruction::PrepareUser {}.data())
    }
    fn order_key(&self, owner: &Pubkey, nonce: &[u8; 32]) -> Pubkey {
        Pubkey::find_program_address(&[gmsol_store::states::order::Order::SEED, self.store.as_ref(), owner.as_ref(), nonce], &gmsol_store::ID).0
    }

    /// market swap order: `amount` of long (or short) collateral in, the other token out
    fn create_swap_order(&mut self, owner: Pubkey, receiver: Pubkey, nonce: [u8; 32], long_to_short: bool, amount: u64, min_output: u128, exec_lamports: u64) -> std::result::Result<Ord, (ProgramError, bool)> {
        let key = self.order_key(&owner, &nonce);
        let (tin, tout) = if long_to_short { (self.long, self.short) } else { (self.short, self.long) };
        let params = gmsol_store::ops::order::CreateOrderParams { kind: gmsol_utils::order::OrderKind::MarketSwap, decrease_position_swap_type: None, execution_lamports: exec_lamports,
            swap_path_length: 1, initial_collateral_delta_amount: amount, size_delta_value: 0, is_long: true, is_collateral_long: true, min_output: Some(min_output),
            trigger_price: None, acceptable_price: None, should_unwrap_native_token: false, valid_from_ts: None };
        let pid = gmsol_store::ID;
        let metas = [sg(owner), ro(receiver), ro(self.store), rw(self.market), rw(self.user_header_key(&owner)), rw(key), ro(pid),
            ro(tin), ro(tout), ro(pid), ro(pid), rw(ata(&key, &tin)), rw(ata(&key, &tout)), ro(pid), ro(pid), rw(ata(&owner, &tin)),
            ro(SYS), ro(spl_token::ID), ro(ata_prog::ID), ro(pid), ro(pid), ro(pid), ro(pid), ro(self.event_authority), ro(pid), ro(self.market)];
        self.b.run(pid, &metas, &gmsol_store::instruction::CreateOrderV2 { nonce, params, callback_version: None }.data())?;
        Ok(Ord { owner, receiver, key, exec_lamports, long_to_short })
    }

    fn execute_swap_order(&mut self, authority: Pubkey, o: &Ord, execution_fee: u64, throw: bool) -> std::result::Result<(), (ProgramError, bool)> {
        let (tin, tout, vin, vout) = if o.long_to_short { (self.long, self.short, self.long_vault, self.short_vault) } else { (self.short, self.long, self.short_vault, self.long_vault) };
        let pid = gmsol_store::ID;
        let metas = [sg(authority), rw(self.store), ro(self.token_map), rw(self.oracle), rw(self.market), rw(o.owner), rw(self.user_header_key(&o.owner)), rw(o.key), ro(pid), ro(pid),
            ro(tin), ro(tout), ro(pid), ro(pid), rw(ata(&o.key, &tin)), rw(ata(&o.key, &tout)), ro(pid), ro(pid), rw(vin), rw(vout), ro(pid), ro(pid),
            ro(spl_token::ID), ro(SYS), ro(pid), ro(pid), ro(pid), ro(pid), ro(self.event_authority), ro(pid), ro(self.feeds[0]), ro(self.feeds[1])];
        self.b.run(pid, &metas, &gmsol_store::instruction::ExecuteIncreaseOrSwapOrderV2 { recent_timestamp: NOW.load(Ordering::SeqCst), execution_fee, throw_on_execution_error: throw }.data())
    }

    fn close_order(&mut self, executor: Pubkey, o: &Ord) -> std::result::Result<(), (ProgramError, bool)> {
        let (tin, tout) = if o.long_to_short { (self.long, self.short) } else { (self.short, self.long) };
        let pid = gmsol_store::ID;
        let metas = [sg(executor), rw(self.store), rw(self.store_wallet), rw(o.owner), rw(o.receiver), rw(o.owner), rw(self.user_header_key(&o.owner)), ro(pid), rw(o.key),
            ro(tin), ro(tout), ro(pid), ro(pid), rw(ata(&o.key, &tin)), rw(ata(&o.key, &tout)), ro(pid), ro(pid),
            rw(ata(&o.owner, &tin)), rw(ata(&o.receiver, &tout)), ro(pid), ro(pid), ro(SYS), ro(spl_token::ID), ro(ata_prog::ID), ro(pid), ro(pid), ro(pid), ro(pid), ro(self.event_authority), ro(pid)];
        self.b.run(pid, &metas, &gmsol_store::instruction::CloseOrderV2 { reason: "test".to_string() }.data())
    }
}

#[derive(Clone)]
struct PosOrd { owner: Pubkey, receiver: Pubkey, key: Pubkey, exec_lamports: u64 }

/// narrow slice of position orders: LONG position with LONG-token collateral, no swap path
impl World {
    fn position_key(&self, owner: &Pubkey) -> Pubkey {
        Pubkey::find_program_address(&[gmsol_store::states::position::Position::SEED, self.store.as_ref(), owner.as_ref(), self.market_token.as_ref(), self.long.as_ref(), &[gmsol_store::states::position::PositionKind::Long as u8]], &gmsol_store::ID).0
    }
    fn trade_event_key(&self) -> Pubkey {
        Pubkey::find_program_address(&[gmsol_store::events::TradeData::SEED, self.store.as_ref(), self.keeper.as_ref(), &0u16.to_le_bytes()], &gmsol_store::ID).0
    }
    fn increase_params(&self, collateral: u64, size: u128, acceptable: Option<u128>, exec_lamports: u64) -> gmsol_store::ops::order::CreateOrderParams {
        gmsol_store::ops::order::CreateOrderParams { kind: gmsol_utils::order::OrderKind::MarketIncrease, decrease_position_swap_type: None, execution_lamports: exec_lamports,
            swap_path_length: 0, initial_collateral_delta_amount: collateral, size_delta_value: size, is_long: true, is_collateral_long: true, min_output: None,
            trigger_price: None, acceptable_price: acceptable, should_unwrap_native_token: false, valid_from_ts: None }
    }
    fn prepare_position(&mut self, owner: Pubkey) -> std::result::Result<(), (ProgramError, bool)> {
        let params = self.increase_params(1, 1, None, 300_000);
        self.b.run(gmsol_store::ID, &[sg(owner), ro(self.store), ro(self.market), rw(self.position_key(&owner)), ro(SYS)], &gmsol_store::instruction::PreparePosition { params }.data())
    }
    fn prepare_trade_event(&mut self) -> std::result::Result<(), (ProgramError, bool)> {
        let k = self.keeper;
        self.b.run(gmsol_store::ID, &[sg(k), ro(self.store), rw(self.trade_event_key()), ro(SYS)], &gmsol_store::instruction::PrepareTradeEventBuffer { index: 0 }.data())
    }
    fn create_increase_order(&mut self, owner: Pubkey, receiver: Pubkey, nonce: [u8; 32], collateral: u64, size: u128, acceptable: Option<u128>, exec_lamports: u64) -> std::result::Result<PosOrd, (ProgramError, bool)> {
        let key = self.order_key(&owner, &nonce);
        let params = self.increase_params(collateral, size, acceptable, exec_lamports);
        let pid = gmsol_store::ID;
        let (l, s) = (self.long, self.short);
        let metas = [sg(owner), ro(receiver), ro(self.store), rw(self.market), rw(self.user_header_key(&owner)), rw(key), rw(self.position_key(&owner)),
            ro(l), ro(l), ro(l), ro(s), rw(ata(&key, &l)), ro(pid), rw(ata(&key, &l)), rw(ata(&key, &s)), rw(ata(&owner, &l)),
            ro(SYS), ro(spl_token::ID), ro(ata_prog::ID), ro(pid), ro(pid), ro(pid), ro(pid), ro(self.event_authority), ro(pid)];
        self.b.run(pid, &metas, &gmsol_store::instruction::CreateOrderV2 { nonce, params, callback_version: None }.data())?;
        Ok(PosOrd { owner, receiver, key, exec_lamports })
    }
    fn execute_increase_order(&mut self, authority: Pubkey, o: &PosOrd, execution_fee: u64, throw: bool) -> std::result::Result<(), (ProgramError, bool)> {
        let pid = gmsol_store::ID;
        let (l, s) = (self.long, self.short);
        let metas = [sg(authority), rw(self.store), ro(self.token_map), rw(self.oracle), rw(self.market), rw(o.owner), rw(self.user_header_key(&o.owner)), rw(o.key), rw(self.position_key(&o.owner)), rw(self.trade_event_key()),
            ro(l), ro(pid), ro(l), ro(s), rw(ata(&o.key, &l)), ro(pid), rw(ata(&o.key, &l)), rw(ata(&o.key, &s)), rw(self.long_vault), ro(pid), rw(self.long_vault), rw(self.short_vault),
            ro(spl_token::ID), ro(SYS), ro(pid), ro(pid), ro(pid), ro(pid), ro(self.event_authority), ro(pid), ro(self.feeds[0]), ro(self.feeds[1])];
        self.b.run(pid, &metas, &gmsol_store::instruction::ExecuteIncreaseOrSwapOrderV2 { recent_timestamp: NOW.load(Ordering::SeqCst), execution_fee, throw_on_execution_error: throw }.data())
    }
    fn close_increase_order(&mut self, executor: Pubkey, o: &PosOrd) -> std::result::Result<(), (ProgramError, bool)> {
        let pid = gmsol_store::ID;
        let (l, s) = (self.long, self.short);
        let metas = [sg(executor), rw(self.store), rw(self.store_wallet), rw(o.owner), rw(o.receiver), rw(o.owner), rw(self.user_header_key(&o.owner)), ro(pid), rw(o.key),
            ro(l), ro(pid), ro(l), ro(s), rw(ata(&o.key, &l)), ro(pid), rw(ata(&o.key, &l)), rw(ata(&o.key, &s)),
            rw(ata(&o.owner, &l)), ro(pid), rw(ata(&o.receiver, &l)), rw(ata(&o.receiver, &s)), ro(SYS), ro(spl_token::ID), ro(ata_prog::ID), ro(pid), ro(pid), ro(pid), ro(pid), ro(self.event_authority), ro(pid)];
        self.b.run(pid, &metas, &gmsol_store::instruction::CloseOrderV2 { reason: "test".to_string() }.data())
    }
}

/// decrease orders on the same narrow slice (LONG position, LONG-token collateral, no swap path)
impl World {
    fn claimable_key(&self, mint: &Pubkey, owner: &Pubkey, ts: i64) -> Pubkey {
        let st: Box<gmsol_store::states::Store> = Box::new(pod(&self.b.get(&self.store).data));
        let key = st.claimable_time_key(ts).expect("time key");
        Pubkey::find_program_address(&[gmsol_store::constants::CLAIMABLE_ACCOUNT_SEED, self.store.as_ref(), mint.as_ref(), owner.as_ref(), &key], &gmsol_store::ID).0
    }
    fn holding(&self) -> Pubkey { let st: Box<gmsol_store::states::Store> = Box::new(pod(&self.b.get(&self.store).data)); *st.holding() }
    /// `use_claimable_account` for the three accounts a decrease execution needs (keeper pays)
    fn prepare_claimables(&mut self, owner: Pubkey, ts: i64) -> std::result::Result<[Pubkey; 3], (ProgramError, bool)> {
        let (l, s, k, h) = (self.long, self.short, self.keeper, self.holding());
        let accs = [(l, owner), (s, owner), (l, h)];
        let mut keys = [Pubkey::default(); 3];
        for (i, (mint, who)) in accs.into_iter().enumerate() {
            let acc = self.claimable_key(&mint, &who, ts);
            self.b.run(gmsol_store::ID, &[sg(k), ro(self.store), ro(mint), ro(who), rw(acc), ro(SYS), ro(spl_token::ID)],
                &gmsol_store::instruction::UseClaimableAccount { timestamp: ts, amount: 0 }.data())?;
            keys[i] = acc;
        }
        Ok(keys)
    }
    fn create_decrease_order(&mut self, owner: Pubkey, receiver: Pubkey, nonce: [u8; 32], collateral_withdraw: u64, size: u128, acceptable: Option<u128>, exec_lamports: u64) -> std::result::Result<PosOrd, (ProgramError, bool)> {
        let key = self.order_key(&owner, &nonce);
        let params = gmsol_store::ops::order::CreateOrderParams { kind: gmsol_utils::order::OrderKind::MarketDecrease, decrease_position_swap_type: Some(gmsol_model::action::decrease_position::DecreasePositionSwapType::NoSwap), execution_lamports: exec_lamports,
            swap_path_length: 0, initial_collateral_delta_amount: collateral_withdraw, size_delta_value: size, is_long: true, is_collateral_long: true, min_output: None,
            trigger_price: None, acceptable_price: acceptable, should_unwrap_native_token: false, valid_from_ts: None };
        let pid = gmsol_store::ID;
        let (l, s) = (self.long, self.short);
        let metas = [sg(owner), ro(receiver), ro(self.store), rw(self.market), rw(self.user_header_key(&owner)), rw(key), rw(self.position_key(&owner)),
            ro(pid), ro(l), ro(l), ro(s), ro(pid), rw(ata(&key, &l)), rw(ata(&key, &l)), rw(ata(&key, &s)), ro(pid),
            ro(SYS), ro(spl_token::ID), ro(ata_prog::ID), ro(pid), ro(pid), ro(pid), ro(pid), ro(self.event_authority), ro(pid)];
        self.b.run(pid, &metas, &gmsol_store::instruction::CreateOrderV2 { nonce, params, callback_version: None }.data())?;
        Ok(PosOrd { owner, receiver, key, exec_lamports })
    }
    fn execute_decrease_order(&mut self, authority: Pubkey, o: &PosOrd, execution_fee: u64, throw: bool, claim: &[Pubkey; 3], ts: i64) -> std::result::Result<(), (ProgramError, bool)> {
        let pid = gmsol_store::ID;
        let (l, s) = (self.long, self.short);
        let metas = [sg(authority), rw(self.store), ro(self.token_map), rw(self.oracle), rw(self.market), rw(o.owner), rw(self.user_header_key(&o.owner)), rw(o.key), rw(self.position_key(&o.owner)), rw(self.trade_event_key()),
            ro(l), ro(l), ro(s), rw(ata(&o.key, &l)), rw(ata(&o.key, &l)), rw(ata(&o.key, &s)), rw(self.long_vault), rw(self.long_vault), rw(self.short_vault),
            rw(claim[0]), rw(claim[1]), rw(claim[2]), ro(spl_token::ID), ro(SYS), ro(pid), ro(pid), ro(pid), ro(pid), ro(self.event_authority), ro(pid), ro(self.feeds[0]), ro(self.feeds[1])];
        self.b.run(pid, &metas, &gmsol_store::instruction::ExecuteDecreaseOrderV2 { recent_timestamp: ts, execution_fee, throw_on_execution_error: throw }.data())
    }
    fn close_decrease_order(&mut self, executor: Pubkey, o: &PosOrd) -> std::result::Result<(), (ProgramError, bool)> {
        let pid = gmsol_store::ID;
        let (l, s) = (self.long, self.short);
        let metas = [sg(executor), rw(self.store), rw(self.store_wallet), rw(o.owner), rw(o.receiver), rw(o.owner), rw(self.user_header_key(&o.owner)), ro(pid), rw(o.key),
            ro(pid), ro(l), ro(l), ro(s), ro(pid), rw(ata(&o.key, &l)), rw(ata(&o.key, &l)), rw(ata(&o.key, &s)),
            ro(pid), rw(ata(&o.receiver, &l)), rw(ata(&o.receiver, &l)), rw(ata(&o.receiver, &s)), ro(SYS), ro(spl_token::ID), ro(ata_prog::ID), ro(pid), ro(pid), ro(pid), ro(pid), ro(self.event_authority), ro(pid)];
        self.b.run(pid, &metas, &gmsol_store::instruction::CloseOrderV2 { reason: "test".to_string() }.data())
    }
}

fn smoke() {
    let mut w = World::new();
    let u = w.user(0, 1_000_000_000_000, 5_000_000_000);
    let (l, sh, mt) = (w.long, w.short, w.market_token);
    w.prepare_user(u).unwrap();
    let dk = w.deposit_key(&u, &[9; 32]);
    for m in [mt, l, sh] { w.prepare_escrow(u, dk, m).unwrap(); }
    let d = w.create_deposit(u, u, [9; 32], 20_000_000_000, 3_000_000_000, 0, 500_000, true, true).unwrap();
    w.set_prices(150_00000000, 1_00000000, NOW.load(Ordering::SeqCst));
    let feeds = w.feeds;
    w.execute_deposit(w.keeper, &d, 300_000, true, true, true, &feeds).unwrap();
    w.close_deposit(u, &d, true, true).unwrap();
    println!("prepare position: {:?}", w.prepare_position(u));
    println!("prepare trade event: {:?}", w.prepare_trade_event());
    let ok = w.order_key(&u, &[3; 32]);
    for m in [l, sh] { w.prepare_escrow(u, ok, m).unwrap(); }
    let unit = 100_000_000_000_000_000_000u128;
    let r = w.create_increase_order(u, u, [3; 32], 1_000_000_000, 300 * unit, None, 400_000);
    println!("create increase: {:?} cpis={:?}", r.as_ref().map(|_| ()), CPI_LOG.lock().unwrap());
    let Ok(o) = r else { return };
    w.set_prices(150_00000000, 1_00000000, NOW.load(Ordering::SeqCst));
    let r = w.execute_increase_order(w.keeper, &o, 200_000, true);
    println!("exec increase: {r:?} cpis={:?} events={}", CPI_LOG.lock().unwrap(), EVENTS.lock().unwrap().len());
    println!("order escrow long {:?} vaults {:?} rec {:?}", token_amount(&w.b, &ata(&ok, &l)), (token_amount(&w.b, &w.long_vault), token_amount(&w.b, &w.short_vault)), { let m: Box<gmsol_store::states::Market> = Box::new(pod(&w.b.get(&w.market).data)); (m.state().long_token_balance_raw(), m.state().short_token_balance_raw()) });
    let r = w.close_increase_order(u, &o);
    println!("close increase: {r:?} cpis={:?}", CPI_LOG.lock().unwrap());
    let now = NOW.load(Ordering::SeqCst);
    let psize = |w: &World| { let a = w.b.get(&w.position_key(&u)); if a.data.is_empty() { None } else { let p: gmsol_store::states::position::Position = pod(&a.data); Some((p.state.size_in_usd / unit, p.state.collateral_amount)) } };
    println!("position {:?}", psize(&w));
    for (j, (size, price)) in [(100 * unit, 150u128), (200 * unit - unit / 2, 165)].into_iter().enumerate() {
        let n = [20 + j as u8; 32];
        let ok2 = w.order_key(&u, &n);
        for m in [l, sh] { w.prepare_escrow(u, ok2, m).unwrap(); }
        let r = w.create_decrease_order(u, u, n, 0, size, None, 400_000);
        println!("create decrease: {:?}", r.as_ref().map(|_| ()));
        let Ok(o2) = r else { return };
        w.set_prices(price * 100000000, 1_00000000, now);
        let cl = w.prepare_claimables(u, now);
        println!("claimables: {:?} cpis={:?}", cl.as_ref().map(|_| ()), CPI_LOG.lock().unwrap());
        let Ok(cl) = cl else { return };
        let r = w.execute_decrease_order(w.keeper, &o2, 100_000, true, &cl, now);
        println!("exec decrease: {r:?} cpis={:?}", CPI_LOG.lock().unwrap());
        println!("  position {:?} escrow long {:?} short {:?} vaults {:?} claim {:?}", psize(&w), token_amount(&w.b, &ata(&ok2, &l)), token_amount(&w.b, &ata(&ok2, &sh)), (token_amount(&w.b, &w.long_vault), token_amount(&w.b, &w.short_vault)), cl.iter().map(|k| token_amount(&w.b, k)).collect::<Vec<_>>());
        let r = w.close_decrease_order(u, &o2);
        println!("close decrease: {r:?} cpis={:?} user long {:?}", CPI_LOG.lock().unwrap(), token_amount(&w.b, &ata(&u, &l)));
    }
}

// ---------------------------------------------------------------- harness: protocol, oracle, generator

const NUSERS: u8 = 3;
const NSLOTS: u8 = 3;
const LONG0: u64 = 1_000_000_000_000;
const SHORT0: u64 = 5_000_000_000;

#[derive(Clone)]
enum Handle { D(Dep), W(Wd), O(Ord), P(PosOrd), X(PosOrd) }
impl Handle {
    fn key(&self) -> Pubkey { match self { Handle::D(d) => d.key, Handle::W(w) => w.key, Handle::O(o) => o.key, Handle::P(o) | Handle::X(o) => o.key } }
    fn owner(&self) -> Pubkey { match self { Handle::D(d) => d.owner, Handle::W(w) => w.owner, Handle::O(o) => o.owner, Handle::P(o) | Handle::X(o) => o.owner } }
    fn receiver(&self) -> Pubkey { match self { Handle::D(d) => d.receiver, Handle::W(w) => w.receiver, Handle::O(o) => o.receiver, Handle::P(o) | Handle::X(o) => o.receiver } }
    fn exec_lamports(&self) -> u64 { match self { Handle::D(d) => d.exec_lamports, Handle::W(w) => w.exec_lamports, Handle::O(o) => o.exec_lamports, Handle::P(o) | Handle::X(o) => o.exec_lamports } }
}
type Id = (u8, char, u8);
struct Sid { w: World, now: i64, acts: BTreeMap<Id, Handle>, changes: BTreeMap<Id, u32>, fees: [u128; 3], lam0: [u128; 3] }

fn parse_id(t: &str) -> Option<Id> {
    let p: Vec<&str> = t.split('.').collect();
    if p.len() != 3 || p[1].len() != 1 { return None; }
    let (u, k, i) = (p[0].parse::<u8>().ok()?, p[1].chars().next()?, p[2].parse::<u8>().ok()?);
    (u < NUSERS && i < NSLOTS && "dwstix".contains(k)).then_some((u, k, i))
}
fn user_key(u: u8) -> Pubkey { Pubkey::new_from_array([100 + u; 32]) }
fn nonce_of(k: char, i: u8) -> [u8; 32] { [(k as u8).wrapping_mul(7).wrapping_add(i + 1); 32] }
fn action_key(w: &World, id: Id) -> Pubkey {
    let (o, n) = (user_key(id.0), nonce_of(id.1, id.2));
    match id.1 { 'd' => w.deposit_key(&o, &n), 'w' => w.withdrawal_key(&o, &n), _ => w.order_key(&o, &n) }
}
fn who(w: &World, t: &str) -> Option<Pubkey> {
    match t { "k" => Some(w.keeper), "a" => Some(w.admin), _ => { let u: u8 = t.strip_prefix('u')?.parse().ok()?; (u < NUSERS).then(|| user_key(u)) } }
}
fn act_state(w: &World, id: Id) -> Option<u8> {
    use gmsol_store::states::common::action::{Action, ActionState};
    let a = w.b.m.get(&action_key(w, id))?;
    let st = match id.1 {
        'd' => { let x: gmsol_store::states::Deposit = pod(&a.data); x.header().action_state().ok()? }
        'w' => { let x: gmsol_store::states::withdrawal::Withdrawal = pod(&a.data); x.header().action_state().ok()? }
        _ => { let x: Box<gmsol_store::states::order::Order> = Box::new(pod(&a.data)); x.header().action_state().ok()? }
    };
    Some(match st { ActionState::Pending => 0, ActionState::Completed => 1, ActionState::Cancelled => 2, _ => 9 })
}
fn bal(w: &World, owner: &Pubkey, mint: &Pubkey) -> u64 { token_amount(&w.b, &ata(owner, mint)).unwrap_or(0) }
fn esc(w: &World, key: &Pubkey) -> (u64, u64, u64) { (bal(w, key, &w.long), bal(w, key, &w.short), bal(w, key, &w.market_token)) }
fn vaults(w: &World) -> (u64, u64) { (token_amount(&w.b, &w.long_vault).unwrap_or(0), token_amount(&w.b, &w.short_vault).unwrap_or(0)) }
fn recorded(w: &World) -> (u64, u64) { let m: Box<gmsol_store::states::Market> = Box::new(pod(&w.b.get(&w.market).data)); (m.state().long_token_balance_raw(), m.state().short_token_balance_raw()) }

fn pos_info(w: &World, u: u8) -> Option<u128> { let a = w.b.get(&w.position_key(&user_key(u))); if a.data.is_empty() { None } else { let p: gmsol_store::states::position::Position = pod(&a.data); Some(p.state.size_in_usd / 1_000_000_000_000_000_000u128) } }
/// tokens sitting in claimable accounts: every store-authority token account that is neither a vault nor the burn vault
fn claim_totals(w: &World) -> (u64, u64) {
    let (mut l, mut s) = (0u64, 0u64);
    for (k, a) in &w.b.m { if a.owner == spl_token::ID && a.data.len() == spl_token::state::Account::LEN && ![w.long_vault, w.short_vault, w.mt_vault].contains(k) { if let Ok(acc) = spl_token::state::Account::unpack(&a.data) { if acc.owner == w.store { if acc.mint == w.long { l += acc.amount; } else if acc.mint == w.short { s += acc.amount; } } } } }
    (l, s)
}
fn digest(s: &Sid) -> String {
    let w = &s.w;
    let users: Vec<String> = (0..NUSERS).map(|u| { let k = user_key(u); format!("{u}:{}:{}:{}", bal(w, &k, &w.long), bal(w, &k, &w.short), bal(w, &k, &w.market_token)) }).collect();
    let acts: Vec<String> = s.acts.keys().filter_map(|id| act_state(w, *id).map(|st| { let e = esc(w, &action_key(w, *id)); let rc = s.acts[id].receiver().to_bytes()[0] - 100; format!("{}.{}.{}:{st}:{}:{}:{}:r{rc}", id.0, id.1, id.2, e.0, e.1, e.2) })).collect();
    let (v, r) = (vaults(w), recorded(w));
    let ps: Vec<String> = (0..NUSERS).map(|u| match pos_info(w, u) { Some(sz) => format!("{u}:{sz}"), None => format!("{u}:_") }).collect();
    let c = claim_totals(w);
    format!("now={} users=[{}] acts=[{}] vault={}:{} rec={}:{} supply={} pos=[{}] claim={}:{}", s.now, users.join(","), acts.join(","), v.0, v.1, r.0, r.1, mint_supply(&w.b, &w.market_token), ps.join(","), c.0, c.1)
}

/// token totals per mint over every token account in the ledger
fn totals(w: &World) -> BTreeMap<Pubkey, u128> {
    let mut t = BTreeMap::new();
    for a in w.b.m.values() { if a.owner == spl_token::ID && a.data.len() == spl_token::state::Account::LEN { if let Ok(acc) = spl_token::state::Account::unpack(&a.data) { *t.entry(acc.mint).or_insert(0u128) += acc.amount as u128; } } }
    t
}

fn owner_side_lamports(w: &World, u: u8) -> u64 {
    let owner = user_key(u);
    let mut keys: Vec<Pubkey> = vec![owner];
    for k in ['d', 'w', 's', 't', 'i', 'x'] { for i in 0..NSLOTS { keys.push(action_key(w, (u, k, i))); } }
    keys.push(w.position_key(&owner));
    keys.dedup();
    let mut seen: Vec<Pubkey> = Vec::new();
    let mut total = w.b.get(&w.user_header_key(&owner)).lamports;
    for k in keys { if seen.contains(&k) { continue; } seen.push(k); total += w.b.get(&k).lamports; for m in [w.long, w.short, w.market_token] { total += w.b.get(&ata(&k, &m)).lamports; } }
    total
}

/// independent property oracle after EVERY successful instruction
fn invariants(s: &Sid, before_tot: &BTreeMap<Pubkey, u128>, req: &str, out: &mut Out) {
    let w = &s.w;
    let ((vl, vs), (rl, rs)) = (vaults(w), recorded(w));
    if rl > vl || rs > vs { out.oracle_fail(&format!("recorded market balance exceeds the vault: rec {rl}:{rs} vault {vl}:{vs}"), req); }
    let t = totals(w);
    for m in [w.long, w.short] { if t.get(&m) != before_tot.get(&m) { out.oracle_fail("collateral tokens were created or destroyed", req); } }
    if t.get(&w.market_token).copied().unwrap_or(0) != mint_supply(&w.b, &w.market_token) as u128 { out.oracle_fail("market token supply differs from the sum of holdings", req); }
    if token_amount(&w.b, &w.mt_vault).unwrap_or(0) != 0 { out.oracle_fail("market tokens were left in the burn vault", req); }
    for u in 0..NUSERS { if owner_side_lamports(w, u) as u128 + s.fees[u as usize] != s.lam0[u as usize] { out.oracle_fail(&format!("lamports of user {u} leaked: not all unused lamports are with the owner"), req); } }
}

fn run_exec(w: &mut World, auth: Pubkey, h: &Handle, fee: u64, throw: bool) -> std::result::Result<(), (ProgramError, bool)> {
    let feeds = w.feeds;
    match h { Handle::D(d) => w.execute_deposit(auth, d, fee, throw, true, true, &feeds), Handle::W(x) => w.execute_withdrawal(auth, x, fee, throw), Handle::O(o) => w.execute_swap_order(auth, o, fee, throw), Handle::P(o) => w.execute_increase_order(auth, o, fee, throw),
        Handle::X(o) => { let ts = NOW.load(Ordering::SeqCst); let cl = w.prepare_claimables(o.owner, ts)?; w.execute_decrease_order(auth, o, fee, throw, &cl, ts) } }
}
/// the amounts only the pool maths decides: (x, y) = deposit (minted, 0) | withdrawal (out long, out short) | swap (out, 0)
fn result_amounts(w: &World, id: Id, key: &Pubkey) -> (u64, u64) {
    let e = esc(w, key);
    match id.1 { 'd' => (e.2, 0), 'w' | 'x' => (e.0, e.1), 's' => (e.1, 0), 't' => (e.0, 0), _ => (0, 0) }
}

// ---------------------------------------------------------------- market-pool oracle (C22, first clause) — independent of the model
/// every pool of the stored Market, read with the program's public `Market::pool` accessor: (long amount, short amount)
const POOL_KINDS: [gmsol_model::PoolKind; 16] = { use gmsol_model::PoolKind::*; [Primary, SwapImpact, ClaimableFee, OpenInterestForLong, OpenInterestForShort,
    OpenInterestInTokensForLong, OpenInterestInTokensForShort, PositionImpact, BorrowingFactor, FundingAmountPerSizeForLong, FundingAmountPerSizeForShort,
    ClaimableFundingAmountPerSizeForLong, ClaimableFundingAmountPerSizeForShort, CollateralSumForLong, CollateralSumForShort, TotalBorrowing] };
#[derive(Clone, PartialEq, Debug)]
struct PoolSnap { pools: Vec<Option<(u128, u128)>>, rec: (u64, u64) }
impl PoolSnap {
    fn take(w: &World) -> Option<PoolSnap> {
        use gmsol_model::Balance;
        let a = w.b.get(&w.market);
        if a.data.is_empty() { return None; }
        let m: Box<gmsol_store::states::Market> = Box::new(pod(&a.data));
        let pools = POOL_KINDS.iter().map(|k| m.pool(*k).map(|p| (p.long_amount().unwrap_or(u128::MAX), p.short_amount().unwrap_or(u128::MAX)))).collect();
        Some(PoolSnap { pools, rec: (m.state().long_token_balance_raw(), m.state().short_token_balance_raw()) })
    }
    fn kind(&self, i: usize) -> (u128, u128) { self.pools[i].unwrap_or((0, 0)) }
    /// liquidity + swap impact + claimable fee, per token
    fn min_balance(&self) -> (u128, u128) { let (a, b, c) = (self.kind(0), self.kind(1), self.kind(2)); (a.0 + b.0 + c.0, a.1 + b.1 + c.1) }
    /// position collateral held in each token (long positions + short positions)
    fn collateral(&self) -> (u128, u128) { let (a, b) = (self.kind(13), self.kind(14)); (a.0 + b.0, a.1 + b.1) }
}

/// the REAL `validate_market_balances(0, 0)` on the stored market (hook `verif::c44::validate_balances`)
fn real_validate_market_balances(w: &World) -> bool {
    let a = w.b.get(&w.market);
    let mut buf = vec![0u128; (a.data.len() + 8) / 16 + 2];
    let bytes = bytemuck::cast_slice_mut::<u128, u8>(&mut buf);
    bytes[8..8 + a.data.len()].copy_from_slice(&a.data);
    let (mut lam, mut lam2) = (a.lamports, 0u64);
    let (key, owner, ek) = (w.market, a.owner, w.event_authority);
    let mut empty: [u8; 0] = [];
    let infos = [AccountInfo::new(&key, false, true, &mut lam, &mut bytes[8..8 + a.data.len()], &owner, false, 0),
                 AccountInfo::new(&ek, false, false, &mut lam2, &mut empty, &SYS, false, 0)];
    let infos = lifetime_hack(&infos);
    let Ok(loader) = AccountLoader::<gmsol_store::states::Market>::try_from(&infos[0]) else { return false };
    let _q = Quiet::new();
    gmsol_store::verif::c44::validate_balances(&loader, &infos[1], (0, 0)).is_ok()
}

/// after EVERY instruction: (1) the recorded balance covers liquidity + swap impact + claimable fees and, separately,
/// the position collateral — by the real validator AND recomputed here from the pool amounts; (2) anything but a
/// completed execution leaves every pool identical; (3) a completed deposit / withdrawal / swap changes
/// liquidity + swap impact + claimable fees by exactly what it moved into / out of the recorded balance.
fn pool_oracle(w: &World, before: &Option<PoolSnap>, completed: bool, exact: bool, req: &str, out: &mut Out) {
    let Some(after) = PoolSnap::take(w) else { return };
    let (mb, col) = (after.min_balance(), after.collateral());
    let covered = mb.0 <= after.rec.0 as u128 && mb.1 <= after.rec.1 as u128 && col.0 <= after.rec.0 as u128 && col.1 <= after.rec.1 as u128;
    if !covered { out.oracle_fail(&format!("recorded balance {:?} does not cover liquidity + swap impact + claimable fees {:?} / collateral {:?}", after.rec, mb, col), req); }
    if real_validate_market_balances(w) != covered { out.oracle_fail("the real validate_market_balances(0, 0) disagrees with the inequality recomputed from the pools", req); }
    let Some(b) = before else { return };
    if !completed {
        if b.pools != after.pools { out.oracle_fail("a rejected instruction / a cancelled execution changed the pools of the market", req); }
    } else if exact {
        let mb0 = b.min_balance();
        let d = |x: u128, y: u128| x as i128 - y as i128;
        if d(mb.0, mb0.0) != d(after.rec.0 as u128, b.rec.0 as u128) || d(mb.1, mb0.1) != d(after.rec.1 as u128, b.rec.1 as u128) {
            out.oracle_fail(&format!("completed execution: liquidity + swap impact + claimable fees moved by {}:{}, the recorded balance by {}:{}", d(mb.0, mb0.0), d(mb.1, mb0.1), d(after.rec.0 as u128, b.rec.0 as u128), d(after.rec.1 as u128, b.rec.1 as u128)), req);
        }
    }
}

fn exec(ss: &mut BTreeMap<String, Sid>, req: &str, out: &mut Out) -> (String, bool) {
    let t: Vec<&str> = req.split(' ').collect();
    let sid = t.get(2).map(|x| x.to_string()).unwrap_or_default();
    let is_new = t.get(1) == Some(&"new");
    let before = if is_new { None } else { ss.get(&sid).and_then(|s| PoolSnap::take(&s.w)) };
    let r = exec_inner(ss, req, out);
    if let Some(s) = ss.get(&sid) {
        let completed = t.get(1) == Some(&"exec") && r.0.starts_with("ok completed");
        pool_oracle(&s.w, &before, completed, EXACT_KIND(&t), req, out);
    }
    r
}
#[allow(non_snake_case)] fn EXACT_KIND(t: &[&str]) -> bool { t.get(4).and_then(|id| id.split('.').nth(1)).map(|k| matches!(k, "d" | "w" | "s" | "t")).unwrap_or(false) }   // position orders: coverage only

fn exec_inner(ss: &mut BTreeMap<String, Sid>, req: &str, out: &mut Out) -> (String, bool) {
    let t: Vec<&str> = req.split(' ').collect();
    let bad = || ("bad-op".to_string(), false);
    if t.len() < 3 || t[0] != "l2" { return bad(); }
    let sid = t[2].to_string();
    if t[1] == "new" {
        if t.len() != 3 { return bad(); }
        NOW.store(1_700_000_000, Ordering::SeqCst);
        let mut w = World::new();
        for u in 0..NUSERS { let k = w.user(u, LONG0, SHORT0); w.prepare_user(k).expect("prepare_user"); let mt = w.market_token; w.prepare_escrow(k, k, mt).expect("mt ata"); w.prepare_position(k).expect("prepare_position"); }
        w.prepare_trade_event().expect("trade event buffer");
        let lam0 = [0u8, 1, 2].map(|u| owner_side_lamports(&w, u) as u128);
        let s = Sid { w, now: 1_700_000_000, acts: BTreeMap::new(), changes: BTreeMap::new(), fees: [0; 3], lam0 };
        let d = digest(&s);
        ss.insert(sid, s);
        return (format!("ok | {d}"), false);
    }
    let Some(s) = ss.get_mut(&sid) else { return bad() };
    NOW.store(s.now, Ordering::SeqCst);
    let tot0 = totals(&s.w);
    match t[1] {
        "tick" => {
            let Some(dt) = t.get(3).and_then(|x| x.parse::<u32>().ok()) else { return bad() };
            if t.len() != 4 || dt > 100_000 { return bad(); }
            s.now += dt as i64;
            (format!("ok | {}", digest(s)), false)
        }
        "price" | "pricex" => {
            let Some(age) = t.get(3).and_then(|x| x.parse::<u32>().ok()) else { return bad() };
            let p: u128 = if t[1] == "pricex" { match t.get(4).and_then(|x| x.parse::<u128>().ok()) { Some(p) if (1..=100_000).contains(&p) => p, _ => return bad() } } else { 150 };
            if t.len() != if t[1] == "pricex" { 5 } else { 4 } || age > 100_000 { return bad(); }
            let now = s.now;
            s.w.set_prices(p * 100_000_000, 1_00000000, now - age as i64);
            (format!("ok | {}", digest(s)), false)
        }
        "create" => {
            if t.len() != 9 { return bad(); }
            let (Some(id), Some(a), Some(b), Some(flag), Some(el), Some(rc)) = (parse_id(&format!("{}.{}.{}", t[3], t[4], t[5])), t[6].parse::<u64>().ok(), t[7].parse::<u64>().ok(), t[8].split(':').next().and_then(|x| x.parse::<u8>().ok()), t[8].split(':').nth(1).and_then(|x| x.parse::<u64>().ok()), t[8].split(':').nth(2).and_then(|x| x.parse::<u8>().ok())) else { return bad() };
            if flag > 1 || el > 50_000_000 || (id.1 != 'd' && id.1 != 'i' && id.1 != 'x' && b != 0) || (id.1 == 'i' && b > 100_000_000) || rc >= NUSERS || t[8].split(':').count() != 3 { return bad(); }
            let receiver = user_key(rc);
            let owner = user_key(id.0);
            let key = action_key(&s.w, id);
            let nonce = nonce_of(id.1, id.2);
            let (lm, sm, mt) = (s.w.long, s.w.short, s.w.market_token);
            let mints: Vec<Pubkey> = match id.1 { 'd' | 'w' => vec![mt, lm, sm], _ => vec![lm, sm] };
            for m in mints { if !s.w.b.m.contains_key(&ata(&key, &m)) { let _ = s.w.prepare_escrow(owner, key, m); } }
            // a soft-failed increase on an empty position closes the position account: (re-)prepare it like the escrows
            if id.1 == 'i' && !s.w.b.m.contains_key(&s.w.position_key(&owner)) { let _ = s.w.prepare_position(owner); }
            let ub = (bal(&s.w, &owner, &lm), bal(&s.w, &owner, &sm), bal(&s.w, &owner, &mt));
            let occupied = s.w.b.m.contains_key(&key);
            let big = flag == 1;
            let r = match id.1 {
                'd' => s.w.create_deposit(owner, receiver, nonce, a, b, if big { u64::MAX } else { 0 }, el, true, true).map(Handle::D),
                'w' => s.w.create_withdrawal(owner, receiver, nonce, a, if big { u64::MAX } else { 0 }, 0, el).map(Handle::W),
                'x' => s.w.create_decrease_order(owner, receiver, nonce, a, b as u128 * 1_000_000_000_000_000_000u128, if big { Some(u128::MAX) } else { None }, el).map(Handle::X),
                'i' => s.w.create_increase_order(owner, receiver, nonce, a, b as u128 * 100_000_000_000_000_000_000u128, if big { Some(1) } else { None }, el).map(Handle::P),
                k => s.w.create_swap_order(owner, receiver, nonce, k == 's', a, if big { u64::MAX as u128 } else { 0 }, el).map(Handle::O),
            };
            match r {
                Err(e) => { if std::env::var("HARNESS_DEBUG").is_ok() { eprintln!("create failed: {:?} cpis={:?} pos={:?} uh={:?} key={:?} escL={:?} escS={:?}", e.0, CPI_LOG.lock().unwrap(), s.w.b.get(&s.w.position_key(&owner)).owner == gmsol_store::ID, s.w.b.get(&s.w.user_header_key(&owner)).owner == gmsol_store::ID, s.w.b.m.contains_key(&key), s.w.b.m.contains_key(&ata(&key, &lm)), s.w.b.m.contains_key(&ata(&key, &sm))); } (format!("err | {}", digest(s)), false) }
                Ok(h) => {
                    if occupied { out.oracle_fail("an action account was created over an existing one", req); }
                    let e = esc(&s.w, &key);
                    let ua = (bal(&s.w, &owner, &lm), bal(&s.w, &owner, &sm), bal(&s.w, &owner, &mt));
                    if (ub.0 - ua.0, ub.1 - ua.1, ub.2 - ua.2) != e { out.oracle_fail("escrow does not hold exactly the tokens taken from the owner", req); }
                    if act_state(&s.w, id) != Some(0) { out.oracle_fail("new action is not pending", req); }
                    s.acts.insert(id, h);
                    s.changes.insert(id, 0);
                    invariants(s, &tot0, req, out);
                    (format!("ok | {}", digest(s)), true)
                }
            }
        }
        "exec" => {
            if t.len() != 11 { return bad(); }
            let dc: Vec<u64> = t[10].split(':').filter_map(|x| x.parse::<u64>().ok()).collect();
            if dc.len() != 4 || dc[3] > 1 { return bad(); }
            let (Some(auth), Some(id), Some(fee), Some(throw), Some(dfail), Some(dx), Some(dy)) = (who(&s.w, t[3]), parse_id(t[4]), t[5].parse::<u64>().ok(), t[6].parse::<u8>().ok(), t[7].parse::<u8>().ok(), t[8].parse::<u64>().ok(), t[9].parse::<u64>().ok()) else { return bad() };
            if throw > 1 || dfail > 2 || (dfail == 2 && id.1 != 'i' && id.1 != 'x') || (id.1 != 'x' && dc != [0, 0, 0, 0]) { return bad(); }
            let Some(h) = s.acts.get(&id).cloned() else { return (format!("err | {}", digest(s)), false) };
            let key = h.key();
            let st0 = act_state(&s.w, id);
            let (e0, v0, sup0) = (esc(&s.w, &key), vaults(&s.w), mint_supply(&s.w.b, &s.w.market_token));
            let pos_size = |w: &World| -> u128 { let a = w.b.get(&w.position_key(&h.owner())); if a.data.is_empty() { 0 } else { let p: gmsol_store::states::position::Position = pod(&a.data); p.state.size_in_usd } };
            let ps0 = pos_size(&s.w);
            let (c0, rec0) = (claim_totals(&s.w), recorded(&s.w));
            let pos_lam0 = s.w.b.get(&s.w.position_key(&h.owner())).lamports;
            let (al0, kl0) = (s.w.b.get(&key).lamports, s.w.b.get(&auth).lamports);
            let (lm_, sm_) = (s.w.long, s.w.short);
            let claim_lam0: Vec<(Pubkey, u64)> = { let ts = s.now; let h0 = s.w.holding(); [(lm_, h.owner()), (sm_, h.owner()), (lm_, h0)].iter().map(|(m, o)| { let k = s.w.claimable_key(m, o, ts); (k, s.w.b.get(&k).lamports) }).collect() };
            let r = run_exec(&mut s.w, auth, &h, fee, throw == 1);
            match r {
                Err(_) => (format!("err | {}", digest(s)), false),
                Ok(()) => {
                    if dfail == 2 { out.oracle_fail("an execution declared as a hard failure succeeded", req); }
                    let st1 = act_state(&s.w, id);
                    let (e1, v1, sup1) = (esc(&s.w, &key), vaults(&s.w), mint_supply(&s.w.b, &s.w.market_token));
                    let paid = al0 - s.w.b.get(&key).lamports.min(al0);
                    // (the keeper may also have paid rent for claimable accounts of a decrease execution)
                    let claim_rent: u64 = if id.1 == 'x' { let ts = s.now; let h0 = s.w.holding(); [(lm_, h.owner()), (sm_, h.owner()), (lm_, h0)].iter().map(|(m, o)| { let k = s.w.claimable_key(m, o, ts); s.w.b.get(&k).lamports - claim_lam0.iter().find(|c| c.0 == k).map(|c| c.1).unwrap_or(0) }).sum() } else { 0 };
                    if s.w.b.get(&auth).lamports as i128 - kl0 as i128 != paid as i128 - if auth == s.w.keeper { claim_rent as i128 } else { 0 } { out.oracle_fail("keeper lamports: fee received differs from the fee paid by the action", req); }
                    // ---- independent property oracle
                    if st0 != Some(0) { out.oracle_fail("an already completed or cancelled action was executed again", req); }
                    if auth != s.w.keeper { out.oracle_fail("executed by a non-keeper", req); }
                    let (x, y) = result_amounts(&s.w, id, &key);
                    match st1 {
                        Some(1) => {
                            let ok = match id.1 {
                                'd' => e1.0 == 0 && e1.1 == 0 && v1.0 - v0.0 == e0.0 && v1.1 - v0.1 == e0.1 && sup1 - sup0 == e1.2 && e0.2 == 0,
                                'w' => e1.2 == 0 && sup0 - sup1 == e0.2 && v0.0 - v1.0 == e1.0 - e0.0 && v0.1 - v1.1 == e1.1 - e0.1,
                                's' => e1.0 == 0 && v1.0 - v0.0 == e0.0 && v0.1 - v1.1 == e1.1 - e0.1 && sup1 == sup0,
                                'i' => e1 == (0, 0, 0) && v1.0 - v0.0 == e0.0 && v1.1 == v0.1 && sup1 == sup0,
                                'x' => { let c1 = claim_totals(&s.w); let r1 = recorded(&s.w);
                                    // the vault and the recorded balance both drop by exactly what left: outputs + claimables
                                    e1.2 == 0 && sup1 == sup0 && v0.0 - v1.0 == (e1.0 - e0.0) + (c1.0 - c0.0) && v0.1 - v1.1 == (e1.1 - e0.1) + (c1.1 - c0.1)
                                        && rec0.0 - r1.0 == v0.0 - v1.0 && rec0.1 - r1.1 == v0.1 - v1.1 }
                                _ => e1.1 == 0 && v1.1 - v0.1 == e0.1 && v0.0 - v1.0 == e1.0 - e0.0 && sup1 == sup0,
                            };
                            if !ok { out.oracle_fail("completed action: tokens did not move exactly between escrow, vault and supply", req); }
                            if id.1 == 'i' && pos_size(&s.w) < ps0 { out.oracle_fail("completed increase order shrank the position", req); }
                            if id.1 != 'i' && id.1 != 'x' && pos_size(&s.w) != ps0 { out.oracle_fail("a non-position action changed a position", req); }
                            if id.1 == 'x' {
                                let pk = s.w.position_key(&h.owner());
                                let gone = !s.w.b.m.contains_key(&pk);
                                if pos_size(&s.w) > ps0 { out.oracle_fail("completed decrease order grew the position", req); }
                                if gone != (dc[3] == 1) { out.oracle_fail("position-closed flag differs from the declared one", req); }
                                if !gone && pos_size(&s.w) == 0 { out.oracle_fail("a position of size 0 was left open", req); }
                                if gone && pos_lam0 == 0 { out.oracle_fail("closed a position that did not exist", req); }
                                let c1 = claim_totals(&s.w);
                                if (c1.0 - c0.0, c1.1 - c0.1) != (dc[0] + dc[2], dc[1]) { out.oracle_fail("claimable amounts differ from the declared ones", req); }
                            }
                            if (x, y) != (dx, dy) || dfail == 1 { out.oracle_fail(&format!("result amounts ({x},{y}) differ from the declared ({dx},{dy}) / declared a market failure"), req); }
                            out.stat(&format!("exec.completed.{}", id.1));
                        }
                        Some(2) => {
                            if e1 != e0 || v1 != v0 || sup1 != sup0 { out.oracle_fail("cancelled action: escrow was not returned in full", req); }
                            if throw == 1 { out.oracle_fail("soft failure although throw_on_execution_error was set", req); }
                            out.stat(&format!("exec.cancelled.{}", id.1));
                        }
                        _ => out.oracle_fail("execute left the action pending", req),
                    }
                    if paid != fee.min(h.exec_lamports()) { out.oracle_fail("execution fee paid differs from min(fee, execution lamports)", req); }
                    s.fees[id.0 as usize] += paid as u128;
                    *s.changes.get_mut(&id).unwrap() += 1;
                    if s.changes[&id] > 1 { out.oracle_fail("action state changed more than once", req); }
                    invariants(s, &tot0, req, out);
                    (format!("ok {} fee={paid} | {}", match st1 { Some(1) => "completed", Some(2) => "cancelled", _ => "?" }, digest(s)), true)
                }
            }
        }
        "close" => {
            if t.len() != 5 { return bad(); }
            let (Some(ex), Some(id)) = (who(&s.w, t[3]), parse_id(t[4])) else { return bad() };
            let Some(h) = s.acts.get(&id).cloned() else { return (format!("err | {}", digest(s)), false) };
            let (key, owner) = (h.key(), h.owner());
            let (lm, sm, mt) = (s.w.long, s.w.short, s.w.market_token);
            let st0 = act_state(&s.w, id);
            let e0 = esc(&s.w, &key);
            let receiver = h.receiver();
            let ub = (bal(&s.w, &owner, &lm), bal(&s.w, &owner, &sm), bal(&s.w, &owner, &mt));
            let rb = (bal(&s.w, &receiver, &lm), bal(&s.w, &receiver, &sm), bal(&s.w, &receiver, &mt));
            let ledger0 = s.w.b.clone();
            let r = match &h { Handle::D(d) => s.w.close_deposit(ex, d, true, true), Handle::W(x) => s.w.close_withdrawal(ex, x), Handle::O(o) => s.w.close_order(ex, o), Handle::P(o) => s.w.close_increase_order(ex, o), Handle::X(o) => s.w.close_decrease_order(ex, o) };
            match r {
                Err(_) => {
                    if ex == owner && st0.is_some() { out.oracle_fail("the owner could not close their own action", req); }
                    if s.w.b.m != ledger0.m { out.oracle_fail("a rejected close changed account bytes", req); }
                    (format!("err | {}", digest(s)), false)
                }
                Ok(()) => {
                    let is_owner = ex == owner;
                    if !is_owner && ex != s.w.keeper { out.oracle_fail("a stranger (possibly the receiver) closed the action", req); }
                    if !is_owner && st0 == Some(0) { out.oracle_fail("a keeper closed a pending action", req); }
                    if s.w.b.m.contains_key(&key) { out.oracle_fail("action account still exists after close", req); }
                    for m in [lm, sm, mt] { if bal(&s.w, &key, &m) != 0 || s.w.b.m.contains_key(&ata(&key, &m)) { out.oracle_fail("escrow is not empty/closed after close", req); } }
                    let ua = (bal(&s.w, &owner, &lm), bal(&s.w, &owner, &sm), bal(&s.w, &owner, &mt));
                    let ra = (bal(&s.w, &receiver, &lm), bal(&s.w, &receiver, &sm), bal(&s.w, &receiver, &mt));
                    // input-side escrow (refunds) belongs to the OWNER, output-side escrow (proceeds) to the RECEIVER
                    let (refund, proceeds) = match id.1 { 'd' => ((e0.0, e0.1, 0), (0, 0, e0.2)), 'w' => ((0, 0, e0.2), (e0.0, e0.1, 0)), 's' => ((e0.0, 0, 0), (0, e0.1, 0)), 't' => ((0, e0.1, 0), (e0.0, 0, 0)), 'x' => ((0, 0, 0), (e0.0, e0.1, 0)), _ => ((e0.0, 0, 0), (0, e0.1, 0)) };
                    if receiver == owner {
                        if (ua.0 - ub.0, ua.1 - ub.1, ua.2 - ub.2) != e0 { out.oracle_fail("escrowed tokens did not all go home to the owner", req); }
                    } else {
                        if (ua.0 - ub.0, ua.1 - ub.1, ua.2 - ub.2) != refund { out.oracle_fail("refunds (input-side escrow) did not go to the owner", req); }
                        if (ra.0 - rb.0, ra.1 - rb.1, ra.2 - rb.2) != proceeds { out.oracle_fail("proceeds (output-side escrow) did not go to the receiver", req); }
                    }
                    if st0 != Some(1) && proceeds != (0, 0, 0) { out.oracle_fail("a pending/cancelled action held proceeds", req); }
                    if st0 == Some(1) && refund != (0, 0, 0) { out.oracle_fail("a completed action still held input escrow", req); }
                    s.acts.remove(&id);
                    s.changes.remove(&id);
                    invariants(s, &tot0, req, out);
                    out.stat(if is_owner { "close.by_owner" } else { "close.by_keeper" });
                    if !is_owner && e0 != (0, 0, 0) { out.stat(&format!("close.keeper_with_escrow.{}.{}", id.1, st0.unwrap_or(9))); }
                    (format!("ok | {}", digest(s)), true)
                }
            }
        }
        _ => bad(),
    }
}

struct Gen { sid: usize, left: u64, queue: Vec<String> }
fn gen_next(r: &mut Rng, ss: &BTreeMap<String, Sid>, g: &mut Gen) -> String {
    if let Some(q) = g.queue.pop() { return q; }
    if g.left == 0 { g.sid += 1; g.left = r.range(25, 70); return format!("l2 new w{}", g.sid); }
    g.left -= 1;
    let sid = format!("w{}", g.sid);
    let s = &ss[&sid];
    let live: Vec<(Id, Option<u8>)> = s.acts.keys().filter(|id| s.w.b.m.contains_key(&action_key(&s.w, **id))).map(|id| (*id, act_state(&s.w, *id))).collect();
    let rand_id = |r: &mut Rng| (r.below(NUSERS as u64) as u8, ['d', 'w', 's', 't', 'i', 'x'][r.below(6) as usize], r.below(NSLOTS as u64) as u8);
    let pick = |r: &mut Rng| if live.is_empty() || r.chance(1, 8) { (rand_id(r), None) } else { live[r.below(live.len() as u64) as usize] };
    let ids = |id: Id| format!("{}.{}.{}", id.0, id.1, id.2);
    match r.below(13) {
        0 => format!("l2 tick {sid} {}", match r.below(5) { 0 => r.range(100, 200), 1 => r.range(3500, 3700), _ => r.range(0, 60) }),
        1 => if r.chance(1, 3) { format!("l2 pricex {sid} 0 {}", r.range(120, 185)) } else { format!("l2 price {sid} {}", match r.below(8) { 0 => r.range(110, 130), 1 => r.range(3590, 3610), 2 => r.range(1, 30), _ => 0 }) },
        2 | 3 | 4 | 5 => {
            let u = r.below(NUSERS as u64) as u8;
            let owner = user_key(u);
            let have_mt = bal(&s.w, &owner, &s.w.market_token);
            let pool = vaults(&s.w);
            // withdrawals / swaps need liquidity: prefer deposits while the pool is empty
            let k = if pool.0 == 0 { if r.chance(5, 6) { 'd' } else { ['w', 's', 't'][r.below(3) as usize] } } else { match r.below(14) { 0 | 1 => 'd', 2 | 3 | 4 => if have_mt > 0 { 'w' } else { 'd' }, 5 | 6 => 's', 7 | 8 | 9 => 'i', 10 | 11 | 12 => if pos_info(&s.w, u).unwrap_or(0) > 0 || r.chance(1, 6) { 'x' } else { 'i' }, _ => 't' } };
            let i = if r.chance(5, 6) { (0..NSLOTS).find(|i| !live.iter().any(|l| l.0 == (u, k, *i))).unwrap_or(r.below(NSLOTS as u64) as u8) } else { r.below(NSLOTS as u64) as u8 };
            let (a, b) = match k {
                'd' => (match r.below(6) { 0 => 0, 1 => LONG0 + 1, _ => r.range(1, 5_000_000_000) }, match r.below(6) { 0 => 0, 1 => SHORT0 + 1, _ => r.range(1, 500_000_000) }),
                'w' => (match r.below(6) { 0 => 0, 1 => have_mt.saturating_add(1), 2 => have_mt, _ => if have_mt == 0 { r.range(1, 1000) } else { r.next() % have_mt + 1 } }, 0),
                's' => (match r.below(8) { 0 => 0, 1 => LONG0 + 1, 2 => r.range(1, 20_000_000_000), _ => r.range(1, 300_000_000) }, 0),
                'i' => (match r.below(8) { 0 => 0, 1 => LONG0 + 1, 2 => r.range(1, 1000), _ => r.range(10_000_000, 500_000_000) }, match r.below(8) { 0 => 0, 1 => r.range(1, 5), 2 => r.range(10_000, 1_000_000), _ => r.range(5, 300) }),
                'x' => { let sz = pos_info(&s.w, u).unwrap_or(0) as u64; // size in cents: partial, full, size - half a unit (promoted), more than the position, zero
                    (match r.below(5) { 0 => r.range(1, 50_000_000), _ => 0 }, match r.below(8) { 0 => 0, 1 | 2 => sz, 3 => sz.saturating_sub(50), 4 => sz.saturating_add(r.range(1, 10_000)), _ => if sz == 0 { r.range(1, 10_000) } else { r.next() % sz + 1 } }) }
                _ => (match r.below(8) { 0 => 0, 1 => SHORT0 + 1, 2 => r.range(1, 3_000_000_000), _ => r.range(1, 50_000_000) }, 0),
            };
            let el = match r.below(8) { 0 => r.range(0, 299_999), _ => r.range(300_000, 5_000_000) };
            let rc = if r.chance(1, 2) { u } else { r.below(NUSERS as u64) as u8 };
            format!("l2 create {sid} {u} {k} {i} {a} {b} {}:{el}:{rc}", if r.chance(1, if k == 'w' { 2 } else { 4 }) { 1 } else { 0 })
        }
        6 | 7 | 8 | 9 => {
            // pending decrease orders are executed with priority (they are the rarest path)
            let px: Vec<&(Id, Option<u8>)> = live.iter().filter(|l| l.0 .1 == 'x' && l.1 == Some(0)).collect();
            let (id, st) = if !px.is_empty() && r.chance(1, 2) { *px[r.below(px.len() as u64) as usize] } else { pick(r) };
            let whoo = if r.chance(9, 10) { "k".to_string() } else if r.chance(1, 2) { "a".into() } else { format!("u{}", r.below(NUSERS as u64)) };
            let fee = match r.below(4) { 0 => 0, 1 => 100_000_000, _ => r.range(1, 3_000_000) };
            let throw = r.below(2) as u8;
            let fresh = st == Some(0) && r.chance(3, 4);
            // dry run on a copy of the world: the result amounts are what the pool maths decides (declared in the request)
            // (the request also declares whether the pool maths rejects the action: a soft failure the accounting model cannot predict)
            let (mut x, mut y, mut f) = (0, 0, 0);
            let mut dc = [0u64; 4];
            if let (Some(h), Some(auth)) = (s.acts.get(&id), who(&s.w, &whoo)) {
                let mut w2 = s.w.clone();
                let c0 = claim_totals(&w2);
                NOW.store(s.now, Ordering::SeqCst);
                if fresh { w2.set_prices(150_00000000, 1_00000000, s.now); }
                if run_exec(&mut w2, auth, h, fee, false).is_ok() {
                    match act_state(&w2, id) { Some(1) => { (x, y) = result_amounts(&w2, id, &h.key());
                        if id.1 == 'x' { let c1 = claim_totals(&w2); dc = [c1.0 - c0.0, c1.1 - c0.1, 0, (!w2.b.m.contains_key(&w2.position_key(&h.owner()))) as u64]; } }
                        Some(2) => { f = 1; } _ => {} }
                } else if id.1 == 'i' || id.1 == 'x' { f = 2; } // position orders: some pool-maths rejections are hard errors even without `throw`
            }
            let e = format!("l2 exec {sid} {whoo} {} {fee} {throw} {f} {x} {y} {}:{}:{}:{}", ids(id), dc[0], dc[1], dc[2], dc[3]);
            // after an execute, often a keeper (sometimes the receiver or the owner) closes that very action while it still holds escrow
            if st == Some(0) && id.1 == 'i' && x == 0 && f == 0 && r.chance(2, 3) {
                // a position is (probably) open now: decrease it — partially, fully, or by size - half a unit
                let sz = pos_info(&s.w, id.0).unwrap_or(0) as u64 + s.acts.get(&id).map(|_| 0).unwrap_or(0);
                let slot = (0..NSLOTS).find(|i| !live.iter().any(|l| l.0 == (id.0, 'x', *i))).unwrap_or(0);
                let b = match r.below(4) { 0 => 1_000_000_000, 1 => r.range(100, 5000), _ => sz.max(100) / 2 };
                g.queue.push(format!("l2 create {sid} {} x {slot} {} {b} 0:{}:{}", id.0, if r.chance(1, 3) { r.range(1, 10_000_000) } else { 0 }, r.range(300_000, 2_000_000), if r.chance(1, 2) { id.0 } else { r.below(NUSERS as u64) as u8 }));
            } else if st == Some(0) && r.chance(1, 2) {
                let closer = match r.below(6) { 0 | 1 | 2 => "k".to_string(), 3 => s.acts.get(&id).map(|h| format!("u{}", h.receiver().to_bytes()[0] - 100)).unwrap_or("k".into()), _ => format!("u{}", id.0) };
                g.queue.push(format!("l2 close {sid} {closer} {}", ids(id)));
            }
            if fresh { g.queue.push(e); return format!("l2 price {sid} 0"); }
            e
        }
        _ => {
            // completed deposits are usually closed by their owner soon (that is where market tokens for withdrawals come from)
            let done: Vec<&(Id, Option<u8>)> = live.iter().filter(|l| l.1 == Some(1)).collect();
            let (id, st) = if !done.is_empty() && r.chance(1, 2) { *done[r.below(done.len() as u64) as usize] } else { pick(r) };
            let whoo = match r.below(7) { 0 | 1 | 2 => format!("u{}", id.0), 3 => "k".into(), 4 => format!("u{}", r.below(NUSERS as u64)), 5 => s.acts.get(&id).map(|h| format!("u{}", h.receiver().to_bytes()[0] - 100)).unwrap_or("k".into()), _ => if st == Some(0) { "k".into() } else { "a".into() } };
            format!("l2 close {sid} {whoo} {}", ids(id))
        }
    }
}

fn main() {
    let cli = cli();
    let mut out = Out::new();
    if std::env::var("HARNESS_DEBUG").is_err() { std::panic::set_hook(Box::new(|_| {})); }
    set_syscall_stubs(Box::new(Stubs));
    if std::env::var("HARNESS_SMOKE").is_ok() { smoke(); return; }
    let mut ss: BTreeMap<String, Sid> = BTreeMap::new();
    let replay: Option<Vec<String>> = if cli.mode == "replay" { Some(read_requests(cli.file.as_deref().unwrap())) } else { None };
    let total = replay.as_ref().map(|v| v.len() as u64).unwrap_or(cli.n);
    let mut r = Rng::new(cli.seed);
    let mut g = Gen { sid: 0, left: 0, queue: Vec::new() };
    for k in 0..total {
        let req = match &replay { Some(v) => v[k as usize].clone(), None => gen_next(&mut r, &ss, &mut g) };
        let res = std::panic::catch_unwind(std::panic::AssertUnwindSafe(|| exec(&mut ss, &req, &mut out)));
        let (resp, nt) = match res { Ok(x) => x, Err(_) => { out.oracle_fail("panicked", &req); ("panic".to_string(), false) } };
        let op = req.split(' ').nth(1).unwrap_or("?").to_string();
        out.stat(&format!("op.{op}"));
        out.stat(&format!("{op}.{}", resp.split(' ').next().unwrap_or("?")));
        out.case_nt(&req, &resp, nt);
        if ss.len() > 3 { let first = ss.keys().next().cloned().unwrap(); if Some(&first) != req.split(' ').nth(2).map(|x| x.to_string()).as_ref() { ss.remove(&first); } }
    }
    out.finish();
}
