// shared helpers for h_sdk binaries
