//! C41 correspondence + oracle: the real `gmsol_solana_utils` transaction packing
//! (`TransactionGroup::{add, optimize}`, `AtomicGroup::transaction_size`) and the size estimate
//! `transaction_size_with_luts`, compared with the real bincode length of the transaction that
//! solana_sdk builds from the same instructions.
use gmsol_solana_utils::address_lookup_table::AddressLookupTables;
use gmsol_solana_utils::instruction_group::{
    AtomicGroupOptions, GetInstructionsOptions, ParallelGroupOptions,
};
use gmsol_solana_utils::transaction_group::{TransactionGroup, TransactionGroupOptions};
use gmsol_solana_utils::utils::{transaction_size, transaction_size_with_luts};
use gmsol_solana_utils::{AtomicGroup, ParallelGroup};
use hcommon::*;
use solana_sdk::address_lookup_table::AddressLookupTableAccount;
use solana_sdk::hash::Hash;
use solana_sdk::instruction::{AccountMeta, Instruction};
use solana_sdk::message::{v0, Message, VersionedMessage};
use solana_sdk::pubkey::Pubkey;
use solana_sdk::signature::Signature;
use solana_sdk::transaction::{Transaction, VersionedTransaction};
use std::collections::BTreeMap;
use std::str::FromStr;

const CB_PROG: u64 = 1000001;
const MEMO_PROG: u64 = 1000002;

fn pk(n: u64) -> Pubkey {
    match n {
        0 => Pubkey::default(),
        CB_PROG => solana_sdk::compute_budget::id(),
        MEMO_PROG => Pubkey::from_str("MemoSq4gqABAXKb96qnH8TysNcWxMyWCqXgDLGmfcHr").unwrap(),
        _ => { let mut b = [0u8; 32]; b[..8].copy_from_slice(&n.to_be_bytes()); Pubkey::new_from_array(b) }
    }
}
fn unpk(p: &Pubkey) -> u64 {
    if *p == Pubkey::default() { return 0; }
    if *p == pk(CB_PROG) { return CB_PROG; }
    if *p == pk(MEMO_PROG) { return MEMO_PROG; }
    u64::from_be_bytes(p.to_bytes()[..8].try_into().unwrap())
}
fn split_ne<'a>(s: &'a str, sep: char) -> Vec<&'a str> {
    if s.is_empty() || s == "-" { vec![] } else { s.split(sep).collect() }
}
fn p_keys(s: &str) -> Option<Vec<u64>> { split_ne(s, ',').into_iter().map(|k| k.parse().ok()).collect() }
fn p_luts(s: &str) -> Option<Vec<Vec<u64>>> { split_ne(s, ';').into_iter().map(p_keys).collect() }
fn mk_luts(ts: &[Vec<u64>]) -> AddressLookupTables {
    ts.iter().enumerate().map(|(i, t)| (pk(900000 + i as u64), t.iter().map(|k| pk(*k)).collect::<Vec<_>>())).collect()
}
fn p_ix(s: &str) -> Option<Instruction> {
    let f: Vec<&str> = s.split('~').collect();
    if f.len() != 4 { return None; }
    let id: u32 = f[0].parse().ok()?;
    let prog: u64 = f[1].parse().ok()?;
    let dlen: usize = f[2].parse().ok()?;
    if dlen < 4 || dlen > 70000 { return None; }
    let mut metas = vec![];
    for m in split_ne(f[3], ',') {
        let (k, fl) = m.split_once('.')?;
        let fl: u8 = fl.parse().ok()?;
        if fl > 3 { return None; }
        metas.push(AccountMeta { pubkey: pk(k.parse().ok()?), is_signer: fl / 2 == 1, is_writable: fl % 2 == 1 });
    }
    let mut data = vec![0u8; dlen];
    data[..4].copy_from_slice(&id.to_be_bytes());
    Some(Instruction { program_id: pk(prog), accounts: metas, data })
}
fn p_ixs(s: &str) -> Option<Vec<Instruction>> { split_ne(s, '+').into_iter().map(p_ix).collect() }
fn ix_id(ix: &Instruction) -> u32 { u32::from_be_bytes(ix.data[..4].try_into().unwrap()) }

struct AgIn { payer: u64, mergeable: bool, ids: Vec<u32> }
struct PgIn { mergeable: bool, ags: Vec<AgIn> }

fn p_ag(s: &str) -> Option<(AtomicGroup, AgIn)> {
    let f: Vec<&str> = s.split('/').collect();
    if f.len() != 4 { return None; }
    let payer: u64 = f[0].parse().ok()?;
    let m = match f[1] { "1" => true, "0" => false, _ => return None };
    let ixs = p_ixs(f[3])?;
    let ids = ixs.iter().map(ix_id).collect();
    let mut ag = AtomicGroup::with_instructions_and_options(&pk(payer), ixs, AtomicGroupOptions { is_mergeable: m });
    for k in p_keys(f[2])? { ag.add_signer(&pk(k)); }
    Some((ag, AgIn { payer, mergeable: m, ids }))
}
fn p_pg(s: &str) -> Option<(ParallelGroup, PgIn)> {
    let mut it = s.split('|');
    let m = match it.next()? { "1" => true, "0" => false, _ => return None };
    let mut ags = vec![]; let mut info = vec![];
    for a in it { let (g, i) = p_ag(a)?; ags.push(g); info.push(i); }
    Some((ParallelGroup::with_options(ags, ParallelGroupOptions { is_mergeable: m }), PgIn { mergeable: m, ags: info }))
}

/// bincode BYTES of the real transaction solana_sdk builds (signatures left default).
fn real_bytes(payer: &Pubkey, ixs: &[Instruction], versioned: bool, luts: &AddressLookupTables) -> Result<Vec<u8>, String> {
    if versioned {
        let accounts: Vec<AddressLookupTableAccount> = luts.accounts().collect();
        let msg = v0::Message::try_compile(payer, ixs, &accounts, Hash::default()).map_err(|e| format!("{e}"))?;
        let n = msg.header.num_required_signatures as usize;
        let tx = VersionedTransaction { signatures: vec![Signature::default(); n], message: VersionedMessage::V0(msg) };
        bincode::serialize(&tx).map_err(|e| format!("{e}"))
    } else {
        let tx = Transaction::new_unsigned(Message::new(ixs, Some(payer)));
        bincode::serialize(&tx).map_err(|e| format!("{e}"))
    }
}

/// bincode length of the real transaction solana_sdk builds (signatures left default).
fn real_len(payer: &Pubkey, ixs: &[Instruction], versioned: bool, luts: &AddressLookupTables) -> Result<usize, String> {
    if versioned {
        let accounts: Vec<AddressLookupTableAccount> = luts.accounts().collect();
        let msg = v0::Message::try_compile(payer, ixs, &accounts, Hash::default()).map_err(|e| format!("{e}"))?;
        let n = msg.header.num_required_signatures as usize;
        let tx = VersionedTransaction { signatures: vec![Signature::default(); n], message: VersionedMessage::V0(msg) };
        Ok(bincode::serialize(&tx).map_err(|e| format!("{e}"))?.len())
    } else {
        let tx = Transaction::new_unsigned(Message::new(ixs, Some(payer)));
        Ok(bincode::serialize(&tx).map_err(|e| format!("{e}"))?.len())
    }
}

struct Ctx { fails: Vec<String>, known: Vec<(String, String)>, nt: bool, stats: Vec<&'static str> }

fn exec_inner(t: &[&str], cx: &mut Ctx) -> Option<String> {
    match t[1] {
        "size" if t.len() == 6 => {
            let payer = pk(t[2].parse().ok()?);
            let ver = match t[3] { "1" => true, "0" => false, _ => return None };
            let ixs = p_ixs(t[5])?;
            let (luts_opt, luts) = if t[4] == "none" { (None, AddressLookupTables::default()) } else { let l = mk_luts(&p_luts(t[4])?); (Some(l.clone()), l) };
            let est = transaction_size_with_luts(payer, &ixs, ver, luts_opt.as_ref());
            let wire = real_len(&payer, &ixs, ver, &luts).ok()?;
            cx.nt = !ixs.is_empty();
            // ORACLE: the estimate is never below the real serialized size
            if est == wire { cx.stats.push("size.exact"); }
            if est < wire && !ver && luts_opt.is_some() {
                // out of the property's domain: a legacy transaction cannot use lookup tables, yet the
                // estimate subtracts the looked-up keys (TransactionGroup always passes `true`)
                cx.stats.push("size.legacy_with_luts_underestimate");
            } else if est < wire {
                // narrow predicate of F-C41-compact: some table resolves >= 128 writable or >= 128 readonly keys
                // (a two-byte compact-u16 index count the estimate books as one byte)
                let big = ver && luts_opt.is_some() && {
                    let accounts: Vec<AddressLookupTableAccount> = luts.accounts().collect();
                    v0::Message::try_compile(&payer, &ixs, &accounts, Hash::default()).map(|m| {
                        let over: usize = m.address_table_lookups.iter().map(|l| (l.writable_indexes.len() >= 128) as usize + (l.readonly_indexes.len() >= 128) as usize).sum();
                        over > 0 && wire - est <= over
                    }).unwrap_or(false)
                };
                if big { cx.known.push(("F-C41-compact".into(), format!("estimate {est} below serialized {wire}"))); }
                else { cx.fails.push(format!("size estimate {est} is below the real serialized size {wire}")); }
            }
            Some(format!("est {est} wire {wire}"))
        }
        "bytes" if t.len() == 6 => {
            // the serialized transaction itself (the Lean model must produce the same BYTES)
            let payer = pk(t[2].parse().ok()?);
            let ver = match t[3] { "1" => true, "0" => false, _ => return None };
            let ixs = p_ixs(t[5])?;
            let luts = if t[4] == "none" { AddressLookupTables::default() } else { mk_luts(&p_luts(t[4])?) };
            let bytes = real_bytes(&payer, &ixs, ver, &luts).ok()?;
            cx.nt = !ixs.is_empty();
            // ORACLE: the per-table estimate is never below the length of these bytes (v0 only)
            if ver {
                let est = transaction_size_with_luts(payer, &ixs, true, Some(&luts));
                if est == bytes.len() { cx.stats.push("bytes.estimate_exact"); }
                if est < bytes.len() {
                    let accounts: Vec<AddressLookupTableAccount> = luts.accounts().collect();
                    let big = v0::Message::try_compile(&payer, &ixs, &accounts, Hash::default()).map(|m| {
                        let over: usize = m.address_table_lookups.iter().map(|l| (l.writable_indexes.len() >= 128) as usize + (l.readonly_indexes.len() >= 128) as usize).sum();
                        over > 0 && bytes.len() - est <= over
                    }).unwrap_or(false);
                    if big { cx.known.push(("F-C41-compact".into(), format!("estimate {est} below serialized {}", bytes.len()))); }
                    else { cx.fails.push(format!("size estimate {est} is below the real serialized size {}", bytes.len())); }
                }
            }
            if ixs.iter().any(|ix| ix.accounts.len() >= 128) { cx.stats.push("bytes.accounts_ge_128"); }
            if ixs.iter().any(|ix| ix.data.len() >= 128) { cx.stats.push("bytes.data_ge_128"); }
            if bytes.len() > 1232 { cx.stats.push("bytes.over_packet"); }
            Some(bytes.iter().map(|b| format!("{b:02x}")).collect::<String>())
        }
        "sizeset" if t.len() == 6 => {
            // `transaction_size`, as `TransactionBuilder::transaction_size` calls it: the union of all
            // lookup-table addresses and the number of tables
            let payer = pk(t[2].parse().ok()?);
            let ver = match t[3] { "1" => true, "0" => false, _ => return None };
            let ixs = p_ixs(t[5])?;
            let (est, luts) = if t[4] == "none" {
                (transaction_size(payer, &ixs, ver, None, 0), AddressLookupTables::default())
            } else {
                let l = mk_luts(&p_luts(t[4])?);
                let union = l.addresses();
                (transaction_size(payer, &ixs, ver, Some(&union), l.len()), l)
            };
            let wire = real_len(&payer, &ixs, ver, &luts).ok()?;
            cx.nt = !ixs.is_empty();
            if est == wire { cx.stats.push("sizeset.exact"); }
            if est < wire && !ver && t[4] != "none" { cx.stats.push("size.legacy_with_luts_underestimate"); }
            else if est < wire {
                let big = ver && {
                    let accounts: Vec<AddressLookupTableAccount> = luts.accounts().collect();
                    v0::Message::try_compile(&payer, &ixs, &accounts, Hash::default()).map(|m| {
                        let over: usize = m.address_table_lookups.iter().map(|l| (l.writable_indexes.len() >= 128) as usize + (l.readonly_indexes.len() >= 128) as usize).sum();
                        over > 0 && wire - est <= over
                    }).unwrap_or(false)
                };
                if big { cx.known.push(("F-C41-compact".into(), format!("estimate {est} below serialized {wire}"))); }
                else { cx.fails.push(format!("transaction_size estimate {est} is below the real serialized size {wire}")); }
            }
            Some(format!("est {est} wire {wire}"))
        }
        "opt" if t.len() >= 7 => {
            let allow = match t[2] { "1" => true, "0" => false, _ => return None };
            let max_size: usize = t[3].parse().ok()?;
            let max_ix: usize = t[4].parse().ok()?;
            let (memo, memo_signers): (Option<String>, Option<Vec<Pubkey>>) = if t[5] == "-" { (None, None) } else {
                let (l, sg) = t[5].split_once(':')?;
                let l: usize = l.parse().ok()?;
                if l > 2000 { return None; }
                (Some("m".repeat(l)), if sg == "*" { None } else { Some(p_keys(sg)?.into_iter().map(pk).collect()) })
            };
            let lut_keys = p_luts(t[6])?;
            let luts = mk_luts(&lut_keys);
            let opts = TransactionGroupOptions { max_transaction_size: max_size, max_instructions_per_tx: max_ix, memo: memo.clone(), memo_signers: memo_signers.clone(), extra_compute_units: None };
            let mut tg = TransactionGroup::with_options_and_luts(opts, luts.clone());
            let mut adds = vec![]; let mut inputs: Vec<PgIn> = vec![];
            for s in &t[7..] {
                let (pg, info) = p_pg(s)?;
                let empty = pg.is_empty();
                match tg.add(pg) {
                    Ok(_) => { adds.push("ok"); if !empty { inputs.push(info); } }
                    Err(gmsol_solana_utils::Error::AddTransaction(m)) => adds.push(if m.starts_with("Too many") { "errN" } else { "errS" }),
                    Err(_) => adds.push("errOther"),
                }
            }
            tg.optimize(allow);
            let gopts = || GetInstructionsOptions { compute_budget: Default::default(), memo: memo.clone(), memo_signers: memo_signers.clone(), extra_compute_units: if memo.is_some() { 50_000 } else { 0 } };
            // ---- response
            let mut out = vec![];
            for pg in tg.groups() {
                let ags: Vec<String> = pg.iter().map(|ag| format!("{}/{}/{}/{}@{}", unpk(ag.payer()), ag.is_mergeable() as u8,
                    ag.external_signers().map(|k| unpk(k).to_string()).collect::<Vec<_>>().join(","),
                    ag.iter().map(|ix| ix_id(ix).to_string()).collect::<Vec<_>>().join("+"),
                    ag.transaction_size(true, Some(&luts), gopts()))).collect();
                out.push(format!("{}[{}]", pg.is_mergeable() as u8, ags.join(";")));
            }
            // ---- ORACLE (the property, independent of the model)
            let in_ids: Vec<u32> = inputs.iter().flat_map(|p| p.ags.iter().flat_map(|a| a.ids.iter().copied())).collect();
            let out_ids: Vec<u32> = tg.groups().iter().flat_map(|p| p.iter().flat_map(|a| a.iter().map(ix_id))).collect();
            if in_ids != out_ids { cx.fails.push("instructions dropped, duplicated or reordered".into()); }
            // where does each id come from: (pg index, ag index)
            let mut origin: BTreeMap<u32, (usize, usize)> = BTreeMap::new();
            for (pi, p) in inputs.iter().enumerate() { for (ai, a) in p.ags.iter().enumerate() { for id in &a.ids { origin.insert(*id, (pi, ai)); } } }
            let mut placed: BTreeMap<(usize, usize), usize> = BTreeMap::new(); // input AG -> output tx index
            let mut txi = 0usize;
            for pg in tg.groups() { for ag in pg.iter() {
                let ids: Vec<u32> = ag.iter().map(ix_id).collect();
                let mut parts: Vec<(usize, usize)> = vec![];
                for id in &ids { if let Some(o) = origin.get(id) { if parts.last() != Some(o) { parts.push(*o); }
                    if let Some(prev) = placed.insert(*o, txi) { if prev != txi { cx.fails.push(format!("atomic group {o:?} split across transactions")); } } } }
                if parts.len() > 1 {
                    cx.nt = true;
                    for o in &parts {
                        let a = &inputs[o.0].ags[o.1];
                        if !a.mergeable { cx.fails.push(format!("non-mergeable atomic group {o:?} was merged")); }
                        if !allow && a.payer != unpk(ag.payer()) { cx.fails.push(format!("payer of atomic group {o:?} changed from {} to {} without permission", a.payer, unpk(ag.payer()))); }
                    }
                    let pgs: std::collections::BTreeSet<usize> = parts.iter().map(|o| o.0).collect();
                    if pgs.len() > 1 { for p in &pgs {
                        if !inputs[*p].mergeable { cx.fails.push(format!("non-mergeable parallel group {p} was merged")); }
                    } }
                } else if parts.len() == 1 {
                    let a = &inputs[parts[0].0].ags[parts[0].1];
                    // (with permission an EMPTY group in front may lend its payer: allowed by the property)
                    if !allow && a.payer != unpk(ag.payer()) { cx.fails.push("payer of a group changed without permission".into()); }
                }
                if ids.len() > max_ix { cx.fails.push(format!("transaction with {} instructions exceeds max_instructions_per_tx {max_ix}", ids.len())); }
                // the transaction that would be produced
                let ixs: Vec<Instruction> = ag.instructions_with_options(gopts()).map(|c| c.into_owned()).collect();
                let est = ag.transaction_size(true, Some(&luts), gopts());
                match real_len(ag.payer(), &ixs, true, &luts) {
                    Ok(real) => {
                        if est < real { cx.fails.push(format!("size estimate {est} below real size {real}")); }
                        if real > max_size {
                            cx.fails.push(format!("produced transaction of {real} bytes exceeds max_transaction_size {max_size}"));
                        }
                    }
                    Err(e) => cx.fails.push(format!("transaction does not compile: {e}")),
                }
                txi += 1;
            } }
            Some(format!("{} | {}", adds.join(","), out.join(" ")))
        }
        _ => None,
    }
}

fn exec(req: &str, cx: &mut Ctx) -> String {
    let t: Vec<&str> = req.split(' ').collect();
    if t.len() < 3 || t[0] != "txp" { return "bad-op".into(); }
    let r = std::panic::catch_unwind(std::panic::AssertUnwindSafe(|| exec_inner(&t, cx)));
    match r { Ok(Some(s)) => s, Ok(None) => "bad-op".into(), Err(_) => { cx.fails.push("panicked".into()); "panic".into() } }
}

// ---------------------------------------------------------------- generator
struct G<'a> { r: &'a mut Rng, next_id: u32 }
impl G<'_> {
    fn key(&mut self) -> u64 { match self.r.below(10) { 0..=5 => self.r.range(1, 8), 6..=8 => self.r.range(1, 40), _ => self.r.range(1, 300) } }
    fn payer(&mut self) -> u64 { if self.r.chance(3, 4) { 1 } else { self.r.range(1, 3) } }
    fn ix(&mut self, big: bool) -> String {
        self.next_id += 1;
        let id = self.next_id;
        let prog = if self.r.chance(1, 10) { self.key() } else { 500 + self.r.below(3) };
        let nm = match self.r.below(8) { 0 => 0, 1..=4 => self.r.range(1, 5), 5 | 6 => self.r.range(5, 16), _ => if big { self.r.range(16, 40) } else { self.r.range(1, 8) } };
        let metas: Vec<String> = (0..nm).map(|_| format!("{}.{}", self.key(), match self.r.below(8) { 0 => 3, 1 => 2, 2..=4 => 1, _ => 0 })).collect();
        let dl = match self.r.below(10) { 0 => 4, 1 => 127, 2 => 128, 3 => if big { self.r.range(300, 900) } else { 40 }, _ => self.r.range(4, 120) };
        format!("{id}~{prog}~{dl}~{}", metas.join(","))
    }
    fn luts(&mut self) -> String {
        if self.r.chance(1, 3) { return "-".into(); }
        let nt = self.r.range(1, 3);
        (0..nt).map(|_| { let n = self.r.range(1, 12); let v: Vec<String> = (0..n).map(|_| self.key().to_string()).collect(); v.join(",") }).collect::<Vec<_>>().join(";")
    }
    fn ag(&mut self) -> String {
        let n = match self.r.below(10) { 0 => 0, 1..=6 => self.r.range(1, 3), _ => self.r.range(3, 6) };
        let ixs: Vec<String> = (0..n).map(|_| { let b = self.r.chance(1, 6); self.ix(b) }).collect();
        let sg = if self.r.chance(1, 5) { self.key().to_string() } else { "-".into() };
        format!("{}/{}/{}/{}", self.payer(), self.r.chance(5, 6) as u8, sg, if ixs.is_empty() { "-".into() } else { ixs.join("+") })
    }
    fn pg(&mut self) -> String {
        let n = match self.r.below(10) { 0 => 0, 1..=6 => 1, _ => self.r.range(2, 4) };
        let ags: Vec<String> = (0..n).map(|_| self.ag()).collect();
        let m = self.r.chance(5, 6) as u8;
        if ags.is_empty() { format!("{m}") } else { format!("{m}|{}", ags.join("|")) }
    }
}

fn gen_req(r: &mut Rng) -> String {
    let mut g = G { r, next_id: 0 };
    match g.r.below(16) {
        12..=15 => {
            // serialized BYTES: ordinary keys only; crosses the compact-u16 boundaries
            let n = g.r.range(0, 5);
            let mut ixs: Vec<String> = (0..n).map(|_| g.ix(true)).collect();
            if g.r.chance(1, 4) {
                // an instruction with 120..140 accounts (compact-u16 boundary at 128), partly duplicated keys
                g.next_id += 1;
                let k = g.r.range(120, 140);
                let base = if g.r.chance(1, 2) { 1000 } else { 2 };
                let metas: Vec<String> = (0..k).map(|i| format!("{}.{}", base + if g.r.chance(1, 6) { g.r.below(k) } else { i }, g.r.below(4))).collect();
                ixs.push(format!("{}~{}~{}~{}", g.next_id, 500 + g.r.below(3), g.r.range(4, 300), metas.join(",")));
            }
            let ver = g.r.chance(3, 4);
            let luts = if !ver || g.r.chance(1, 4) { "none".to_string() } else if g.r.chance(1, 3) {
                let m = g.r.range(100, 160); (0..m).map(|i| (1000 + i).to_string()).collect::<Vec<_>>().join(",")
            } else { g.luts() };
            format!("txp bytes {} {} {} {}", g.payer(), ver as u8, luts, if ixs.is_empty() { "-".into() } else { ixs.join("+") })
        }
        10 | 11 => {
            let n = g.r.range(0, 6);
            let ixs: Vec<String> = (0..n).map(|_| g.ix(true)).collect();
            let ver = g.r.chance(4, 5);
            let luts = if g.r.chance(1, 5) { "none".to_string() } else { g.luts() };
            format!("txp sizeset {} {} {} {}", g.payer(), ver as u8, luts, if ixs.is_empty() { "-".into() } else { ixs.join("+") })
        }
        0..=3 => {
            let n = g.r.range(0, 6);
            let ixs: Vec<String> = (0..n).map(|_| g.ix(true)).collect();
            let ver = g.r.chance(2, 3);
            let luts = if g.r.chance(1, 4) { "none".to_string() } else { g.luts() };
            format!("txp size {} {} {} {}", g.payer(), ver as u8, luts, if ixs.is_empty() { "-".into() } else { ixs.join("+") })
        }
        4 => {
            // many accounts resolved through one table (compact-u16 boundary at 128)
            let n = g.r.range(120, 135);
            let w = g.r.chance(1, 2);
            let metas: Vec<String> = (0..n).map(|i| format!("{}.{}", 1000 + i, w as u8)).collect();
            let table: Vec<String> = (0..n + g.r.below(3)).map(|i| (1000 + i).to_string()).collect();
            format!("txp size 1 1 {} 1~500~8~{}", table.join(","), metas.join(","))
        }
        _ => {
            let allow = g.r.chance(1, 2) as u8;
            let max_size = match g.r.below(6) { 0 => 1232, 1 => g.r.range(300, 700), 2 => g.r.range(200, 1232), _ => 1232 };
            let max_ix = match g.r.below(5) { 0 => g.r.range(1, 4), 1 => g.r.range(4, 8), _ => 14 };
            let memo = match g.r.below(6) { 0 => format!("{}:*", g.r.range(1, 60)), 1 => format!("{}:{}", g.r.range(1, 200), g.key()), 2 => format!("{}:*", g.r.range(100, 700)), _ => "-".into() };
            let luts = g.luts();
            let n = g.r.range(1, 6);
            let pgs: Vec<String> = (0..n).map(|_| g.pg()).collect();
            format!("txp opt {allow} {max_size} {max_ix} {memo} {luts} {}", pgs.join(" "))
        }
    }
}

/// `hcommon::Rng::new(seed)` is SplitMix64 started at `seed * G + C`, so consecutive seeds (the shard
/// seeds of the runner) walk the SAME sequence one step apart and the shards would largely repeat
/// each other; scramble the seed so that the shards start far apart.
fn mix_seed(seed: u64) -> u64 {
    let mut z = seed.wrapping_add(0x9E3779B97F4A7C15);
    z = (z ^ (z >> 30)).wrapping_mul(0xBF58476D1CE4E5B9);
    z = (z ^ (z >> 27)).wrapping_mul(0x94D049BB133111EB);
    z ^ (z >> 31)
}

fn main() {
    let cli = cli();
    let mut out = Out::new();
    std::panic::set_hook(Box::new(|_| {}));
    let reqs: Vec<String> = if cli.mode == "replay" {
        read_requests(cli.file.as_deref().unwrap())
    } else {
        let mut r = Rng::new(mix_seed(cli.seed));
        (0..cli.n).map(|_| gen_req(&mut r)).collect()
    };
    for req in reqs {
        let mut cx = Ctx { fails: vec![], known: vec![], nt: false, stats: vec![] };
        let resp = exec(&req, &mut cx);
        let op = req.split(' ').nth(1).unwrap_or("?").to_string();
        out.stat(&format!("op.{op}"));
        if resp.contains("errS") { out.stat("add.errS"); }
        if resp.contains("errN") { out.stat("add.errN"); }
        if cx.nt && op == "opt" { out.stat("opt.merged"); }
        for k in &cx.stats { out.stat(k); }
        for (id, w) in &cx.known { out.stat(&format!("known.{id}")); out.known(id, w, &req); }
        for w in &cx.fails { out.oracle_fail(w, &req); }
        out.case_nt(&req, &resp, cx.nt);
    }
    out.finish();
}
