//! C15 (SDK copy) correspondence + oracle: `gmsol_programs::gmsol_store::types::Pool` with the
//! `model` feature (`crates/programs/src/model/pool.rs`). Same protocol as `h_store/c15` with
//! impl token `sdk`. The SDK copy inherits the default `checked_cancel_amounts`, which fails on an
//! IMPURE pool whose smaller side is ≥ 2^127 (the program's override does not) — expected here,
//! reported for C40.
//!
//! Requests (`spool <op> sdk <flag> <long> <short> …`):
//!   view | apply <L|S> <d> | delta <dl|_> <ds|_> | cancel | seq <L:d|S:d|C>…
//! Responses: `ok <flag> <long> <short> <longView> <shortView>` | `err` | `err <i>` (seq).
use gmsol_model::{Balance, Delta, Pool as _, PoolExt};
use gmsol_programs::gmsol_store::types::Pool;
use hcommon::*;
use num_bigint::BigInt;

fn mk(flag: u8, long: u128, short: u128) -> Pool {
    Pool { is_pure: flag, padding: [0; 15], long_token_amount: long, short_token_amount: short }
}

fn fields(p: &Pool) -> (u8, u128, u128) { (p.is_pure, p.long_token_amount, p.short_token_amount) }

fn show(p: &Pool) -> String {
    let (f, l, s) = fields(p);
    match (p.long_amount(), p.short_amount()) {
        (Ok(la), Ok(sa)) => format!("ok {f} {l} {s} {la} {sa}"),
        _ => "err".into(),
    }
}

#[derive(Clone, Copy)]
enum Op { L(i128), S(i128), C }

fn parse_op(s: &str) -> Option<Op> {
    if s == "C" { return Some(Op::C); }
    let (k, d) = s.split_once(':')?;
    let d: i128 = d.parse().ok()?;
    match k { "L" => Some(Op::L(d)), "S" => Some(Op::S(d)), _ => None }
}

fn step(p: &mut Pool, op: Op) -> bool {
    match op {
        // through PoolExt::apply_delta_amount, as the model crate's actions do
        Op::L(d) => p.apply_delta_amount(true, &d).is_ok(),
        Op::S(d) => p.apply_delta_amount(false, &d).is_ok(),
        Op::C => match p.checked_cancel_amounts() { Ok(q) => { *p = q; true } Err(_) => false },
    }
}

fn exec_inner(t: &[&str]) -> Option<String> {
    if t.len() < 6 || t[0] != "spool" || t[2] != "sdk" { return None; }
    let flag: u8 = t[3].parse().ok()?;
    let long: u128 = t[4].parse().ok()?;
    let short: u128 = t[5].parse().ok()?;
    let mut p = mk(flag, long, short);
    let rest = &t[6..];
    Some(match (t[1], rest.len()) {
        ("view", 0) => show(&p),
        ("apply", 2) => {
            let d: i128 = rest[1].parse().ok()?;
            let before = p;
            let r = match rest[0] {
                "L" => p.apply_delta_to_long_amount(&d),
                "S" => p.apply_delta_to_short_amount(&d),
                _ => return None,
            };
            match r {
                Ok(()) => show(&p),
                Err(_) => { assert!(fields(&p) == fields(&before), "failed apply changed the pool"); "err".into() }
            }
        }
        ("delta", 2) => {
            let o = |s: &str| -> Option<Option<i128>> { if s == "_" { Some(None) } else { s.parse().ok().map(Some) } };
            let (dl, ds) = (o(rest[0])?, o(rest[1])?);
            let delta = Delta::new(dl.as_ref(), ds.as_ref());
            match p.checked_apply_delta(delta) { Ok(q) => show(&q), Err(_) => "err".into() }
        }
        ("cancel", 0) => match p.checked_cancel_amounts() { Ok(q) => show(&q), Err(_) => "err".into() },
        ("seq", _) => {
            let ops: Option<Vec<Op>> = rest.iter().map(|s| parse_op(s)).collect();
            let ops = ops?;
            for (i, op) in ops.iter().enumerate() {
                if !step(&mut p, *op) { return Some(format!("err {i}")); }
            }
            show(&p)
        }
        _ => return None,
    })
}

fn exec(req: &str) -> String {
    let t: Vec<&str> = req.split(' ').collect();
    match std::panic::catch_unwind(|| exec_inner(&t)) {
        Ok(Some(s)) => s,
        Ok(None) => "bad-op".into(),
        Err(_) => "panic".into(),
    }
}

// ---------------------------------------------------------------- property oracle (exact integers)

struct St { pure_: bool, long: BigInt, short: BigInt }

fn in_range(x: &BigInt) -> bool { x >= &BigInt::from(0) && x < &(BigInt::from(1) << 128) }

/// The property, not the model: one step on exact integers. `None` = must fail.
fn spec_step(s: &St, op: Op) -> Option<St> {
    let two = BigInt::from(2);
    match op {
        Op::L(d) => {
            let v = &s.long + BigInt::from(d);
            in_range(&v).then(|| St { pure_: s.pure_, long: v, short: s.short.clone() })
        }
        Op::S(d) => {
            if s.pure_ {
                let v = &s.long + BigInt::from(d);
                in_range(&v).then(|| St { pure_: true, long: v, short: s.short.clone() })
            } else {
                let v = &s.short + BigInt::from(d);
                in_range(&v).then(|| St { pure_: false, long: s.long.clone(), short: v })
            }
        }
        Op::C => { Some(if s.pure_ {
            St { pure_: true, long: &s.long % &two, short: s.short.clone() }
        } else if s.long >= s.short {
            St { pure_: false, long: &s.long - &s.short, short: BigInt::from(0) }
        } else {
            St { pure_: false, long: BigInt::from(0), short: &s.short - &s.long }
        }) },
    }
}

/// check a response `ok f l s la sa` against an expected exact state
fn resp_matches(resp: &str, flag: u8, e: &St) -> Result<(), String> {
    let f: Vec<&str> = resp.split(' ').collect();
    if f.len() != 6 || f[0] != "ok" { return Err(format!("expected success, got `{resp}`")); }
    let n = |i: usize| f[i].parse::<BigInt>().unwrap();
    if f[1] != flag.to_string() { return Err("flag changed".into()); }
    if n(2) != e.long || n(3) != e.short { return Err(format!("stored amounts {} {} != exact {} {}", n(2), n(3), e.long, e.short)); }
    let (la, sa) = (n(4), n(5));
    if e.pure_ {
        // the property: the two views add up to the stored total, long = ceil, short = floor
        if &la + &sa != e.long { return Err(format!("views {la}+{sa} do not add up to the stored total {}", e.long)); }
        if !(la == sa || la == &sa + 1) { return Err("views are not ceil/floor halves".into()); }
    } else if la != e.long || sa != e.short {
        return Err("impure views differ from the stored amounts".into());
    }
    Ok(())
}

fn oracle(req: &str, resp: &str) -> Result<(), String> {
    let t: Vec<&str> = req.split(' ').collect();
    let flag: u8 = t[3].parse().unwrap();
    let s0 = St { pure_: flag != 0, long: t[4].parse().unwrap(), short: t[5].parse().unwrap() };
    let rest = &t[6..];
    let ops: Vec<Op> = match t[1] {
        "view" => vec![],
        "apply" => vec![if rest[0] == "L" { Op::L(rest[1].parse().unwrap()) } else { Op::S(rest[1].parse().unwrap()) }],
        "delta" => {
            let mut v = vec![];
            if rest[0] != "_" { v.push(Op::L(rest[0].parse().unwrap())); }
            if rest[1] != "_" { v.push(Op::S(rest[1].parse().unwrap())); }
            v
        }
        "cancel" => vec![Op::C],
        "seq" => rest.iter().map(|s| parse_op(s).unwrap()).collect(),
        _ => return Ok(()),
    };
    let mut s = s0;
    for (i, op) in ops.iter().enumerate() {
        // Netting an IMPURE pool whose smaller side is >= 2^127: the copy without the override
        // inherits the default implementation, which fails there (F-C40). C15 is about pure pools,
        // so both the failure and the exact result are accepted; the Lean model follows the source.
        if matches!(op, Op::C) && !s.pure_ && (&s.long).min(&s.short) >= &(BigInt::from(1) << 127) {
            let want = if t[1] == "seq" { format!("err {i}") } else { "err".to_string() };
            if resp == want { return Ok(()); }
        }
        match spec_step(&s, *op) {
            Some(n) => s = n,
            None => {
                let want = if t[1] == "seq" { format!("err {i}") } else { "err".to_string() };
                return if resp == want { Ok(()) } else { Err(format!("total leaves [0,2^128) at op {i}: expected `{want}`, got `{resp}`")) };
            }
        }
    }
    resp_matches(resp, flag, &s)
}

// ---------------------------------------------------------------- generator

fn gen_delta(r: &mut Rng, cur: u128) -> i128 {
    let clamp = |x: u128, neg: bool| -> i128 {
        if neg { if x > i128::MAX as u128 { i128::MIN } else { -(x as i128) } } else if x > i128::MAX as u128 { i128::MAX } else { x as i128 }
    };
    match r.below(12) {
        0 => clamp(cur, true),                          // empty it exactly
        1 => clamp(cur.saturating_add(1), true),        // one too many
        2 => clamp(cur / 2, true),
        3 => clamp(u128::MAX - cur, false),             // fill it exactly
        4 => clamp((u128::MAX - cur).saturating_add(1), false), // one too many
        5 => r.below(5) as i128 - 2,
        6 => if r.chance(1, 2) { i128::MAX } else { i128::MIN },
        7 => clamp(r.below(1_000_000) as u128, r.chance(1, 2)),
        _ => r.inum(128),
    }
}

fn gen_history(r: &mut Rng, reqs: &mut Vec<String>) {
    let flag: u8 = match r.below(8) { 0..=3 => 1, 4 | 5 => 0, 6 => 255, _ => r.range(2, 254) as u8 };
    let long = r.num(128);
    // a pure pool's unused field is 0 in every reachable state; sometimes fill it anyway
    let short = if flag != 0 && !r.chance(1, 10) { 0 } else { r.num(128) };
    let mut p = mk(flag, long, short);
    let mut ops: Vec<String> = vec![];     // every op
    let mut good: Vec<String> = vec![];    // only the ops that succeeded (a fully successful history)
    let steps = r.range(1, 10);
    reqs.push(format!("spool view sdk {flag} {long} {short}"));
    for _ in 0..steps {
        let (f, l, s) = fields(&p);
        let pure_ = f != 0;
        match r.below(10) {
            0 | 1 => {
                reqs.push(format!("spool cancel sdk {f} {l} {s}"));
                if let Ok(q) = p.checked_cancel_amounts() { p = q; good.push("C".into()); }
                ops.push("C".into());
            }
            2 | 3 => {
                let dl = if r.chance(3, 4) { Some(gen_delta(r, l)) } else { None };
                let cur = if pure_ { l.wrapping_add_signed(dl.unwrap_or(0)) } else { s };
                let ds = if r.chance(3, 4) { Some(gen_delta(r, cur)) } else { None };
                let sh = |o: Option<i128>| o.map(|d| d.to_string()).unwrap_or("_".into());
                reqs.push(format!("spool delta sdk {f} {l} {s} {} {}", sh(dl), sh(ds)));
                let okd = if let Ok(q) = p.checked_apply_delta(Delta::new(dl.as_ref(), ds.as_ref())) { p = q; true } else { false };
                if let Some(d) = dl { ops.push(format!("L:{d}")); if okd { good.push(format!("L:{d}")); } }
                if let Some(d) = ds { ops.push(format!("S:{d}")); if okd { good.push(format!("S:{d}")); } }
            }
            _ => {
                let is_long = r.chance(1, 2);
                let cur = if is_long || pure_ { l } else { s };
                let d = gen_delta(r, cur);
                let side = if is_long { "L" } else { "S" };
                reqs.push(format!("spool apply sdk {f} {l} {s} {side} {d}"));
                if p.apply_delta_amount(is_long, &d).is_ok() { good.push(format!("{side}:{d}")); }
                ops.push(format!("{side}:{d}"));
            }
        }
    }
    // the whole history in one request from the initial state (stops at the first failure)
    let chosen = if r.chance(1, 4) { &ops } else { &good };
    if !chosen.is_empty() {
        reqs.push(format!("spool seq sdk {flag} {long} {short} {}", chosen.join(" ")));
    }
}

fn main() {
    let cli = cli();
    let mut out = Out::new();
    std::panic::set_hook(Box::new(|_| {}));
    let reqs: Vec<String> = if cli.mode == "replay" {
        read_requests(cli.file.as_deref().unwrap())
    } else {
        let mut r = Rng::new(cli.seed);
        let mut v = vec![];
        while (v.len() as u64) < cli.n { gen_history(&mut r, &mut v); }
        v
    };
    for req in reqs {
        let resp = exec(&req);
        let t: Vec<&str> = req.split(' ').collect();
        out.stat(&format!("op.{}", t.get(1).unwrap_or(&"?")));
        if t.len() > 3 { out.stat(if t[3] == "0" { "pool.impure" } else { "pool.pure" }); }
        out.stat(if resp.starts_with("ok") { "resp.ok" } else if resp.starts_with("err") { "resp.err" } else { "resp.other" });
        if resp == "panic" { out.oracle_fail("panicked", &req); }
        let mut nt = false;
        if resp.starts_with("ok") || resp.starts_with("err") {
            match oracle(&req, &resp) {
                Ok(()) => out.stat("oracle.checked"),
                Err(what) => out.oracle_fail(&what, &req),
            }
            let f: Vec<&str> = resp.split(' ').collect();
            nt = f[0] == "ok" && t[1] != "view" && (f[2] != t[4] || f[3] != t[5]);
        }
        out.case_nt(&req, &resp, nt);
    }
    out.finish();
}
