//! C42 correspondence + oracle: the real `gmsol_sdk::market_graph::MarketGraph` swap path search
//! (`best_swap_paths` = in-place Bellman–Ford / DFS, `BestSwapPaths::to`) on graphs built from
//! explicit edge costs through the `verif-hooks` constructor.
use gmsol_sdk::market_graph::MarketGraph;
use hcommon::*;
use rust_decimal::{Decimal, MathematicalOps};
use solana_sdk::pubkey::Pubkey;
use std::collections::BTreeMap;

fn token(i: u64) -> Pubkey { let mut b = [0u8; 32]; b[0] = 1; b[8..16].copy_from_slice(&i.to_be_bytes()); Pubkey::new_from_array(b) }
fn market(i: u64) -> Pubkey { let mut b = [0u8; 32]; b[0] = 2; b[8..16].copy_from_slice(&i.to_be_bytes()); Pubkey::new_from_array(b) }
fn unmarket(p: &Pubkey) -> u64 { u64::from_be_bytes(p.to_bytes()[8..16].try_into().unwrap()) }
fn cents(d: Decimal) -> i128 { let mut x = d * Decimal::from(100); x.rescale(0); x.mantissa() }

#[derive(Clone)]
struct E { src: usize, dst: usize, market: u64, cost: Option<i64> }

struct Req { n: usize, max_steps: usize, skip: bool, src: usize, edges: Vec<E> }

fn parse(t: &[&str]) -> Option<Req> {
    if t.len() != 7 || t[1] != "paths" { return None; }
    let n: usize = t[2].parse().ok()?;
    let max_steps: usize = t[3].parse().ok()?;
    let skip = match t[4] { "1" => true, "0" => false, _ => return None };
    let src: usize = t[5].parse().ok()?;
    let mut edges = vec![];
    if t[6] != "-" {
        for s in t[6].split(',') {
            let f: Vec<&str> = s.split('.').collect();
            if f.len() != 4 { return None; }
            edges.push(E { src: f[0].parse().ok()?, dst: f[1].parse().ok()?, market: f[2].parse().ok()?,
                           cost: if f[3] == "x" { None } else { Some(f[3].parse().ok()?) } });
        }
    }
    // the real graph only contains market pairs: edges 2k / 2k+1 are the two directions of one market,
    // and node numbers follow first appearance (long token, then short token)
    if edges.len() % 2 != 0 || n > 64 || max_steps > 64 { return None; }
    let mut seen = 0usize;
    for p in edges.chunks(2) {
        if p[0].market != p[1].market || p[0].src != p[1].dst || p[0].dst != p[1].src { return None; }
        for v in [p[0].src, p[0].dst] { if v > seen { return None; } if v == seen { seen += 1; } }
    }
    if seen != n { return None; }
    Some(Req { n, max_steps, skip, src, edges })
}

fn dec(c: i64) -> Decimal { Decimal::new(c, 2) }

struct Ctx { fails: Vec<String>, known: Vec<(String, String)>, stats: Vec<String>, nt: bool }

fn exec_inner(t: &[&str], cx: &mut Ctx) -> Option<String> {
    let r = parse(t)?;
    let markets: Vec<(Pubkey, Pubkey, Pubkey, Option<Decimal>, Option<Decimal>)> = r.edges.chunks(2)
        .map(|p| (market(p[0].market), token(p[0].src as u64), token(p[0].dst as u64), p[0].cost.map(dec), p[1].cost.map(dec))).collect();
    let g = MarketGraph::verif_from_edge_costs(r.max_steps, &markets);
    let paths = match g.best_swap_paths(&token(r.src as u64), r.skip) {
        Ok(p) => p,
        Err(gmsol_sdk::Error::MarketGraph(_)) => return Some("err NegativeCycle".into()),
        Err(gmsol_sdk::Error::Custom(m)) if m.contains("not a known collateral token") => return Some("err UnknownSource".into()),
        Err(e) => return Some(format!("err Other({e})")),
    };
    let arb = paths.arbitrage_exists();
    let mut out = vec![];
    // ---- brute force over all market-simple paths within the limit (the property's reference)
    let mut best: BTreeMap<usize, i64> = BTreeMap::new();
    fn go(cur: usize, cost: i64, used: &mut Vec<u64>, edges: &[E], max: usize, best: &mut BTreeMap<usize, i64>) {
        if used.len() == max { return; }
        for e in edges.iter().filter(|e| e.src == cur) {
            let Some(c) = e.cost else { continue };
            if used.contains(&e.market) { continue; }
            used.push(e.market);
            let nc = cost + c;
            let b = best.entry(e.dst).or_insert(nc);
            if nc < *b { *b = nc; }
            go(e.dst, nc, used, edges, max, best);
            used.pop();
        }
    }
    go(r.src, 0, &mut vec![], &r.edges, r.max_steps, &mut best);
    let mut sp_cache: Option<Vec<SP>> = None;
    // DFS mode without a negative cycle: a miss is the known finding only under its narrow predicate
    let mut dfs_miss = |cx: &mut Ctx, tgt: usize, reported: Option<i64>, what: String| {
        let paths = sp_cache.get_or_insert_with(|| simple_paths(&r));
        if dfs_shadowing_possible(&r, paths, tgt, reported) { cx.known.push(("F-C42-dfs".into(), what)); }
        else { cx.fails.push(format!("{what} — and no cheaper-or-equal arrival can shadow the better path (DFS must find it)")); }
    };
    for tgt in 0..r.n {
        let (rate, path) = paths.to(&token(tgt as u64));
        let raw = paths.verif_distance(&token(tgt as u64));
        let ids: Vec<u64> = path.iter().map(unmarket).collect();
        // `to` reports exp(-distance) when that is representable (`checked_exp`), else no rate; `exp`
        // itself is not modelled, so the response carries the distance `to` used
        let expect_rate = raw.and_then(|d| (-d).checked_exp());
        let reported: Option<i128> = if !ids.is_empty() || tgt == r.src {
            if rate != expect_rate { cx.fails.push(format!("target {tgt}: reported rate {rate:?} is not exp(-distance) = {expect_rate:?}")); }
            if raw.is_some() && expect_rate.is_none() { cx.stats.push("rate.unrepresentable".into()); }
            raw.map(cents)
        } else {
            if rate.is_some() { cx.fails.push(format!("target {tgt}: a rate without a path")); }
            None
        };
        out.push(format!("{tgt}={}/{}/{}", reported.map(|d| d.to_string()).unwrap_or("-".into()),
            if ids.is_empty() { "-".into() } else { ids.iter().map(|m| m.to_string()).collect::<Vec<_>>().join("+") },
            raw.map(|d| cents(d).to_string()).unwrap_or("-".into())));
        if tgt == r.src { continue; }
        // ---- ORACLE on the recommendation
        if !ids.is_empty() {
            cx.nt = true;
            // valid: chained from the source to the target through markets of the graph, none repeated, bounded
            let mut cur = r.src; let mut cost = 0i64; let mut ok = true;
            let mut seen_m = std::collections::BTreeSet::new();
            for m in &ids {
                if !seen_m.insert(*m) { cx.fails.push(format!("target {tgt}: market {m} repeated in the path")); }
                match r.edges.iter().find(|e| e.market == *m && e.src == cur && e.cost.is_some()) {
                    Some(e) => { cost += e.cost.unwrap(); cur = e.dst; }
                    None => { ok = false; break; }
                }
            }
            if !ok || cur != tgt { cx.fails.push(format!("target {tgt}: path {ids:?} is not a chain of estimated markets from the source to the target")); }
            else {
                if ids.len() > r.max_steps { cx.fails.push(format!("target {tgt}: path longer than max_steps")); }
                match reported {
                    Some(d) if d == cost as i128 => {}
                    Some(d) => {
                        let what = format!("target {tgt}: reported distance {d} but the path {ids:?} costs {cost}");
                        if arb != Some(false) { cx.known.push(("F-C42-dfs".into(), what)); } else { cx.fails.push(what); }
                    }
                    None => cx.fails.push(format!("target {tgt}: path without a distance")),
                }
                // best within the limit (only claimed when no arbitrage cycle exists)
                if arb == Some(false) || (arb.is_none() && no_negative_cycle(&r)) {
                    if let Some(b) = best.get(&tgt) { if *b < cost {
                        let what = format!("target {tgt}: recommended path costs {cost}, a path within {} steps costs {b}", r.max_steps);
                        if arb.is_none() { dfs_miss(cx, tgt, Some(cost), what); } else { cx.known.push(("F-C42-bf".into(), what)); }
                    } }
                }
            }
        } else if let Some(b) = best.get(&tgt) {
            // nothing recommended although a path within the limit exists
            if arb == Some(false) || (arb.is_none() && no_negative_cycle(&r)) {
                let what = format!("target {tgt}: no path recommended, but a path within {} steps exists (cost {b})", r.max_steps);
                if arb.is_none() { dfs_miss(cx, tgt, None, what); } else { cx.known.push(("F-C42-bf".into(), what)); }
            } else { cx.stats.push("arb.no_recommendation".into()); }
        }
    }
    // negative-cycle detection: Some(false) must mean that no negative cycle is reachable from the source
    if arb == Some(false) && reachable_negative_cycle(&r) { cx.fails.push("arbitrage_exists = Some(false) although a negative cycle is reachable".into()); }
    if arb == Some(true) && !reachable_negative_cycle(&r) { cx.fails.push("arbitrage_exists = Some(true) although no negative cycle is reachable".into()); }
    let a = match arb { None => "-", Some(false) => "0", Some(true) => "1" };
    cx.stats.push(format!("arb.{a}"));
    Some(format!("arb={a} {}", out.join(" ")))
}

/// One token-simple path from the source: end token, cost, tokens visited (bit mask, incl. source
/// and end) and the token sequence.
#[derive(Clone)]
struct SP { end: usize, cost: i64, len: usize, mask: u64, seq: Vec<usize> }

fn simple_paths(r: &Req) -> Vec<SP> {
    fn go(cur: &SP, edges: &[E], max: usize, out: &mut Vec<SP>) {
        if cur.len == max { return; }
        for e in edges.iter().filter(|e| e.src == cur.end) {
            let Some(c) = e.cost else { continue };
            if cur.mask & (1u64 << e.dst) != 0 { continue; }
            let mut seq = cur.seq.clone(); seq.push(e.dst);
            let nx = SP { end: e.dst, cost: cur.cost + c, len: cur.len + 1, mask: cur.mask | (1u64 << e.dst), seq };
            out.push(nx.clone());
            go(&nx, edges, max, out);
        }
    }
    let root = SP { end: r.src, cost: 0, len: 0, mask: 1u64 << r.src, seq: vec![r.src] };
    let mut out = vec![root.clone()];
    go(&root, &r.edges, r.max_steps, &mut out);
    out
}

/// The narrow predicate of F-C42-dfs for one target, stated on the GRAPH only (independent of any
/// implementation): the unchanged DFS prunes an arrival at a token `v` whenever an earlier arrival
/// was at least as cheap — whatever the steps used and whatever is on the stack. It can therefore
/// miss a path `R` (cheaper than what it reports) only if `R` has a suffix `Q` starting at some
/// token `v` for which TWO token-simple paths `P1`, `P2` from the source to `v` within the step
/// limit exist with `cost(P1) <= cost(P2)` such that `P2·Q` is a valid path (token-simple, within
/// the limit) but `P1·Q` is not (too long, or `Q` re-enters a token of `P1`): the cheaper-or-equal
/// arrival `P1` shadows `P2` at `v` but cannot continue along `Q` itself.
/// `reported` = cost of the recommended path (`None` = nothing recommended).
fn dfs_shadowing_possible(r: &Req, paths: &[SP], tgt: usize, reported: Option<i64>) -> bool {
    use std::collections::BTreeMap;
    // per end token: (len, mask) -> (min cost, max cost)
    let mut classes: Vec<BTreeMap<(usize, u64), (i64, i64)>> = vec![BTreeMap::new(); r.n];
    for p in paths {
        let e = classes[p.end].entry((p.len, p.mask)).or_insert((p.cost, p.cost));
        if p.cost < e.0 { e.0 = p.cost; }
        if p.cost > e.1 { e.1 = p.cost; }
    }
    let mut seen = std::collections::BTreeSet::new();
    for rp in paths.iter().filter(|p| p.end == tgt && reported.map(|c| p.cost < c).unwrap_or(true)) {
        for i in 1..rp.len { // proper, non-empty suffix starting at an inner token v
            let v = rp.seq[i];
            let len_q = rp.len - i;
            let mask_q: u64 = rp.seq[i + 1..].iter().fold(0u64, |m, t| m | (1u64 << t));
            if !seen.insert((v, len_q, mask_q)) { continue; }
            let valid = |(l, m): (usize, u64)| l + len_q <= r.max_steps && m & mask_q == 0;
            let cls = &classes[v];
            for (k2, c2) in cls.iter().filter(|(k, _)| valid(**k)) {
                for (k1, c1) in cls.iter().filter(|(k, _)| !valid(**k)) {
                    let _ = (k1, k2);
                    if c1.0 <= c2.1 { return true; }
                }
            }
        }
    }
    false
}

/// textbook (synchronous, full) Bellman–Ford from the source, independent of the implementation
fn reachable_negative_cycle(r: &Req) -> bool {
    let mut d: Vec<Option<i64>> = vec![None; r.n]; d[r.src] = Some(0);
    for _ in 0..r.n { let mut ch = false;
        for e in &r.edges { if let (Some(c), Some(du)) = (e.cost, d[e.src]) { if d[e.dst].map(|x| du + c < x).unwrap_or(true) { d[e.dst] = Some(du + c); ch = true; } } }
        if !ch { return false; } }
    true
}
fn no_negative_cycle(r: &Req) -> bool { !reachable_negative_cycle(r) }

fn exec(req: &str, cx: &mut Ctx) -> String {
    let t: Vec<&str> = req.split(' ').collect();
    if t.len() < 2 || t[0] != "swg" { return "bad-op".into(); }
    match std::panic::catch_unwind(std::panic::AssertUnwindSafe(|| exec_inner(&t, cx))) {
        Ok(Some(s)) => s, Ok(None) => "bad-op".into(),
        Err(_) => { cx.fails.push("panicked".into()); "panic".into() }
    }
}

/// a token reached three or four times with non-monotone distances: source 0, middle tokens 1..k,
/// hub k+1, target k+2; DFS mode, positive costs (edge insertion order decides the visiting order)
fn gen_fan(r: &mut Rng) -> String {
    let k = r.range(3, 4) as usize;
    let hub = k + 1; let tgt = k + 2;
    let mut es: Vec<String> = vec![];
    let mut m = 10;
    let back = |r: &mut Rng| if r.chance(1, 2) { "x".to_string() } else { r.range(1, 300).to_string() };
    for i in 1..=k { es.push(format!("0.{i}.{m}.{}", r.range(1, 200))); es.push(format!("{i}.0.{m}.{}", back(r))); m += 1; }
    for i in 1..=k { es.push(format!("{i}.{hub}.{m}.{}", r.range(1, 200))); es.push(format!("{hub}.{i}.{m}.{}", back(r))); m += 1; }
    es.push(format!("{hub}.{tgt}.{m}.{}", r.range(1, 100))); es.push(format!("{tgt}.{hub}.{m}.{}", back(r))); m += 1;
    if r.chance(1, 3) { let a = r.range(1, k as u64); let b = r.range(1, k as u64); if a != b { es.push(format!("{a}.{b}.{m}.{}", r.range(1, 200))); es.push(format!("{b}.{a}.{m}.{}", back(r))); } }
    let max_steps = if r.chance(3, 4) { 5 } else { r.range(3, 6) };
    let src = if r.chance(5, 6) { 0 } else { r.range(1, tgt as u64) };
    format!("swg paths {} {max_steps} {} {src} {}", tgt + 1, if r.chance(5, 6) { 1 } else { 0 }, es.join(","))
}

fn gen_req(r: &mut Rng) -> String {
    if r.chance(1, 8) { return gen_fan(r); }
    let n = r.range(2, 7) as usize;
    let max_steps = match r.below(6) { 0 => 1, 1 => 2, 2 => 3, 3 => r.range(1, 6), _ => 5 } as usize;
    let skip = r.chance(1, 3);
    // markets: first a spanning chain so that node numbers follow first appearance, then extras
    let mut markets: Vec<(usize, usize)> = vec![];
    for v in 1..n { let u = r.below(v as u64) as usize; if r.chance(1, 2) { markets.push((u, v)); } else { markets.push((u, v)); } }
    let extra = r.below(2 * n as u64);
    for _ in 0..extra { let a = r.below(n as u64) as usize; let b = r.below(n as u64) as usize; if a != b || r.chance(1, 8) { markets.push((a, b)); } }
    // first appearance order must be 0,1,2,...: the chain above guarantees it when listed first
    let neg = r.chance(1, 4); // allow negative costs (arbitrage) in a quarter of the graphs
    let big = r.chance(1, 8); // distances beyond what `exp` can represent (regression of the fixed panic)
    let mut cost = |r: &mut Rng| -> String {
        match r.below(12) { 0 => "x".into(), 1 if neg => format!("-{}", r.range(1, if big { 3000 } else { 300 })), 2 => "0".into(), 3 => r.range(1, 5).to_string(), _ => r.range(1, if big { 6000 } else { 400 }).to_string() }
    };
    let mut es = vec![];
    for (i, (a, b)) in markets.iter().enumerate() { let m = 10 + i; es.push(format!("{a}.{b}.{m}.{}", cost(r))); es.push(format!("{b}.{a}.{m}.{}", cost(r))); }
    let src = if r.chance(1, 30) { n + 1 } else { r.below(n as u64) as usize };
    format!("swg paths {n} {max_steps} {} {src} {}", skip as u8, if es.is_empty() { "-".into() } else { es.join(",") })
}

/// `hcommon::Rng::new(seed)` is SplitMix64 started at `seed * G + C`, so consecutive seeds (the shard
/// seeds of the runner) walk the SAME sequence one step apart and the shards would largely repeat
/// each other; scramble the seed so that the shards start far apart.
fn mix_seed(seed: u64) -> u64 {
    let mut z = seed.wrapping_add(0x9E3779B97F4A7C15);
    z = (z ^ (z >> 30)).wrapping_mul(0xBF58476D1CE4E5B9);
    z = (z ^ (z >> 27)).wrapping_mul(0x94D049BB133111EB);
    z ^ (z >> 31)
}

fn main() {
    let cli = cli();
    let mut out = Out::new();
    std::panic::set_hook(Box::new(|_| {}));
    let reqs: Vec<String> = if cli.mode == "replay" { read_requests(cli.file.as_deref().unwrap()) }
        else { let mut r = Rng::new(mix_seed(cli.seed)); (0..cli.n).map(|_| gen_req(&mut r)).collect() };
    for req in reqs {
        let mut cx = Ctx { fails: vec![], known: vec![], stats: vec![], nt: false };
        let resp = exec(&req, &mut cx);
        out.stat(if resp.starts_with("arb") { "resp.ok" } else { "resp.err" });
        for s in &cx.stats { out.stat(s); }
        for (id, w) in &cx.known { out.stat(&format!("known.{id}")); out.known(id, w, &req); }
        for w in &cx.fails { out.oracle_fail(w, &req); }
        out.case_nt(&req, &resp, cx.nt);
    }
    out.finish();
}
