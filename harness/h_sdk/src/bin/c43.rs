//! C43 correspondence + oracle: the real `gmsol_sdk::utils::fixed` conversions between on-chain
//! fixed-point integers and `rust_decimal::Decimal`.
use gmsol_sdk::utils::{
    decimal_to_amount, decimal_to_signed_value, decimal_to_value, signed_amount_to_decimal,
    signed_fixed_to_decimal, signed_value_to_decimal, unsigned_amount_to_decimal,
    unsigned_fixed_to_decimal, unsigned_value_to_decimal,
};
use hcommon::*;
use num_bigint::BigInt;
use rust_decimal::Decimal;

const MAX_REPR: u128 = (1u128 << 96) - 1;

fn show_dec(d: Decimal) -> String { format!("ok {} {}", d.mantissa(), d.scale()) }
fn show_opt(d: Option<Decimal>) -> String { d.map(show_dec).unwrap_or_else(|| "none".into()) }
fn show_res<T: std::fmt::Display>(r: gmsol_sdk::Result<T>) -> String {
    match r {
        Ok(v) => format!("ok {v}"),
        Err(gmsol_sdk::Error::Custom(m)) => {
            if m.starts_with("`value` is too big") { "err TooBig".into() }
            else if m.starts_with("invalid scale") { "err Scale".into() }
            else if m.contains("out of range integral type") { "err Range".into() }
            else { format!("err Other({m})") }
        }
        Err(e) => format!("err Other({e})"),
    }
}
fn mk_dec(m: &str, s: &str) -> Option<Decimal> {
    let neg_zero = m == "-0";
    let m: i128 = m.parse().ok()?;
    let s: u32 = s.parse().ok()?;
    if m.unsigned_abs() > MAX_REPR || s > 28 { return None; }
    let mut d = Decimal::from_i128_with_scale(m, s);
    if neg_zero { d.set_sign_negative(true); } // the negative zero rust_decimal can represent
    Some(d)
}

fn exec_inner(t: &[&str]) -> Option<String> {
    let u128_ = |i: usize| t.get(i)?.parse::<u128>().ok();
    let i128_ = |i: usize| t.get(i)?.parse::<i128>().ok();
    let u64_ = |i: usize| t.get(i)?.parse::<u64>().ok();
    let i64_ = |i: usize| t.get(i)?.parse::<i64>().ok();
    let u8_ = |i: usize| t.get(i)?.parse::<u8>().ok();
    Some(match (t[1], t.len()) {
        ("u2d", 4) => show_opt(unsigned_fixed_to_decimal(u128_(2)?, u8_(3)?)),
        ("s2d", 4) => show_opt(signed_fixed_to_decimal(i128_(2)?, u8_(3)?)),
        ("uv2d", 3) => show_dec(unsigned_value_to_decimal(u128_(2)?)),
        ("sv2d", 3) => show_dec(signed_value_to_decimal(i128_(2)?)),
        ("ua2d", 4) => show_dec(unsigned_amount_to_decimal(u64_(2)?, u8_(3)?)),
        ("sa2d", 4) => show_dec(signed_amount_to_decimal(i64_(2)?, u8_(3)?)),
        ("rescale", 5) => {
            let mut d = mk_dec(t[2], t[3])?;
            d.rescale(t[4].parse::<u32>().ok()?);
            show_dec(d)
        }
        ("d2a", 5) => show_res(decimal_to_amount(mk_dec(t[2], t[3])?, u8_(4)?)),
        ("d2v", 5) => show_res(decimal_to_value(mk_dec(t[2], t[3])?, u8_(4)?)),
        ("d2sv", 5) => show_res(decimal_to_signed_value(mk_dec(t[2], t[3])?, u8_(4)?)),
        ("rtu", 4) => match unsigned_fixed_to_decimal(u128_(2)?, u8_(3)?) {
            Some(d) => show_res(decimal_to_value(d, u8_(3)?)),
            None => "none".into(),
        },
        ("rts", 4) => match signed_fixed_to_decimal(i128_(2)?, u8_(3)?) {
            Some(d) => show_res(decimal_to_signed_value(d, u8_(3)?)),
            None => "none".into(),
        },
        ("rta", 4) => show_res(decimal_to_amount(unsigned_amount_to_decimal(u64_(2)?, u8_(3)?), u8_(3)?)),
        ("rtsa", 4) => show_res(decimal_to_signed_value(signed_amount_to_decimal(i64_(2)?, u8_(3)?), u8_(3)?)),
        _ => return None,
    })
}

fn exec(req: &str) -> String {
    let t: Vec<&str> = req.split(' ').collect();
    if t.len() < 3 || t[0] != "dec" { return "bad-op".into(); }
    match std::panic::catch_unwind(|| exec_inner(&t)) {
        Ok(Some(s)) => s,
        Ok(None) => "bad-op".into(),
        Err(_) => "panic".into(),
    }
}

enum Verdict { Ok, Known(String), KnownRound(String), Fail(String), NoOracle }

fn pow10(e: u32) -> BigInt { BigInt::from(10u8).pow(e) }

/// The PROPERTY, with exact integers and independent of the Lean model:
///  * no conversion panics;
///  * integer → Decimal: a returned Decimal denotes exactly `n / 10^decimals`
///    (`mant · 10^decimals = n · 10^scale`), otherwise the function must report failure;
///    with supported operands (|n| ≤ 2^96−1, decimals ≤ 28) it must succeed;
///  * round trip integer → Decimal → integer with the same decimals: returns the original
///    integer or an error, and with supported operands it must return the original;
///  * Decimal → integer: exact when the value is representable with `decimals` digits (or a
///    justified overflow error); a value with non-zero excess fractional digits must be an error.
fn oracle(req: &str, resp: &str) -> Verdict {
    let t: Vec<&str> = req.split(' ').collect();
    if resp == "panic" {
        return Verdict::Fail("conversion panicked".into());
    }
    if resp == "bad-op" { return Verdict::NoOracle; }
    let big = |s: &str| s.parse::<BigInt>().unwrap();
    // F-C43, per function family (the narrow predicate of the known finding):
    //  * the FIXED conversions (unsigned/signed_fixed_to_decimal, *_value_to_decimal) drop digits only
    //    for |n| > 2^96-1; with |n| <= 2^96-1 and more than 28 decimals they must answer `None`;
    //  * the AMOUNT conversions (unsigned/signed_amount_to_decimal) divide only for decimals > 28.
    let is_amount = matches!(t[1], "ua2d" | "sa2d" | "rta" | "rtsa");
    let truncating = |n: &BigInt, dec: u32| if is_amount { dec > 28 } else { n.magnitude() > &num_bigint::BigUint::from(MAX_REPR) };
    let unsupported = |n: &BigInt, dec: u32| n.magnitude() > &num_bigint::BigUint::from(MAX_REPR) || dec > 28;
    let classify = |n: &BigInt, dec: u32, what: String| {
        if truncating(n, dec) { Verdict::Known(what) } else { Verdict::Fail(what) }
    };
    match t[1] {
        "u2d" | "s2d" | "uv2d" | "sv2d" | "ua2d" | "sa2d" => {
            let n = big(t[2]);
            let dec: u32 = if t.len() > 3 { t[3].parse().unwrap() } else { 20 };
            if let Some(rest) = resp.strip_prefix("ok ") {
                let mut it = rest.split(' ');
                let m = big(it.next().unwrap());
                let s: u32 = it.next().unwrap().parse().unwrap();
                if m.magnitude() > &num_bigint::BigUint::from(MAX_REPR) || s > 28 {
                    return Verdict::Fail(format!("malformed Decimal returned ({resp})"));
                }
                // EXACTNESS: a returned Decimal must denote n * 10^-decimals exactly, for every `decimals`
                if &m * pow10(dec) == &n * pow10(s) { Verdict::Ok }
                else { classify(&n, dec, format!("silently scaled/truncated: {n}e-{dec} became {m}e-{s} (must be an error)")) }
            } else if resp == "none" {
                if unsupported(&n, dec) { Verdict::Ok } else { Verdict::Fail("supported operands rejected".into()) }
            } else { Verdict::Fail(format!("unexpected response {resp}")) }
        }
        "rtu" | "rts" | "rta" | "rtsa" => {
            let n = big(t[2]);
            let dec: u32 = t[3].parse().unwrap();
            if let Some(r) = resp.strip_prefix("ok ") {
                if big(r) == n { Verdict::Ok }
                else { classify(&n, dec, format!("round trip of {n} with {dec} decimals returned {r}")) }
            } else if unsupported(&n, dec) { Verdict::Ok }
            else { Verdict::Fail(format!("round trip of supported operands failed: {resp}")) }
        }
        "d2a" | "d2v" | "d2sv" => {
            let (m, s, dec): (BigInt, u32, u32) = (big(t[2]), t[3].parse().unwrap(), t[4].parse().unwrap());
            let (lo, hi): (BigInt, BigInt) = match t[1] {
                "d2a" => (BigInt::from(0), BigInt::from(u64::MAX)),
                "d2v" => (BigInt::from(0), BigInt::from(i128::MAX)), // goes through i128
                _ => (BigInt::from(i128::MIN), BigInt::from(i128::MAX)),
            };
            if s > dec {
                // more fractional digits than requested: representable only if the excess digits are zero
                let p = pow10(s - dec);
                let (q, rem) = (&m / &p, &m % &p); // truncating division
                let zero = BigInt::from(0);
                if rem == zero {
                    return if let Some(r) = resp.strip_prefix("ok ") {
                        if big(r) == q { Verdict::Ok } else { Verdict::Fail(format!("{m}e-{s} to {dec} decimals gave {r}, exact {q}")) }
                    } else if q < lo || q > hi { Verdict::Ok } else { Verdict::Fail(format!("representable value {q} rejected: {resp}")) };
                }
                // not representable: the property demands an error; F-C43-round = silently rounded half away from zero
                return if let Some(r) = resp.strip_prefix("ok ") {
                    let twice = (&rem * BigInt::from(2)).magnitude().clone();
                    let up = twice >= p.magnitude().clone();
                    let rounded = if up { if m < zero { &q - 1 } else { &q + 1 } } else { q.clone() };
                    if big(r) == rounded { Verdict::KnownRound(format!("{m}e-{s} is not representable with {dec} decimals but was silently rounded to {r}")) }
                    else { Verdict::Fail(format!("{m}e-{s} to {dec} decimals gave {r}, neither an error nor the half-away-from-zero rounding {rounded}")) }
                } else { Verdict::Ok };
            }
            let exact = &m * pow10(dec - s);
            if let Some(r) = resp.strip_prefix("ok ") {
                if big(r) == exact { Verdict::Ok } else { Verdict::Fail(format!("{m}e-{s} to {dec} decimals gave {r}, exact {exact}")) }
            } else if exact < lo || exact > hi || dec - s > 38 { Verdict::Ok }
            else { Verdict::Fail(format!("representable value {exact} rejected: {resp}")) }
        }
        "rescale" => {
            // value preserved when scaling up; scale never exceeds the request
            let (m, s, new): (BigInt, u32, u32) = (big(t[2]), t[3].parse().unwrap(), t[4].parse().unwrap());
            let rest = resp.strip_prefix("ok ").unwrap();
            let mut it = rest.split(' ');
            let m2 = big(it.next().unwrap());
            let s2: u32 = it.next().unwrap().parse().unwrap();
            if new >= s {
                if s2 >= s && s2 <= new.max(s) && m2 == &m * pow10(s2 - s) { Verdict::Ok }
                else { Verdict::Fail(format!("rescale up changed the value: {resp}")) }
            } else { Verdict::NoOracle }
        }
        _ => Verdict::NoOracle,
    }
}

fn gen_u128(r: &mut Rng) -> u128 {
    match r.below(8) {
        0 => MAX_REPR - r.below(3) as u128,
        1 => MAX_REPR + 1 + r.below(1000) as u128,
        2 => u128::MAX - r.below(3) as u128,
        3 => 10u128.pow(r.range(27, 38) as u32) + r.below(3) as u128 - 1,
        4 => r.num(96),
        _ => r.num(128),
    }
}
fn gen_i128(r: &mut Rng) -> i128 {
    match r.below(6) {
        0 => i128::MIN + r.below(2) as i128,
        1 => i128::MAX - r.below(2) as i128,
        2 => { let m = (gen_u128(r) >> 1) as i128; if r.chance(1, 2) { -m } else { m } }
        3 => { let m = r.num(96) as i128; if r.chance(1, 2) { -m } else { m } }
        _ => r.inum(128),
    }
}
fn gen_dec8(r: &mut Rng) -> u8 {
    match r.below(10) {
        0 => 28, 1 => 29, 2 => r.range(29, 48) as u8, 3 => r.range(47, 255) as u8, 4 => 20, 5 => 0,
        _ => r.range(0, 28) as u8,
    }
}
/// Which branch of fixed.rs / Decimal::rescale a request exercises (for the coverage statistics;
/// computed from the request with exact integers, independently of the implementation).
fn branches(req: &str, resp: &str) -> Vec<String> {
    let t: Vec<&str> = req.split(' ').collect();
    let mut b = vec![];
    let big = |x: &str| x.trim_start_matches('-').parse::<num_bigint::BigUint>().unwrap();
    let lim = num_bigint::BigUint::from(MAX_REPR);
    match t[1] {
        "u2d" | "s2d" | "uv2d" | "sv2d" | "rtu" | "rts" => {
            let n = big(t[2]);
            let dec: i64 = if t.len() > 3 { t[3].parse().unwrap() } else { 20 };
            if t[2].starts_with('-') { b.push("to_decimal.negative".into()); }
            if n > lim {
                let sd = n.to_string().len() as i64 - 1 - 27;
                b.push(if dec < sd { "to_decimal.big.scale_lt_diff_none" } else if dec - sd > 28 { "to_decimal.big.reduced_scale_gt_28_none" } else { "to_decimal.big.truncated_ok" }.into());
            } else {
                b.push(if dec > 28 { "to_decimal.small.scale_gt_28_none" } else { "to_decimal.small.ok" }.into());
                if n == lim { b.push("to_decimal.at_2^96-1".into()); }
            }
        }
        "ua2d" | "sa2d" | "rta" | "rtsa" => {
            let dec: i64 = t[3].parse().unwrap();
            if t[2].starts_with('-') { b.push("amount.negative".into()); }
            b.push(if dec > 28 { if dec - 28 > 19 { "amount.gt_47_zero" } else { "amount.29_to_47_divided" } } else { "amount.le_28_plain" }.into());
        }
        _ => {}
    }
    if matches!(t[1], "d2a" | "d2v" | "d2sv" | "rescale") {
        let m = big(t[2]); let s: u32 = t[3].parse().unwrap(); let dec: u32 = t[4].parse().unwrap();
        let zero = num_bigint::BigUint::from(0u8);
        if t[2] == "-0" { b.push("decimal.negative_zero".into()); }
        if s == 0 { b.push("decimal.scale_0".into()); }
        if s == 28 { b.push("decimal.scale_28".into()); }
        if m != zero && (&m % 10u8) == zero { b.push("decimal.trailing_zeros".into()); }
        b.push(if s == dec { "rescale.equal_scale".to_string() }
            else if m == zero { if dec > 28 { "rescale.zero_clamped_to_28".into() } else { "rescale.zero".into() } }
            else if s > dec {
                let p = num_bigint::BigUint::from(10u8).pow(s - dec);
                let q = &m / &p;
                let first_dropped = (&m / num_bigint::BigUint::from(10u8).pow(s - dec - 1)) % 10u8;
                if q == zero && first_dropped < num_bigint::BigUint::from(5u8) { "rescale.down.to_zero".into() }
                else if first_dropped >= num_bigint::BigUint::from(5u8) { "rescale.down.round_up".into() } else { "rescale.down.no_round".into() }
            } else {
                let full = &m * num_bigint::BigUint::from(10u8).pow(dec - s) <= lim;
                if full { "rescale.up.full".into() } else if dec > 28 { "rescale.up.stopped_target_gt_28".into() } else { "rescale.up.stopped".into() }
            });
        if t[1] != "rescale" {
            b.push(format!("{}.{}", t[1], match resp { "err TooBig" => if dec.saturating_sub(s) > 38 + 28 { "err_toobig_pow" } else { "err_toobig" }, "err Range" => if t[2].starts_with('-') { "err_range_negative" } else { "err_range_too_large" }, "err Scale" => "err_scale", x if x.starts_with("ok") => "ok", _ => "other" }));
        }
    }
    b
}

fn gen_decimal(r: &mut Rng) -> (i128, u32) {
    if r.chance(1, 5) {
        // adversarial decimals: scale 0 / 28, magnitudes around 2^96-1, trailing zeros
        let s = *r.pick(&[0u32, 0, 28, 28, 27, 1]);
        let mag: u128 = match r.below(5) {
            0 => MAX_REPR - r.below(2) as u128,
            1 => (MAX_REPR / 10u128.pow(r.range(1, 27) as u32)) * 10u128.pow(r.range(0, 1) as u32),
            2 => r.range(1, 999) as u128 * 10u128.pow(r.range(1, 25) as u32),
            3 => 5 * 10u128.pow(r.range(0, 27) as u32),
            _ => 0,
        };
        let m = if r.chance(1, 3) { -((mag % (MAX_REPR + 1)) as i128) } else { (mag % (MAX_REPR + 1)) as i128 };
        return (m, s);
    }
    let mag: u128 = match r.below(6) {
        0 => MAX_REPR - r.below(3) as u128,
        1 => 10u128.pow(r.range(0, 28) as u32) * r.range(1, 9) as u128 % (MAX_REPR + 1),
        2 => r.below(1000) as u128,
        3 => MAX_REPR / 10 + r.below(3) as u128 - 1,
        _ => r.num(96),
    };
    let m = if r.chance(1, 3) { -(mag as i128) } else { mag as i128 };
    (m, r.range(0, 28) as u32)
}

fn gen_req(r: &mut Rng) -> String {
    if r.chance(1, 60) {
        // the negative zero (sign bit set, magnitude 0)
        let op = *r.pick(&["d2a", "d2v", "d2sv", "rescale"]);
        return format!("dec {op} -0 {} {}", r.range(0, 28), gen_dec8(r));
    }
    match r.below(18) {
        0 | 1 => format!("dec u2d {} {}", gen_u128(r), gen_dec8(r)),
        2 => format!("dec s2d {} {}", gen_i128(r), gen_dec8(r)),
        3 => format!("dec uv2d {}", gen_u128(r)),
        4 => format!("dec sv2d {}", gen_i128(r)),
        5 => format!("dec ua2d {} {}", r.num(64) as u64, gen_dec8(r)),
        6 => format!("dec sa2d {} {}", r.inum(64) as i64, gen_dec8(r)),
        7 | 8 => { let (m, s) = gen_decimal(r); let n = if r.chance(1, 6) { r.range(0, 300) } else { r.range(0, 40) }; format!("dec rescale {m} {s} {n}") }
        9 => { let (m, s) = gen_decimal(r); let m = if r.chance(1, 2) { m % (1i128 << 70) } else { m }; format!("dec d2a {m} {s} {}", gen_dec8(r)) }
        10 => { let (m, s) = gen_decimal(r); format!("dec d2v {m} {s} {}", gen_dec8(r)) }
        11 => { let (m, s) = gen_decimal(r); format!("dec d2sv {m} {s} {}", gen_dec8(r)) }
        12 | 13 => format!("dec rtu {} {}", gen_u128(r), gen_dec8(r)),
        14 => format!("dec rts {} {}", gen_i128(r), gen_dec8(r)),
        15 | 16 => format!("dec rta {} {}", r.num(64) as u64, gen_dec8(r)),
        _ => format!("dec rtsa {} {}", r.inum(64) as i64, gen_dec8(r)),
    }
}

/// `hcommon::Rng::new(seed)` is SplitMix64 started at `seed * G + C`, so consecutive seeds (the shard
/// seeds of the runner) walk the SAME sequence one step apart and the shards would largely repeat
/// each other; scramble the seed so that the shards start far apart.
fn mix_seed(seed: u64) -> u64 {
    let mut z = seed.wrapping_add(0x9E3779B97F4A7C15);
    z = (z ^ (z >> 30)).wrapping_mul(0xBF58476D1CE4E5B9);
    z = (z ^ (z >> 27)).wrapping_mul(0x94D049BB133111EB);
    z ^ (z >> 31)
}

fn main() {
    let cli = cli();
    let mut out = Out::new();
    std::panic::set_hook(Box::new(|_| {}));
    let reqs: Vec<String> = if cli.mode == "replay" {
        read_requests(cli.file.as_deref().unwrap())
    } else {
        let mut r = Rng::new(mix_seed(cli.seed));
        (0..cli.n).map(|_| gen_req(&mut r)).collect()
    };
    for req in reqs {
        let resp = exec(&req);
        let op = req.split(' ').nth(1).unwrap_or("?").to_string();
        out.stat(&format!("op.{op}"));
        for b in branches(&req, &resp) { out.stat(&format!("branch.{b}")); }
        out.stat(if resp.starts_with("ok") { "resp.ok" } else if resp == "none" { "resp.none" }
                 else if resp == "panic" { "resp.panic" } else { "resp.err" });
        let nt = resp.starts_with("ok") && !resp.starts_with("ok 0");
        // signed and unsigned conversions agree on non-negative inputs
        {
            let t: Vec<&str> = req.split(' ').collect();
            let twin = match t[1] { "s2d" => Some("u2d"), "sv2d" => Some("uv2d"), "sa2d" => Some("ua2d"), "rts" => None, _ => None };
            if let Some(tw) = twin {
                if !t[2].starts_with('-') {
                    let mut q: Vec<&str> = t.clone(); q[1] = tw;
                    let other = exec(&q.join(" "));
                    out.stat("oracle.signed_unsigned_compared");
                    if other != resp { out.oracle_fail(&format!("signed conversion gives `{resp}` but the unsigned one `{other}` on the same non-negative input"), &req); }
                }
            }
        }
        match oracle(&req, &resp) {
            Verdict::Ok => out.stat("oracle.ok"),
            Verdict::NoOracle => out.stat("oracle.none"),
            Verdict::Known(w) => { out.stat("oracle.known"); out.known("F-C43", &w, &req) }
            Verdict::KnownRound(w) => { out.stat("oracle.known_round"); out.known("F-C43-round", &w, &req) }
            Verdict::Fail(w) => out.oracle_fail(&w, &req),
        }
        out.case_nt(&req, &resp, nt);
    }
    out.finish();
}
