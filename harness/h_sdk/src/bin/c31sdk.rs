//! C31 correspondence + oracle (SDK side): the real
//! `gmsol_programs::gmsol_store::accounts::Store::order_fee_discount_factor` (feature `model`).
//! Request: `disc sdk <maxRank> <rank> <isRef> <referral> <f0> … <f15>`.
//! The generator is the same SplitMix64 stream as `h_store/src/bin/c31.rs` (same seeds ⇒ the
//! program and the SDK are driven on the same rank tables), plus an SDK-only malformed stream
//! (tables written without the on-chain setter: factors above 100 %, huge `max_rank`).
use gmsol_programs::gmsol_store::accounts::Store;
use hcommon::*;
use num_bigint::BigUint;

const UNIT: u128 = 100_000_000_000_000_000_000;

fn run(t: &[&str]) -> Option<String> {
    if t.len() != 22 || t[0] != "disc" || t[1] != "sdk" { return None; }
    let max_rank: u64 = t[2].parse().ok()?;
    let rank: u8 = t[3].parse().ok()?;
    let is_ref = match t[4] { "1" => true, "0" => false, _ => return None };
    let referral: u128 = t[5].parse().ok()?;
    let fs: Vec<u128> = t[6..].iter().map(|x| x.parse::<u128>().ok()).collect::<Option<Vec<_>>>()?;
    // SAFETY: `Store` is a `bytemuck::Pod` zero-copy account (all-zero bytes are a valid value).
    let mut store: Box<Store> = Box::new(unsafe { std::mem::zeroed::<Store>() });
    store.gt.max_rank = max_rank;
    store.gt.order_fee_discount_factors.copy_from_slice(&fs);
    store.factor.order_fee_discount_for_referred_user = referral;
    Some(match store.order_fee_discount_factor(rank, is_ref) {
        Ok(d) => format!("ok {d}"),
        Err(e) => {
            let m = e.to_string();
            if m.contains("exceeds max_rank") { "err Rank".into() }
            else if m.contains("complement calculation overflow") { "err Complement".into() }
            else if m.contains("discount factor calculation overflow") { "err Overflow".into() }
            else { format!("err Other({m})") }
        }
    })
}

fn exec(req: &str) -> String {
    let t: Vec<&str> = req.split(' ').collect();
    match std::panic::catch_unwind(|| run(&t)) {
        Ok(Some(s)) => s,
        Ok(None) => "bad-op".into(),
        Err(_) => "err Index".into(),
    }
}

/// Property oracle for well-formed stores (table ≤ 100 %, referral ≤ 100 %, max_rank ≤ 15):
/// exactly the statement checked on the program side. Malformed stores have no oracle (`None`).
fn oracle(req: &str, resp: &str) -> Option<Result<bool, String>> {
    let t: Vec<&str> = req.split(' ').collect();
    let max_rank: u64 = t[2].parse().unwrap();
    let rank: u64 = t[3].parse().unwrap();
    let is_ref = t[4] == "1";
    let b = t[5].parse::<u128>().unwrap();
    let fs: Vec<u128> = t[6..].iter().map(|x| x.parse().unwrap()).collect();
    if max_rank > 15 || fs.iter().any(|f| *f > UNIT) { return None; }
    if rank > max_rank {
        return Some(if resp == "err Rank" { Ok(false) } else { Err(format!("rank above max accepted: {resp}")) });
    }
    let a = fs[rank as usize];
    let u = BigUint::from(UNIT);
    Some(match resp.strip_prefix("ok ") {
        Some(d) => {
            let d: u128 = d.parse().unwrap();
            if d > UNIT { return Some(Err(format!("discount {d} above 100%"))); }
            if !is_ref {
                return Some(if d == a { Ok(a != 0) } else { Err("unreferred discount differs from the rank discount".into()) });
            }
            if b > UNIT { return Some(Err("referral factor above 100% accepted".into())); }
            if d < a { return Some(Err(format!("referred discount {d} below unreferred {a}"))); }
            let exact_times_u = &u * &u - (&u - BigUint::from(a)) * (&u - BigUint::from(b));
            let du = BigUint::from(d) * &u;
            let diff = if du > exact_times_u { &du - &exact_times_u } else { &exact_times_u - &du };
            if diff >= u { Err(format!("discount {d} differs from 1-(1-A)(1-B) by a unit or more")) } else { Ok(a != 0 && b != 0) }
        }
        None => {
            if !is_ref || b <= UNIT { Err(format!("valid inputs rejected: {resp}")) } else if resp == "err Complement" { Ok(false) } else { Err(format!("unexpected {resp}")) }
        }
    })
}

fn frac(r: &mut Rng) -> u128 {
    match r.below(10) {
        0 => 0,
        1 => UNIT,
        2 => UNIT - 1,
        3 => UNIT + 1 + r.below(3) as u128,
        4 => 1 + r.below(3) as u128,
        5 => UNIT / 1000 * r.below(1001) as u128,
        6 => UNIT / 100 * r.below(101) as u128,
        7 => r.num(128),
        _ => r.u128() % (UNIT + 1),
    }
}

/// identical draws to `c31.rs::gen_req`; the table is padded/truncated to the 16 stored slots
fn gen_req(r: &mut Rng) -> String {
    let max_rank = r.below(16);
    let rank = match r.below(10) { 0 => max_rank + 1, 1 => r.below(256), _ => r.below(max_rank + 1) };
    let n = if r.chance(1, 12) { r.below(17) } else { max_rank + 1 };
    let mostly_valid = r.chance(5, 6);
    let mut fs: Vec<u128> = (0..n).map(|_| { let mut f = frac(r); if mostly_valid && f > UNIT { f %= UNIT + 1; } f }).collect();
    let mut referral = frac(r);
    if r.chance(5, 6) && referral > UNIT { referral %= UNIT + 1; }
    let is_ref = r.below(2);
    fs.resize(16, 0);
    let fs: Vec<String> = fs.iter().map(|f| f.to_string()).collect();
    format!("disc sdk {max_rank} {rank} {is_ref} {referral} {}", fs.join(" "))
}

/// SDK-only malformed stores
fn gen_malformed(r: &mut Rng) -> String {
    let max_rank = match r.below(4) { 0 => u64::MAX, 1 => 16 + r.below(300), 2 => 15, _ => r.below(16) };
    let rank = r.below(256);
    let fs: Vec<String> = (0..16).map(|_| (if r.chance(1, 2) { r.num(128) } else { frac(r) }).to_string()).collect();
    let referral = if r.chance(1, 2) { r.num(128) } else { frac(r) };
    format!("disc sdk {max_rank} {rank} {} {referral} {}", r.below(2), fs.join(" "))
}

fn main() {
    let cli = cli();
    let mut out = Out::new();
    std::panic::set_hook(Box::new(|_| {}));
    let reqs: Vec<String> = if cli.mode == "replay" {
        read_requests(cli.file.as_deref().unwrap())
    } else {
        let mut r = Rng::new(cli.seed);
        r = Rng(r.next()); // decorrelate: hcommon streams of consecutive seeds are one draw apart
        let mut v: Vec<String> = (0..cli.n).map(|_| gen_req(&mut r)).collect();
        let mut r2 = Rng::new(cli.seed ^ 0x5eed);
        r2 = Rng(r2.next());
        v.extend((0..cli.n / 4).map(|_| gen_malformed(&mut r2)));
        v
    };
    for req in reqs {
        let resp = exec(&req);
        out.stat(&format!("resp.{}", resp.split(' ').take(2).collect::<Vec<_>>().join("_").replace(|c: char| c.is_ascii_digit(), "")));
        if resp == "bad-op" { out.case(&req, &resp); continue; }
        let nt = match oracle(&req, &resp) {
            Some(Ok(nt)) => { out.stat("oracle.checked"); nt }
            Some(Err(what)) => { out.oracle_fail(&what, &req); false }
            None => { out.stat("oracle.none_malformed_store"); resp.starts_with("ok") }
        };
        out.case_nt(&req, &resp, nt);
    }
    out.finish();
}
