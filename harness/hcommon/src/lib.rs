//! Shared pieces of the correspondence harness: one PRNG, structured number generators,
//! line emission and coverage statistics.
use std::collections::BTreeMap;
use std::io::Write;

/// SplitMix64: every random choice of a run derives from this one state.
#[derive(Clone)]
pub struct Rng(pub u64);

impl Rng {
    pub fn new(seed: u64) -> Self {
        // The state advances by the same odd constant that used to scale the seed, so consecutive seeds gave
        // the SAME stream shifted by one draw (the runner's shard seeds are consecutive). The start state is
        // therefore the finalised output of that first state: unrelated streams for related seeds.
        let mut r = Rng(seed.wrapping_mul(0x9E3779B97F4A7C15).wrapping_add(0xD1B54A32D192ED03));
        let s = r.next() ^ seed.rotate_left(32).wrapping_mul(0xD6E8FEB86659FD93);
        Rng(s)
    }
    pub fn next(&mut self) -> u64 {
        self.0 = self.0.wrapping_add(0x9E3779B97F4A7C15);
        let mut z = self.0;
        z = (z ^ (z >> 30)).wrapping_mul(0xBF58476D1CE4E5B9);
        z = (z ^ (z >> 27)).wrapping_mul(0x94D049BB133111EB);
        z ^ (z >> 31)
    }
    pub fn below(&mut self, n: u64) -> u64 {
        if n == 0 { 0 } else { self.next() % n }
    }
    pub fn range(&mut self, lo: u64, hi: u64) -> u64 {
        lo + self.below(hi - lo + 1)
    }
    pub fn chance(&mut self, num: u64, den: u64) -> bool {
        self.below(den) < num
    }
    pub fn pick<'a, T>(&mut self, xs: &'a [T]) -> &'a T {
        &xs[self.below(xs.len() as u64) as usize]
    }
    pub fn u128(&mut self) -> u128 {
        ((self.next() as u128) << 64) | self.next() as u128
    }
    /// A `bits`-wide unsigned number with a structured distribution: small values, powers of
    /// ten and two, values hugging the type limits, and uniformly random magnitudes.
    pub fn num(&mut self, bits: u32) -> u128 {
        let max: u128 = if bits >= 128 { u128::MAX } else { (1u128 << bits) - 1 };
        let v = match self.below(12) {
            0 => self.below(4) as u128,
            1 => self.below(1000) as u128,
            2 => max - self.below(3) as u128,
            3 => (max >> 1) + self.below(3) as u128 - 1,
            4 => 10u128.pow(self.below(if bits >= 128 { 39 } else { 20 }) as u32),
            5 => {
                let p = 10u128.pow(self.below(if bits >= 128 { 39 } else { 20 }) as u32);
                match self.below(3) { 0 => p.saturating_sub(1), 1 => p.saturating_add(1), _ => p.saturating_mul(self.range(2, 9) as u128) }
            }
            6 => 1u128 << self.below(bits as u64),
            7 => (1u128 << self.below(bits as u64)).wrapping_sub(1),
            _ => {
                // random magnitude: pick a bit length first
                let len = self.range(1, bits as u64) as u32;
                let raw = self.u128();
                if len >= 128 { raw } else { raw & ((1u128 << len) - 1) }
            }
        };
        v & max
    }
    /// signed number of the given width (two's complement range)
    pub fn inum(&mut self, bits: u32) -> i128 {
        let m = self.num(bits);
        let half: u128 = 1u128 << (bits - 1);
        if self.chance(1, 2) {
            // non-negative: clamp to max
            (m % half) as i128
        } else if m % (half + 1) == half && bits == 128 {
            i128::MIN
        } else {
            let mag = m % (half + 1);
            if mag == half { if bits == 128 { i128::MIN } else { -(half as i128) } } else { -(mag as i128) }
        }
    }
}

/// Collects output lines and coverage statistics.
pub struct Out {
    w: std::io::BufWriter<Box<dyn Write>>,
    pub stats: BTreeMap<String, u64>,
    pub cases: u64,
}

impl Default for Out {
    fn default() -> Self { Self::new() }
}

impl Out {
    pub fn new() -> Self {
        // Program logs (`msg!`) are printed straight to stdout by solana-msg on native targets, so
        // the runner passes a separate file for the protocol stream (HARNESS_OUT_FILE).
        let sink: Box<dyn Write> = match std::env::var("HARNESS_OUT_FILE") {
            Ok(p) if !p.is_empty() => Box::new(std::fs::File::create(p).expect("cannot create HARNESS_OUT_FILE")),
            _ => Box::new(std::io::stdout()),
        };
        Out { w: std::io::BufWriter::new(sink), stats: BTreeMap::new(), cases: 0 }
    }
    /// one correspondence case: request and the implementation's canonical response
    pub fn case(&mut self, req: &str, resp: &str) {
        self.cases += 1;
        writeln!(self.w, "{req}\t{resp}").unwrap();
    }
    /// a case with its non-triviality flag (counted in the evidence)
    pub fn case_nt(&mut self, req: &str, resp: &str, nt: bool) {
        self.cases += 1;
        if nt { writeln!(self.w, "{req}\t{resp}\tnt").unwrap(); } else { writeln!(self.w, "{req}\t{resp}").unwrap(); }
    }
    /// the property oracle failed on the implementation
    pub fn oracle_fail(&mut self, what: &str, req: &str) {
        writeln!(self.w, "!ORACLE {what} :: {req}").unwrap();
    }
    /// a literal-property violation that matches a known-finding predicate
    pub fn known(&mut self, id: &str, what: &str, req: &str) {
        writeln!(self.w, "!KNOWN {id} {what} :: {req}").unwrap();
    }
    pub fn stat(&mut self, key: &str) {
        *self.stats.entry(key.to_string()).or_insert(0) += 1;
    }
    pub fn stat_n(&mut self, key: &str, n: u64) {
        *self.stats.entry(key.to_string()).or_insert(0) += n;
    }
    pub fn finish(mut self) {
        for (k, v) in &self.stats {
            writeln!(self.w, "#STAT {k} {v}").unwrap();
        }
        self.w.flush().unwrap();
    }
}

pub fn opt<T: std::fmt::Display>(x: Option<T>) -> String {
    match x { Some(v) => format!("ok {v}"), None => "none".into() }
}

/// Standard CLI: `<bin> gen <seed> <n>` | `<bin> replay <file>`; returns (mode, seed, n, file)
pub struct Cli { pub mode: String, pub seed: u64, pub n: u64, pub file: Option<String> }

pub fn cli() -> Cli {
    let a: Vec<String> = std::env::args().collect();
    let mode = a.get(1).cloned().unwrap_or_else(|| "gen".into());
    if mode == "replay" {
        Cli { mode, seed: 0, n: 0, file: a.get(2).cloned() }
    } else {
        let seed = a.get(2).and_then(|s| s.parse().ok()).unwrap_or(1);
        let n = a.get(3).and_then(|s| s.parse().ok()).unwrap_or(1000);
        Cli { mode, seed, n, file: None }
    }
}

/// Read request lines (first tab-separated field) from a replay/corpus file.
pub fn read_requests(path: &str) -> Vec<String> {
    std::fs::read_to_string(path)
        .unwrap_or_default()
        .lines()
        .filter(|l| !l.starts_with('#') && !l.starts_with('!') && !l.trim().is_empty())
        .map(|l| l.split('\t').next().unwrap().to_string())
        .collect()
}
