//! C26 correspondence + oracle: the real `gmsol_utils::price::Decimal` conversions, the u128
//! storage helpers and `pyth_price_value_to_decimal`.
use gmsol_utils::oracle::{pyth_price_value_to_decimal, pyth_price_with_confidence_to_price};
use gmsol_utils::price::decimal::DecimalError;
use gmsol_utils::price::{convert_to_u128_storage, find_divisor_decimals, Decimal, U192};
use gmsol_utils::token_config::TokenConfig;
use hcommon::*;
use num_bigint::BigUint;

fn big(x: u128) -> BigUint { BigUint::from(x) }
fn p10(k: u32) -> BigUint { BigUint::from(10u8).pow(k) }

fn u192(s: &str) -> Option<U192> { U192::from_str_radix(s, 10).ok() }

fn exec_inner(t: &[&str]) -> Option<String> {
    if t.len() < 2 || t[0] != "pdec" { return None; }
    if t[1..].iter().skip(1).any(|s| s.is_empty() || !s.trim_start_matches('-').chars().all(|c| c.is_ascii_digit())) { return None; }
    Some(match (t[1], t.len()) {
        ("from", 6) => {
            let p: u128 = t[2].parse().ok()?; let d: u8 = t[3].parse().ok()?; let td: u8 = t[4].parse().ok()?; let q: u8 = t[5].parse().ok()?;
            match Decimal::try_from_price(p, d, td, q) {
                Ok(r) => format!("ok {} {}", r.value, r.decimal_multiplier),
                Err(DecimalError::ExceedMaxDecimals) => "err ExceedMaxDecimals".into(),
                Err(DecimalError::Overflow) => "err Overflow".into(),
                Err(DecimalError::ExceedMaxDecimalMultiplier) => "err ExceedMaxDecimalMultiplier".into(),
            }
        }
        ("unit", 4) => {
            let v: u32 = t[2].parse().ok()?; let m: u8 = t[3].parse().ok()?;
            format!("ok {}", Decimal { value: v, decimal_multiplier: m }.to_unit_price())
        }
        ("with", 6) => {
            let v: u32 = t[2].parse().ok()?; let m: u8 = t[3].parse().ok()?; let price: u128 = t[4].parse().ok()?;
            let up = match t[5] { "1" => true, "0" => false, _ => return None };
            match (Decimal { value: v, decimal_multiplier: m }).with_unit_price(price, up) {
                Some(r) => format!("ok {} {}", r.value, r.decimal_multiplier), None => "none".into() }
        }
        ("finddiv", 3) => format!("ok {}", find_divisor_decimals(&u192(t[2])?)),
        ("conv", 4) => { let d: u8 = t[3].parse().ok()?; match convert_to_u128_storage(u192(t[2])?, d) { Some((v, d2)) => format!("ok {v} {d2}"), None => "none".into() } }
        ("pythc", 7) => {
            let pr: i64 = t[2].parse().ok()?; let cf: u64 = t[3].parse().ok()?; let e: i32 = t[4].parse().ok()?; let td: u8 = t[5].parse().ok()?; let q: u8 = t[6].parse().ok()?;
            let mut cfg: TokenConfig = bytemuck::Zeroable::zeroed();
            cfg.token_decimals = td; cfg.precision = q;
            match pyth_price_with_confidence_to_price(pr, cf, e, &cfg) {
                Ok(p) => format!("ok {} {} {} {}", p.min.value, p.min.decimal_multiplier, p.max.value, p.max.decimal_multiplier),
                Err(gmsol_utils::oracle::OracleError::InvalidPriceFeedPrice(m)) => format!("err {}", match m {
                    "mid_price" => "MidPrice", "min_price" => "MinPrice", "max_price" => "MaxPrice",
                    "exponent too small" => "ExponentTooSmall", "exponent too big" => "ExponentTooBig", "price overflow" => "PriceOverflow",
                    "converting to Decimal" => "Converting", _ => "Other" }),
            }
        }
        ("pyth", 6) => {
            let v: u64 = t[2].parse().ok()?; let e: i32 = t[3].parse().ok()?; let td: u8 = t[4].parse().ok()?; let q: u8 = t[5].parse().ok()?;
            let mut cfg: TokenConfig = bytemuck::Zeroable::zeroed();
            cfg.token_decimals = td; cfg.precision = q;
            match pyth_price_value_to_decimal(v, e, &cfg) {
                Ok(r) => format!("ok {} {}", r.value, r.decimal_multiplier),
                Err(gmsol_utils::oracle::OracleError::InvalidPriceFeedPrice(m)) => format!("err {}", match m {
                    "exponent too small" => "ExponentTooSmall", "exponent too big" => "ExponentTooBig", "price overflow" => "PriceOverflow",
                    "converting to Decimal" => "Converting", _ => "Other" }),
            }
        }
        _ => return None,
    })
}

fn exec(req: &str) -> String {
    let t: Vec<&str> = req.split(' ').collect();
    match std::panic::catch_unwind(|| exec_inner(&t)) { Ok(Some(s)) => s, Ok(None) => "bad-op".into(), Err(_) => "panic".into() }
}

fn parse_ok2(resp: &str) -> Option<(BigUint, u32)> {
    let r = resp.strip_prefix("ok ")?; let mut it = r.split(' ');
    Some((it.next()?.parse().ok()?, it.next()?.parse().ok()?))
}

/// The property in exact arithmetic, independent of the Lean model.
fn oracle(req: &str, resp: &str) -> Result<Option<&'static str>, String> {
    let t: Vec<&str> = req.split(' ').collect();
    let two32 = big(1u128 << 32);
    let two128 = BigUint::from(1u8) << 128usize;
    match t[1] {
        "from" => {
            let p: BigUint = t[2].parse().unwrap();
            let (d, td, q): (u32, u32, u32) = (t[3].parse().unwrap(), t[4].parse().unwrap(), t[5].parse().unwrap());
            if d > 20 || td > 20 || q > 20 || td + q > 20 {
                return if resp == "err ExceedMaxDecimals" { Ok(Some("exceed")) } else { Err(format!("unsupported decimals not rejected (got {resp})")) };
            }
            let exact = &p * p10(q) / p10(d);
            match parse_ok2(resp) {
                Some((v, m)) => {
                    if v >= two32 { return Err("value does not fit u32".into()); }
                    if m != 20 - td - q { return Err("wrong decimal multiplier".into()); }
                    // unit price = exact price truncated to the precision: never above, less than one step below
                    let unit = &v * p10(m);
                    let lhs = &unit * p10(d + td);
                    let mid = &p * p10(20);
                    if lhs > mid { return Err(format!("rounded UP: unit price {unit} exceeds the exact price")); }
                    if mid >= (&unit + p10(m)) * p10(d + td) { return Err(format!("truncated by a full precision step or more: unit price {unit}")); }
                    if v != exact { return Err("value is not the floor of the exact price".into()); }
                    Ok(Some(if &v * p10(d) == &p * p10(q) { "ok.exact" } else { "ok.truncated" }))
                }
                None => {
                    if !resp.starts_with("err") { return Err(format!("unexpected outcome {resp}")); }
                    if exact < two32 { return Err(format!("representable price rejected ({resp})")); }
                    Ok(Some("unrepresentable"))
                }
            }
        }
        "unit" => {
            let (v, m): (BigUint, u32) = (t[2].parse().unwrap(), t[3].parse().unwrap());
            let e = &v * p10(m);
            if m <= 20 { if resp != format!("ok {e}") { return Err("to_unit_price wrong or failed for a multiplier within the maximum".into()); } return Ok(Some("unit")); }
            if resp == "panic" || resp == format!("ok {e}") { Ok(Some("unit.beyond-max")) } else { Err("to_unit_price wrapped".into()) }
        }
        "with" => {
            let (m, price): (u32, BigUint) = (t[3].parse().unwrap(), t[4].parse().unwrap());
            if resp == "panic" { return if p10(m) >= two128 { Ok(Some("with.beyond-max")) } else { Err("panicked".into()) }; }
            let up = t[5] == "1";
            let mm = p10(m);
            let e = if up { (&price + &mm - 1u8) / &mm } else { &price / &mm };
            match parse_ok2(resp) {
                Some((v, m2)) => { if v != e || m2 != m { return Err("with_unit_price: wrong rounding".into()); }
                    let unit = &v * &mm; if (!up && unit > price) || (up && unit < price) { return Err("with_unit_price rounded the wrong way".into()); } Ok(Some("with.ok")) }
                None => if e >= two32 && resp == "none" { Ok(Some("with.none")) } else { Err("with_unit_price failed although representable".into()) },
            }
        }
        "finddiv" => {
            let n: BigUint = t[2].parse().unwrap();
            let i: u32 = resp.strip_prefix("ok ").and_then(|x| x.parse().ok()).ok_or("finddiv failed")?;
            if i > 20 || &n / p10(i) >= two128 { return Err("divisor decimals do not bring the number into u128".into()); }
            if i > 0 && &n / p10(i - 1) < &two128 - 1u8 { return Err("divisor decimals larger than needed".into()); }
            Ok(Some(if i > 0 && &n / p10(i - 1) < two128 { "finddiv.one-more-than-needed" } else { "finddiv" }))
        }
        "conv" => {
            let n: BigUint = t[2].parse().unwrap(); let d: u32 = t[3].parse().unwrap();
            if resp == "panic" { return Err("panicked".into()); }
            match parse_ok2(resp) {
                Some((v, d2)) => { if d2 > d || v >= two128 || v != &n / p10(d - d2) { return Err("converted value is not the floor quotient at the returned decimals".into()); } Ok(Some("conv.ok")) }
                None => { if &n / p10(d) < two128 && d >= 20 { return Err("None although enough decimals".into()); } Ok(Some("conv.none")) }
            }
        }
        "pythc" => {
            // exact: the bounds are price ∓ confidence; a NEGATIVE lower bound cannot be represented and must be an error (never clamped)
            use num_bigint::BigInt;
            let pr: BigInt = t[2].parse().unwrap(); let cf: BigInt = t[3].parse().unwrap(); let e: i64 = t[4].parse().unwrap();
            let (td, q): (u32, u32) = (t[5].parse().unwrap(), t[6].parse().unwrap());
            if resp == "panic" { return Err("pyth_price_with_confidence_to_price panicked".into()); }
            let lo = &pr - &cf; let hi = &pr + &cf;
            let neg = lo < BigInt::from(0u8);
            let r = resp.strip_prefix("ok ").map(|x| x.split(' ').map(|y| y.parse::<BigUint>().unwrap()).collect::<Vec<_>>());
            match r {
                Some(f) => {
                    if neg { return Err(format!("confidence exceeds the price (exact lower bound {lo} < 0) but a price was returned (min {})", f[0])); }
                    if td > 20 || q > 20 || td + q > 20 { return Err("pythc: unsupported decimals accepted".into()); }
                    let conv = |v: &BigInt| -> BigUint { let v = v.to_biguint().unwrap(); if e <= 0 { if -e > 60 { BigUint::from(0u8) } else { &v * p10(q) / p10((-e) as u32) } } else { &v * p10(e as u32) * p10(q) } };
                    if f[0] != conv(&lo) || f[2] != conv(&hi) { return Err("pythc: bounds are not the floors of the exact price ∓ confidence".into()); }
                    if f[0] > f[2] { return Err("pythc: min > max".into()); }
                    Ok(Some("pythc.ok"))
                }
                None => Ok(Some(if neg { "pythc.err.negative-lower-bound" } else { "pythc.err.other" })),
            }
        }
        "pyth" => {
            let v: BigUint = t[2].parse().unwrap(); let e: i64 = t[3].parse().unwrap(); let (td, q): (u32, u32) = (t[4].parse().unwrap(), t[5].parse().unwrap());
            if resp == "panic" { return Err("pyth_price_value_to_decimal panicked".into()); }
            if let Some((val, m)) = parse_ok2(resp) {
                if td > 20 || q > 20 || td + q > 20 || m != 20 - td - q { return Err("pyth: unsupported decimals accepted / wrong multiplier".into()); }
                let exact = if e <= 0 { if -e > 60 { BigUint::from(0u8) } else { &v * p10(q) / p10((-e) as u32) } } else { &v * p10(e as u32) * p10(q) };
                if val != exact || val >= two32 { return Err("pyth: value is not the floor of the exact price".into()); }
                Ok(Some("pyth.ok"))
            } else { Ok(Some("pyth.err")) }
        }
        _ => Ok(None),
    }
}

fn price_for(r: &mut Rng, d: u32, t: u32, q: u32) -> u128 {
    let p10u = |k: u32| 10u128.checked_pow(k).unwrap_or(u128::MAX);
    match r.below(16) {
        12..=15 => { // a price whose value lands inside u32, with random digits below the precision
            let v = (r.num(32) as u128).max(1);
            if d >= q { v.saturating_mul(p10u(d - q)).saturating_add(r.u128() % p10u(d - q)) } else { v / p10u(q - d) }
        }
        0 => r.below(3) as u128,
        1 => p10u(r.below(39) as u32),
        2 => p10u(r.below(39) as u32).saturating_add(1),
        3 => p10u(r.below(39) as u32) - 1,
        4 | 5 => { // where the value crosses u32::MAX: p ≈ 2^32 · 10^(d−q)
            let b = if d >= q { (1u128 << 32).saturating_mul(p10u(d - q)) } else { (1u128 << 32) / p10u(q - d) };
            match r.below(4) { 0 => b, 1 => b.saturating_sub(1), 2 => b.saturating_add(1), _ => b.saturating_sub(r.below(1000) as u128) }
        }
        6 => { // where the pre-multiplication by 10^(t−d) overflows u128
            if t > d { let b = u128::MAX / p10u(t - d); match r.below(3) { 0 => b, 1 => b + 1, _ => b - 1 } } else { u128::MAX - r.below(3) as u128 }
        }
        7 => u128::MAX - r.below(3) as u128,
        8 => { // realistic: a price with `d` decimals between 1e-6 and 1e6 dollars
            let whole = r.below(2_000_000) as u128; let frac = r.u128() % p10u(d.min(38)).max(1);
            (whole.saturating_mul(p10u(d.min(38))) / p10u(r.below(7) as u32).max(1)).saturating_add(frac)
        }
        _ => r.num(128),
    }
}

fn gen_req(r: &mut Rng, from_counter: &mut u64, offset: u64) -> String {
    match r.below(20) {
        0..=12 => {
            // every (decimals, token_decimals, precision) in 0..=21 is enumerated in turn
            let k = (*from_counter + offset) % (22 * 22 * 22); *from_counter += 1;
            let (d, t, q) = ((k / 484) as u32, ((k / 22) % 22) as u32, (k % 22) as u32);
            // two thirds of the unsupported settings are folded back into the supported range
            let (d, t, q) = if (d > 20 || t > 20 || q > 20 || t + q > 20) && r.chance(2, 3) { let t = t.min(20); (d.min(20), t, q % (21 - t)) } else { (d, t, q) };
            let (d, t, q) = if r.chance(1, 60) { (r.below(256) as u32, r.below(256) as u32, r.below(256) as u32) } else { (d, t, q) };
            format!("pdec from {} {d} {t} {q}", price_for(r, d.min(38), t.min(38), q.min(38)))
        }
        13 => format!("pdec unit {} {}", r.num(32), if r.chance(1, 10) { r.below(60) } else { r.below(21) }),
        14 | 15 => { let m = if r.chance(1, 12) { r.below(60) } else { r.below(21) }; let v = r.num(32);
            let price = match r.below(4) { 0 => (v as u128).saturating_mul(10u128.checked_pow(m as u32).unwrap_or(1)), 1 => ((1u128 << 32) - 1).saturating_mul(10u128.checked_pow(m as u32).unwrap_or(1)).saturating_add(r.below(3) as u128).saturating_sub(1), _ => r.num(128) };
            format!("pdec with {v} {m} {price} {}", r.below(2)) }
        16 | 17 => { // numbers around 10^i · 2^128 and 10^i · (2^128 − 1)
            let i = r.below(20) as u32; let two128 = BigUint::from(1u8) << 128usize; let lim = (BigUint::from(1u8) << 192usize) - 1u8;
            let base = match r.below(4) { 0 => p10(i) * &two128, 1 => p10(i) * (&two128 - 1u8), 2 => lim.clone(), _ => BigUint::from(r.u128()) * BigUint::from(r.num(64)) };
            let n = match r.below(4) { 0 => base.clone(), 1 => &base + 1u8, 2 => if base > BigUint::from(0u8) { &base - 1u8 } else { base.clone() }, _ => &base + BigUint::from(r.below(1000)) };
            let n = if n > lim { lim } else { n };
            if r.chance(1, 2) { format!("pdec finddiv {n}") } else { format!("pdec conv {n} {}", if r.chance(1, 2) { 18 + r.below(3) } else { r.below(40) }) } }
        18 => { // price / confidence pairs around the boundary conf = price
            let pr: i64 = match r.below(7) { 0 => 0, 1 => r.below(5) as i64, 2 => i64::MAX - r.below(3) as i64, 3 => -(r.below(5) as i64) - 1, 4 => (r.next() >> 1) as i64, _ => r.below(10_000_000_000_000) as i64 };
            let p = pr.max(0) as u64;
            let cf: u64 = match r.below(9) { 0 => p.saturating_sub(1), 1 => p, 2 => p.saturating_add(1), 3 => 0, 4 => u64::MAX - r.below(3), 5 => p / 1000, 6 => p.saturating_add(r.below(1000)), 7 => u64::MAX - p, _ => r.next() >> r.below(64) };
            let e: i64 = match r.below(6) { 0 => r.below(4) as i64, 1 => -(r.below(30) as i64), _ => -(r.below(12) as i64) };
            let t = r.below(19); let q = r.below(21u64.saturating_sub(t) + 1).min(20);
            format!("pdec pythc {pr} {cf} {e} {t} {q}") }
        _ => { let e: i64 = match r.below(8) { 0 => i32::MIN as i64, 1 => i32::MAX as i64, 2 => -(r.below(300) as i64), 3 => r.below(25) as i64, _ => -(r.below(19) as i64) };
            let t = r.below(22); let q = if r.chance(5, 6) { r.below(21u64.saturating_sub(t) + 1) } else { r.below(22) };
            format!("pdec pyth {} {e} {t} {q}", r.num(64)) }
    }
}

fn main() {
    let cli = cli();
    let mut out = Out::new();
    if std::env::var("VERIF_PANIC_TRACE").is_err() { std::panic::set_hook(Box::new(|_| {})); }
    let reqs: Vec<String> = if cli.mode == "replay" { read_requests(cli.file.as_deref().unwrap()) } else {
        let mut r = Rng::new(cli.seed);
        let mut c = 0u64; let off = cli.seed.wrapping_mul(5323);
        (0..cli.n).map(|_| gen_req(&mut r, &mut c, off)).collect()
    };
    for req in reqs {
        let resp = exec(&req);
        out.stat(&format!("op.{}", req.split(' ').nth(1).unwrap_or("?")));
        out.stat(&format!("resp.{}", if resp.starts_with("ok") { "ok".to_string() } else { resp.replace(' ', "") }));
        if resp != "bad-op" {
            match std::panic::catch_unwind(|| oracle(&req, &resp)) {
                Ok(Ok(Some(tag))) => { out.stat("oracle.checked"); out.stat(&format!("class.{tag}")); }
                Ok(Ok(None)) => out.stat("oracle.none"),
                Ok(Err(what)) => out.oracle_fail(&what, &req),
                Err(_) => out.oracle_fail("oracle panicked", &req),
            }
        }
        let nt = resp.starts_with("ok ") && !resp.starts_with("ok 0");
        out.case_nt(&req, &resp, nt);
    }
    out.finish();
}
