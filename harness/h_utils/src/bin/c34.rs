//! C34 correspondence + oracle: the REAL `gmsol_utils::fixed_map!` macro instantiated at several
//! capacities / key widths / key functions, driven by stateful histories.
#![allow(unexpected_cfgs)]
use hcommon::*;
use num_bigint::BigUint;
use std::collections::{BTreeMap, HashMap};

fn id32(k: &[u8; 32]) -> [u8; 32] { *k }
fn be8(k: &u64) -> [u8; 8] { k.to_be_bytes() }

gmsol_utils::fixed_map!(Map1, [u8; 32], id32, u64, 1, 4);
gmsol_utils::fixed_map!(Map4, [u8; 32], id32, u64, 4, 4);
gmsol_utils::fixed_map!(MapStr8, u64, 8, 4); // str keys through the default `to_key` (hash)
gmsol_utils::fixed_map!(Map32, [u8; 32], id32, u128, 32, 12); // shape of the repo's own test map
gmsol_utils::fixed_map!(Map64, 8, u64, be8, u32, 64, 0); // 8-byte keys

/// uniform view of one instantiation
trait M {
    fn cap(&self) -> usize;
    fn len_(&self) -> usize;
    fn insert_(&mut self, k: &BigUint, v: u128, new: bool) -> Option<Result<Option<u128>, String>>;
    fn remove_(&mut self, k: &BigUint) -> Option<Option<u128>>;
    fn get_(&self, k: &BigUint) -> Option<Option<u128>>;
    fn entry_(&self, i: usize) -> Option<(BigUint, u128)>;
    fn clear_(&mut self);
    fn entries_(&self) -> Vec<(BigUint, u128)>;
    fn tail_zero(&self) -> bool;
}

fn key32(k: &BigUint) -> Option<[u8; 32]> {
    let b = k.to_bytes_be();
    if b.len() > 32 { return None; }
    let mut out = [0u8; 32];
    out[32 - b.len()..].copy_from_slice(&b);
    Some(out)
}
fn key_u64(k: &BigUint) -> Option<u64> { u64::try_from(k).ok() }
thread_local! { static NAMES: std::cell::RefCell<HashMap<BigUint, String>> = std::cell::RefCell::new(HashMap::new()); }
fn str_key_num(name: &str) -> BigUint {
    let n = BigUint::from_bytes_be(&gmsol_utils::fixed_map::to_key(name));
    NAMES.with(|t| t.borrow_mut().insert(n.clone(), name.to_string()));
    n
}
fn key_str(k: &BigUint) -> Option<String> { NAMES.with(|t| t.borrow().get(k).cloned()) }
/// the str-key universe (`key0` … `key1023`); a request names a key by its hash
fn ensure_names() { for i in 0..1024 { str_key_num(&format!("key{i}")); } }

fn err_name(e: anchor_lang::error::Error) -> String {
    match e {
        anchor_lang::error::Error::AnchorError(a) => match a.error_name.as_str() {
            "AlreadyExist" => "AlreadyExist".into(),
            "ExceedMaxLengthLimit" => "Full".into(),
            o => format!("Other({o})"),
        },
        anchor_lang::error::Error::ProgramError(p) => format!("Other({})", p.program_error),
    }
}

macro_rules! impl_m {
    ($t:ident, $entry:ident, $cap:expr, $v:ty, $tok:expr, $k:ident => $keyref:expr) => {
        impl M for $t {
            fn cap(&self) -> usize { $cap }
            fn len_(&self) -> usize { self.len() }
            fn insert_(&mut self, k: &BigUint, v: u128, new: bool) -> Option<Result<Option<u128>, String>> {
                let $k = $tok(k)?; let v = <$v>::try_from(v).ok()?;
                Some(self.insert_with_options($keyref, v, new).map(|o| o.map(|x| x as u128)).map_err(err_name))
            }
            fn remove_(&mut self, k: &BigUint) -> Option<Option<u128>> { let $k = $tok(k)?; Some(self.remove($keyref).map(|x| x as u128)) }
            fn get_(&self, k: &BigUint) -> Option<Option<u128>> { let $k = $tok(k)?; Some(self.get($keyref).map(|x| *x as u128)) }
            fn entry_(&self, i: usize) -> Option<(BigUint, u128)> { self.get_entry_by_index(i).map(|(k, v)| (BigUint::from_bytes_be(k), *v as u128)) }
            fn clear_(&mut self) { self.clear() }
            fn entries_(&self) -> Vec<(BigUint, u128)> { self.entries().map(|(k, v)| (BigUint::from_bytes_be(k), *v as u128)).collect() }
            fn tail_zero(&self) -> bool {
                let es = std::mem::size_of::<$entry>();
                let b = bytemuck::bytes_of(self);
                b[self.len() * es..$cap * es].iter().all(|x| *x == 0)
            }
        }
    };
}
impl_m!(Map1, Map1Entry, 1, u64, key32, k => &k);
impl_m!(Map4, Map4Entry, 4, u64, key32, k => &k);
impl_m!(MapStr8, MapStr8Entry, 8, u64, key_str, k => k.as_str());
impl_m!(Map32, Map32Entry, 32, u128, key32, k => &k);
impl_m!(Map64, Map64Entry, 64, u32, key_u64, k => &k);

fn new_map(cap: usize) -> Option<Box<dyn M>> {
    Some(match cap {
        1 => Box::new(Map1::default()), 4 => Box::new(Map4::default()), 8 => Box::new(MapStr8::default()),
        32 => Box::new(Map32::default()), 64 => Box::new(Map64::default()), _ => return None,
    })
}

struct St { m: Box<dyn M>, reference: BTreeMap<BigUint, u128> }
struct World { sids: HashMap<String, St> }

fn ov(o: Option<u128>) -> String { match o { Some(v) => format!("ok some {v}"), None => "ok none".into() } }

impl World {
    /// run one request on the real code; `viol` collects property-oracle failures
    fn exec(&mut self, req: &str, viol: &mut Vec<String>) -> String {
        let t: Vec<&str> = req.split(' ').collect();
        if t.len() < 3 || t[0] != "map" { return "bad-op".into(); }
        if t[1] == "new" {
            if t.len() != 4 { return "bad-op".into(); }
            let Some(m) = t[3].parse::<usize>().ok().and_then(new_map) else { return "bad-op".into() };
            self.sids.insert(t[2].to_string(), St { m, reference: BTreeMap::new() });
            return "ok".into();
        }
        let Some(st) = self.sids.get_mut(t[2]) else { return "bad-op".into() };
        let nums: Option<Vec<BigUint>> = t[3..].iter().map(|s| if s.chars().all(|c| c.is_ascii_digit()) && !s.is_empty() { s.parse::<BigUint>().ok() } else { None }).collect();
        let Some(nums) = nums else { return "bad-op".into() };
        let cap = st.m.cap();
        let r = std::panic::catch_unwind(std::panic::AssertUnwindSafe(|| -> Option<String> {
            Some(match (t[1], nums.len()) {
                ("insert", 3) => {
                    let v = u128::try_from(&nums[1]).ok()?; let nw = u8::try_from(&nums[2]).ok()?; if nw > 1 { return None; }
                    let before = st.m.entries_();
                    let r = st.m.insert_(&nums[0], v, nw == 1)?;
                    // property: behaves like the ordinary map; full + new key fails unchanged
                    let had = st.reference.get(&nums[0]).copied();
                    let expect: Result<Option<u128>, String> = match had {
                        Some(old) => if nw == 1 { Err("AlreadyExist".into()) } else { Ok(Some(old)) },
                        None => if st.reference.len() >= cap { Err("Full".into()) } else { Ok(None) },
                    };
                    if r != expect { viol.push(format!("insert answered {r:?}, an ordinary map of capacity {cap} answers {expect:?}")); }
                    if expect.is_ok() { st.reference.insert(nums[0].clone(), v); }
                    else if st.m.entries_() != before { viol.push("failed insert changed the map".into()); }
                    match r { Ok(o) => format!("{} | n={}", ov(o), st.m.len_()), Err(e) => format!("err {e} | n={}", st.m.len_()) }
                }
                ("remove", 1) => {
                    let r = st.m.remove_(&nums[0])?;
                    let expect = st.reference.remove(&nums[0]);
                    if r != expect { viol.push(format!("remove answered {r:?}, an ordinary map answers {expect:?}")); }
                    format!("{} | n={}", ov(r), st.m.len_())
                }
                ("get", 1) => {
                    let r = st.m.get_(&nums[0])?;
                    let expect = st.reference.get(&nums[0]).copied();
                    if r != expect { viol.push(format!("get answered {r:?}, an ordinary map answers {expect:?}")); }
                    ov(r)
                }
                ("entry", 1) => {
                    let i = usize::try_from(&nums[0]).ok()?;
                    let r = st.m.entry_(i);
                    let expect = st.reference.iter().nth(i).map(|(k, v)| (k.clone(), *v));
                    if r != expect { viol.push("get_entry_by_index differs from the i-th entry of an ordinary sorted map".into()); }
                    match r { Some((k, v)) => format!("ok {k} {v}"), None => "ok none".into() }
                }
                ("clear", 0) => { st.m.clear_(); st.reference.clear(); format!("ok | n={}", st.m.len_()) }
                ("dump", 0) => {
                    let es = st.m.entries_();
                    format!("n={} {} z={}", st.m.len_(), es.iter().map(|(k, v)| format!("{k}:{v}")).collect::<Vec<_>>().join(" "), st.m.tail_zero() as u8)
                }
                _ => return None,
            })
        }));
        let resp = match r { Ok(Some(s)) => s, Ok(None) => return "bad-op".into(), Err(_) => { viol.push("panicked".into()); return "panic".into(); } };
        // after every operation: same contents and size as the ordinary map, sorted, zero tail
        let es = st.m.entries_();
        let refv: Vec<(BigUint, u128)> = st.reference.iter().map(|(k, v)| (k.clone(), *v)).collect();
        if es != refv || st.m.len_() != refv.len() { viol.push("contents differ from the ordinary map (or not sorted)".into()); }
        if !st.m.tail_zero() { viol.push("unused slots are not zeroed".into()); }
        resp
    }
}

/// key universe for one state: larger than the capacity, with adversarial structure
fn universe(r: &mut Rng, cap: usize) -> Vec<BigUint> {
    let n = cap * 2 + 3;
    let one = BigUint::from(1u8);
    match cap {
        8 => (0..n).map(|_| str_key_num(&format!("key{}", r.below(1024)))).collect(),
        64 => (0..n).map(|i| BigUint::from(match r.below(6) { 0 => i as u64, 1 => u64::MAX - i as u64, 2 => (i as u64) << 56, 3 => 1u64 << r.below(64), _ => r.next() })).collect(),
        _ => (0..n).map(|i| match r.below(7) {
            0 => BigUint::from(i as u64),                                   // differ in the last byte only
            1 => BigUint::from(i as u64) << 248usize,                       // differ in the first byte only
            2 => (&one << 256usize) - &one - BigUint::from(i as u64),       // top of the key space
            3 => &one << (r.below(256) as usize),
            4 => BigUint::from(r.below(4)),                                 // collisions within the universe, key 0 = default key
            _ => { let mut b = [0u8; 32]; for x in b.iter_mut() { *x = r.below(256) as u8; } BigUint::from_bytes_be(&b) }
        }).collect(),
    }
}

fn gen_history(r: &mut Rng, sid: &str, budget: usize, reqs: &mut Vec<String>) {
    let cap = *r.pick(&[1usize, 4, 4, 8, 32, 32, 64]);
    let uni = universe(r, cap);
    let vmax: u128 = match cap { 32 => u128::MAX, 64 => u32::MAX as u128, _ => u64::MAX as u128 };
    let val = |r: &mut Rng| -> u128 { match r.below(5) { 0 => 0, 1 => vmax, _ => r.u128() % (vmax / 2 + 1) + 1 } };
    reqs.push(format!("map new {sid} {cap}"));
    let mut present: Vec<BigUint> = Vec::new(); // generator's own view, only to pick relative arguments
    let steps = budget.min(7 * cap + 30);
    // distinct keys of the universe in generation order (the universe may contain repeats)
    let mut distinct: Vec<BigUint> = Vec::new();
    for k in &uni { if !distinct.contains(k) { distinct.push(k.clone()); } }
    let fill_target = if r.chance(5, 6) { cap } else { r.below(cap as u64 + 1) as usize };
    let mut near_full_ops = if fill_target == cap { cap / 2 + 6 } else { 0 };
    for _step in 0..steps {
        let full = present.len() >= cap;
        let pick_present = |r: &mut Rng, p: &Vec<BigUint>| p[r.below(p.len() as u64) as usize].clone();
        let fresh = |r: &mut Rng, p: &Vec<BigUint>| -> Option<BigUint> { let c: Vec<&BigUint> = distinct.iter().filter(|k| !p.contains(k)).collect(); if c.is_empty() { None } else { Some(c[r.below(c.len() as u64) as usize].clone()) } };
        let filling = present.len() < fill_target && near_full_ops > 0;
        let c = r.below(100);
        if filling && c < 85 {
            // phase A: fill with distinct keys in random order
            if let Some(k) = fresh(r, &present) { present.push(k.clone()); reqs.push(format!("map insert {sid} {k} {} {}", val(r), r.chance(1, 3) as u8)); continue; }
        }
        if full && near_full_ops > 0 {
            // phase B: operations on a FULL map
            near_full_ops -= 1;
            match r.below(10) {
                0..=2 => if let Some(k) = fresh(r, &present) { reqs.push(format!("map insert {sid} {k} {} {}", val(r), r.below(2))); continue; }   // must fail, unchanged
                3 | 4 => { let k = pick_present(r, &present); reqs.push(format!("map insert {sid} {k} {} 0", val(r))); continue; }                   // replace at full
                5..=7 => { let k = pick_present(r, &present); present.retain(|x| x != &k); reqs.push(format!("map remove {sid} {k}")); continue; }   // the 0.10.0 removal
                8 => { reqs.push(format!("map dump {sid}")); continue; }
                _ => {}
            }
        }
        if c < 30 {
            // insert: fresh key (fails when full), existing key (replace), `new` flag
            let k = if !present.is_empty() && r.chance(1, 4) { pick_present(r, &present) } else { r.pick(&uni).clone() };
            let nw = r.chance(1, 5);
            let exists = present.contains(&k);
            if !exists && !full { present.push(k.clone()); }
            reqs.push(format!("map insert {sid} {k} {} {}", val(r), nw as u8));
        } else if c < 50 {
            let k = if !present.is_empty() && r.chance(3, 4) { pick_present(r, &present) } else { r.pick(&uni).clone() };
            present.retain(|x| x != &k);
            reqs.push(format!("map remove {sid} {k}"));
        } else if c < 72 {
            let k = if !present.is_empty() && r.chance(1, 2) { pick_present(r, &present) } else { r.pick(&uni).clone() };
            reqs.push(format!("map get {sid} {k}"));
        } else if c < 80 {
            reqs.push(format!("map entry {sid} {}", r.below(cap as u64 + 2)));
        } else if c < 82 {
            present.clear();
            if r.chance(1, 2) { near_full_ops = cap / 2 + 6; }
            reqs.push(format!("map clear {sid}"));
        } else {
            reqs.push(format!("map dump {sid}"));
        }
    }
    reqs.push(format!("map dump {sid}"));
}

fn main() {
    let cli = cli();
    let mut out = Out::new();
    std::panic::set_hook(Box::new(|_| {}));
    ensure_names();
    let reqs: Vec<String> = if cli.mode == "replay" { read_requests(cli.file.as_deref().unwrap()) } else {
        let mut r = Rng::new(cli.seed);
        let mut v = Vec::new();
        let mut i = 0;
        while (v.len() as u64) < cli.n { let left = cli.n as usize - v.len(); gen_history(&mut r, &format!("s{}x{i}", cli.seed), left, &mut v); i += 1; }
        v
    };
    let mut w = World { sids: HashMap::new() };
    for req in reqs {
        let mut viol = Vec::new();
        let op = req.split(' ').nth(1).unwrap_or("?").to_string();
        if let Some(st) = w.sids.get(req.split(' ').nth(2).unwrap_or("")) {
            if st.m.len_() == st.m.cap() { out.stat(&format!("at_full.{op}")); }
        }
        let resp = w.exec(&req, &mut viol);
        out.stat(&format!("op.{op}"));
        let class = if resp.starts_with("err Full") { "resp.errFull" } else if resp.starts_with("err AlreadyExist") { "resp.errAlreadyExist" }
            else if resp.starts_with("ok some") { "resp.some" } else if resp.starts_with("ok none") { "resp.none" } else if resp == "panic" { "resp.panic" }
            else if resp == "bad-op" { "resp.bad-op" } else { "resp.other" };
        out.stat(class);
        if let Some(st) = w.sids.get(req.split(' ').nth(2).unwrap_or("")) {
            if op == "new" { out.stat(&format!("cap.{}", st.m.cap())); }
        }
        for v in viol { out.oracle_fail(&v, &req); }
        let nt = (op == "insert" && resp.starts_with("ok")) || resp.starts_with("ok some") || (op == "entry" && resp != "ok none");
        out.case_nt(&req, &resp, nt);
    }
    out.finish();
}
